//! C19: serde and rayon bulk paths against sequential insertion / std collections.
use crate::types::SplitMix64;
use flurry::{HashMap, HashSet};
use rayon::prelude::*;
use std::collections::{BTreeMap, BTreeSet};
use std::panic::{catch_unwind, AssertUnwindSafe};

pub struct BulkResult {
    pub failures: Vec<String>,
    pub roundtrips: u64,
    pub documents: u64,
    pub docs_with_repeats: u64,
    pub docs_malformed: u64,
    pub par_runs: u64,
    pub samples: Vec<String>,
}

const KEYS: [&str; 6] = ["a", "b", "c", "d", "key with space", ""];

fn gen_doc(rng: &mut SplitMix64) -> (String, bool, bool) {
    // returns (document, well_formed_map_of_u32, has_repeats)
    let n = rng.below(7);
    let mut parts = Vec::new();
    let mut seen = BTreeSet::new();
    let mut repeats = false;
    let mut well = true;
    for _ in 0..n {
        let k = KEYS[rng.below(4) as usize];
        if !seen.insert(k) {
            repeats = true;
        }
        let v = match rng.below(40) {
            0 => {
                well = false;
                "\"x\"".to_string()
            }
            1 => {
                well = false;
                "null".to_string()
            }
            2 => {
                well = false;
                "-1".to_string()
            }
            3 => {
                well = false;
                "[1]".to_string()
            }
            _ => rng.below(100).to_string(),
        };
        parts.push(format!("{:?}:{}", k, v));
    }
    let mut doc = format!("{{{}}}", parts.join(","));
    if rng.chance(1, 10) && doc.len() > 2 {
        let cut = 1 + rng.below(doc.len() as u64 - 1) as usize;
        doc.truncate(cut);
        well = false;
    }
    (doc, well, repeats)
}

/// serde round trips and rayon collects over maps / sets whose keys crowd into few bins (tree bins,
/// bins split by resizes): the serialised / collected contents must be those of sequential insertion
fn crowded<S>(name: &str, rng: &mut SplitMix64, r: &mut BulkResult)
where
    S: std::hash::BuildHasher + Default + Clone + Send + Sync + 'static,
{
    let n = 9 + rng.below(40);
    let presize = [0usize, 48, 200][rng.below(3) as usize];
    let items: Vec<(u32, u32)> = (0..n).map(|j| (rng.below(70) as u32, j as u32)).collect();
    let reference: BTreeMap<u32, u32> = items.iter().cloned().collect();
    let refset: BTreeSet<u32> = reference.keys().cloned().collect();
    let items2 = items.clone();
    let res = catch_unwind(AssertUnwindSafe(move || {
        let items = items2;
        let map: HashMap<u32, u32, S> = HashMap::with_capacity_and_hasher(presize, S::default());
        let set: HashSet<u32, S> = HashSet::with_capacity_and_hasher(presize, S::default());
        for (k, v) in &items {
            map.pin().insert(*k, *v);
            set.pin().insert(*k);
        }
        let s1 = serde_json::to_string(&map).map_err(|e| e.to_string())?;
        let s2 = serde_json::to_string(&map.pin()).map_err(|e| e.to_string())?;
        let std_back: BTreeMap<String, u32> = serde_json::from_str(&s1).map_err(|e| e.to_string())?;
        let std_back2: BTreeMap<String, u32> = serde_json::from_str(&s2).map_err(|e| e.to_string())?;
        let want: BTreeMap<String, u32> = reference.iter().map(|(k, v)| (k.to_string(), *v)).collect();
        if std_back != want || std_back2 != want {
            return Err(format!("serialised map does not hold the map's contents ({} of {} entries): {}", std_back.len(), want.len(), s1));
        }
        let back: HashMap<u32, u32, S> = serde_json::from_str(&s1).map_err(|e| e.to_string())?;
        let g = back.guard();
        let got: BTreeMap<u32, u32> = back.iter(&g).map(|(k, v)| (*k, *v)).collect();
        if got != reference || back.len() != reference.len() || reference.iter().any(|(k, v)| back.get(k, &g) != Some(v)) {
            return Err(format!("map round trip is not equal to the original: {}", s1));
        }
        let t1 = serde_json::to_string(&set).map_err(|e| e.to_string())?;
        let t2 = serde_json::to_string(&set.pin()).map_err(|e| e.to_string())?;
        let std_s: BTreeSet<u32> = serde_json::from_str(&t1).map_err(|e| e.to_string())?;
        let std_s2: BTreeSet<u32> = serde_json::from_str(&t2).map_err(|e| e.to_string())?;
        if std_s != refset || std_s2 != refset {
            return Err(format!("serialised set does not hold the set's elements ({} of {}): {}", std_s.len(), refset.len(), t1));
        }
        let sback: HashSet<u32, S> = serde_json::from_str(&t1).map_err(|e| e.to_string())?;
        let gs = sback.guard();
        if sback.iter(&gs).cloned().collect::<BTreeSet<u32>>() != refset || refset.iter().any(|k| !sback.contains(k, &gs)) {
            return Err(format!("set round trip differs: {}", t1));
        }
        // rayon over the same items
        let collected: HashMap<u32, u32, S> = items.clone().into_par_iter().collect();
        let mut extended: HashMap<u32, u32, S> = HashMap::with_capacity_and_hasher(presize, S::default());
        extended.par_extend(items.clone().into_par_iter());
        let cset: HashSet<u32, S> = items.iter().map(|x| x.0).collect::<Vec<_>>().into_par_iter().collect();
        for (what, m) in [("from_par_iter", &collected), ("par_extend", &extended)] {
            let g = m.guard();
            let keys: BTreeSet<u32> = m.iter(&g).map(|(k, _)| *k).collect();
            if keys != refset || m.len() != refset.len() || refset.iter().any(|k| !m.contains_key(k, &g)) {
                return Err(format!("{}: key set differs from sequential insertion ({} of {} keys)", what, keys.len(), refset.len()));
            }
            for (k, v) in m.iter(&g) {
                if !items.iter().any(|x| x.0 == *k && x.1 == *v) {
                    return Err(format!("{}: key {} maps to {}, which the iterator never supplied for it", what, k, v));
                }
            }
        }
        let gc = cset.guard();
        if cset.iter(&gc).cloned().collect::<BTreeSet<u32>>() != refset {
            return Err("set from_par_iter: element set differs".to_string());
        }
        Ok::<(), String>(())
    }));
    r.roundtrips += 1;
    r.par_runs += 1;
    match res {
        Ok(Ok(())) => {}
        Ok(Err(e)) => r.failures.push(format!("crowded bins (hasher {}, capacity {}, {} items): {}", name, presize, n, e)),
        Err(_) => r.failures.push(format!("crowded bins (hasher {}, capacity {}, {} items): panic", name, presize, n)),
    }
}

pub fn run(seed: u64, n_docs: u64, n_maps: u64, n_par: u64) -> BulkResult {
    let mut r = BulkResult {
        failures: vec![],
        roundtrips: 0,
        documents: 0,
        docs_with_repeats: 0,
        docs_malformed: 0,
        par_runs: 0,
        samples: vec![],
    };
    let mut rng = SplitMix64(seed ^ 0xB01C);
    // 1. round trips
    for i in 0..n_maps {
        let n = rng.below(60);
        let mut reference = BTreeMap::new();
        let map: HashMap<String, u32> = HashMap::new();
        let set: HashSet<u32> = HashSet::new();
        let mut refset = BTreeSet::new();
        for _ in 0..n {
            let k = format!("k{}", rng.below(40));
            let v = rng.below(1000) as u32;
            map.pin().insert(k.clone(), v);
            reference.insert(k, v);
            let e = rng.below(50) as u32;
            set.pin().insert(e);
            refset.insert(e);
        }
        let res = catch_unwind(AssertUnwindSafe(|| {
            let s1 = serde_json::to_string(&map).map_err(|e| e.to_string())?;
            let s2 = serde_json::to_string(&map.pin()).map_err(|e| e.to_string())?;
            let back: HashMap<String, u32> = serde_json::from_str(&s1).map_err(|e| e.to_string())?;
            let back2: HashMap<String, u32> = serde_json::from_str(&s2).map_err(|e| e.to_string())?;
            let std_back: BTreeMap<String, u32> = serde_json::from_str(&s1).map_err(|e| e.to_string())?;
            if back != map || back2 != map {
                return Err(format!("map round trip is not equal to the original: {}", s1));
            }
            if std_back != reference {
                return Err(format!("serialised map does not hold the map's contents: {}", s1));
            }
            let t1 = serde_json::to_string(&set).map_err(|e| e.to_string())?;
            let t2 = serde_json::to_string(&set.pin()).map_err(|e| e.to_string())?;
            let sback: HashSet<u32> = serde_json::from_str(&t1).map_err(|e| e.to_string())?;
            let sback2: HashSet<u32> = serde_json::from_str(&t2).map_err(|e| e.to_string())?;
            let std_sback: BTreeSet<u32> = serde_json::from_str(&t1).map_err(|e| e.to_string())?;
            if sback != set || sback2 != set || std_sback != refset {
                return Err(format!("set round trip differs: {}", t1));
            }
            Ok::<(), String>(())
        }));
        r.roundtrips += 1;
        match res {
            Ok(Ok(())) => {}
            Ok(Err(e)) => r.failures.push(format!("roundtrip #{}: {}", i, e)),
            Err(_) => r.failures.push(format!("roundtrip #{}: panic", i)),
        }
    }
    // 1b. other entry types: zero-sized, nested, wide - the same documents through std must give
    // the same contents, and nothing may panic
    {
        type Unit = std::marker::PhantomData<u8>;
        macro_rules! same_as_std {
            ($name:expr, $doc:expr, $fl:ty, $st:ty, $cmp:expr) => {{
                r.roundtrips += 1;
                let doc: &str = $doc;
                let res = catch_unwind(AssertUnwindSafe(|| {
                    let a: Result<$fl, _> = serde_json::from_str(doc);
                    let b: Result<$st, _> = serde_json::from_str(doc);
                    match (a, b) {
                        (Ok(a), Ok(b)) => {
                            let f: fn(&$fl, &$st) -> bool = $cmp;
                            if f(&a, &b) { Ok(()) } else { Err(format!("{}: contents differ from std for {}", $name, doc)) }
                        }
                        (Err(_), Err(_)) => Ok(()),
                        (Ok(_), Err(e)) => Err(format!("{}: accepted {} which std rejects ({})", $name, doc, e)),
                        (Err(e), Ok(_)) => Err(format!("{}: rejected {} which std accepts ({})", $name, doc, e)),
                    }
                }));
                match res {
                    Ok(Ok(())) => {}
                    Ok(Err(e)) => r.failures.push(e),
                    Err(_) => r.failures.push(format!("{}: deserialising {} panicked", $name, doc)),
                }
            }};
        }
        for doc in ["[]", "[null]", "[null,null,null]"] {
            same_as_std!("HashSet<()>", doc, HashSet<()>, BTreeSet<()>, |a, b| a.len() == b.len());
            same_as_std!("HashSet<Unit>", doc, HashSet<Unit>, BTreeSet<Unit>, |a, b| a.len() == b.len());
        }
        for doc in ["{}", "{\"a\":null}", "{\"a\":null,\"b\":null,\"a\":null}"] {
            same_as_std!("HashMap<String,()>", doc, HashMap<String, ()>, BTreeMap<String, ()>, |a, b| a.len() == b.len());
        }
        for doc in ["[[1,2],[3,4],[1,2]]", "[]", "[[],[0]]"] {
            same_as_std!("HashSet<Vec<u8>>", doc, HashSet<Vec<u8>>, BTreeSet<Vec<u8>>, |a, b| {
                let g = a.guard();
                a.len() == b.len() && b.iter().all(|x| a.contains(x, &g))
            });
        }
        for doc in ["{\"a\":[1,2,3,4,5,6,7,8],\"b\":[0,0,0,0,0,0,0,0]}", "{}"] {
            same_as_std!("HashMap<String,[u64;8]>", doc, HashMap<String, [u64; 8]>, BTreeMap<String, [u64; 8]>, |a, b| {
                let g = a.guard();
                a.len() == b.len() && b.iter().all(|(k, v)| a.get(k, &g) == Some(v))
            });
        }
    }
    // 1c. the same round trips and parallel collects with keys that crowd into few bins (tree
    // bins at 64 and more bins, split again by later resizes)
    for _ in 0..(n_maps / 4).max(6) {
        use crate::types::{ModeBuild, H_HIGH, H_HIGHONES, H_ONES, H_SAMEBIN, H_ZERO};
        crowded::<ModeBuild<H_ZERO>>("zero", &mut rng, &mut r);
        crowded::<ModeBuild<H_SAMEBIN>>("samebin", &mut rng, &mut r);
        crowded::<ModeBuild<H_HIGH>>("highbit", &mut rng, &mut r);
        crowded::<ModeBuild<H_ONES>>("ones", &mut rng, &mut r);
        crowded::<ModeBuild<H_HIGHONES>>("highones", &mut rng, &mut r);
    }
    if r.samples.len() < 8 {
        r.samples.push("crowded-bin round trips and parallel collects (hashers zero / samebin / highbit / ones / highones, capacities 0 / 48 / 200)".into());
    }
    // 2. generated documents
    for _ in 0..n_docs {
        let (doc, well, repeats) = gen_doc(&mut rng);
        r.documents += 1;
        if repeats {
            r.docs_with_repeats += 1;
        }
        if !well {
            r.docs_malformed += 1;
        }
        if r.samples.len() < 3 && repeats && well {
            r.samples.push(doc.clone());
        }
        let res = catch_unwind(AssertUnwindSafe(|| serde_json::from_str::<HashMap<String, u32>>(&doc)));
        let reference: Result<BTreeMap<String, u32>, _> = serde_json::from_str(&doc);
        match res {
            Err(_) => r.failures.push(format!("deserialising {} panicked", doc)),
            Ok(Ok(m)) => match &reference {
                Ok(want) => {
                    let g = m.guard();
                    let got: BTreeMap<String, u32> = m.iter(&g).map(|(k, v)| (k.clone(), *v)).collect();
                    if &got != want {
                        r.failures.push(format!("deserialising {} gave {:?}, std gives {:?}", doc, got, want));
                    }
                }
                Err(_) => r.failures.push(format!("deserialising {} succeeded but std rejects it", doc)),
            },
            Ok(Err(_)) => {
                if reference.is_ok() {
                    r.failures.push(format!("deserialising the well-formed document {} failed", doc));
                }
            }
        }
        // the same entries as a set document
        let sdoc = doc.replace('{', "[").replace('}', "]").replace("\":", "\",");
        let sres = catch_unwind(AssertUnwindSafe(|| serde_json::from_str::<HashSet<String>>(&sdoc)));
        if sres.is_err() {
            r.failures.push(format!("deserialising the set document {} panicked", sdoc));
        }
    }
    // arrays with duplicates for sets of numbers
    for _ in 0..n_docs / 4 {
        let n = rng.below(8);
        let items: Vec<u32> = (0..n).map(|_| rng.below(4) as u32).collect();
        let doc = format!("[{}]", items.iter().map(|x| x.to_string()).collect::<Vec<_>>().join(","));
        r.documents += 1;
        match catch_unwind(AssertUnwindSafe(|| serde_json::from_str::<HashSet<u32>>(&doc))) {
            Err(_) => r.failures.push(format!("deserialising {} panicked", doc)),
            Ok(Err(e)) => r.failures.push(format!("deserialising {} failed: {}", doc, e)),
            Ok(Ok(s)) => {
                let g = s.guard();
                let got: BTreeSet<u32> = s.iter(&g).cloned().collect();
                let want: BTreeSet<u32> = items.iter().cloned().collect();
                if got != want {
                    r.failures.push(format!("deserialising {} gave {:?}", doc, got));
                }
            }
        }
    }
    // 3a. rayon: many small collects into never-allocated maps on a full pool: the workers' very
    // first inserts race on the lazy allocation of the table
    {
        let pool = rayon::ThreadPoolBuilder::new().num_threads(8).build().unwrap();
        let trials = 150 * n_par.max(1);
        let mut bad = 0u64;
        for t in 0..trials {
            let n = 8 + (t % 17) as u32;
            let items: Vec<(u32, u32)> = (0..n).map(|j| (j * 7 + (t as u32 % 5), j)).collect();
            let res = catch_unwind(AssertUnwindSafe(|| {
                pool.install(|| {
                    let m: HashMap<u32, u32> = items.clone().into_par_iter().collect();
                    let s: HashSet<u32> = items.iter().map(|x| x.0).collect::<Vec<_>>().into_par_iter().collect();
                    (m, s)
                })
            }));
            r.par_runs += 1;
            match res {
                Err(_) => {
                    bad += 1;
                    if bad <= 2 {
                        r.failures.push(format!("from_par_iter of {} items on 8 threads panicked (trial {})", n, t));
                    }
                }
                Ok((m, s)) => {
                    let g = m.guard();
                    let missing: Vec<u32> = items.iter().map(|x| x.0).filter(|k| m.get(k, &g).is_none()).collect();
                    let sg = s.guard();
                    let smissing = items.iter().filter(|x| !s.contains(&x.0, &sg)).count();
                    if !missing.is_empty() || m.len() != items.len() || smissing > 0 || s.len() != items.len() {
                        bad += 1;
                        if bad <= 2 {
                            r.failures.push(format!(
                                "from_par_iter of {} distinct keys on 8 threads: keys {:?} are missing from the map (len() = {}), {} from the set (len() = {}) (trial {})",
                                n, missing, m.len(), smissing, s.len(), t
                            ));
                        }
                    }
                }
            }
        }
    }
    // 3. rayon
    for i in 0..n_par {
        let threads = [1usize, 2, 4, 8][(i % 4) as usize];
        let pool = rayon::ThreadPoolBuilder::new().num_threads(threads).build().unwrap();
        let n = rng.below(400);
        let items: Vec<(u32, u32)> = (0..n).map(|j| (rng.below(60) as u32, j as u32)).collect();
        let mut supplied: BTreeMap<u32, BTreeSet<u32>> = BTreeMap::new();
        for (k, v) in &items {
            supplied.entry(*k).or_default().insert(*v);
        }
        // entries already present: some under keys the iterator also supplies (those must be
        // replaced, as by sequential insertion), some under other keys (those must stay)
        let old: Vec<(u32, u32)> = (0..rng.below(20)).map(|j| (if j % 2 == 0 { 100 + j as u32 } else { rng.below(60) as u32 }, 1_000_000 + j as u32)).collect();
        r.par_runs += 1;
        let res = catch_unwind(AssertUnwindSafe(|| {
            pool.install(|| {
                let collected: HashMap<u32, u32> = items.clone().into_par_iter().collect();
                let mut extended: HashMap<u32, u32> = HashMap::new();
                for (k, v) in &old {
                    extended.pin().insert(*k, *v);
                }
                extended.par_extend(items.clone().into_par_iter());
                // owned targets that are empty but already allocated: presized, and emptied again
                let mut presized: HashMap<u32, u32> = HashMap::with_capacity(1 + (items.len() % 50));
                presized.par_extend(items.clone().into_par_iter());
                let mut emptied: HashMap<u32, u32> = HashMap::new();
                emptied.pin().insert(7, 7);
                emptied.pin().remove(&7);
                emptied.par_extend(items.clone().into_par_iter());
                let mut cleared: HashMap<u32, u32> = HashMap::new();
                for (k, v) in &old {
                    cleared.pin().insert(*k, *v);
                }
                cleared.pin().clear();
                cleared.par_extend(items.clone().into_par_iter());
                let mut pset: HashSet<u32> = HashSet::with_capacity(9);
                pset.par_extend(items.iter().map(|x| x.0).collect::<Vec<_>>().into_par_iter());
                let by_ref: HashMap<u32, u32> = HashMap::new();
                (&by_ref).par_extend(items.clone().into_par_iter());
                by_ref.pin().par_extend(items.clone().into_par_iter());
                let cset: HashSet<u32> = items.iter().map(|x| x.0).collect::<Vec<_>>().into_par_iter().collect();
                let mut eset: HashSet<u32> = HashSet::new();
                eset.par_extend(items.iter().map(|x| x.0).collect::<Vec<_>>().into_par_iter());
                (collected, extended, by_ref, cset, eset, presized, emptied, cleared, pset)
            })
        }));
        match res {
            Err(_) => r.failures.push(format!("parallel collect/extend panicked (threads {})", threads)),
            Ok((collected, extended, by_ref, cset, eset, presized, emptied, cleared, pset)) => {
                let check = |name: &str, m: &HashMap<u32, u32>, extra: &[(u32, u32)], fails: &mut Vec<String>| {
                    let g = m.guard();
                    let got: BTreeMap<u32, u32> = m.iter(&g).map(|(k, v)| (*k, *v)).collect();
                    let mut want_keys: BTreeSet<u32> = supplied.keys().cloned().collect();
                    want_keys.extend(extra.iter().map(|x| x.0));
                    if got.keys().cloned().collect::<BTreeSet<_>>() != want_keys {
                        fails.push(format!("{} (threads {}): key set differs from sequential insertion", name, threads));
                    }
                    for (k, v) in &got {
                        let ok = match supplied.get(k) {
                            Some(s) => s.contains(v),
                            None => extra.iter().rev().find(|x| x.0 == *k).map(|x| x.1 == *v).unwrap_or(false),
                        };
                        if !ok {
                            fails.push(format!("{} (threads {}): key {} maps to {}, which the iterator never supplied for it (entries present before: {:?})", name, threads, k, v, extra.iter().filter(|x| x.0 == *k).collect::<Vec<_>>()));
                        }
                    }
                    if m.len() != got.len() {
                        fails.push(format!("{} (threads {}): len() {} != {} entries", name, threads, m.len(), got.len()));
                    }
                };
                check("from_par_iter", &collected, &[], &mut r.failures);
                check("par_extend", &extended, &old, &mut r.failures);
                check("par_extend(&map / pin)", &by_ref, &[], &mut r.failures);
                check("par_extend onto a presized empty map", &presized, &[], &mut r.failures);
                check("par_extend onto a map emptied by remove", &emptied, &[], &mut r.failures);
                check("par_extend onto a cleared map", &cleared, &[], &mut r.failures);
                for (name, s) in [("set from_par_iter", &cset), ("set par_extend", &eset), ("set par_extend onto a presized set", &pset)] {
                    let g = s.guard();
                    let got: BTreeSet<u32> = s.iter(&g).cloned().collect();
                    if got != supplied.keys().cloned().collect::<BTreeSet<_>>() {
                        r.failures.push(format!("{} (threads {}): element set differs", name, threads));
                    }
                }
            }
        }
    }
    r
}
