//! Sequential correspondence: generated operation sequences are run on the real map; after
//! every operation the inspector dump is taken. The same run is (a) compared with
//! std::collections (model-free finder), (b) checked for structural defects, drop-ledger and
//! memory violations, and (c) printed as a Coq case file in which each step of the Coq model is
//! applied to the implementation's pre-state and compared with its post-state.
#![allow(dead_code)]

use crate::dump::{canon, dump_coq, CDump};
use crate::hooks;
use crate::types::*;
use flurry::HashMap;
use std::collections::BTreeMap;
use std::hash::BuildHasher;
use std::panic::{catch_unwind, AssertUnwindSafe};

#[derive(Clone, Debug)]
pub enum Op {
    Insert(u32, i64),
    TryInsert(u32, i64),
    Get(u32),
    GetKeyValue(u32),
    ContainsKey(u32),
    Remove(u32),
    RemoveEntry(u32),
    Compute(u32, u32),
    Retain(u32),
    RetainForce(u32),
    Clear,
    Reserve(u64),
    Extend(u64, Vec<(u32, i64)>),
    Len,
    IsEmpty,
    Iter,
    Clone,
    /// collect a fresh map from items with the given lower size hint (stands alone)
    Collect(u64, Vec<(u32, i64)>),
}

#[derive(Clone, Debug)]
pub struct Case {
    pub id: u64,
    pub hasher: u8,
    pub cap: u64,
    pub universe: u32,
    pub pin: bool,
    pub batch: usize,
    pub ops: Vec<Op>,
}

pub fn remap(f: u32, k: u32, v: i64) -> Option<i64> {
    match f {
        0 => None,
        1 => Some(v + 1),
        2 => Some(k as i64 * 1000 + v),
        _ => {
            if v % 2 == 0 {
                None
            } else {
                Some(2 * v + 1)
            }
        }
    }
}
pub fn keep(p: u32, k: u32, v: i64) -> bool {
    match p {
        0 => false,
        1 => true,
        2 => k % 2 == 0,
        3 => v % 2 != 0,
        _ => k % 3 != 0,
    }
}

/* ---------------- generation ---------------- */

/// tree-bin flavoured cases: colliding keys in a table of at least 64 bins, adversarial orders
pub fn gen_tree_case(rng: &mut SplitMix64, id: u64) -> Case {
    let hasher = match rng.below(8) {
        0 | 1 => H_ZERO,
        2 => H_SAMEBIN,
        3 => H_HIGH,
        4 | 5 => H_ONES,
        _ => H_HIGHONES,
    };
    let universe = 10 + rng.below(50) as u32;
    let cap = if rng.chance(3, 4) { 64 + rng.below(70) } else { rng.below(64) };
    let mut ops = Vec::new();
    let mut val = 1i64;
    let rounds = 1 + rng.below(3);
    for _ in 0..rounds {
        // a fill in ascending / descending / zig-zag / random order
        let n = 8 + rng.below((universe - 8) as u64 + 1) as u32;
        let order: Vec<u32> = match rng.below(4) {
            0 => (0..n).collect(),
            1 => (0..n).rev().collect(),
            2 => (0..n).map(|i| if i % 2 == 0 { i / 2 } else { n - 1 - i / 2 }).collect(),
            _ => {
                let mut v: Vec<u32> = (0..n).collect();
                for i in (1..v.len()).rev() {
                    let j = rng.below(i as u64 + 1) as usize;
                    v.swap(i, j);
                }
                v
            }
        };
        for k in &order {
            val += 1;
            ops.push(if rng.chance(1, 8) { Op::TryInsert(*k, val) } else { Op::Insert(*k, val) });
            if rng.chance(1, 10) {
                ops.push(Op::Get(rng.below(universe as u64) as u32));
            }
        }
        if rng.chance(1, 3) {
            ops.push(Op::Iter);
        }
        // a drain in some order, possibly partial
        let m = rng.below(n as u64 + 1) as u32;
        let mut drain: Vec<u32> = (0..n).collect();
        match rng.below(3) {
            0 => {}
            1 => drain.reverse(),
            _ => {
                for i in (1..drain.len()).rev() {
                    let j = rng.below(i as u64 + 1) as usize;
                    drain.swap(i, j);
                }
            }
        }
        // half of the drains use one kind of removal throughout, so that every kind gets to be the
        // one that shrinks the tree bin back to a list
        let uniform = if rng.chance(1, 2) { Some(rng.below(3)) } else { None };
        for k in drain.iter().take(m as usize) {
            ops.push(match uniform {
                Some(0) => Op::Compute(*k, 0),
                Some(1) => Op::RemoveEntry(*k),
                Some(_) => Op::Remove(*k),
                None => match rng.below(8) {
                    0 => Op::RemoveEntry(*k),
                    1 => Op::Compute(*k, 0),
                    2 => Op::Compute(*k, 1),
                    _ => Op::Remove(*k),
                },
            });
        }
        match rng.below(6) {
            0 => ops.push(Op::Retain(2 + rng.below(3) as u32)),
            1 => ops.push(Op::Clone),
            2 => ops.push(Op::Reserve(rng.below(300))),
            3 => ops.push(Op::Clear),
            _ => {}
        }
    }
    Case {
        id,
        hasher,
        cap,
        universe,
        pin: rng.chance(1, 2),
        batch: [1, 2, 8, 0][rng.below(4) as usize],
        ops,
    }
}

pub fn gen_case(rng: &mut SplitMix64, id: u64, long: bool) -> Case {
    let hasher = match rng.below(20) {
        0..=3 => H_IDENTITY,
        4..=6 => H_ZERO,
        7..=8 => H_HIGH,
        9..=11 => H_SAMEBIN,
        12..=13 => H_MIX,
        14..=15 => H_AHASH,
        16..=17 => H_ONES,
        _ => H_HIGHONES,
    };
    let cap = match rng.below(10) {
        0 => 0,
        1..=6 => rng.below(71),
        7 => 1,
        8 => 64 + rng.below(64),
        _ => rng.below(400),
    };
    let universe = match rng.below(4) {
        0 => 6 + rng.below(6) as u32,
        1 => 12 + rng.below(12) as u32,
        2 => 20 + rng.below(21) as u32,
        _ => 14 + rng.below(60) as u32,
    };
    let n_ops = if long { 40 + rng.below(160) } else { 8 + rng.below(52) } as usize;
    let mut ops = Vec::new();
    // a phase structure makes fill / drain / collide transitions likely
    let mut phase = rng.below(4);
    let mut val = 1i64;
    for i in 0..n_ops {
        if i % 12 == 11 {
            phase = rng.below(4);
        }
        let k = rng.below(universe as u64) as u32;
        let r = rng.below(100);
        let op = match phase {
            // fill
            0 => match r {
                0..=69 => Op::Insert(k, { val += 1; val }),
                70..=79 => Op::TryInsert(k, { val += 1; val }),
                80..=86 => Op::Get(k),
                87..=90 => Op::Iter,
                91..=93 => Op::Len,
                94..=96 => Op::Compute(k, 1),
                _ => Op::Reserve(rng.below(40)),
            },
            // drain
            1 => match r {
                0..=39 => Op::Remove(k),
                40..=54 => Op::RemoveEntry(k),
                55..=69 => Op::Compute(k, if rng.chance(1, 2) { 0 } else { 3 }),
                70..=76 => Op::Retain(2 + rng.below(3) as u32),
                77..=80 => Op::RetainForce(2 + rng.below(3) as u32),
                81..=88 => Op::ContainsKey(k),
                89..=92 => Op::Iter,
                93..=95 => Op::IsEmpty,
                _ => Op::Insert(k, { val += 1; val }),
            },
            // mixed
            2 => match r {
                0..=24 => Op::Insert(k, { val += 1; val }),
                25..=34 => Op::TryInsert(k, { val += 1; val }),
                35..=44 => Op::Remove(k),
                45..=52 => Op::Compute(k, rng.below(4) as u32),
                53..=60 => Op::Get(k),
                61..=66 => Op::GetKeyValue(k),
                67..=71 => Op::ContainsKey(k),
                72..=75 => Op::Iter,
                76..=78 => Op::Len,
                79..=81 => Op::Clone,
                82..=84 => Op::Retain(rng.below(5) as u32),
                85..=86 => Op::RetainForce(rng.below(5) as u32),
                87..=88 => Op::Clear,
                89..=91 => Op::Reserve(rng.below(100)),
                92..=95 => {
                    let n = rng.below(12);
                    let items = (0..n).map(|_| (rng.below(universe as u64) as u32, { val += 1; val })).collect();
                    Op::Extend(if rng.chance(1, 3) { 0 } else { n }, items)
                }
                _ => Op::RemoveEntry(k),
            },
            // bulk-ish
            _ => match r {
                0..=29 => {
                    let n = 1 + rng.below(14);
                    let items = (0..n).map(|_| (rng.below(universe as u64) as u32, { val += 1; val })).collect();
                    Op::Extend(if rng.chance(1, 3) { 0 } else { n }, items)
                }
                30..=44 => Op::Clone,
                45..=54 => Op::Clear,
                55..=64 => Op::Reserve(rng.below(200)),
                65..=79 => Op::Insert(k, { val += 1; val }),
                80..=89 => Op::Iter,
                _ => Op::Retain(rng.below(5) as u32),
            },
        };
        ops.push(op);
    }
    if rng.chance(1, 3) {
        let n = rng.below(30);
        let items: Vec<_> = (0..n).map(|_| (rng.below(universe as u64) as u32, { val += 1; val })).collect();
        let hint = match rng.below(3) {
            0 => 0,
            1 => n.saturating_sub(1),
            _ => rng.below(n + 1),
        };
        ops.push(Op::Collect(hint, items));
    }
    Case {
        id,
        hasher,
        cap,
        universe,
        pin: rng.chance(1, 2),
        batch: match rng.below(4) {
            0 => 1,
            1 => 2,
            2 => 8,
            _ => 0,
        },
        ops,
    }
}

/* ---------------- outcome ---------------- */

#[derive(Clone, Debug, PartialEq, Eq)]
pub enum Out {
    None,
    Val(i64),
    KV(u32, u32, i64),
    Bool(bool),
    Exists(i64, i64),
    Inserted(i64),
    Num(i64),
    List(Vec<(u32, u32, i64)>),
    Unit,
}

fn out_coq(o: &Out) -> String {
    let z = |v: &i64| if *v < 0 { format!("({})", v) } else { v.to_string() };
    match o {
        Out::None | Out::Unit => "ONone".into(),
        Out::Val(v) => format!("(OVal {})", z(v)),
        Out::KV(k, i, v) => format!("(OKV {} {} {})", k, i, z(v)),
        Out::Bool(b) => format!("(OBool {})", b),
        Out::Exists(c, n) => format!("(OExists {} {})", z(c), z(n)),
        Out::Inserted(v) => format!("(OInserted {})", z(v)),
        Out::Num(n) => format!("(ONum {})", z(n)),
        Out::List(l) => format!(
            "(OList [{}])",
            l.iter().map(|(k, i, v)| format!("E_ {} {} {}", k, i, z(v))).collect::<Vec<_>>().join(";")
        ),
    }
}

fn items_coq(items: &[(u32, u32, i64)]) -> String {
    format!(
        "[{}]",
        items
            .iter()
            .map(|(k, i, v)| format!("E_ {} {} {}", k, i, if *v < 0 { format!("({})", v) } else { v.to_string() }))
            .collect::<Vec<_>>()
            .join(";")
    )
}

/* ---------------- execution ---------------- */

pub enum Item {
    New(u64, usize),
    Step(usize, String, Out, usize),
    Clone(usize, usize),
    Collect(Vec<(u32, u64)>, u64, Vec<(u32, u32, i64)>, usize),
}

pub struct CaseRun {
    pub dumps: Vec<CDump>,
    /// for each dump, the earlier dump it is printed relative to (None = printed in full)
    pub bases: Vec<Option<usize>>,
    pub items: Vec<Item>,
    pub hashes: Vec<(u32, u64)>,
    /// model-free failures: (step index, description)
    pub failures: Vec<(usize, String)>,
    pub stats: Stats,
}

#[derive(Default, Clone, Debug)]
pub struct Stats {
    pub resizes: u64,
    pub treeified: u64,
    pub untreeified: u64,
    pub tree_ops: u64,
    pub max_len: usize,
    pub effective: u64,
    pub ops: u64,
    pub reclaimed: u64,
    pub max_cmp_ratio_milli: u64,
}

type StdMap = BTreeMap<u32, (u32, i64)>;

fn has_tree(d: &CDump) -> usize {
    d.table
        .as_ref()
        .map(|t| t.bins.iter().filter(|b| matches!(b, crate::dump::CBin::Tree { .. })).count())
        .unwrap_or(0)
}

fn compare_with_std<S: BuildHasher>(map: &HashMap<Key, Val, S>, std: &StdMap, universe: u32, d: &CDump) -> Option<String> {
    let g = map.guard();
    if map.len() != std.len() {
        return Some(format!("len() = {} but the reference map holds {}", map.len(), std.len()));
    }
    if map.is_empty() != std.is_empty() {
        return Some("is_empty() disagrees with the reference map".into());
    }
    for k in 0..universe {
        let got = map.get_key_value(&Key::probe(k), &g).map(|(kk, v)| (kk.inst, v.payload));
        let want = std.get(&k).cloned();
        if got != want {
            return Some(format!("get({}) = {:?}, reference map has {:?}", k, got, want));
        }
    }
    let mut it: Vec<(u32, u32, i64)> = map.iter(&g).map(|(k, v)| (k.id, k.inst, v.payload)).collect();
    let in_order = it.clone();
    it.sort();
    let want: Vec<(u32, u32, i64)> = std.iter().map(|(k, (i, v))| (*k, *i, *v)).collect();
    if it != want {
        return Some(format!("iteration yields {:?}, reference map holds {:?}", it, want));
    }
    if in_order != d.entries() {
        return Some("iteration order differs from the inspector's walk of the table".into());
    }
    let mut ks: Vec<u32> = map.keys(&g).map(|k| k.id).collect();
    ks.sort();
    if ks != std.keys().cloned().collect::<Vec<_>>() {
        return Some("keys() disagrees with the reference map".into());
    }
    let mut vs: Vec<i64> = map.values(&g).map(|v| v.payload).collect();
    vs.sort();
    let mut wv: Vec<i64> = std.values().map(|x| x.1).collect();
    wv.sort();
    if vs != wv {
        return Some("values() disagrees with the reference map".into());
    }
    let defects = d.defects();
    if !defects.is_empty() {
        return Some(format!("structural defect: {}", defects.join("; ")));
    }
    None
}

pub fn hash_of<S: BuildHasher + Default>(k: u32) -> u64 {
    S::default().hash_one(&Key::probe(k))
}

fn new_map<S: BuildHasher + Default>(cap: u64, batch: usize) -> HashMap<Key, Val, S> {
    let m = if cap == 0 {
        HashMap::<Key, Val, S>::with_hasher(S::default())
    } else {
        HashMap::<Key, Val, S>::with_capacity_and_hasher(cap as usize, S::default())
    };
    if batch > 0 {
        m.with_collector(seize::Collector::new().batch_size(batch))
    } else {
        m
    }
}

fn op_coq(op: &Op, insts: &[(u32, u32)]) -> String {
    // insts: instance numbers assigned to the keys this op carries, in order
    let z = |v: &i64| if *v < 0 { format!("({})", v) } else { v.to_string() };
    match op {
        Op::Insert(k, v) => format!("(Insert {} {} {})", k, insts[0].1, z(v)),
        Op::TryInsert(k, v) => format!("(TryInsert {} {} {})", k, insts[0].1, z(v)),
        Op::Get(k) => format!("(Get {})", k),
        Op::GetKeyValue(k) => format!("(GetKeyValue {})", k),
        Op::ContainsKey(k) => format!("(ContainsKey {})", k),
        Op::Remove(k) => format!("(Remove {})", k),
        Op::RemoveEntry(k) => format!("(RemoveEntry {})", k),
        Op::Compute(k, f) => format!("(Compute {} {})", k, f),
        Op::Retain(p) => format!("(Retain {})", p),
        Op::RetainForce(p) => format!("(RetainForce {})", p),
        Op::Clear => "Clear".into(),
        Op::Reserve(n) => format!("(Reserve {})", n),
        Op::Extend(h, items) => {
            let its: Vec<(u32, u32, i64)> = items.iter().zip(insts.iter()).map(|((k, v), (_, i))| (*k, *i, *v)).collect();
            format!("(Extend {} {})", h, items_coq(&its))
        }
        Op::Len => "Len".into(),
        Op::IsEmpty => "IsEmpty".into(),
        Op::Iter => "Iter".into(),
        Op::Clone | Op::Collect(..) => unreachable!(),
    }
}

struct HintIter<I> {
    inner: I,
    hint: usize,
}
impl<I: Iterator> Iterator for HintIter<I> {
    type Item = I::Item;
    fn next(&mut self) -> Option<I::Item> {
        let r = self.inner.next();
        if r.is_some() {
            self.hint = self.hint.saturating_sub(0);
        }
        r
    }
    fn size_hint(&self) -> (usize, Option<usize>) {
        (self.hint, None)
    }
}

pub fn run_case<S: BuildHasher + Default + Clone>(case: &Case) -> CaseRun {
    let mut run = CaseRun {
        dumps: Vec::new(),
        bases: Vec::new(),
        items: Vec::new(),
        hashes: Vec::new(),
        failures: Vec::new(),
        stats: Stats::default(),
    };
    let mut std: StdMap = BTreeMap::new();
    let mut next_inst: u32 = 0;
    ledger_reset();
    hooks::mem_start();
    let body = catch_unwind(AssertUnwindSafe(|| {
        let map: HashMap<Key, Val, S> = new_map::<S>(case.cap, case.batch);
        let take = |m: &HashMap<Key, Val, S>| -> CDump {
            let g = m.guard();
            canon(&m.verif_dump(&g))
        };
        run.hashes = (0..case.universe + 2).map(|k| (k, map.verif_hash(&Key::probe(k)))).collect();
        run.dumps.push(take(&map));
        run.bases.push(None);
        run.items.push(Item::New(case.cap, 0));
        if let Some(f) = compare_with_std(&map, &std, case.universe, &run.dumps[0]) {
            run.failures.push((0, f));
        }
        for (ix, op) in case.ops.iter().enumerate() {
            let step = ix + 1;
            let pre = run.dumps.len() - 1;
            let pre_len = run.dumps[pre].len();
            let pre_trees = has_tree(&run.dumps[pre]);
            let mut insts: Vec<(u32, u32)> = Vec::new();
            let mut inst = |k: u32| {
                next_inst += 1;
                insts.push((k, next_inst));
                next_inst
            };
            run.stats.ops += 1;
            match op {
                Op::Clone => {
                    let c = map.clone();
                    let d = take(&c);
                    let mut cstd = std.clone();
                    if let Some(f) = compare_with_std(&c, &cstd, case.universe, &d) {
                        run.failures.push((step, format!("clone: {}", f)));
                    }
                    if (c == map) != true {
                        run.failures.push((step, "clone is not == to the original".into()));
                    }
                    // inequality after a change to the clone
                    if let Some((&k, _)) = cstd.iter().next() {
                        c.pin().insert(Key::new(k, u32::MAX - 1), Val::new(-77));
                        cstd.insert(k, (0, -77));
                        if c == map {
                            run.failures.push((step, "maps with different values compare equal".into()));
                        }
                    }
                    run.dumps.push(d);
                    run.bases.push(None);
                    let ci = run.dumps.len() - 1;
                    run.items.push(Item::Clone(pre, ci));
                    // keep `pre` as the last dump of the main map
                    let again = run.dumps[pre].clone();
                    run.dumps.push(again);
                    run.bases.push(Some(pre));
                    drop(c);
                    continue;
                }
                Op::Collect(hint, items) => {
                    let its: Vec<(u32, u32, i64)> = items.iter().map(|(k, v)| (*k, inst(*k), *v)).collect();
                    let src: Vec<(Key, Val)> = its.iter().map(|(k, i, v)| (Key::new(*k, *i), Val::new(*v))).collect();
                    // from_iter takes the first element and then asks for the size hint
                    let it = HintIter { inner: src.into_iter(), hint: *hint as usize };
                    let c: HashMap<Key, Val, S> = it.collect();
                    let d = take(&c);
                    let mut cstd: StdMap = BTreeMap::new();
                    for (k, i, v) in &its {
                        match cstd.get_mut(k) {
                            Some(e) => e.1 = *v,
                            None => {
                                cstd.insert(*k, (*i, *v));
                            }
                        }
                    }
                    if let Some(f) = compare_with_std(&c, &cstd, case.universe, &d) {
                        run.failures.push((step, format!("collect: {}", f)));
                    }
                    run.dumps.push(d);
                    run.bases.push(None);
                    let ci = run.dumps.len() - 1;
                    let ch: Vec<(u32, u64)> = (0..case.universe + 2).map(|k| (k, c.verif_hash(&Key::probe(k)))).collect();
                    run.items.push(Item::Collect(ch, *hint, its, ci));
                    let again = run.dumps[pre].clone();
                    run.dumps.push(again);
                    run.bases.push(Some(pre));
                    drop(c);
                    continue;
                }
                _ => {}
            }
            // ordinary operation: through the guard API or the pinned facade
            let out: Out;
            let mut held_ok = true;
            {
                let guard = map.guard();
                let mref = map.pin();
                let pin = case.pin;
                out = match op {
                    Op::Insert(k, v) => {
                        let key = Key::new(*k, inst(*k));
                        let r = if pin { mref.insert(key, Val::new(*v)) } else { map.insert(key, Val::new(*v), &guard) };
                        let o = match r {
                            Some(old) => {
                                held_ok &= old.alive();
                                Out::Val(old.payload)
                            }
                            None => Out::None,
                        };
                        match std.get_mut(k) {
                            Some(e) => {
                                if o != Out::Val(e.1) {
                                    run.failures.push((step, format!("insert({}) returned {:?}, reference {:?}", k, o, e.1)));
                                }
                                e.1 = *v
                            }
                            None => {
                                if o != Out::None {
                                    run.failures.push((step, format!("insert({}) returned {:?}, reference None", k, o)));
                                }
                                std.insert(*k, (insts[0].1, *v));
                            }
                        }
                        o
                    }
                    Op::TryInsert(k, v) => {
                        let key = Key::new(*k, inst(*k));
                        let r = if pin { mref.try_insert(key, Val::new(*v)) } else { map.try_insert(key, Val::new(*v), &guard) };
                        let o = match r {
                            Ok(new) => Out::Inserted(new.payload),
                            Err(e) => {
                                held_ok &= e.current.alive() && e.not_inserted.alive();
                                Out::Exists(e.current.payload, e.not_inserted.payload)
                            }
                        };
                        let want = match std.get(k) {
                            Some(e) => Out::Exists(e.1, *v),
                            None => {
                                std.insert(*k, (insts[0].1, *v));
                                Out::Inserted(*v)
                            }
                        };
                        if o != want {
                            run.failures.push((step, format!("try_insert({}) returned {:?}, reference {:?}", k, o, want)));
                        }
                        o
                    }
                    Op::Get(k) => {
                        let r = if pin { mref.get(&Key::probe(*k)) } else { map.get(&Key::probe(*k), &guard) };
                        r.map(|v| Out::Val(v.payload)).unwrap_or(Out::None)
                    }
                    Op::GetKeyValue(k) => {
                        let r = if pin { mref.get_key_value(&Key::probe(*k)) } else { map.get_key_value(&Key::probe(*k), &guard) };
                        r.map(|(kk, v)| Out::KV(kk.id, kk.inst, v.payload)).unwrap_or(Out::None)
                    }
                    Op::ContainsKey(k) => Out::Bool(if pin { mref.contains_key(&Key::probe(*k)) } else { map.contains_key(&Key::probe(*k), &guard) }),
                    Op::Remove(k) => {
                        let r = if pin { mref.remove(&Key::probe(*k)) } else { map.remove(&Key::probe(*k), &guard) };
                        let o = r.map(|v| { held_ok &= v.alive(); Out::Val(v.payload) }).unwrap_or(Out::None);
                        let want = std.remove(k).map(|e| Out::Val(e.1)).unwrap_or(Out::None);
                        if o != want {
                            run.failures.push((step, format!("remove({}) returned {:?}, reference {:?}", k, o, want)));
                        }
                        o
                    }
                    Op::RemoveEntry(k) => {
                        let r = if pin { mref.remove_entry(&Key::probe(*k)) } else { map.remove_entry(&Key::probe(*k), &guard) };
                        let o = r.map(|(kk, v)| { held_ok &= v.alive() && kk.alive(); Out::KV(kk.id, kk.inst, v.payload) }).unwrap_or(Out::None);
                        let want = std.remove(k).map(|e| Out::KV(*k, e.0, e.1)).unwrap_or(Out::None);
                        if o != want {
                            run.failures.push((step, format!("remove_entry({}) returned {:?}, reference {:?}", k, o, want)));
                        }
                        o
                    }
                    Op::Compute(k, f) => {
                        let mut calls = 0;
                        let mut seen = None;
                        let fun = |kk: &Key, v: &Val| {
                            calls += 1;
                            seen = Some((kk.id, v.payload));
                            remap(*f, kk.id, v.payload).map(Val::new)
                        };
                        let r = if pin { mref.compute_if_present(&Key::probe(*k), fun) } else { map.compute_if_present(&Key::probe(*k), fun, &guard) };
                        let o = r.map(|v| Out::Val(v.payload)).unwrap_or(Out::None);
                        let want = match std.get(k).cloned() {
                            None => {
                                if calls != 0 {
                                    run.failures.push((step, "remapping function called for an absent key".into()));
                                }
                                Out::None
                            }
                            Some(e) => {
                                if calls != 1 || seen != Some((*k, e.1)) {
                                    run.failures.push((step, format!("remapping function called {} times with {:?}, expected once with {:?}", calls, seen, (k, e.1))));
                                }
                                match remap(*f, *k, e.1) {
                                    Some(nv) => {
                                        std.insert(*k, (e.0, nv));
                                        Out::Val(nv)
                                    }
                                    None => {
                                        std.remove(k);
                                        Out::None
                                    }
                                }
                            }
                        };
                        if o != want {
                            run.failures.push((step, format!("compute_if_present({}) returned {:?}, reference {:?}", k, o, want)));
                        }
                        o
                    }
                    Op::Retain(p) | Op::RetainForce(p) => {
                        let force = matches!(op, Op::RetainForce(_));
                        let f = |kk: &Key, v: &Val| keep(*p, kk.id, v.payload);
                        match (pin, force) {
                            (true, false) => mref.retain(f),
                            (true, true) => mref.retain_force(f),
                            (false, false) => map.retain(f, &guard),
                            (false, true) => map.retain_force(f, &guard),
                        }
                        std.retain(|k, e| keep(*p, *k, e.1));
                        Out::Unit
                    }
                    Op::Clear => {
                        if pin { mref.clear() } else { map.clear(&guard) }
                        std.clear();
                        Out::Unit
                    }
                    Op::Reserve(n) => {
                        if pin { mref.reserve(*n as usize) } else { map.reserve(*n as usize, &guard) }
                        Out::Unit
                    }
                    Op::Extend(hint, items) => {
                        let its: Vec<(u32, u32, i64)> = items.iter().map(|(k, v)| (*k, inst(*k), *v)).collect();
                        let src: Vec<(Key, Val)> = its.iter().map(|(k, i, v)| (Key::new(*k, *i), Val::new(*v))).collect();
                        let it = HintIter { inner: src.into_iter(), hint: *hint as usize };
                        let mut mr = &map;
                        mr.extend(it);
                        for (k, i, v) in &its {
                            match std.get_mut(k) {
                                Some(e) => e.1 = *v,
                                None => {
                                    std.insert(*k, (*i, *v));
                                }
                            }
                        }
                        Out::Unit
                    }
                    Op::Len => Out::Num(if pin { mref.len() } else { map.len() } as i64),
                    Op::IsEmpty => Out::Bool(if pin { mref.is_empty() } else { map.is_empty() }),
                    Op::Iter => {
                        let v: Vec<(u32, u32, i64)> = if pin {
                            mref.iter().map(|(k, v)| (k.id, k.inst, v.payload)).collect()
                        } else {
                            map.iter(&guard).map(|(k, v)| (k.id, k.inst, v.payload)).collect()
                        };
                        Out::List(v)
                    }
                    Op::Clone | Op::Collect(..) => unreachable!(),
                };
                if !held_ok {
                    run.failures.push((step, "a reference returned by the map was dead while its guard was still held".into()));
                }
            }
            let d = take(&map);
            if let Some(f) = compare_with_std(&map, &std, case.universe, &d) {
                run.failures.push((step, f));
            }
            if let Some(f) = lookup_costs_real::<S>(&map, case.universe, &d, &mut run.stats) {
                run.failures.push((step, f));
            }
            let post_len = d.len();
            if post_len != pre_len {
                run.stats.resizes += 1;
                if post_len < pre_len {
                    run.failures.push((step, format!("table shrank from {} to {} bins", pre_len, post_len)));
                }
                let removal = matches!(op, Op::Remove(_) | Op::RemoveEntry(_) | Op::Retain(_) | Op::RetainForce(_) | Op::Clear)
                    || (matches!(op, Op::Compute(..)) && d.cnt < run.dumps[pre].cnt);
                if removal {
                    run.failures.push((step, format!("a removing operation grew the table from {} to {} bins", pre_len, post_len)));
                }
            }
            if post_len > 0 && !post_len.is_power_of_two() {
                run.failures.push((step, format!("table length {} is not a power of two", post_len)));
            }
            let post_trees = has_tree(&d);
            if post_trees > pre_trees {
                run.stats.treeified += 1;
            }
            if post_trees < pre_trees {
                run.stats.untreeified += 1;
            }
            if pre_trees > 0 {
                run.stats.tree_ops += 1;
            }
            if d.shape() != run.dumps[pre].shape() {
                run.stats.effective += 1;
            }
            run.stats.max_len = run.stats.max_len.max(post_len);
            run.dumps.push(d);
            run.bases.push(Some(pre));
            let post = run.dumps.len() - 1;
            run.items.push(Item::Step(pre, op_coq(op, &insts), out, post));
        }
        drop(map);
    }));
    if let Err(e) = body {
        let msg = if let Some(s) = e.downcast_ref::<String>() {
            s.clone()
        } else if let Some(s) = e.downcast_ref::<&str>() {
            s.to_string()
        } else {
            "panic".into()
        };
        run.failures.push((run.items.len(), format!("panic: {}", msg)));
    }
    let mem = hooks::mem_finish();
    run.stats.reclaimed = mem.n_reclaim;
    for v in mem.violations.iter().take(3) {
        run.failures.push((usize::MAX, format!("memory: {} at {}:{}", v.what, v.file, v.line)));
    }
    let ledger = ledger_take();
    for (obj, (kind, logical, created, dropped)) in ledger.objs.iter().enumerate() {
        if *created == 1 && *dropped != 1 {
            run.failures.push((
                usize::MAX - 1,
                format!("ledger: {:?} object #{} (logical {}) dropped {} times", kind, obj, logical, dropped),
            ));
            break;
        }
    }
    run
}

fn lookup_costs_real<S: BuildHasher + Default>(map: &HashMap<Key, Val, S>, universe: u32, d: &CDump, stats: &mut Stats) -> Option<String> {
    let t = d.table.as_ref()?;
    if t.bins.len() < 64 {
        return None;
    }
    let g = map.guard();
    let mask = t.bins.len() as u64 - 1;
    for k in 0..universe + 2 {
        let h = map.verif_hash(&Key::probe(k));
        let b = &t.bins[(h & mask) as usize];
        let n = match b {
            crate::dump::CBin::Tree { ord, .. } => ord.len(),
            crate::dump::CBin::List(l) => l.len(),
            _ => 0,
        };
        if n < 8 {
            continue;
        }
        reset_cmp();
        let _ = map.get(&Key::probe(k), &g);
        let (e, o) = cmp_calls();
        let cost = e + o;
        let bound = (4.0 * ((n + 1) as f64).log2()).ceil() as u64;
        stats.max_cmp_ratio_milli = stats.max_cmp_ratio_milli.max(cost * 1000 / bound.max(1));
        if cost > bound {
            return Some(format!(
                "lookup of key {} in a bin of {} nodes cost {} key comparisons (> 4*log2(n+1) = {})",
                k, n, cost, bound
            ));
        }
    }
    None
}

/* ---------------- Coq output ---------------- */

pub fn case_coq(name: &str, run: &CaseRun) -> String {
    let mut s = String::new();
    s.push_str(&format!(
        "Definition {}_h := [{}].\n",
        name,
        run.hashes.iter().map(|(k, h)| format!("H_ {} {}", k, h)).collect::<Vec<_>>().join(";")
    ));
    for (i, d) in run.dumps.iter().enumerate() {
        let body = match run.bases.get(i).cloned().flatten() {
            Some(b) if run.dumps[b].len() == d.len() && d.len() > 0 => crate::dump::dump_delta_coq(&run.dumps[b], d, &format!("{}_d{}", name, b)),
            _ => dump_coq_b(d),
        };
        s.push_str(&format!("Definition {}_d{} := {}.\n", name, i, body));
    }
    let items: Vec<String> = run
        .items
        .iter()
        .map(|it| match it {
            Item::New(c, p) => format!("INew {} {}_d{}", c, name, p),
            Item::Step(pre, op, out, post) => format!("IStep {}_d{} {} {} {}_d{}", name, pre, op, out_coq(out), name, post),
            Item::Clone(pre, post) => format!("IClone {}_d{} {}_d{}", name, pre, name, post),
            Item::Collect(ch, h, items, post) => format!(
                "ICollect [{}] {} {} {}_d{}",
                ch.iter().map(|(k, h)| format!("H_ {} {}", k, h)).collect::<Vec<_>>().join(";"),
                h,
                items_coq(items),
                name,
                post
            ),
        })
        .collect();
    s.push_str(&format!("Eval vm_compute in (check_case {}_h [{}]).\n", name, items.join(";\n  ")));
    s
}

fn dump_coq_b(d: &CDump) -> String {
    dump_coq(d)
}

pub fn case_text(c: &Case) -> String {
    format!(
        "case id={} hasher={} cap={} universe={} pin={} batch={} ops={:?}",
        c.id, HASHER_NAMES[c.hasher as usize], c.cap, c.universe, c.pin, c.batch, c.ops
    )
}
