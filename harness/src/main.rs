//! Verification harness for flurry. Subcommands print one line `JSON {...}` (the result) and,
//! for each failing input found, a line `FOUND <property> <replay text on one line>`.
mod api_check;
mod dump;
mod hooks;
mod types;

use serde_json::json;

fn silence_panics() {
    std::panic::set_hook(Box::new(|_| {}));
}

fn cmd_api(args: &[String]) {
    let gen = std::fs::read_to_string(&args[0]).expect("gen.json");
    let gen: serde_json::Value = serde_json::from_str(&gen).expect("gen.json parse");
    let mut rows = Vec::new();
    for r in gen["api"].as_array().unwrap() {
        let ty = r["ty"].as_str().unwrap();
        let name = r["name"].as_str().unwrap();
        let public = r["pub"].as_bool().unwrap();
        let nguards = r["guards"].as_array().unwrap().len();
        let own = r["own"].as_str().unwrap();
        let file = r["file"].as_str().unwrap();
        if !public || file.contains("serde") || file.contains("rayon") {
            continue;
        }
        let coll = ty == "HashMap" || ty == "HashSet";
        let facade = ty == "HashMapRef" || ty == "HashSetRef";
        if (coll && nguards > 0 && name != "with_guard") || (facade && own == "field") {
            rows.push((ty.to_string(), name.to_string()));
        }
    }
    silence_panics();
    hooks::install();
    let (res, missing) = api_check::run(&rows);
    let mut bad = Vec::new();
    for r in &res {
        // a single-guard method must panic before touching anything; a two-guard method may
        // return normally when it never needed the foreign guard
        let ok = r.foreign_uses == 0
            && r.control_ok
            && (r.panicked || r.two_guard)
            && (!r.panicked || r.unchanged)
            && (r.two_guard || (r.ops_before_panic == 0 && r.locks_before_panic == 0));
        if !ok {
            bad.push(json!({"method": r.name, "populated": r.populated, "panicked": r.panicked,
                "foreign_uses": r.foreign_uses, "ops_before_panic": r.ops_before_panic, "locks_before_panic": r.locks_before_panic,
                "map_unchanged": r.unchanged, "control_ok": r.control_ok}));
            println!(
                "FOUND C09 method={} populated={} panicked={} foreign_guard_uses={} ops_before_panic={} unchanged={} control_ok={}",
                r.name, r.populated, r.panicked, r.foreign_uses, r.ops_before_panic, r.unchanged, r.control_ok
            );
        }
    }
    let samples: Vec<_> = res
        .iter()
        .take(4)
        .map(|r| json!({"method": r.name, "populated": r.populated, "panicked": r.panicked, "ops_before_panic": r.ops_before_panic}))
        .collect();
    println!(
        "JSON {}",
        json!({"calls": res.len(), "distinct_methods": res.len() / 2, "table_rows": rows.len(),
               "missing_stubs": missing, "bad": bad, "samples": samples})
    );
}

fn main() {
    let args: Vec<String> = std::env::args().collect();
    if args.len() < 2 {
        eprintln!("usage: harness <api|...> ...");
        std::process::exit(2);
    }
    match args[1].as_str() {
        "api" => cmd_api(&args[2..]),
        other => {
            eprintln!("unknown subcommand {}", other);
            std::process::exit(2);
        }
    }
}
