//! Verification harness for flurry. Subcommands print one line `JSON {...}` (the result) and,
//! for each failing input found, a line `FOUND <property> <replay text on one line>`.
mod api_check;
mod binsim;
mod bulk;
mod capacity;
mod clonepanic;
mod conc;
mod dump;
mod hooks;
mod panic_check;
mod seq;
mod sets;
mod tlsim;
mod types;

use serde_json::json;

fn silence_panics() {
    std::panic::set_hook(Box::new(|_| {}));
}

fn cmd_api(args: &[String]) {
    let gen = std::fs::read_to_string(&args[0]).expect("gen.json");
    let gen: serde_json::Value = serde_json::from_str(&gen).expect("gen.json parse");
    let mut rows = Vec::new();
    for r in gen["api"].as_array().unwrap() {
        let ty = r["ty"].as_str().unwrap();
        let name = r["name"].as_str().unwrap();
        let public = r["pub"].as_bool().unwrap();
        let nguards = r["guards"].as_array().unwrap().len();
        let own = r["own"].as_str().unwrap();
        let file = r["file"].as_str().unwrap();
        if !public || file.contains("serde") || file.contains("rayon") {
            continue;
        }
        let coll = ty == "HashMap" || ty == "HashSet";
        let facade = ty == "HashMapRef" || ty == "HashSetRef";
        if (coll && nguards > 0 && name != "with_guard") || (facade && own == "field") {
            rows.push((ty.to_string(), name.to_string()));
        }
    }
    silence_panics();
    hooks::install();
    let (res, missing) = api_check::run(&rows);
    let mut bad = Vec::new();
    for r in &res {
        // a single-guard method must panic before touching anything; a two-guard method may
        // return normally when it never needed the foreign guard
        let ok = r.foreign_uses == 0
            && r.control_ok
            && (r.panicked || r.two_guard)
            && (!r.panicked || r.unchanged)
            && (r.two_guard || (r.ops_before_panic == 0 && r.locks_before_panic == 0));
        if !ok {
            bad.push(json!({"method": r.name, "populated": r.populated, "panicked": r.panicked,
                "foreign_uses": r.foreign_uses, "ops_before_panic": r.ops_before_panic, "locks_before_panic": r.locks_before_panic,
                "map_unchanged": r.unchanged, "control_ok": r.control_ok}));
            println!(
                "FOUND C09 method={} populated={} panicked={} foreign_guard_uses={} ops_before_panic={} unchanged={} control_ok={}",
                r.name, r.populated, r.panicked, r.foreign_uses, r.ops_before_panic, r.unchanged, r.control_ok
            );
        }
    }
    let mut ledger_calls = 0u64;
    for r in &res {
        ledger_calls += 1;
        if r.undropped_after_teardown > 0 || r.overdropped > 0 {
            println!(
                "FOUND C04 method={} populated={} called with a guard of another collector returned_normally={}: after every collection is dropped {} key/value instance(s) are still not destroyed (they were retired into the other collector) and {} were destroyed more than once",
                r.name, r.populated, !r.panicked, r.undropped_after_teardown, r.overdropped
            );
        }
    }
    let samples: Vec<_> = res
        .iter()
        .take(4)
        .map(|r| json!({"method": r.name, "populated": r.populated, "panicked": r.panicked, "ops_before_panic": r.ops_before_panic}))
        .collect();
    println!(
        "JSON {}",
        json!({"calls": res.len(), "ledger_calls": ledger_calls, "distinct_methods": res.len() / 2, "table_rows": rows.len(),
               "missing_stubs": missing, "bad": bad, "samples": samples})
    );
}

fn cmd_seq(args: &[String]) {
    // seq <seed> <n_cases> <long:0|1> <out.v> [only_case_id]
    let seed: u64 = args[0].parse().unwrap();
    let n: u64 = args[1].parse().unwrap();
    let long = args[2] == "1";
    let tree = args[2] == "2";
    let out = &args[3];
    let only: Option<u64> = args.get(4).and_then(|s| s.parse().ok());
    silence_panics();
    hooks::install();
    let mut rng = types::SplitMix64(seed);
    let mut coq = String::from("From Flurry Require Import Model.Check.\nImport ListNotations.\n");
    let mut ids = Vec::new();
    let mut stats = seq::Stats::default();
    let mut dist = std::collections::BTreeMap::<String, u64>::new();
    let mut nontrivial = std::collections::HashSet::<String>::new();
    let mut samples = Vec::new();
    let mut failures = 0u64;
    for i in 0..n {
        let mut crng = rng.fork();
        let cid = seed.wrapping_mul(1_000_003).wrapping_add(i);
        let case = if tree { seq::gen_tree_case(&mut crng, cid) } else { seq::gen_case(&mut crng, cid, long) };
        if let Some(o) = only {
            if case.id != o {
                continue;
            }
        }
        let run = with_hasher!(case.hasher, S, { seq::run_case::<S>(&case) });
        *dist.entry(format!("hasher={}", types::HASHER_NAMES[case.hasher as usize])).or_insert(0) += 1;
        *dist.entry(format!("cap_bucket={}", if case.cap == 0 { "0" } else if case.cap <= 16 { "1-16" } else if case.cap <= 70 { "17-70" } else { ">70" })).or_insert(0) += 1;
        for op in &case.ops {
            let name = format!("{:?}", op);
            let name = name.split('(').next().unwrap().to_string();
            *dist.entry(format!("op={}", name)).or_insert(0) += 1;
        }
        stats.resizes += run.stats.resizes;
        stats.treeified += run.stats.treeified;
        stats.untreeified += run.stats.untreeified;
        stats.tree_ops += run.stats.tree_ops;
        stats.effective += run.stats.effective;
        stats.ops += run.stats.ops;
        stats.reclaimed += run.stats.reclaimed;
        stats.max_len = stats.max_len.max(run.stats.max_len);
        stats.max_cmp_ratio_milli = stats.max_cmp_ratio_milli.max(run.stats.max_cmp_ratio_milli);
        if run.stats.resizes + run.stats.treeified + run.stats.untreeified > 0 {
            nontrivial.insert(format!("{:?}", case.ops));
        }
        if samples.len() < 3 && (run.stats.resizes > 0 || run.stats.treeified > 0) {
            samples.push(seq::case_text(&case));
        }
        for (step, f) in &run.failures {
            failures += 1;
            let tag = if f.starts_with("memory:") || f.contains("was dead while") {
                "C03"
            } else if f.starts_with("ledger:") {
                "C04"
            } else if f.starts_with("lookup of key") {
                "C06"
            } else if f.contains("grew the table") || f.contains("table shrank") || f.contains("not a power of two") {
                "C14"
            } else if f.starts_with("structural defect") || f.contains("inspector's walk") {
                "C05"
            } else {
                "C02"
            };
            // shrink: drop operations (delta debugging: halves, quarters, ..., single operations)
            // as long as a failure of the same kind (the text up to the first digit) remains
            let kind_of = |x: &str| -> String { x.chars().take_while(|c| !c.is_ascii_digit()).collect() };
            let kind = kind_of(f);
            let mut small = case.clone();
            let still_fails = |c: &seq::Case| -> bool {
                let r = with_hasher!(c.hasher, S, { seq::run_case::<S>(c) });
                r.failures.iter().any(|(_, g)| kind_of(g) == kind)
            };
            let mut chunk = (small.ops.len() / 2).max(1);
            let mut budget = 400;
            while chunk >= 1 && budget > 0 {
                let mut i = 0;
                let mut removed_any = false;
                while i < small.ops.len() && budget > 0 {
                    let mut cand = small.clone();
                    let end = (i + chunk).min(cand.ops.len());
                    cand.ops.drain(i..end);
                    budget -= 1;
                    if !cand.ops.is_empty() && still_fails(&cand) {
                        small = cand;
                        removed_any = true;
                    } else {
                        i += chunk;
                    }
                }
                if chunk == 1 && !removed_any {
                    break;
                }
                chunk = if chunk > 1 { chunk / 2 } else { 1 };
            }
            let shrunk = if small.ops.len() < case.ops.len() {
                format!(" || shrunk to {} of {} operations: {}", small.ops.len(), case.ops.len(), seq::case_text(&small))
            } else {
                String::new()
            };
            println!("FOUND {} SEQ step={} {} || {}{}", tag, step, f.replace('\n', " "), seq::case_text(&case), shrunk);
            break;
        }
        coq.push_str(&seq::case_coq(&format!("c{}", i), &run));
        ids.push(seq::case_text(&case));
    }
    std::fs::write(out, coq).expect("write cases");
    std::fs::write(format!("{}.idx", out), ids.join("\n")).expect("write idx");
    println!(
        "JSON {}",
        json!({"cases": ids.len(), "ops": stats.ops, "effective_ops": stats.effective, "resizes": stats.resizes,
               "treeified": stats.treeified, "untreeified": stats.untreeified, "ops_on_tree_tables": stats.tree_ops,
               "max_table_len": stats.max_len, "reclaimed_blocks": stats.reclaimed,
               "max_lookup_cost_ratio_milli": stats.max_cmp_ratio_milli,
               "distinct_nontrivial": nontrivial.len(), "failures": failures,
               "distribution": dist, "samples": samples})
    );
}

fn cmd_conc(args: &[String]) {
    // conc <seed> <n_programs> <schedules_per_program> <kinds csv> [prog_index sched_index]
    use conc::*;
    use hooks::{Policy, Verdict};
    let seed: u64 = args[0].parse().unwrap();
    let n: u64 = args[1].parse().unwrap();
    let scheds: u64 = args[2].parse().unwrap();
    let kinds: Vec<u64> = args[3].split(',').map(|x| x.parse().unwrap()).collect();
    let only: Option<(u64, u64)> = if args.len() >= 6 && args[4] != "-" { Some((args[4].parse().unwrap(), args[5].parse().unwrap())) } else { None };
    // optional: write Coq certificates (lin_b evaluations) for the histories of the first runs
    let coq_out: Option<String> = args.get(6).cloned();
    let mut coq = String::from("From Flurry Require Import Model.Lin Model.Check Model.ResizeLog.\nImport ListNotations.\nOpen Scope Z_scope.\n");
    let mut coq_hist = 0usize;
    let mut resize_logs = 0usize;
    silence_panics();
    hooks::install();
    let mut rng = types::SplitMix64(seed ^ 0xC0C0);
    let mut runs = 0u64;
    let mut steps = 0u64;
    let mut lock_waits = 0u64;
    let mut parks = 0u64;
    let mut reclaimed = 0u64;
    let mut resizes = 0u64;
    let mut helped = 0u64;
    let mut nontrivial = std::collections::HashSet::<String>::new();
    let mut verdicts = std::collections::BTreeMap::<String, u64>::new();
    let mut samples = Vec::new();
    let mut found = 0u64;
    let mut distinct_histories = std::collections::HashSet::<u64>::new();
    let mut hb = (0u64, 0u64, 0u64);
    for pi in 0..n {
        let mut prng = rng.fork();
        let kind = kinds[(pi % kinds.len() as u64) as usize];
        let prog = gen_program(&mut prng, kind);
        for si in 0..scheds {
            let sseed = prng.next();
            if let Some((op, os)) = only {
                if op != pi || os != si {
                    continue;
                }
            }
            let stick = [0u64, 8, 12, 14, 15][(si % 5) as usize];
            let policy = if si % 3 == 2 {
                // one thread sleeps at a random point of its run while the others go on
                let mut srng = types::SplitMix64(sseed ^ 0x51EE);
                let victim = srng.below(prog.threads.len() as u64) as usize;
                let at = srng.below(90);
                let dur = [40u64, 150, 600, 5000][srng.below(4) as usize];
                Policy::Sleeper(types::SplitMix64(sseed), stick, victim, at, dur)
            } else {
                Policy::Random(types::SplitMix64(sseed), stick)
            };
            let opts = RunOpts { policy, step_limit: 200_000, freeze: None };
            // if the implementation takes the process down, the last AT line names the run
            println!("AT conc seed={} prog={} sched={} kinds={} || {}", seed, pi, si, args[3], program_text(&prog));
            let r = with_hasher!(prog.hasher, S, { run_program::<S>(&prog, opts) });
            runs += 1;
            hb.0 += r.hb_stats.0;
            hb.1 += r.hb_stats.1;
            hb.2 += r.hb_stats.2;
            steps += r.steps;
            lock_waits += r.lock_waits;
            parks += r.parks;
            reclaimed += r.reclaimed;
            let enters = r.events.iter().filter(|(_, e)| matches!(e, flurry::verif::Event::ResizeEnter { .. })).count() as u64;
            let helpers = r.events.iter().filter(|(_, e)| matches!(e, flurry::verif::Event::ResizeEnter { initiator: false, .. })).count() as u64;
            resizes += enters - helpers;
            helped += helpers;
            *verdicts.entry(format!("{:?}", r.verdict)).or_insert(0) += 1;
            let mut fails = r.failures.clone();
            match r.verdict {
                Verdict::Deadlock => fails.push(format!("C11: deadlock: every unfinished thread is blocked: {}", r.statuses)),
                Verdict::StepLimit => fails.push("C11: step limit exceeded (livelock?)".into()),
                _ => {}
            }
            fails.extend(check_history(&prog, &r));
            if coq_out.is_some() && coq_hist < 1500 {
                let (txt, n) = history_coq(&prog, &r);
                coq.push_str(&txt);
                coq_hist += n;
                if si == 0 {
                    let (txt, n) = quiescent_coq(&r);
                    coq.push_str(&txt);
                    coq_hist += n;
                }
                let (txt, n) = resize_logs_coq(&r);
                coq.push_str(&txt);
                coq_hist += n;
                resize_logs += n;
            }
            fails.extend(check_quiescent(&prog, &r));
            fails.extend(check_resize_events(&r));
            fails.extend(check_iterators(&prog, &r));
            {
                use std::hash::{Hash, Hasher};
                let mut h = std::collections::hash_map::DefaultHasher::new();
                format!("{:?}", r.calls.iter().map(|c| (c.tid, &c.op, &c.out, c.inv, c.res)).collect::<Vec<_>>()).hash(&mut h);
                distinct_histories.insert(h.finish());
            }
            if r.lock_waits + r.parks + helpers > 0 {
                nontrivial.insert(format!("{}#{}", pi, trace_text(&r.trace)));
            }
            if samples.len() < 3 && (helpers > 0 || r.parks > 0) {
                samples.push(json!({"program": program_text(&prog), "schedule_len": r.trace.len(), "lock_waits": r.lock_waits,
                                    "parks": r.parks, "resize_helpers": helpers}));
            }
            for f in fails.iter().take(2) {
                found += 1;
                let tag = if f.starts_with('C') { f[..3].to_string() } else { "C01".to_string() };
                println!(
                    "FOUND {} seed={} prog={} sched={} kinds={} || {} || program: {} || trace: {}",
                    tag, seed, pi, si, args[3], f.replace('\n', " "), program_text(&prog), trace_text(&r.trace)
                );
            }
        }
    }
    if let Some(path) = &coq_out {
        std::fs::write(path, coq).expect("write coq histories");
    }
    println!(
        "JSON {}",
        json!({"coq_histories": coq_hist, "runs": runs, "steps": steps, "lock_waits": lock_waits, "parks": parks, "reclaimed_blocks": reclaimed,
               "resizes": resizes, "resize_helpers": helped, "distinct_nontrivial": nontrivial.len(),
               "distinct_histories": distinct_histories.len(), "verdicts": verdicts, "found": found, "samples": samples,
               "resize_logs_in_coq": resize_logs, "hb_derefs_checked": hb.0, "hb_cross_thread_derefs": hb.1, "hb_acquire_joins": hb.2})
    );
}

fn cmd_capacity(args: &[String]) {
    // capacity <max_c> <thorough:0|1> <out.v>
    let max_c: u64 = args[0].parse().unwrap();
    let thorough = args[1] == "1";
    silence_panics();
    hooks::install();
    let r = capacity::run(max_c, thorough);
    std::fs::write(&args[2], capacity::to_coq(&r)).expect("write");
    for f in r.failures.iter().take(5) {
        println!("FOUND C14 {}", f);
    }
    println!(
        "JSON {}",
        json!({"evaluations": r.evaluations, "sizes": r.sizes.len(), "stamps": r.stamps.len(), "failures": r.failures.len(),
               "samples": [format!("with_capacity({}) -> {} bins", r.sizes[13].0, r.sizes[13].1),
                           format!("resize_stamp({}) = {}", r.stamps[4].0, r.stamps[4].1)]})
    );
}

fn cmd_bulk(args: &[String]) {
    // bulk <seed> <n_docs> <n_maps> <n_par>
    let seed: u64 = args[0].parse().unwrap();
    silence_panics();
    let r = bulk::run(seed, args[1].parse().unwrap(), args[2].parse().unwrap(), args[3].parse().unwrap());
    for f in r.failures.iter().take(5) {
        println!("FOUND C19 {}", f);
    }
    println!(
        "JSON {}",
        json!({"roundtrips": r.roundtrips, "documents": r.documents, "docs_with_repeats": r.docs_with_repeats,
               "docs_malformed": r.docs_malformed, "par_runs": r.par_runs, "failures": r.failures.len(), "samples": r.samples})
    );
}

fn cmd_panic(args: &[String]) {
    // panic <seed> <n>
    silence_panics();
    hooks::install();
    let r = panic_check::run(args[0].parse().unwrap(), args[1].parse().unwrap());
    for f in r.failures.iter().take(5) {
        println!("FOUND C18 {}", f);
    }
    println!(
        "JSON {}",
        json!({"injections": r.injections, "failures": r.failures.len(), "in_tree_bins": r.in_tree_bins,
               "in_list_bins": r.in_list_bins, "retain_injections": r.retain_injections, "samples": r.samples})
    );
}

fn load_site_fns(gen_json: &str) {
    if let Ok(txt) = std::fs::read_to_string(gen_json) {
        if let Ok(gen) = serde_json::from_str::<serde_json::Value>(&txt) {
            let mut t = hooks::SITE_FNS.lock().unwrap();
            for r in gen["fns"].as_array().unwrap_or(&vec![]) {
                t.push((
                    r["file"].as_str().unwrap_or("").to_string(),
                    r["line"].as_u64().unwrap_or(0) as u32,
                    r["name"].as_str().unwrap_or("").to_string(),
                ));
            }
        }
    }
}

/// step-by-step conformance of Model/BinProto.v: writes a Coq case file
fn cmd_binsim(args: &[String]) {
    // binsim <seed> <n_programs> <schedules_per_program> <gen.json> <out.v> [prog sched]
    use conc::*;
    use hooks::Policy;
    let seed: u64 = args[0].parse().unwrap();
    let n: u64 = args[1].parse().unwrap();
    let scheds: u64 = args[2].parse().unwrap();
    let sites = binsim::SiteTable::load(&args[3]);
    let out_v = &args[4];
    let only: Option<(u64, u64)> = if args.len() >= 7 { Some((args[5].parse().unwrap(), args[6].parse().unwrap())) } else { None };
    silence_panics();
    hooks::install();
    let mut rng = types::SplitMix64(seed ^ 0xB1B1);
    let mut coq = String::from("From Flurry Require Import Model.BinConf.\nImport ListNotations.\nOpen Scope Z_scope.\n");
    let (mut runs, mut cases, mut steps, mut modelled, mut lock_waits, mut found) = (0u64, 0u64, 0u64, 0u64, 0u64, 0u64);
    let mut contended = 0u64;
    let mut unknown = std::collections::BTreeSet::<String>::new();
    let mut samples = Vec::new();
    for pi in 0..n {
        let mut prng = rng.fork();
        let prog = binsim::gen_binsim_program(&mut prng);
        for si in 0..scheds {
            let sseed = prng.next();
            if let Some((op, os)) = only {
                if op != pi || os != si {
                    continue;
                }
            }
            let stick = [0u64, 4, 8, 12, 14][(si % 5) as usize];
            let r = binsim::run_one(&prog, Policy::Random(types::SplitMix64(sseed), stick));
            runs += 1;
            let o = binsim::case_of(&prog, &r, &sites);
            steps += o.steps as u64;
            modelled += o.modelled_steps as u64;
            lock_waits += o.lock_waits;
            if o.lock_waits > 0 {
                contended += 1;
            }
            for u in o.unknown_sites {
                unknown.insert(u);
            }
            let mut fails = r.failures.clone();
            fails.extend(o.failures);
            for f in first_per_tag(&fails) {
                found += 1;
                println!("FOUND C01 binsim seed={} prog={} sched={} || {} || {}", seed, pi, si, f.replace('\n', " "), program_text(&prog));
            }
            if let Some(c) = o.coq {
                println!("CASE {} binsim seed={} prog={} sched={} || {} || trace: {}", cases, seed, pi, si, program_text(&prog), trace_text(&r.trace));
                coq.push_str(&format!("Definition c{} : case := {}.\nEval vm_compute in ({}%N, conform c{}).\n", cases, c, cases, cases));
                if samples.len() < 2 && r.lock_waits > 0 {
                    samples.push(json!({"program": program_text(&prog), "scheduler_steps": r.steps, "lock_waits": r.lock_waits}));
                }
                cases += 1;
            }
        }
    }
    for u in &unknown {
        found += 1;
        println!("FOUND C15 binsim: shared access at {} is not in the regenerated site table (Gen/GenAtomics.v)", u);
    }
    std::fs::write(out_v, coq).expect("write case file");
    println!(
        "JSON {}",
        json!({"runs": runs, "cases": cases, "scheduler_steps": steps, "modelled_steps": modelled, "lock_waits": lock_waits,
               "contended_runs": contended, "found": found, "samples": samples})
    );
}

/// HashSet against std and the relation specification
fn cmd_sets(args: &[String]) {
    // sets <seed> <n> <out.v>
    let seed: u64 = args[0].parse().unwrap();
    let n: u64 = args[1].parse().unwrap();
    silence_panics();
    let r = match std::panic::catch_unwind(|| sets::run(seed, n)) {
        Ok(r) => r,
        Err(_) => {
            println!("FOUND C02 sets: a HashSet operation panicked (seed {})", seed);
            println!("JSON {}", json!({"cases": 0, "found": 1}));
            return;
        }
    };
    for f in r.failures.iter().take(8) {
        println!("FOUND C02 sets: {}", f);
    }
    std::fs::write(&args[2], &r.coq).expect("write case file");
    println!(
        "JSON {}",
        json!({"cases": r.cases, "operations": r.ops, "relation_checks": r.relation_checks, "equal_pairs": r.equal_pairs, "found": r.failures.len()})
    );
}

/// later operations after a panic in K::clone inside a resize must return (C11)
fn cmd_clonepanic(_args: &[String]) {
    silence_panics();
    let r = clonepanic::run();
    for f in r.failures.iter().take(3) {
        println!("FOUND {}", f);
    }
    println!(
        "JSON {}",
        json!({"scenarios": r.scenarios, "panics_inside_resize": r.panics_inside_resize, "later_operations_completed": r.later_operations, "found": r.failures.len()})
    );
    use std::io::Write;
    let _ = std::io::stdout().flush();
    // a stuck worker thread may still be spinning
    std::process::exit(0);
}

/// the first failure of each property tag (a run may violate several properties at once)
fn first_per_tag(fails: &[String]) -> Vec<&String> {
    let mut seen: Vec<&str> = Vec::new();
    let mut out = Vec::new();
    for f in fails {
        let tag = if f.len() >= 3 && f.starts_with('C') { &f[..3] } else { "" };
        if !seen.contains(&tag) {
            seen.push(tag);
            out.push(f);
        }
    }
    out
}

/// concurrent programs through HashSet / HashSetRef under the scheduler
fn cmd_setconc(args: &[String]) {
    // setconc <seed> <n_programs> <schedules_per_program>
    let seed: u64 = args[0].parse().unwrap();
    let n: u64 = args[1].parse().unwrap();
    let scheds: u64 = args[2].parse().unwrap();
    silence_panics();
    hooks::install();
    let r = sets::run_conc(seed, n, scheds);
    for f in r.failures.iter().take(8) {
        println!("FOUND {} setconc: {}", &f[..3], f);
    }
    println!(
        "JSON {}",
        json!({"runs": r.runs, "steps": r.steps, "calls": r.calls, "overlapping_same_element_inserts": r.overlapping_same_key_inserts,
               "found": r.failures.len(), "samples": r.samples})
    );
}

/// step-by-step conformance of Model/TreeLock.v: writes a Coq case file
fn cmd_tlsim(args: &[String]) {
    // tlsim <seed> <n_programs> <schedules_per_program> <gen.json> <out.v>
    use conc::*;
    use hooks::Policy;
    let seed: u64 = args[0].parse().unwrap();
    let n: u64 = args[1].parse().unwrap();
    let scheds: u64 = args[2].parse().unwrap();
    load_site_fns(&args[3]);
    let sites = tlsim::TlSites::load(&args[3]);
    let out_v = &args[4];
    silence_panics();
    hooks::install();
    let mut rng = types::SplitMix64(seed ^ 0x7171);
    let mut coq = String::from("From Flurry Require Import Model.TreeConf.\nImport ListNotations.\nOpen Scope Z_scope.\n");
    let (mut runs, mut cases, mut psteps, mut parks, mut rounds, mut found, mut parked_runs) = (0u64, 0u64, 0u64, 0u64, 0u64, 0u64, 0u64);
    if !sites.shape_ok() {
        found += 1;
        println!("SHAPE C11 tlsim: the regenerated site table no longer has two lock_state CASes and two waiter swaps in contended_lock and one waiter load in find");
    } else {
        for pi in 0..n {
            let mut prng = rng.fork();
            let prog = tlsim::gen_tl_program(&mut prng);
            for si in 0..scheds {
                let sseed = prng.next();
                let stick = [0u64, 4, 8, 12, 2][(si % 5) as usize];
                let r = binsim::run_one(&prog, Policy::Random(types::SplitMix64(sseed), stick));
                runs += 1;
                let o = tlsim::tl_case(&prog, &r, &sites);
                psteps += o.protocol_steps as u64;
                parks += o.parks;
                rounds += o.rounds as u64;
                if o.parks > 0 {
                    parked_runs += 1;
                }
                let mut fails = r.failures.clone();
                fails.extend(o.failures);
                for f in first_per_tag(&fails) {
                    found += 1;
                    println!("FOUND C11 tlsim seed={} prog={} sched={} || {} || {}", seed, pi, si, f.replace('\n', " "), program_text(&prog));
                }
                if let Some(c) = o.coq {
                    println!("CASE {} tlsim seed={} prog={} sched={} || {} || trace: {}", cases, seed, pi, si, program_text(&prog), trace_text(&r.trace));
                    coq.push_str(&format!("Eval vm_compute in ({}%N, {}).\n", cases, c));
                    cases += 1;
                }
            }
        }
    }
    std::fs::write(out_v, coq).expect("write case file");
    println!(
        "JSON {}",
        json!({"runs": runs, "cases": cases, "protocol_steps": psteps, "parks": parks, "runs_with_a_parked_writer": parked_runs,
               "write_lock_rounds": rounds, "found": found})
    );
}

/// directed race templates: scripts over function entries with enumerated step offsets
fn cmd_directed(args: &[String]) {
    // directed <gen.json> <max_offset> [templates: csv of treeify,treelock,park,stale | all]
    use conc::*;
    use hooks::{Cond, Policy, Verdict};
    load_site_fns(&args[0]);
    let max_off: u64 = args[1].parse().unwrap();
    let which: String = args.get(2).cloned().unwrap_or_else(|| "all".into());
    let want = |t: &str| which == "all" || which.split(',').any(|x| x == t);
    silence_panics();
    hooks::install();
    let mut runs = 0u64;
    let mut found = 0u64;
    let mut samples = Vec::new();
    // template 1 (the race behind F5): a bin at the treeify threshold is drained between the
    // insert that crossed it and its treeify_bin; the 1-node tree bin is then emptied while a
    // third thread iterates
    for cap in if want("treeify") { vec![64u64, 100] } else { vec![] } {
        for off in 1..=max_off {
            let prog = Program {
                hasher: types::H_ZERO,
                cap,
                prefill: (0..8).collect(),
                threads: vec![
                    vec![COp::Insert(8, 80)],
                    (0..9).map(COp::Remove).collect(),
                    vec![COp::Iter, COp::Get(8), COp::ContainsKey(3)],
                ],
                universe: 10,
                batch: 1,
                pin: false,
                linger: 0,
            };
            let script = vec![
                (0, Cond::EntersFn("treeify_bin".into())),
                (1, Cond::CompletedOps(8)),
                (0, Cond::Done),
                (1, Cond::Steps(off)),
                (2, Cond::Done),
            ];
            let opts = RunOpts { policy: Policy::Directed(script, 0), step_limit: 200_000, freeze: None };
            println!("AT directed template=treeify_race cap={} offset={} || {}", cap, off, program_text(&prog));
            let r = with_hasher!(prog.hasher, S, { run_program::<S>(&prog, opts) });
            runs += 1;
            let mut fails = r.failures.clone();
            match r.verdict {
                Verdict::Deadlock => fails.push(format!("C11: deadlock: {}", r.statuses)),
                Verdict::StepLimit => {
                        fails.push("C11: step limit exceeded".into());
                        fails.extend(stuck_reads(&prog, &r));
                    }
                _ => {}
            }
            fails.extend(check_history(&prog, &r));
            fails.extend(check_quiescent(&prog, &r));
            fails.extend(check_iterators(&prog, &r));
            if samples.len() < 2 {
                samples.push(format!("treeify race, offset {}: {} steps, verdict {:?}", off, r.steps, r.verdict));
            }
            for f in first_per_tag(&fails) {
                found += 1;
                let tag = if f.starts_with('C') { f[..3].to_string() } else { "C07".to_string() };
                println!("FOUND {} directed template=treeify_race cap={} offset={} || {} || {}", tag, cap, off, f.replace('\n', " "), program_text(&prog));
            }
        }
    }
    // template 2: a reader inside a tree bin while a writer restructures it (lock_root contention)
    for off in if want("treelock") { 1..=max_off } else { 1..=0 } {
        let prog = Program {
            hasher: types::H_ZERO,
            cap: 64,
            prefill: (0..12).collect(),
            threads: vec![vec![COp::Get(11), COp::Get(0)], vec![COp::Remove(5), COp::Insert(20, 1), COp::Remove(2)], vec![COp::Get(3), COp::Iter]],
            universe: 22,
            batch: 1,
            pin: false,
            linger: 1,
        };
        let script = vec![
            (0, Cond::EntersFn("find_tree_node".into())),
            (1, Cond::EntersFn("contended_lock".into())),
            (1, Cond::Steps(off)),
            (0, Cond::Done),
            (2, Cond::Steps(off)),
        ];
        let opts = RunOpts { policy: Policy::Directed(script, 0), step_limit: 200_000, freeze: None };
        println!("AT directed template=tree_lock offset={} || {}", off, program_text(&prog));
        let r = with_hasher!(prog.hasher, S, { run_program::<S>(&prog, opts) });
        runs += 1;
        let mut fails = r.failures.clone();
        match r.verdict {
            Verdict::Deadlock => fails.push(format!("C11: deadlock: {}", r.statuses)),
            Verdict::StepLimit => {
                        fails.push("C11: step limit exceeded".into());
                        fails.extend(stuck_reads(&prog, &r));
                    }
            _ => {}
        }
        fails.extend(check_history(&prog, &r));
        fails.extend(check_quiescent(&prog, &r));
        fails.extend(check_iterators(&prog, &r));
        if r.parks > 0 && samples.len() < 4 {
            samples.push(format!("tree lock contention, offset {}: writer parked {} time(s)", off, r.parks));
        }
        for f in first_per_tag(&fails) {
            found += 1;
            let tag = if f.starts_with('C') { f[..3].to_string() } else { "C11".to_string() };
            println!("FOUND {} directed template=tree_lock offset={} || {} || {}", tag, off, f.replace('\n', " "), program_text(&prog));
        }
    }
    // template 3 (lost wake-up search): a reader holds the read lock of a tree bin; the writer runs
    // alone until it blocks (pass 1 counts its steps S); then, for every cut among its last steps
    // before blocking and every split of the reader's exit, the reader leaves inside that window
    for (wop, rkey) in if want("park") { vec![(COp::Remove(5), 11u32), (COp::Remove(0), 3), (COp::Insert(20, 1), 11)] } else { vec![] } {
        let prog = Program {
            hasher: types::H_ZERO,
            cap: 64,
            prefill: (0..12).collect(),
            threads: vec![vec![COp::Get(rkey)], vec![wop.clone(), COp::Get(1)]],
            universe: 22,
            batch: 1,
            pin: false,
            linger: 0,
        };
        let base = vec![(0usize, Cond::EntersFn("find_tree_node".into())), (1usize, Cond::Done), (0, Cond::Done), (1, Cond::Done)];
        let opts = RunOpts { policy: Policy::Directed(base, 0), step_limit: 400_000, freeze: None };
        println!("AT directed template=park_window pass=1 || {}", program_text(&prog));
        let r = with_hasher!(prog.hasher, S, { run_program::<S>(&prog, opts) });
        runs += 1;
        // the writer's first uninterrupted run
        let first_w = r.trace.iter().position(|t| *t == 1);
        let s_steps = match first_w {
            Some(i) => r.trace[i..].iter().take_while(|t| **t == 1).count() as u64,
            None => 0,
        };
        if r.parks == 0 || s_steps == 0 {
            // the writer did not have to wait for the reader in this shape: nothing to cut
            continue;
        }
        if samples.len() < 6 {
            samples.push(format!("park window: writer {:?} blocks after {} steps with the reader inside", wop, s_steps));
        }
        // the reader's run after the writer blocked (its way out of the read lock)
        let r_steps = match first_w {
            Some(i) => r.trace[i + s_steps as usize..].iter().take_while(|t| **t == 0).count() as u64,
            None => 0,
        };
        for k in 1..=max_off.min(16).min(s_steps) {
            // the reader stops 0..4 steps short of finishing inside the window, or does nothing
            for j in (r_steps.saturating_sub(4)..=r_steps).chain(std::iter::once(0)) {
                let script = vec![
                    (0usize, Cond::EntersFn("find_tree_node".into())),
                    (1usize, Cond::Steps(s_steps - k)),
                    (0, Cond::Steps(j)),
                    (1, Cond::Steps(k)),
                    (0, Cond::Done),
                    (1, Cond::Done),
                ];
                let opts = RunOpts { policy: Policy::Directed(script, 0), step_limit: 400_000, freeze: None };
                println!("AT directed template=park_window cut={} reader_steps={} || {}", k, j, program_text(&prog));
                let r = with_hasher!(prog.hasher, S, { run_program::<S>(&prog, opts) });
                runs += 1;
                let mut fails = r.failures.clone();
                match r.verdict {
                    Verdict::Deadlock => fails.push(format!(
                        "C11: deadlock (lost wake-up): every unfinished thread is blocked: {}; schedule: reader until it holds the read lock, writer {} steps, reader {} steps, writer {} steps, reader to the end",
                        r.statuses,
                        s_steps - k,
                        j,
                        k
                    )),
                    Verdict::StepLimit => {
                        fails.push("C11: step limit exceeded".into());
                        fails.extend(stuck_reads(&prog, &r));
                    }
                    _ => {}
                }
                fails.extend(check_history(&prog, &r));
                fails.extend(check_quiescent(&prog, &r));
                for f in first_per_tag(&fails) {
                    found += 1;
                    let tag = if f.starts_with('C') { f[..3].to_string() } else { "C11".to_string() };
                    println!("FOUND {} directed template=park_window cut={} reader_steps={} || {} || {}", tag, k, j, f.replace('\n', " "), program_text(&prog));
                }
            }
        }
    }
    // template 4 (a helper that slept through a generation): thread 0 meets a forwarding marker of
    // the first resize (16 -> 32) and stops inside help_transfer after k of its shared operations;
    // thread 1 completes that resize; thread 2 fills the new table, starts the second resize
    // (32 -> 64) and stops after y operations of its transfer; thread 0 goes on for z operations;
    // thread 2 finishes; thread 0 finishes. The resize must still complete and be published once.
    {
        let prog = Program {
            hasher: types::H_IDENTITY,
            cap: 8,
            prefill: (0..11).collect(),
            threads: vec![
                vec![COp::Insert(31, 131)],
                vec![COp::Insert(11, 111)],
                (12..24).map(|k| COp::Insert(k, 100 + k as i64)).chain(std::iter::once(COp::Get(31))).collect(),
            ],
            universe: 40,
            batch: 1,
            pin: false,
            linger: 0,
        };
        let lim = if want("stale") { max_off.min(12) } else { 0 };
        let mut stale_found = 0u64;
        let quick = max_off <= 40;
        let xs: Vec<u64> = if quick { vec![10, 12, 16] } else { vec![8, 10, 12, 16, 24] };
        for x in xs {
            for k in 1..=(if quick { 4u64 } else { 6 }) {
                for y in 1..=(if quick { lim.min(6) } else { lim }) {
                    for z in 2..=(if quick { 6u64 } else { 7 }) {
                        if stale_found >= 3 {
                            continue;
                        }
                        let script = vec![
                            (1usize, Cond::EntersFn("transfer".into())),
                            (1, Cond::Steps(x)),
                            (0, Cond::EntersFn("help_transfer".into())),
                            (0, Cond::Steps(k)),
                            (1, Cond::Done),
                            (2, Cond::EntersFn("transfer".into())),
                            (2, Cond::Steps(y)),
                            (0, Cond::Steps(z)),
                            (2, Cond::Done),
                            (0, Cond::Done),
                        ];
                        let opts = RunOpts { policy: Policy::Directed(script, 0), step_limit: 400_000, freeze: None };
                        println!("AT directed template=stale_helper x={} k={} y={} z={} || {}", x, k, y, z, program_text(&prog));
                        let r = with_hasher!(prog.hasher, S, { run_program::<S>(&prog, opts) });
                        runs += 1;
                        let mut fails = r.failures.clone();
                        match r.verdict {
                            Verdict::Deadlock => fails.push(format!("C11: deadlock: {}", r.statuses)),
                            Verdict::StepLimit => {
                        fails.push("C11: step limit exceeded".into());
                        fails.extend(stuck_reads(&prog, &r));
                    }
                            _ => {}
                        }
                        fails.extend(check_quiescent(&prog, &r));
                        fails.extend(check_resize_events(&r));
                        fails.extend(check_history(&prog, &r));
                        for f in first_per_tag(&fails) {
                            found += 1;
                            stale_found += 1;
                            let tag = if f.starts_with('C') { f[..3].to_string() } else { "C10".to_string() };
                            println!(
                                "FOUND {} directed template=stale_helper x={} k={} y={} z={} || {} (schedule: thread 1 {} steps into the first transfer; thread 0 {} steps into help_transfer; thread 1 to the end; thread 2 until {} steps into the second transfer; thread 0 {} steps; thread 2 to the end; thread 0 to the end) || {}",
                                tag, x, k, y, z, f.replace('\n', " "), x, k, y, z, program_text(&prog)
                            );
                        }
                    }
                }
            }
        }
        if samples.len() < 8 {
            samples.push(format!("stale helper across two resize generations: {} found", stale_found));
        }
    }
    // template 5 (a reader that slept through two generations): thread 0 starts a lookup and stops
    // after k of its shared operations (it holds the 16-bin table); thread 1 alone inserts enough to
    // complete 16 -> 32 -> 64; the reader then has to follow two levels of forwarding markers
    if want("stalereader") {
        let mut variants: Vec<(Vec<COp>, u32, u64)> = Vec::new();
        // (prefill override) present keys whose hash has bit 16 / 32 set: in the 64-bin table they do
        // not sit where the 16- or 32-bin mask would put them
        let hi_prefill: Vec<u32> = vec![0, 1, 2, 4, 5, 6, 35, 45, 50, 51, 60];
        for (rk, k) in [(3u32, 1u64), (3, 2), (3, 3), (15, 1), (15, 2), (40, 1), (40, 2), (0, 2), (7, 4)] {
            variants.push((vec![COp::Get(rk), COp::ContainsKey(rk)], rk, k));
        }
        // the same for writers holding the stale table: they meet forwarding markers on two levels
        for k in 1..=5u64 {
            for rk in [3u32, 15, 40] {
                variants.push((vec![COp::Insert(rk, 900 + k as i64), COp::Get(rk)], rk, k));
                variants.push((vec![COp::Remove(rk), COp::Get(rk)], rk, k));
                variants.push((vec![COp::Compute(rk, 1), COp::TryInsert(rk, 800 + k as i64)], rk, k));
            }
        }
        for k in 1..=3u64 {
            for rk in [35u32, 45, 50, 51, 60] {
                variants.push((vec![COp::Get(rk), COp::ContainsKey(rk), COp::GetKeyValue(rk)], 1000 + rk, k));
            }
        }
        for (ops0, rk, k) in variants {
            let hi = rk >= 1000;
            let rk = rk % 1000;
            let prog = Program {
                hasher: types::H_IDENTITY,
                cap: 8,
                prefill: if hi { hi_prefill.clone() } else { (0..11).collect() },
                threads: vec![
                    ops0.clone(),
                    if hi { (100..126).map(|x| COp::Insert(x, 100 + x as i64)).collect() } else { (11..36).map(|x| COp::Insert(x, 100 + x as i64)).collect() },
                ],
                universe: 130,
                batch: 1,
                pin: false,
                linger: 0,
            };
            let script = vec![(0usize, Cond::Steps(k)), (1usize, Cond::Done), (0, Cond::Done)];
            let opts = RunOpts { policy: Policy::Directed(script, 0), step_limit: 60_000, freeze: None };
            println!("AT directed template=stale_reader key={} k={} || {}", rk, k, program_text(&prog));
            let r = with_hasher!(prog.hasher, S, { run_program::<S>(&prog, opts) });
            runs += 1;
            let mut fails = r.failures.clone();
            match r.verdict {
                Verdict::Deadlock => fails.push(format!("C11: deadlock: {}", r.statuses)),
                Verdict::StepLimit => fails.push(format!(
                    "C11: a lookup that started on the 16-bin table and resumed after two completed resizes does not return within the step limit (it makes shared-memory operations for ever): {}",
                    r.statuses
                )),
                _ => {}
            }
            fails.extend(check_history(&prog, &r));
            fails.extend(check_quiescent(&prog, &r));
            for f in first_per_tag(&fails) {
                found += 1;
                let tag = if f.starts_with('C') { f[..3].to_string() } else { "C11".to_string() };
                println!("FOUND {} directed template=stale_reader key={} k={} || {} || {}", tag, rk, k, f.replace('\n', " "), program_text(&prog));
            }
        }
        if samples.len() < 9 {
            samples.push("stale reader across two completed resize generations".to_string());
        }
    }
    // template 6 (the element counter lags behind the structure): thread 0 links a new key and stops
    // just before its counter update; thread 1 removes that key (counter: one less than the number
    // of entries - zero with one stable key); thread 2 iterates and asks len / is_empty; thread 0
    // finishes
    if want("lagcount") {
        for (hasher, cap, stable) in [(types::H_IDENTITY, 0u64, 1u32), (types::H_ZERO, 64, 1), (types::H_MIX, 16, 2), (types::H_ZERO, 0, 3)] {
            let prog = Program {
                hasher,
                cap,
                prefill: (0..stable).collect(),
                threads: vec![vec![COp::Insert(stable, 50)], vec![COp::Remove(stable)], vec![COp::Iter, COp::Get(0), COp::ContainsKey(0)]],
                universe: stable + 2,
                batch: 1,
                pin: false,
                linger: 0,
            };
            let script = vec![(0usize, Cond::EntersFn("add_count".into())), (1usize, Cond::Done), (2usize, Cond::Done), (0, Cond::Done)];
            let opts = RunOpts { policy: Policy::Directed(script, 0), step_limit: 60_000, freeze: None };
            println!("AT directed template=lagging_counter stable={} || {}", stable, program_text(&prog));
            let r = with_hasher!(prog.hasher, S, { run_program::<S>(&prog, opts) });
            runs += 1;
            let mut fails = r.failures.clone();
            match r.verdict {
                Verdict::Deadlock => fails.push(format!("C11: deadlock: {}", r.statuses)),
                Verdict::StepLimit => {
                        fails.push("C11: step limit exceeded".into());
                        fails.extend(stuck_reads(&prog, &r));
                    }
                _ => {}
            }
            fails.extend(check_iterators(&prog, &r));
            fails.extend(check_history(&prog, &r));
            fails.extend(check_quiescent(&prog, &r));
            for f in first_per_tag(&fails) {
                found += 1;
                let tag = if f.starts_with('C') { f[..3].to_string() } else { "C07".to_string() };
                println!("FOUND {} directed template=lagging_counter stable={} || {} || {}", tag, stable, f.replace('\n', " "), program_text(&prog));
            }
        }
    }
    // template 7 (a reader walking a tree bin's list while an entry is removed from under it): the
    // writer stops right after taking the tree write lock, the reader - forced onto the next-list -
    // walks k steps, the writer completes the removal, the reader goes on
    if want("listwalk") {
        // the writer removes a first key (the reader, arriving while that write lock is held, walks
        // the list and stops on the node of r), then removes r and stops just before releasing the
        // write lock; the reader resumes, still on the list
        for (a, r) in [(9u32, 5u32), (10, 8), (6, 2), (3, 10)] {
            for k in 1..=max_off.min(48) {
                let prog = Program {
                    hasher: types::H_ZERO,
                    cap: 64,
                    prefill: (0..14).collect(),
                    threads: vec![vec![COp::Get(0), COp::ContainsKey(1)], vec![COp::Remove(a), COp::Remove(r)]],
                    universe: 16,
                    batch: 1,
                    pin: false,
                    linger: 0,
                };
                let script = vec![
                    (1usize, Cond::EntersFn("lock_root".into())),
                    (1, Cond::Steps(1)),
                    (0usize, Cond::Steps(k)),
                    (1, Cond::CompletedOps(1)),
                    (1, Cond::EntersFn("unlock_root".into())),
                    (0, Cond::Done),
                    (1, Cond::Done),
                ];
                let opts = RunOpts { policy: Policy::Directed(script, 0), step_limit: 60_000, freeze: None };
                println!("AT directed template=list_walk remove={} k={} || {}", r, k, program_text(&prog));
                let rr = with_hasher!(prog.hasher, S, { run_program::<S>(&prog, opts) });
                runs += 1;
                let mut fails = rr.failures.clone();
                match rr.verdict {
                    Verdict::Deadlock => fails.push(format!("C11: deadlock: {}", rr.statuses)),
                    Verdict::StepLimit => {
                        fails.push("C11: step limit exceeded".into());
                        fails.extend(stuck_reads(&prog, &rr));
                    }
                    _ => {}
                }
                fails.extend(check_history(&prog, &rr));
                fails.extend(check_quiescent(&prog, &rr));
                for f in first_per_tag(&fails) {
                    found += 1;
                    let tag = if f.starts_with('C') { f[..3].to_string() } else { "C01".to_string() };
                    println!("FOUND {} directed template=list_walk remove={} k={} || {} || {}", tag, r, k, f.replace('\n', " "), program_text(&prog));
                }
            }
        }
    }
    // template 8 (a resize reaches a tree bin whose lock a remover holds; the remover shrinks the
    // bin back to a list before releasing): thread 1 removes colliding keys one by one and stops
    // inside the removal that untreeifies; thread 0's insert starts the resize of the 64-bin table
    // and runs until it waits for that bin's lock; thread 1 finishes; thread 0 finishes
    if want("untreeify") {
        for extra in [0u32, 1, 2] {
            // 9 (+extra) keys in bin 5 of a 64-bin table, 38 - extra others in bins of their own
            let coll: Vec<u32> = (0..9 + extra).map(|j| 5 + 64 * j).collect();
            let others: Vec<u32> = (6..6 + 38 - extra).collect();
            let mut prefill = coll.clone();
            prefill.extend(others.iter());
            let prog = Program {
                hasher: types::H_IDENTITY,
                cap: 42,
                prefill,
                threads: vec![
                    (44..56).map(|k| COp::Insert(k, 600 + k as i64)).chain(std::iter::once(COp::Get(coll[coll.len() - 1]))).collect(),
                    coll.iter().take(6).map(|k| COp::Remove(*k)).collect(),
                    vec![COp::Iter],
                ],
                universe: 64 * 12,
                batch: 1,
                pin: false,
                linger: 0,
            };
            for x in [0u64, 1, 2, 4] {
                let script = vec![
                    (1usize, Cond::EntersFn("untreeify".into())),
                    (1, Cond::Steps(x)),
                    (0usize, Cond::Done),
                    (1, Cond::Done),
                    (0, Cond::Done),
                    (2usize, Cond::Done),
                ];
                let opts = RunOpts { policy: Policy::Directed(script, 0), step_limit: 200_000, freeze: None };
                println!("AT directed template=transfer_vs_untreeify extra={} x={} || {}", extra, x, program_text(&prog));
                let r = with_hasher!(prog.hasher, S, { run_program::<S>(&prog, opts) });
                runs += 1;
                let mut fails = r.failures.clone();
                match r.verdict {
                    Verdict::Deadlock => fails.push(format!("C11: deadlock: {}", r.statuses)),
                    Verdict::StepLimit => {
                        fails.push("C11: step limit exceeded".into());
                        fails.extend(stuck_reads(&prog, &r));
                    }
                    _ => {}
                }
                fails.extend(check_quiescent(&prog, &r));
                fails.extend(check_resize_events(&r));
                fails.extend(check_history(&prog, &r));
                fails.extend(check_iterators(&prog, &r));
                if samples.len() < 10 && x == 0 {
                    samples.push(format!("transfer vs untreeify: {} resize(s), lock waits {}", r.events.iter().filter(|(_, e)| matches!(e, flurry::verif::Event::TablePublished { .. })).count(), r.lock_waits));
                }
                for f in first_per_tag(&fails) {
                    found += 1;
                    let tag = if f.starts_with('C') { f[..3].to_string() } else { "C10".to_string() };
                    println!("FOUND {} directed template=transfer_vs_untreeify extra={} x={} || {} || {}", tag, extra, x, f.replace('\n', " "), program_text(&prog));
                }
            }
        }
    }
    // template 9 (an update of a tree bin that has read the bin entry before a resize moves the bin):
    // thread 1's compute_if_present / insert / remove on a key of a crowded bin makes k steps (it
    // has loaded the bin, it may have taken its lock), thread 0's inserts complete the resize of the
    // 64-bin table (the bin is split: both halves trees, or both lists), thread 1 resumes
    if want("treemoved") {
        for (ncoll, op) in [(16u32, 0u32), (10, 0), (16, 1), (10, 1), (16, 2), (12, 3), (16, 4)] {
            // ncoll keys in bin 5 of a 64-bin table, alternating in the bit the resize splits on
            let coll: Vec<u32> = (0..ncoll).map(|j| 5 + 64 * j).collect();
            let others: Vec<u32> = (6..6 + 46 - ncoll).collect();
            let mut prefill = coll.clone();
            prefill.extend(others.iter());
            let target = coll[(ncoll / 2) as usize];
            let t1 = match op {
                0 => COp::Compute(target, 1),
                1 => COp::Compute(target, 0),
                2 => COp::Insert(target, 77),
                3 => COp::Remove(target),
                _ => COp::Insert(5 + 64 * ncoll, 78),
            };
            for k in 1..=max_off.min(14) {
                let prog = Program {
                    hasher: types::H_IDENTITY,
                    cap: 42,
                    prefill: prefill.clone(),
                    threads: vec![
                        (52..58).map(|k| COp::Insert(k, 600 + k as i64)).collect(),
                        vec![t1.clone(), COp::Get(target)],
                        vec![COp::Get(target), COp::Iter],
                    ],
                    universe: 64 * 18,
                    batch: 1,
                    pin: false,
                    linger: 0,
                };
                let script = vec![(1usize, Cond::Steps(k)), (0usize, Cond::Done), (1, Cond::Done), (0, Cond::Done), (2usize, Cond::Done)];
                let opts = RunOpts { policy: Policy::Directed(script, 0), step_limit: 200_000, freeze: None };
                println!("AT directed template=tree_moved colliding={} op={:?} k={} || {}", ncoll, t1, k, program_text(&prog));
                let r = with_hasher!(prog.hasher, S, { run_program::<S>(&prog, opts) });
                runs += 1;
                let mut fails = r.failures.clone();
                match r.verdict {
                    Verdict::Deadlock => fails.push(format!("C11: deadlock: {}", r.statuses)),
                    Verdict::StepLimit => {
                        fails.push("C11: step limit exceeded".into());
                        fails.extend(stuck_reads(&prog, &r));
                    }
                    _ => {}
                }
                fails.extend(check_history(&prog, &r));
                fails.extend(check_quiescent(&prog, &r));
                fails.extend(check_resize_events(&r));
                fails.extend(check_iterators(&prog, &r));
                if samples.len() < 11 && k == 3 && op == 0 {
                    samples.push(format!("update of a tree bin across its transfer: {} resize(s), lock waits {}", r.events.iter().filter(|(_, e)| matches!(e, flurry::verif::Event::TablePublished { .. })).count(), r.lock_waits));
                }
                for f in first_per_tag(&fails) {
                    found += 1;
                    let tag = if f.starts_with('C') { f[..3].to_string() } else { "C01".to_string() };
                    println!("FOUND {} directed template=tree_moved colliding={} op={:?} k={} || {} || {}", tag, ncoll, t1, k, f.replace('\n', " "), program_text(&prog));
                }
            }
        }
    }
    // template 10 (a reader that pins while a resize is in the middle of moving a list bin): thread 0's
    // insert starts the resize of a 16-bin table and makes k steps inside transfer (the crowded bin
    // is the first one it moves; with a collector batch of 1 whatever it retires is handed over at
    // once), thread 1 begins a lookup of a key of that bin and makes j steps (it holds a node of the
    // old chain), thread 0 completes and drops its guard, thread 1 resumes
    if want("retirewindow") {
        // m: overwrites thread 0 makes first - each retires a value, so that the hand-over of its
        // retirement batch (which seize delays until the batch has more entries than there are
        // threads) falls on each of the retirements inside transfer for some m
        for (keys, rk, m) in (0..8u32).flat_map(|m| [([15u32, 31, 47], 15u32, m), ([15, 47, 31], 47, m)]) {
            let mut prefill: Vec<u32> = keys.to_vec();
            prefill.extend(0..8u32);
            for k in 0..=max_off.min(44) {
                for j in [2u64, 3, 4] {
                    let prog = Program {
                        hasher: types::H_IDENTITY,
                        cap: 0,
                        prefill: prefill.clone(),
                        threads: vec![
                            (0..m).map(|x| COp::Insert(x, 700 + x as i64)).chain(std::iter::once(COp::Insert(9, 609))).collect(),
                            vec![COp::GetKeyValue(rk), COp::Iter],
                            vec![COp::Get(rk)],
                        ],
                        universe: 64,
                        batch: 1,
                        pin: false,
                        linger: 0,
                    };
                    let script = vec![
                        (0usize, Cond::CompletedOps(m as usize)),
                        (0usize, Cond::EntersFn("transfer".into())),
                        (0, Cond::Steps(k)),
                        (1usize, Cond::Steps(j)),
                        (0, Cond::Done),
                        (1, Cond::Done),
                        (2usize, Cond::Done),
                    ];
                    let opts = RunOpts { policy: Policy::Directed(script, 0), step_limit: 60_000, freeze: None };
                    println!("AT directed template=retire_window key={} overwrites={} k={} j={} || {}", rk, m, k, j, program_text(&prog));
                    let r = with_hasher!(prog.hasher, S, { run_program::<S>(&prog, opts) });
                    runs += 1;
                    let mut fails = r.failures.clone();
                    match r.verdict {
                        Verdict::Deadlock => fails.push(format!("C11: deadlock: {}", r.statuses)),
                        Verdict::StepLimit => {
                        fails.push("C11: step limit exceeded".into());
                        fails.extend(stuck_reads(&prog, &r));
                    }
                        _ => {}
                    }
                    fails.extend(check_history(&prog, &r));
                    fails.extend(check_quiescent(&prog, &r));
                    if samples.len() < 12 && k == 5 && j == 3 && m == 4 {
                        samples.push(format!("reader pinning inside the transfer of a list bin: {} resize(s), {} reclaimed blocks", r.events.iter().filter(|(_, e)| matches!(e, flurry::verif::Event::TablePublished { .. })).count(), r.reclaimed));
                    }
                    for f in first_per_tag(&fails) {
                        found += 1;
                        let tag = if f.starts_with('C') { f[..3].to_string() } else { "C03".to_string() };
                        println!("FOUND {} directed template=retire_window key={} overwrites={} k={} j={} || {} || {}", tag, rk, m, k, j, f.replace('\n', " "), program_text(&prog));
                    }
                }
            }
        }
    }
    // template 11 (a traversal - retain, retain_force, an iterator - that started on a small table and
    // goes on while the table doubles several times): thread 0 makes k steps into its traversal,
    // thread 1's reserve takes the 16-bin table through 32 and 64 to 128 bins, thread 0 resumes
    // two and more generations behind
    if want("retaingen") {
        // layouts: keys of few 16-bin bins that end up in many different bins of the later tables
        let layouts: [Vec<u32>; 2] = [vec![1, 2, 3, 5, 17, 18, 19, 21, 33, 49, 50], vec![1, 17, 33, 49, 65, 81, 97, 113, 2, 34, 98]];
        for (op, extra, lay) in [(COp::Retain(2), 40u64, 0usize), (COp::RetainForce(3), 40, 1), (COp::Retain(1), 100, 1), (COp::Iter, 40, 0), (COp::RetainForce(2), 20, 1), (COp::Retain(3), 40, 1), (COp::Iter, 100, 1)] {
            for k in (0..=max_off.min(60)).step_by(2) {
                let prog = Program {
                    hasher: types::H_IDENTITY,
                    cap: 0,
                    prefill: layouts[lay].clone(),
                    threads: vec![vec![op.clone()], vec![COp::Reserve(extra)], vec![COp::Iter]],
                    universe: 128,
                    batch: 1,
                    pin: false,
                    linger: 0,
                };
                let script = vec![(0usize, Cond::Steps(k)), (1usize, Cond::Done), (0, Cond::Done), (2usize, Cond::Done)];
                let opts = RunOpts { policy: Policy::Directed(script, 0), step_limit: 200_000, freeze: None };
                println!("AT directed template=traversal_generations op={:?} reserve={} k={} || {}", op, extra, k, program_text(&prog));
                let r = with_hasher!(prog.hasher, S, { run_program::<S>(&prog, opts) });
                runs += 1;
                let mut fails = r.failures.clone();
                match r.verdict {
                    Verdict::Deadlock => fails.push(format!("C11: deadlock: {}", r.statuses)),
                    Verdict::StepLimit => {
                        fails.push("C11: step limit exceeded".into());
                        fails.extend(stuck_reads(&prog, &r));
                    }
                    _ => {}
                }
                fails.extend(check_iterators(&prog, &r));
                fails.extend(check_history(&prog, &r));
                fails.extend(check_quiescent(&prog, &r));
                if samples.len() < 13 && k == 10 && extra == 40 {
                    samples.push(format!("traversal across generations ({:?}): {} resize(s)", op, r.events.iter().filter(|(_, e)| matches!(e, flurry::verif::Event::TablePublished { .. })).count()));
                }
                for f in first_per_tag(&fails) {
                    found += 1;
                    let tag = if f.starts_with('C') { f[..3].to_string() } else { "C07".to_string() };
                    println!("FOUND {} directed template=traversal_generations op={:?} reserve={} k={} || {} || {}", tag, op, extra, k, f.replace('\n', " "), program_text(&prog));
                }
            }
        }
    }
    // template 12 (a second writer arrives while a removal turns a tree bin back into a list): thread 1
    // removes colliding keys one by one and stops x steps into the untreeify of the removal that
    // shrinks the tree too far; thread 2's remove / compute_if_present / insert on another key of
    // that bin runs (it must wait for the bin lock); thread 1 finishes; thread 2 finishes
    if want("untreeify2") {
        for (i, t2) in [COp::Remove(5 + 64 * 8), COp::Compute(5 + 64 * 8, 1), COp::Insert(5 + 64 * 8, 91), COp::Remove(5 + 64 * 7), COp::Compute(5 + 64 * 7, 0)].iter().enumerate() {
            let coll: Vec<u32> = (0..9).map(|j| 5 + 64 * j).collect();
            let mut prefill = coll.clone();
            prefill.extend(6..20u32);
            let target = match t2 { COp::Remove(k) | COp::Compute(k, _) | COp::Insert(k, _) => *k, _ => 0 };
            for x in 0..=max_off.min(12) {
                let prog = Program {
                    hasher: types::H_IDENTITY,
                    cap: 42,
                    prefill: prefill.clone(),
                    threads: vec![
                        vec![COp::Get(target), COp::Iter],
                        coll.iter().take(6).map(|k| COp::Remove(*k)).collect(),
                        vec![t2.clone(), COp::Get(target)],
                    ],
                    universe: 64 * 10,
                    batch: 1,
                    pin: false,
                    linger: 0,
                };
                let script = vec![
                    (1usize, Cond::EntersFn("untreeify".into())),
                    (1, Cond::Steps(x)),
                    (2usize, Cond::Done),
                    (1, Cond::Done),
                    (2, Cond::Done),
                    (0usize, Cond::Done),
                ];
                let opts = RunOpts { policy: Policy::Directed(script, 0), step_limit: 200_000, freeze: None };
                println!("AT directed template=second_writer_at_untreeify variant={} x={} || {}", i, x, program_text(&prog));
                let r = with_hasher!(prog.hasher, S, { run_program::<S>(&prog, opts) });
                runs += 1;
                let mut fails = r.failures.clone();
                match r.verdict {
                    Verdict::Deadlock => fails.push(format!("C11: deadlock: {}", r.statuses)),
                    Verdict::StepLimit => {
                        fails.push("C11: step limit exceeded".into());
                        fails.extend(stuck_reads(&prog, &r));
                    }
                    _ => {}
                }
                fails.extend(check_history(&prog, &r));
                fails.extend(check_quiescent(&prog, &r));
                fails.extend(check_iterators(&prog, &r));
                if samples.len() < 14 && x == 2 && i == 0 {
                    samples.push(format!("second writer at untreeify: lock waits {}", r.lock_waits));
                }
                for f in first_per_tag(&fails) {
                    found += 1;
                    let tag = if f.starts_with('C') { f[..3].to_string() } else { "C03".to_string() };
                    println!("FOUND {} directed template=second_writer_at_untreeify variant={} x={} || {} || {}", tag, i, x, f.replace('\n', " "), program_text(&prog));
                }
            }
        }
    }
    println!("JSON {}", json!({"runs": runs, "found": found, "samples": samples}));
}

/// single-threaded variant of C07: next() calls interleaved with inserts that complete whole resizes
fn cmd_travseq(args: &[String]) {
    // travseq <seed> <n> <out.v>
    use crate::dump::{bin_coq, canon, CBin};
    use flurry::HashMap;
    let seed: u64 = args[0].parse().unwrap();
    let n: u64 = args[1].parse().unwrap();
    silence_panics();
    let mut rng = types::SplitMix64(seed ^ 0x5E9);
    let mut coq = String::from(
        "From Flurry Require Import Model.Trav Model.Check.\nImport ListNotations.\n\
         Fixpoint drain_n (calls fuel : nat) (f : forest) (it : titer) : list node * titer :=\n\
         \x20 match calls with O => ([], it) | S c => match advance fuel f it with\n\
         \x20   | (Some x, it') => let '(l, it'') := drain_n c fuel f it' in (x :: l, it'')\n\
         \x20   | (None, it') => ([], it') end end.\n\
         Definition across (f0 : forest) (j : nat) (f1 : forest) : list node :=\n\
         \x20 let '(l1, it) := drain_n j (trav_fuel f0) f0 (new_iter f0) in\n\
         \x20 l1 ++ drain (S (total_nodes f1) + length (i_rest it)) (trav_fuel f1) f1 it.\n\
         Definition keys_lt (m : N) (l : list N) : list N := filter (fun k => N.ltb k m) l.\n",
    );
    let mut cases = 0u64;
    let mut found = 0u64;
    let mut gens = std::collections::BTreeMap::<u32, u64>::new();
    let mut samples = Vec::new();
    for _ in 0..n {
        let hasher = [types::H_IDENTITY, types::H_MIX, types::H_IDENTITY, types::H_HIGH, types::H_SAMEBIN, types::H_HIGHONES][rng.below(6) as usize];
        let cap = [8u64, 8, 16, 32, 1][rng.below(5) as usize];
        let m = 3 + rng.below(9) as u32;
        let j = rng.below(m as u64 + 1) as usize;
        let extra = [8u32, 20, 40, 100, 200][rng.below(5) as usize];
        let (d0, d1, yielded) = with_hasher!(hasher, S, {
            let map: HashMap<types::Key, types::Val, S> = HashMap::with_capacity_and_hasher(cap as usize, S::default());
            let g = map.guard();
            for k in 0..m {
                map.insert(types::Key::new(k, 0), types::Val::new(1000 + k as i64), &g);
            }
            let d0 = canon(&map.verif_dump(&g));
            let mut it = map.iter(&g);
            let mut yielded: Vec<(u32, i64)> = Vec::new();
            for _ in 0..j {
                if let Some((k, v)) = it.next() {
                    yielded.push((k.id, v.payload));
                }
            }
            for k in m..m + extra {
                map.insert(types::Key::new(k, 0), types::Val::new(1000 + k as i64), &g);
            }
            let d1 = canon(&map.verif_dump(&g));
            let mut budget = 100_000;
            while let Some((k, v)) = it.next() {
                yielded.push((k.id, v.payload));
                budget -= 1;
                if budget == 0 {
                    break;
                }
            }
            (d0, d1, yielded)
        });
        cases += 1;
        let (l0, l1) = (d0.len(), d1.len());
        let g = if l0 == 0 { 0 } else { (l1 / l0).trailing_zeros() };
        *gens.entry(g).or_insert(0) += 1;
        // model-free: every original key exactly once, nothing twice, values right
        let mut cnt = std::collections::HashMap::<u32, u32>::new();
        let mut bad = None;
        for (k, v) in &yielded {
            *cnt.entry(*k).or_insert(0) += 1;
            if *v != 1000 + *k as i64 {
                bad = Some(format!("yielded ({}, {}) which was never in the map", k, v));
            }
        }
        for k in 0..m {
            let c = cnt.get(&k).cloned().unwrap_or(0);
            if c != 1 {
                bad = Some(format!("key {} was present and untouched during the iteration but was yielded {} times", k, c));
            }
        }
        for (k, c) in &cnt {
            if *c > 1 {
                bad = Some(format!("key {} was yielded {} times", k, c));
            }
        }
        let desc = format!(
            "hasher={} with_capacity({}) initial keys 0..{}, {} next() calls, then insert keys {}..{} ({} -> {} bins), then drain",
            types::HASHER_NAMES[hasher as usize], cap, m, j, m, m + extra, l0, l1
        );
        if let Some(b) = bad {
            found += 1;
            println!("FOUND C07 {} || {}", b, desc);
        }
        if samples.len() < 3 && g >= 2 {
            samples.push(desc.clone());
        }
        // Coq: the model iterates the same two-phase structure; the original keys must come out in the same order
        let tab = |t: &crate::dump::CTable| {
            format!(
                "expand {} [{}]",
                t.bins.len(),
                t.bins.iter().enumerate().filter(|(_, b)| !matches!(b, CBin::Empty)).map(|(i, b)| format!("B_ {} ({})", i, bin_coq(b))).collect::<Vec<_>>().join(";")
            )
        };
        if let (Some(t0), Some(t1)) = (&d0.table, &d1.table) {
            let mut f1 = Vec::new();
            let mut len = l0;
            while len < l1 {
                f1.push(format!("repeat BMoved {}", len));
                len *= 2;
            }
            f1.push(tab(t1));
            coq.push_str(&format!(
                "Eval vm_compute in (list_eqb N.eqb (keys_lt {} (map nk (across [{}] {} [{}]))) (keys_lt {} [{}])).\n",
                m,
                tab(t0),
                j,
                f1.join("; "),
                m,
                yielded.iter().map(|(k, _)| format!("{}%N", k)).collect::<Vec<_>>().join(";")
            ));
        }
    }
    std::fs::write(&args[2], coq).expect("write");
    println!("JSON {}", json!({"cases": cases, "found": found, "generations_crossed": gens, "samples": samples}));
}

fn cmd_trav(args: &[String]) {
    // trav <seed> <max_k> <out.v>: iterate a table whose resize is suspended after k steps and
    // print (forest, yielded sequence) pairs for the Coq traverser model
    use conc::*;
    use hooks::Policy;
    let seed: u64 = args[0].parse().unwrap();
    let max_k: u64 = args[1].parse().unwrap();
    let stride: u64 = args.get(3).and_then(|x| x.parse().ok()).unwrap_or(4);
    silence_panics();
    hooks::install();
    let mut rng = types::SplitMix64(seed ^ 0x7A7);
    let mut coq = String::from("From Flurry Require Import Model.Trav Model.Check.\nImport ListNotations.\nDefinition kv (n : node) := (nk n, nv n).\nDefinition kv_eqb (a b : N * Z) := (N.eqb (fst a) (fst b) && Z.eqb (snd a) (snd b))%bool.\n");
    let mut forests = 0u64;
    let mut two_level = 0u64;
    let mut found = 0u64;
    let mut samples = Vec::new();
    let scenarios: Vec<(u8, u64, u32)> = vec![
        (types::H_IDENTITY, 8, 11),   // 16 bins, resize at 12
        (types::H_MIX, 8, 11),
        (types::H_IDENTITY, 32, 47),  // 64 bins, resize at 48
        (types::H_MIX, 32, 47),
        (types::H_HIGH, 32, 47),      // everything in bin 0: a tree bin that is split
        (types::H_SAMEBIN, 32, 47),
    ];
    for (hasher, cap, fill) in &scenarios {
        let mut k = 1 + rng.below(3);
        while k <= max_k {
            let prog = Program {
                hasher: *hasher,
                cap: *cap,
                prefill: (0..*fill).collect(),
                threads: vec![vec![COp::Insert(*fill, 7)], vec![COp::Iter]],
                universe: fill + 2,
                batch: 1,
                pin: false,
                linger: 0,
            };
            let opts = RunOpts { policy: Policy::Prefer(0), step_limit: 400_000, freeze: Some((0, k, 1)) };
            let r = with_hasher!(*hasher, S, { run_program::<S>(&prog, opts) });
            let writer_steps = *r.steps_of.get(0).unwrap_or(&0);
            if let Some(d) = &r.frozen_dump {
                let yielded: Vec<(u32, i64)> = r
                    .calls
                    .iter()
                    .filter_map(|c| match &c.out { Res::Iterated(_, items) => Some(items.iter().map(|x| (x.1, x.2)).collect::<Vec<_>>()), _ => None })
                    .next()
                    .unwrap_or_default();
                let tab = |t: &crate::dump::CTable| {
                    format!(
                        "expand {} [{}]",
                        t.bins.len(),
                        t.bins.iter().enumerate().filter(|(_, b)| !matches!(b, crate::dump::CBin::Empty)).map(|(i, b)| format!("B_ {} ({})", i, crate::dump::bin_coq(b))).collect::<Vec<_>>().join(";")
                    )
                };
                if let Some(t0) = &d.table {
                    let mut f = vec![tab(t0)];
                    if let Some(t1) = &d.next {
                        f.push(tab(t1));
                        two_level += 1;
                    }
                    forests += 1;
                    coq.push_str(&format!(
                        "Eval vm_compute in (list_eqb kv_eqb (map kv (iterate [{}])) [{}]).\n",
                        f.join("; "),
                        yielded.iter().map(|(k, v)| format!("({}%N,{}%Z)", k, v)).collect::<Vec<_>>().join(";")
                    ));
                    if samples.len() < 3 && d.next.is_some() {
                        let moved = t0.bins.iter().filter(|b| matches!(b, crate::dump::CBin::Moved)).count();
                        samples.push(format!("hasher={} table {} bins ({} forwarded) + next table; writer suspended after {} steps; iterator yielded {} entries",
                            types::HASHER_NAMES[*hasher as usize], t0.bins.len(), moved, k, yielded.len()));
                    }
                }
            }
            for f in r.failures.iter().filter(|f| f.starts_with("C07") || f.starts_with("panic")).take(1) {
                found += 1;
                println!("FOUND C07 resize suspended after {} steps || {} || {}", k, f, program_text(&prog));
            }
            for f in check_iterators(&prog, &r).iter().take(1) {
                found += 1;
                println!("FOUND C07 resize suspended after {} steps || {} || {}", k, f, program_text(&prog));
            }
            if writer_steps < k {
                break;
            }
            k += 1 + rng.below(stride);
        }
    }
    std::fs::write(&args[2], coq).expect("write");
    println!("JSON {}", json!({"forests": forests, "two_level_forests": two_level, "found": found, "samples": samples}));
}

fn cmd_c12(args: &[String]) {
    // c12 <seed> <max_freeze_points>
    use conc::*;
    use hooks::{Policy, Verdict};
    let max_k: u64 = args[1].parse().unwrap();
    silence_panics();
    hooks::install();
    let mut runs = 0u64;
    let mut found = 0u64;
    let mut max_reader_steps = 0u64;
    let mut frozen_inside_cs = 0u64;
    let mut samples = Vec::new();
    // (name, hasher, cap, prefill, writer op)
    let scenarios: Vec<(&str, u8, u64, Vec<u32>, COp)> = vec![
        ("insert new key into a list bin", types::H_SAMEBIN, 16, (0..4).collect(), COp::Insert(5, 50)),
        ("replace a value in a list bin", types::H_SAMEBIN, 16, (0..4).collect(), COp::Insert(2, 51)),
        ("remove from a list bin", types::H_SAMEBIN, 16, (0..4).collect(), COp::Remove(1)),
        ("compute_if_present (replace) in a list bin", types::H_SAMEBIN, 16, (0..4).collect(), COp::Compute(2, 1)),
        ("compute_if_present (remove) in a list bin", types::H_SAMEBIN, 16, (0..4).collect(), COp::Compute(2, 0)),
        ("clear", types::H_IDENTITY, 16, (0..6).collect(), COp::Clear),
        ("first insert into a never-allocated map (lazy initialisation)", types::H_IDENTITY, 0, vec![], COp::Insert(1, 49)),
        ("first reserve on a never-allocated map", types::H_MIX, 0, vec![], COp::Reserve(20)),
        ("insert that triggers a resize", types::H_IDENTITY, 8, (0..11).collect(), COp::Insert(11, 52)),
        ("reserve (resize of a populated table)", types::H_IDENTITY, 8, (0..9).collect(), COp::Reserve(40)),
        ("insert that treeifies a bin", types::H_ZERO, 64, (0..8).collect(), COp::Insert(8, 53)),
        ("insert into a tree bin", types::H_ZERO, 64, (0..12).collect(), COp::Insert(12, 54)),
        ("remove from a tree bin (restructuring)", types::H_ZERO, 64, (0..12).collect(), COp::Remove(3)),
        ("remove that untreeifies a bin", types::H_ZERO, 64, (0..9).collect(), COp::Remove(0)),
        ("retain on a tree bin", types::H_ZERO, 64, (0..12).collect(), COp::Retain(2)),
        ("resize that splits a tree bin", types::H_HIGH, 64, (0..47).collect(), COp::Insert(47, 55)),
    ];
    // keys of low and of high bins (a transfer forwards the high bins first), present and absent
    let readers = vec![
        COp::Get(2),
        COp::Get(99),
        COp::ContainsKey(1),
        COp::GetKeyValue(3),
        COp::Get(15),
        COp::ContainsKey(31),
        COp::GetKeyValue(10),
        COp::Get(46),
        COp::Iter,
        COp::Len,
    ];
    for (name, hasher, cap, prefill, wop) in &scenarios {
        for rop in &readers {
            let mut k = 1u64;
            loop {
                let prog = Program {
                    hasher: *hasher,
                    cap: *cap,
                    prefill: prefill.clone(),
                    threads: vec![vec![wop.clone()], vec![rop.clone()]],
                    universe: 100,
                    batch: 1,
                    pin: false,
                    linger: 0,
                };
                let opts = RunOpts { policy: Policy::Prefer(0), step_limit: 30_000, freeze: Some((0, k, 1)) };
                let r = with_hasher!(*hasher, S, { run_program::<S>(&prog, opts) });
                runs += 1;
                max_reader_steps = max_reader_steps.max(*r.steps_of.get(1).unwrap_or(&0));
                if r.lock_waits > 0 {
                    frozen_inside_cs += 1;
                }
                let mut fails: Vec<String> = r.failures.iter().filter(|f| f.starts_with("C12") || f.starts_with("panic")).cloned().collect();
                if r.verdict == Verdict::StepLimit {
                    fails.push("C12: the read did not finish within the step limit while the writer was suspended".into());
                }
                if *r.steps_of.get(1).unwrap_or(&0) > 5000 {
                    fails.push(format!("C12: the read needed {} of its own steps", r.steps_of[1]));
                }
                for f in first_per_tag(&fails) {
                    found += 1;
                    println!("FOUND C12 writer `{}` suspended after {} steps, reader {:?} || {}", name, k, rop, f);
                }
                if samples.len() < 4 && k == 7 {
                    samples.push(format!("writer `{}` suspended after {} of its steps; reader {:?} finished in {} steps", name, k, rop, r.steps_of.get(1).unwrap_or(&0)));
                }
                // stop once the writer finished before reaching its k-th yield point
                let writer_steps = *r.steps_of.get(0).unwrap_or(&0);
                // a resize needs a few hundred writer steps before the low bins are forwarded
                let limit = if name.contains("resize") || name.contains("reserve") { max_k.max(260) } else { max_k };
                if writer_steps < k || k >= limit {
                    break;
                }
                // beyond the first max_k suspension points, every third one
                k += if k > max_k && max_k < 200 { 3 } else { 1 };
            }
        }
    }
    println!(
        "JSON {}",
        json!({"runs": runs, "scenarios": scenarios.len(), "readers": readers.len(), "found": found,
               "max_reader_steps": max_reader_steps, "samples": samples, "runs_with_lock_waits": frozen_inside_cs})
    );
}

fn cmd_atomics(args: &[String]) {
    // atomics <gen.json>: the orderings actually passed at executed sites vs. the static table
    let gen = std::fs::read_to_string(&args[0]).expect("gen.json");
    let gen: serde_json::Value = serde_json::from_str(&gen).expect("gen.json parse");
    let mut table: Vec<(String, u32, String, String, String)> = Vec::new(); // file, line, method, ords, fn
    for r in gen["atomics"].as_array().unwrap() {
        table.push((
            r["file"].as_str().unwrap().to_string(),
            r["line"].as_u64().unwrap() as u32,
            r["method"].as_str().unwrap().to_string(),
            r["ords"].as_str().unwrap().to_string(),
            r["fn"].as_str().unwrap().to_string(),
        ));
    }
    silence_panics();
    hooks::install();
    // workload: sequential cases of all flavours + a few scheduled programs, everything recorded
    let mut seen: std::collections::BTreeMap<(String, u32, String, String), u64> = std::collections::BTreeMap::new();
    let mut record = |log: hooks::ThreadLog| {
        for o in log.ops {
            if !o.file.contains("/repo/src/") && !o.file.starts_with("src/") {
                // an Atomic::clone made inside std (vec![Atomic::null(); n] in Table::new): the
                // caller location is std's; these are copies of a null pointer of a private table
                continue;
            }
            let file = o.file.rsplit("/src/").next().unwrap_or(o.file).to_string();
            let kind = match o.kind {
                flurry::verif::Kind::Load => "load",
                flurry::verif::Kind::Store => "store",
                flurry::verif::Kind::Swap => "swap",
                flurry::verif::Kind::Cas => "compare_exchange",
                flurry::verif::Kind::Rmw => "rmw",
                flurry::verif::Kind::CloneLoad => "clone",
            };
            let ords = match o.ord_fail {
                Some(f) => format!("{:?},{:?}", o.ord, f),
                None => format!("{:?}", o.ord),
            };
            *seen.entry((file, o.line, kind.to_string(), ords)).or_insert(0) += 1;
        }
    };
    let mut rng = types::SplitMix64(7);
    for i in 0..60u64 {
        let mut crng = rng.fork();
        let case = if i % 3 == 0 { seq::gen_tree_case(&mut crng, i) } else { seq::gen_case(&mut crng, i, i % 2 == 0) };
        hooks::clear_log();
        hooks::set_mode(hooks::Mode::Record);
        let _ = with_hasher!(case.hasher, S, { seq::run_case::<S>(&case) });
        hooks::set_mode(hooks::Mode::Off);
        record(hooks::take_log());
    }
    let total: u64 = seen.values().sum();
    let wrappers: Vec<(String, String)> = table
        .iter()
        .filter(|t| ["bin", "cas_bin", "store_bin", "next_table"].contains(&t.4.as_str()))
        .map(|t| (t.2.clone(), t.3.clone()))
        .collect();
    let mut unlisted = Vec::new();
    let mut matched = 0u64;
    for ((file, line, kind, ords), n) in &seen {
        let hit = table.iter().any(|t| {
            &t.0 == file
                && (t.1 as i64 - *line as i64).abs() <= 25
                && (&t.3 == ords || (kind == "compare_exchange" && !ords.contains(',') && t.3.split(',').next() == Some(ords.as_str())))
                && (&t.2 == kind || (kind == "rmw" && (t.2 == "fetch_add" || t.2 == "fetch_sub")))
        }) || wrappers.iter().any(|w| &w.0 == kind && &w.1 == ords);
        if hit {
            matched += 1;
        } else {
            unlisted.push(format!("{}:{} {} [{}] x{}", file, line, kind, ords, n));
        }
    }
    for u in unlisted.iter().take(5) {
        println!("FOUND C15 executed atomic operation without a matching row in the static ordering table: {}", u);
    }
    println!(
        "JSON {}",
        json!({"dynamic_sites": seen.len(), "matched": matched, "unlisted": unlisted.len(), "operations_executed": total,
               "static_rows": table.len(), "samples": seen.keys().take(4).map(|k| format!("{}:{} {} [{}]", k.0, k.1, k.2, k.3)).collect::<Vec<_>>()})
    );
}

fn main() {
    let args: Vec<String> = std::env::args().collect();
    if args.len() < 2 {
        eprintln!("usage: harness <api|...> ...");
        std::process::exit(2);
    }
    match args[1].as_str() {
        "api" => cmd_api(&args[2..]),
        "seq" => cmd_seq(&args[2..]),
        "c12" => cmd_c12(&args[2..]),
        "trav" => cmd_trav(&args[2..]),
        "travseq" => cmd_travseq(&args[2..]),
        "directed" => cmd_directed(&args[2..]),
        "binsim" => cmd_binsim(&args[2..]),
        "sets" => cmd_sets(&args[2..]),
        "setconc" => cmd_setconc(&args[2..]),
        "clonepanic" => cmd_clonepanic(&args[2..]),
        "tlsim" => cmd_tlsim(&args[2..]),
        "atomics" => cmd_atomics(&args[2..]),
        "panic" => cmd_panic(&args[2..]),
        "bulk" => cmd_bulk(&args[2..]),
        "capacity" => cmd_capacity(&args[2..]),
        "conc" => cmd_conc(&args[2..]),
        other => {
            eprintln!("unknown subcommand {}", other);
            std::process::exit(2);
        }
    }
}
