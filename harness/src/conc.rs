//! Concurrent runs under the deterministic scheduler: small multi-threaded programs, history
//! recording, and the model-free checkers (linearizability per key, compute atomicity, retain
//! semantics, iterator weak consistency, resize protocol events, termination, quiescent state).
#![allow(dead_code)]

use crate::dump::{canon, CBin, CDump};
use crate::hooks::{self, Mode, Policy, Sched, Verdict};
use crate::seq::{keep, remap};
use crate::types::*;
use flurry::verif::Event;
use flurry::HashMap;
use std::collections::{BTreeMap, HashMap as StdHashMap};
use std::hash::BuildHasher;
use std::panic::{catch_unwind, AssertUnwindSafe};
use std::sync::{Arc, Mutex};

#[derive(Clone, Debug, PartialEq)]
pub enum COp {
    Get(u32),
    GetKeyValue(u32),
    ContainsKey(u32),
    Insert(u32, i64),
    TryInsert(u32, i64),
    Remove(u32),
    RemoveEntry(u32),
    /// compute_if_present with remapping function f
    Compute(u32, u32),
    Retain(u32),
    RetainForce(u32),
    /// retain (false) / retain_force (true) whose predicate, when shown key `.0`, first replaces
    /// that key's value by `.1` through the map itself and then rejects the entry
    RetainTouch(u32, i64, bool),
    Iter,
    Reserve(u64),
    Clear,
    Len,
}

#[derive(Clone, Debug)]
pub struct Program {
    pub hasher: u8,
    pub cap: u64,
    /// keys inserted (value = 1000 + key) before the threads start
    pub prefill: Vec<u32>,
    pub threads: Vec<Vec<COp>>,
    pub universe: u32,
    pub batch: usize,
    pub pin: bool,
    /// how many extra yields a thread makes while holding a returned reference
    pub linger: u32,
}

#[derive(Clone, Debug, PartialEq)]
pub enum Res {
    None,
    Val(i64),
    KV(u32, i64),
    Bool(bool),
    Exists(i64),
    Inserted,
    /// compute: (value shown to the callback, value returned)
    /// compute_if_present: value shown to the function, value returned, step at which the function ran (0 = never)
    Computed(Option<i64>, Option<i64>, u64),
    /// retain: per predicate call (step, key, value shown, verdict)
    Retained(Vec<(u64, u32, i64, bool)>),
    /// iter: creation step, then (step, key, value) per yielded item
    Iterated(u64, Vec<(u64, u32, i64)>),
    Num(i64),
    Unit,
}

#[derive(Clone, Debug)]
pub struct Call {
    pub tid: usize,
    pub op: COp,
    pub inv: u64,
    pub res: u64,
    pub out: Res,
}

pub struct RunResult {
    pub verdict: Verdict,
    pub trace: Vec<u16>,
    pub calls: Vec<Call>,
    pub events: Vec<(usize, Event)>,
    pub final_dump: Option<CDump>,
    pub final_get: Vec<(u32, Option<i64>)>,
    pub final_hashes: Vec<(u32, u64)>,
    pub final_len: usize,
    pub final_iter: Vec<(u32, i64)>,
    pub failures: Vec<String>,
    pub steps: u64,
    pub lock_waits: u64,
    pub parks: u64,
    pub cas_like_conflicts: u64,
    pub reclaimed: u64,
    pub steps_of: Vec<u64>,
    pub read_locks: u64,
    pub statuses: String,
    /// freeze runs: the structure the solo thread saw (taken while the writer was suspended)
    pub frozen_dump: Option<CDump>,
    pub trace_sites: Vec<hooks::TraceSite>,
    /// happens-before tracker: dereferences checked, of which of objects allocated by another
    /// thread, acquire joins
    pub hb_stats: (u64, u64, u64),
}

/// The remapping functions of the concurrent programs. Values must identify allocations: the
/// crate compares an observed value with the current one by pointer (retain), the specification by
/// value, so no two writes of a run may produce the same payload for a key. Inserted values are
/// distinct small numbers (< 10^6); a computed value moves its argument into a higher band, so
/// values grow strictly along a chain of computes and chains from different inserts stay apart
/// (they differ modulo 10^6).
pub fn cremap(f: u32, _k: u32, v: i64) -> Option<i64> {
    match f {
        0 => None,
        1 => Some(v + 1_000_000),
        2 => Some(v + 2_000_000),
        _ => {
            if v % 2 == 0 {
                None
            } else {
                Some(v + 3_000_000)
            }
        }
    }
}

fn now(s: &Sched) -> u64 {
    s.inner.lock().unwrap().step
}

fn linger(s: &Arc<Sched>, tid: usize, n: u32) {
    for _ in 0..n {
        // an extra yield point while a reference is held
        if s.yield_public(tid).is_err() {
            std::panic::resume_unwind(Box::new(hooks::Abort));
        }
    }
}

fn run_op<S: BuildHasher>(
    map: &HashMap<Key, Val, S>,
    p: &Program,
    tid: usize,
    op: &COp,
    s: &Arc<Sched>,
    inst: u32,
    fails: &Mutex<Vec<String>>,
    calls: &Mutex<Vec<Call>>,
) -> Res {
    let guard = map.guard();
    let mref = map.pin();
    let pin = p.pin;
    let check = |v: &Val, what: &str| {
        let before = v.payload;
        linger(s, tid, p.linger);
        if !v.alive() || v.payload != before {
            fails.lock().unwrap().push(format!(
                "C03: reference returned by {} was invalidated while its guard was held (thread {})",
                what, tid
            ));
        }
    };
    match op {
        COp::Get(k) => {
            // cost of a lookup in a crowded bin while nobody writes (C06): every key of the program
            // collides, the bin is a tree, the program only reads
            let read_only = p.hasher == H_ZERO
                && p.cap >= 64
                && p.prefill.len() >= 16
                && p.threads.iter().all(|ops| ops.iter().all(|o| matches!(o, COp::Get(_) | COp::ContainsKey(_) | COp::GetKeyValue(_))));
            if read_only {
                reset_cmp();
            }
            let r = if pin { mref.get(&Key::probe(*k)) } else { map.get(&Key::probe(*k), &guard) };
            if read_only {
                let (e, o) = cmp_calls();
                let n = p.prefill.len();
                let bound = (4.0 * ((n + 1) as f64).log2()).ceil() as u64;
                if e + o > bound {
                    fails.lock().unwrap().push(format!(
                        "C06: lookup of key {} by thread {} in a tree bin of {} nodes cost {} key comparisons (> 4*log2(n+1) = {}) although no writer exists",
                        k, tid, n, e + o, bound
                    ));
                }
            }
            match r {
                Some(v) => {
                    let out = Res::Val(v.payload);
                    check(v, "get");
                    out
                }
                None => Res::None,
            }
        }
        COp::GetKeyValue(k) => {
            let r = if pin { mref.get_key_value(&Key::probe(*k)) } else { map.get_key_value(&Key::probe(*k), &guard) };
            match r {
                Some((kk, v)) => {
                    let out = Res::KV(kk.id, v.payload);
                    check(v, "get_key_value");
                    if !kk.alive() {
                        fails.lock().unwrap().push("C03: key reference returned by get_key_value is dead".into());
                    }
                    out
                }
                None => Res::None,
            }
        }
        COp::ContainsKey(k) => Res::Bool(if pin { mref.contains_key(&Key::probe(*k)) } else { map.contains_key(&Key::probe(*k), &guard) }),
        COp::Insert(k, v) => {
            let key = Key::new(*k, inst);
            let r = if pin { mref.insert(key, Val::new(*v)) } else { map.insert(key, Val::new(*v), &guard) };
            match r {
                Some(old) => {
                    let out = Res::Val(old.payload);
                    check(old, "insert");
                    out
                }
                None => Res::None,
            }
        }
        COp::TryInsert(k, v) => {
            let key = Key::new(*k, inst);
            let r = if pin { mref.try_insert(key, Val::new(*v)) } else { map.try_insert(key, Val::new(*v), &guard) };
            match r {
                Ok(_) => Res::Inserted,
                Err(e) => {
                    let out = Res::Exists(e.current.payload);
                    if !e.not_inserted.alive() || e.not_inserted.payload != *v {
                        fails.lock().unwrap().push("C04: try_insert did not hand the refused value back intact".into());
                    }
                    check(e.current, "try_insert");
                    out
                }
            }
        }
        COp::Remove(k) => {
            let r = if pin { mref.remove(&Key::probe(*k)) } else { map.remove(&Key::probe(*k), &guard) };
            match r {
                Some(v) => {
                    let out = Res::Val(v.payload);
                    check(v, "remove");
                    out
                }
                None => Res::None,
            }
        }
        COp::RemoveEntry(k) => {
            let r = if pin { mref.remove_entry(&Key::probe(*k)) } else { map.remove_entry(&Key::probe(*k), &guard) };
            match r {
                Some((kk, v)) => {
                    let out = Res::KV(kk.id, v.payload);
                    check(v, "remove_entry");
                    if !kk.alive() {
                        fails.lock().unwrap().push("C03: key reference returned by remove_entry is dead".into());
                    }
                    out
                }
                None => Res::None,
            }
        }
        COp::Compute(k, f) => {
            let mut calls = 0u32;
            let mut seen = None;
            let mut ran_at = 0u64;
            let fun = |kk: &Key, v: &Val| {
                calls += 1;
                ran_at = now(s);
                seen = Some(v.payload);
                if !v.alive() || !kk.alive() {
                    fails.lock().unwrap().push("C03: compute_if_present callback was shown a dead key/value".into());
                }
                cremap(*f, kk.id, v.payload).map(Val::new)
            };
            let r = if pin { mref.compute_if_present(&Key::probe(*k), fun) } else { map.compute_if_present(&Key::probe(*k), fun, &guard) };
            let ret = r.map(|v| v.payload);
            if calls > 1 {
                fails.lock().unwrap().push(format!("C08: remapping function invoked {} times in one call", calls));
            }
            Res::Computed(seen, ret, ran_at)
        }
        COp::Retain(pi) | COp::RetainForce(pi) => {
            let mut log = Vec::new();
            let f = |kk: &Key, v: &Val| {
                let verdict = keep(*pi, kk.id, v.payload);
                log.push((now(s), kk.id, v.payload, verdict));
                verdict
            };
            let force = matches!(op, COp::RetainForce(_));
            match (pin, force) {
                (true, false) => mref.retain(f),
                (true, true) => mref.retain_force(f),
                (false, false) => map.retain(f, &guard),
                (false, true) => map.retain_force(f, &guard),
            }
            Res::Retained(log)
        }
        COp::RetainTouch(tk, nv, force) => {
            let mut log = Vec::new();
            let mut touched = false;
            let f = |kk: &Key, v: &Val| {
                let shown = now(s);
                if kk.id == *tk && !touched {
                    touched = true;
                    // the value changes after the predicate was handed `v`: a nested, completed insert
                    let g2 = map.guard();
                    let inv = now(s);
                    let old = map.insert(Key::new(*tk, inst), Val::new(*nv), &g2).map(|o| o.payload);
                    let res = now(s);
                    calls.lock().unwrap().push(Call {
                        tid,
                        op: COp::Insert(*tk, *nv),
                        inv,
                        res,
                        out: match old { Some(o) => Res::Val(o), None => Res::None },
                    });
                    log.push((shown, kk.id, v.payload, false));
                    false
                } else {
                    log.push((shown, kk.id, v.payload, true));
                    true
                }
            };
            if *force { map.retain_force(f, &guard) } else { map.retain(f, &guard) }
            Res::Retained(log)
        }
        COp::Iter => {
            let created = now(s);
            let mut items = Vec::new();
            let mut budget = 100_000;
            if pin {
                for (k, v) in mref.iter() {
                    items.push((now(s), k.id, v.payload));
                    if !v.alive() || !k.alive() {
                        fails.lock().unwrap().push("C03: iterator yielded a dead key/value".into());
                    }
                    budget -= 1;
                    if budget == 0 {
                        fails.lock().unwrap().push("C07: iterator did not terminate".into());
                        break;
                    }
                }
            } else {
                for (k, v) in map.iter(&guard) {
                    items.push((now(s), k.id, v.payload));
                    if !v.alive() || !k.alive() {
                        fails.lock().unwrap().push("C03: iterator yielded a dead key/value".into());
                    }
                    budget -= 1;
                    if budget == 0 {
                        fails.lock().unwrap().push("C07: iterator did not terminate".into());
                        break;
                    }
                }
            }
            Res::Iterated(created, items)
        }
        COp::Reserve(n) => {
            if pin { mref.reserve(*n as usize) } else { map.reserve(*n as usize, &guard) }
            Res::Unit
        }
        COp::Clear => {
            if pin { mref.clear() } else { map.clear(&guard) }
            Res::Unit
        }
        COp::Len => Res::Num(map.len() as i64),
    }
}

pub struct RunOpts {
    pub policy: Policy,
    pub step_limit: u64,
    /// freeze thread t after its k-th yield point and then run thread `solo` alone
    pub freeze: Option<(usize, u64, usize)>,
}

pub fn run_program<S: BuildHasher + Default + Send + Sync>(p: &Program, opts: RunOpts) -> RunResult {
    let n = p.threads.len();
    let sched = Sched::new(n, opts.policy, opts.step_limit);
    let calls: Mutex<Vec<Call>> = Mutex::new(Vec::new());
    let events: Mutex<Vec<(usize, Event)>> = Mutex::new(Vec::new());
    let fails: Mutex<Vec<String>> = Mutex::new(Vec::new());
    let read_locks: Mutex<u64> = Mutex::new(0);
    ledger_reset();
    hooks::mem_start();
    let map: HashMap<Key, Val, S> = {
        let m = if p.cap == 0 {
            HashMap::<Key, Val, S>::with_hasher(S::default())
        } else {
            HashMap::<Key, Val, S>::with_capacity_and_hasher(p.cap as usize, S::default())
        };
        if p.batch > 0 {
            m.with_collector(seize::Collector::new().batch_size(p.batch))
        } else {
            m
        }
    };
    {
        let g = map.guard();
        for k in &p.prefill {
            map.insert(Key::new(*k, 0), Val::new(1000 + *k as i64), &g);
        }
    }
    if let Some((t, k, _)) = opts.freeze {
        sched.inner.lock().unwrap().freeze_at[t] = Some(k);
    }
    hooks::hb_start(n);
    let mut verdict = Verdict::Running;
    let mut frozen_dump = None;
    std::thread::scope(|scope| {
        for tid in 0..n {
            let sched = sched.clone();
            let map = &map;
            let calls = &calls;
            let events = &events;
            let fails = &fails;
            let read_locks = &read_locks;
            let ops = &p.threads[tid];
            scope.spawn(move || {
                hooks::clear_log();
                hooks::set_mode(Mode::Sched(tid, sched.clone()));
                let r = catch_unwind(AssertUnwindSafe(|| {
                    if sched.enter(tid).is_err() {
                        return;
                    }
                    for (i, op) in ops.iter().enumerate() {
                        let inv = now(&sched);
                        let locks_before = hooks::peek_locks();
                        let out = run_op(map, p, tid, op, &sched, (tid as u32 + 1) * 1000 + i as u32, fails, calls);
                        let res = now(&sched);
                        let is_read = matches!(op, COp::Get(_) | COp::GetKeyValue(_) | COp::ContainsKey(_) | COp::Iter | COp::Len);
                        if is_read {
                            let l = hooks::peek_locks() - locks_before;
                            if l > 0 {
                                *read_locks.lock().unwrap() += l as u64;
                                fails.lock().unwrap().push(format!("C12: read operation {:?} acquired {} bin lock(s)", op, l));
                            }
                        }
                        calls.lock().unwrap().push(Call { tid, op: op.clone(), inv, res, out });
                        sched.op_completed(tid);
                    }
                }));
                hooks::set_mode(Mode::Off);
                let log = hooks::take_log();
                events.lock().unwrap().extend(log.events.into_iter().map(|e| (tid, e)));
                if let Err(e) = r {
                    if e.downcast_ref::<hooks::Abort>().is_none() {
                        let msg = if let Some(s) = e.downcast_ref::<String>() {
                            s.clone()
                        } else if let Some(s) = e.downcast_ref::<&str>() {
                            s.to_string()
                        } else {
                            "panic".into()
                        };
                        fails.lock().unwrap().push(format!("panic in thread {}: {}", tid, msg));
                    }
                }
                sched.finish(tid);
            });
        }
        verdict = sched.run();
        if verdict == Verdict::Stuck {
            // a thread is blocked inside the operating system where no hook could see it; it cannot
            // be unwound, so report and leave the process
            let (cur, last) = {
                let g = sched.inner.lock().unwrap();
                (g.current, g.last_op.clone())
            };
            let tag = if opts.freeze.is_some() { "C12" } else { "C11" };
            println!(
                "FOUND {} thread {:?} stopped making progress without reaching a yield point (blocked outside the hooks: a lock or wait on a path that has none; last operations {:?}) || {}",
                tag, cur, last, program_text(p)
            );
            use std::io::Write;
            let _ = std::io::stdout().flush();
            std::process::exit(3);
        }
        if let Some((t, _, solo)) = opts.freeze {
            // the run stops when only the frozen writer is left (or the solo reader is blocked)
            let (frozen, solo_done) = {
                let g = sched.inner.lock().unwrap();
                (g.frozen[t], g.status[solo] == hooks::Status::Finished)
            };
            if frozen && !solo_done && verdict != Verdict::StepLimit {
                fails.lock().unwrap().push(format!(
                    "C12: read thread {} could not finish while writer thread {} was suspended",
                    solo, t
                ));
            }
            if frozen {
                let g = map.guard();
                frozen_dump = Some(canon(&map.verif_dump(&g)));
                drop(g);
                verdict = sched.resume(&[t]);
            }
        }
        sched.shutdown();
    });
    let trace_sites = sched.inner.lock().unwrap().trace_sites.clone();
    let (trace, steps, lock_waits, parks, steps_of, statuses) = {
        let g = sched.inner.lock().unwrap();
        (
            g.trace.clone(),
            g.step,
            g.blocked_on_lock_events,
            g.park_events,
            g.steps_of.clone(),
            format!("{:?} tokens={:?} last_ops={:?}", g.status_at_verdict, g.tokens, g.last_op),
        )
    };
    let mut failures = fails.into_inner().unwrap();
    let mut hb_stats = (0u64, 0u64, 0u64);
    if let Some(hb) = hooks::hb_finish() {
        hb_stats = (hb.derefs_checked, hb.cross_thread_derefs, hb.acquire_joins);
        for v in hb.violations.iter().take(2) {
            failures.push(format!("C15: {}", v));
        }
    }
    // quiescent observations
    let mut final_dump = None;
    let mut final_get = Vec::new();
    let mut final_hashes = Vec::new();
    let mut final_len = 0;
    let mut final_iter = Vec::new();
    if verdict == Verdict::Done {
        let r = catch_unwind(AssertUnwindSafe(|| {
            let g = map.guard();
            let d = canon(&map.verif_dump(&g));
            let gets: Vec<(u32, Option<i64>)> = (0..p.universe).map(|k| (k, map.get(&Key::probe(k), &g).map(|v| v.payload))).collect();
            let it: Vec<(u32, i64)> = map.iter(&g).map(|(k, v)| (k.id, v.payload)).collect();
            let hs: Vec<(u32, u64)> = (0..p.universe).map(|k| (k, map.verif_hash(&Key::probe(k)))).collect();
            (d, gets, map.len(), it, hs)
        }));
        match r {
            Ok((d, g, l, it, hs)) => {
                final_hashes = hs;
                final_dump = Some(d);
                final_get = g;
                final_len = l;
                final_iter = it;
            }
            Err(_) => failures.push("panic while inspecting the quiescent map".into()),
        }
    }
    let dropped_ok = catch_unwind(AssertUnwindSafe(|| drop(map)));
    if dropped_ok.is_err() {
        failures.push("C10: dropping the map panicked".into());
    }
    let mem = hooks::mem_finish();
    for v in mem.violations.iter().take(3) {
        failures.push(format!("C03: {} at {}:{}", v.what, v.file, v.line));
    }
    let ledger = ledger_take();
    if verdict == Verdict::Done {
        for (obj, (kind, logical, created, dropped)) in ledger.objs.iter().enumerate() {
            if *created == 1 && *dropped != 1 {
                failures.push(format!("C04: {:?} object #{} (logical {}) dropped {} times", kind, obj, logical, dropped));
                break;
            }
        }
    }
    RunResult {
        verdict,
        trace,
        calls: calls.into_inner().unwrap(),
        events: events.into_inner().unwrap(),
        final_dump,
        final_get,
        final_hashes,
        final_len,
        final_iter,
        failures,
        steps,
        lock_waits,
        parks,
        cas_like_conflicts: 0,
        reclaimed: mem.n_reclaim,
        steps_of,
        read_locks: read_locks.into_inner().unwrap(),
        statuses,
        frozen_dump,
        trace_sites,
        hb_stats,
    }
}

/* ------------------------------------------------------------------ */
/* checkers                                                             */

/// per-key sub-operations extracted from the calls
#[derive(Clone, Debug)]
enum KOp {
    Get(Option<i64>),
    Contains(bool),
    Insert(i64, Option<i64>),
    TryInsert(i64, Option<i64>),
    Remove(Option<i64>),
    Compute(u32, u32, Option<i64>, Option<i64>),
    /// retain: remove iff the value is still `observed`
    CondRemove(i64),
    /// retain_force: remove whatever is there
    ForceRemove,
    /// clear: remove whatever is there
    ClearKey,
}

#[derive(Clone, Debug)]
struct KCall {
    inv: u64,
    res: u64,
    op: KOp,
    desc: String,
}

fn apply(state: Option<i64>, op: &KOp) -> Option<Option<i64>> {
    // returns the new state if the recorded result is consistent with `state`
    match op {
        KOp::Get(r) => (state == *r).then_some(state),
        KOp::Contains(b) => (state.is_some() == *b).then_some(state),
        KOp::Insert(v, old) => (state == *old).then_some(Some(*v)),
        KOp::TryInsert(v, cur) => match (state, cur) {
            (Some(s), Some(c)) if s == *c => Some(state),
            (None, None) => Some(Some(*v)),
            _ => None,
        },
        KOp::Remove(old) => (state == *old).then_some(None),
        KOp::Compute(f, k, seen, ret) => match state {
            None => (seen.is_none() && ret.is_none()).then_some(None),
            Some(s) => {
                if *seen != Some(s) {
                    return None;
                }
                let nv = cremap(*f, *k, s);
                (nv == *ret).then_some(nv)
            }
        },
        KOp::CondRemove(obs) => Some(if state == Some(*obs) { None } else { state }),
        KOp::ForceRemove | KOp::ClearKey => Some(None),
    }
}

fn linearizable(initial: Option<i64>, calls: &[KCall], final_state: Option<Option<i64>>) -> bool {
    // Wing-Gong search with memoisation on (done-set, state)
    let n = calls.len();
    if n > 20 {
        return true; // too large to decide here; never reported as a violation
    }
    let mut memo: std::collections::HashSet<(u32, Option<i64>)> = std::collections::HashSet::new();
    fn go(
        done: u32,
        state: Option<i64>,
        calls: &[KCall],
        fin: Option<Option<i64>>,
        memo: &mut std::collections::HashSet<(u32, Option<i64>)>,
    ) -> bool {
        let n = calls.len();
        if done == (1u32 << n) - 1 {
            return fin.map(|f| f == state).unwrap_or(true);
        }
        if !memo.insert((done, state)) {
            return false;
        }
        // minimal response among pending calls: a call may go next only if it was invoked
        // no later than every pending call's response
        let min_res = (0..n).filter(|i| done & (1 << i) == 0).map(|i| calls[i].res).min().unwrap();
        for i in 0..n {
            if done & (1 << i) != 0 || calls[i].inv > min_res {
                continue;
            }
            if let Some(ns) = apply(state, &calls[i].op) {
                if go(done | (1 << i), ns, calls, fin, memo) {
                    return true;
                }
            }
        }
        false
    }
    go(0, initial, calls, final_state, &mut memo)
}

fn oz(v: &Option<i64>) -> String {
    match v {
        Some(x) if *x < 0 => format!("(Some ({}))", x),
        Some(x) => format!("(Some {})", x),
        None => "None".into(),
    }
}

fn kop_coq(op: &KOp) -> String {
    match op {
        KOp::Get(r) => format!("KGet {}", oz(r)),
        KOp::Contains(b) => format!("KContains {}", b),
        KOp::Insert(v, old) => format!("KInsert {} {}", v, oz(old)),
        KOp::TryInsert(v, cur) => format!("KTryInsert {} {}", v, oz(cur)),
        KOp::Remove(old) => format!("KRemove {}", oz(old)),
        KOp::Compute(f, k, seen, ret) => format!("KCompute (cremap_tbl {} {}) {} {}", f, k, oz(seen), oz(ret)),
        KOp::CondRemove(obs) => format!("KCondRemove {}", obs),
        KOp::ForceRemove | KOp::ClearKey => "KForceRemove".into(),
    }
}

/// Coq text: the quiescent dump of the run must satisfy the model's well-formedness predicate
pub fn quiescent_coq(r: &RunResult) -> (String, usize) {
    match (&r.final_dump, r.verdict) {
        (Some(d), Verdict::Done) if d.next.is_none() => (
            format!(
                "Eval vm_compute in (wf_b (hash_of [{}]) (to_st ({}))).\n",
                r.final_hashes.iter().map(|(k, h)| format!("H_ {} {}", k, h)).collect::<Vec<_>>().join(";"),
                crate::dump::dump_coq(d)
            ),
            1,
        ),
        _ => (String::new(), 0),
    }
}

/// Coq text: one `Eval vm_compute in (log_ok ...)` per resize of the run (events grouped by the
/// length of the table being replaced), for runs that ended regularly
pub fn resize_logs_coq(r: &RunResult) -> (String, usize) {
    if r.verdict != Verdict::Done {
        return (String::new(), 0);
    }
    let mut by_n: BTreeMap<usize, Vec<String>> = BTreeMap::new();
    for (tid, e) in &r.events {
        match e {
            Event::BinMigrated { n, i } => by_n.entry(*n).or_default().push(format!("EMigrated {}", i)),
            Event::TablePublished { n } => by_n.entry(*n / 2).or_default().push("EPublished".to_string()),
            Event::ResizeEnter { n, initiator } => by_n.entry(*n).or_default().push(format!("EEntered {} {}", tid, initiator)),
            Event::ResizeLeave { n, finisher } => by_n.entry(*n).or_default().push(format!("ELeft {} {}", tid, finisher)),
            _ => {}
        }
    }
    let mut s = String::new();
    let mut k = 0;
    for (n, evs) in by_n {
        if n == 0 || n > 4096 {
            continue;
        }
        // the model's log is newest first; log_ok does not depend on the order
        s.push_str(&format!("Eval vm_compute in (log_ok {}%nat [{}]).\n", n, evs.join("; ")));
        k += 1;
    }
    (s, k)
}

/// Coq text: one `Eval vm_compute in (lin_b ...)` per key with at least two calls
pub fn history_coq(p: &Program, r: &RunResult) -> (String, usize) {
    let mut s = String::new();
    let mut n = 0;
    if r.verdict != Verdict::Done {
        return (s, 0);
    }
    let (per_key, _) = per_key_calls(p, r);
    let finals: StdHashMap<u32, Option<i64>> = r.final_get.iter().cloned().collect();
    for (k, calls) in per_key.iter() {
        if calls.len() < 2 || calls.len() > 14 {
            continue;
        }
        let initial = if p.prefill.contains(k) { Some(1000 + *k as i64) } else { None };
        let fin = finals.get(k).cloned();
        s.push_str(&format!(
            "Eval vm_compute in (lin_b {} [{}] {}).\n",
            oz(&initial),
            calls.iter().map(|c| format!("C_ {} {} ({})", c.inv, c.res, kop_coq(&c.op))).collect::<Vec<_>>().join("; "),
            match fin {
                Some(f) => format!("(Some {})", oz(&f)),
                None => "None".into(),
            }
        ));
        n += 1;
    }
    (s, n)
}

fn per_key_calls(p: &Program, r: &RunResult) -> (BTreeMap<u32, Vec<KCall>>, Vec<String>) {
    let mut out = Vec::new();
    let mut per_key: BTreeMap<u32, Vec<KCall>> = BTreeMap::new();
    let mut push = |k: u32, c: KCall| per_key.entry(k).or_default().push(c);
    for c in &r.calls {
        let d = format!("t{} {:?} -> {:?} [{}..{}]", c.tid, c.op, c.out, c.inv, c.res);
        match (&c.op, &c.out) {
            (COp::Get(k), Res::Val(v)) => push(*k, KCall { inv: c.inv, res: c.res, op: KOp::Get(Some(*v)), desc: d }),
            (COp::Get(k), Res::None) => push(*k, KCall { inv: c.inv, res: c.res, op: KOp::Get(None), desc: d }),
            (COp::GetKeyValue(k), Res::KV(_, v)) => push(*k, KCall { inv: c.inv, res: c.res, op: KOp::Get(Some(*v)), desc: d }),
            (COp::GetKeyValue(k), Res::None) => push(*k, KCall { inv: c.inv, res: c.res, op: KOp::Get(None), desc: d }),
            (COp::ContainsKey(k), Res::Bool(b)) => push(*k, KCall { inv: c.inv, res: c.res, op: KOp::Contains(*b), desc: d }),
            (COp::Insert(k, v), Res::Val(o)) => push(*k, KCall { inv: c.inv, res: c.res, op: KOp::Insert(*v, Some(*o)), desc: d }),
            (COp::Insert(k, v), Res::None) => push(*k, KCall { inv: c.inv, res: c.res, op: KOp::Insert(*v, None), desc: d }),
            (COp::TryInsert(k, v), Res::Exists(cur)) => push(*k, KCall { inv: c.inv, res: c.res, op: KOp::TryInsert(*v, Some(*cur)), desc: d }),
            (COp::TryInsert(k, v), Res::Inserted) => push(*k, KCall { inv: c.inv, res: c.res, op: KOp::TryInsert(*v, None), desc: d }),
            (COp::Remove(k), Res::Val(o)) => push(*k, KCall { inv: c.inv, res: c.res, op: KOp::Remove(Some(*o)), desc: d }),
            (COp::Remove(k), Res::None) => push(*k, KCall { inv: c.inv, res: c.res, op: KOp::Remove(None), desc: d }),
            (COp::RemoveEntry(k), Res::KV(kk, o)) => {
                if kk != k {
                    out.push(format!("C01: remove_entry({}) returned key {}", k, kk));
                }
                push(*k, KCall { inv: c.inv, res: c.res, op: KOp::Remove(Some(*o)), desc: d })
            }
            (COp::RemoveEntry(k), Res::None) => push(*k, KCall { inv: c.inv, res: c.res, op: KOp::Remove(None), desc: d }),
            (COp::Compute(k, f), Res::Computed(seen, ret, ran_at)) => {
                // the function receives the value that is current at the instant the update takes
                // effect: that instant is not before the function ran
                push(*k, KCall { inv: c.inv.max(*ran_at), res: c.res, op: KOp::Compute(*f, *k, *seen, *ret), desc: d })
            }
            (COp::Retain(_), Res::Retained(log)) | (COp::RetainForce(_), Res::Retained(log)) | (COp::RetainTouch(..), Res::Retained(log)) => {
                let force = matches!(c.op, COp::RetainForce(_) | COp::RetainTouch(_, _, true));
                let mut seen_keys = std::collections::HashSet::new();
                for (i, (step, k, v, verdict)) in log.iter().enumerate() {
                    if !seen_keys.insert(*k) {
                        // an entry shown twice is only legal if it was touched meanwhile; not judged here
                    }
                    if !*verdict {
                        let end = log.get(i + 1).map(|x| x.0).unwrap_or(c.res);
                        push(
                            *k,
                            KCall {
                                inv: *step,
                                res: end,
                                op: if force { KOp::ForceRemove } else { KOp::CondRemove(*v) },
                                desc: format!("t{} {:?} rejected ({},{}) [{}..{}]", c.tid, c.op, k, v, step, end),
                            },
                        );
                    }
                }
            }
            (COp::Clear, _) => {
                for k in 0..p.universe {
                    // clear is not atomic and not part of C01: it empties the bins one after the
                    // other and starts over on the new table when it meets a forwarding marker, so
                    // it may remove a key more than once during its interval (an entry inserted
                    // after its first pass over that bin can be removed by the second). It acts on
                    // every key at least once. Removal is idempotent, so "at least once, at most m
                    // times within the interval" is modelled by m mandatory removals with the
                    // same interval, m = 1 + the number of writes of that key overlapping it
                    // (at most 3).
                    let overlapping = r
                        .calls
                        .iter()
                        .filter(|o| {
                            let key = match &o.op {
                                COp::Insert(kk, _) | COp::TryInsert(kk, _) | COp::Compute(kk, _) => Some(*kk),
                                _ => None,
                            };
                            key == Some(k) && o.res >= c.inv && o.inv <= c.res
                        })
                        .count();
                    for _ in 0..(1 + overlapping).min(3) {
                        push(k, KCall { inv: c.inv, res: c.res, op: KOp::ClearKey, desc: d.clone() });
                    }
                }
            }
            _ => {}
        }
    }
    drop(push);
    (per_key, out)
}

pub fn check_history(p: &Program, r: &RunResult) -> Vec<String> {
    if r.verdict != Verdict::Done {
        return Vec::new();
    }
    let (mut per_key, mut out) = per_key_calls(p, r);
    let finals: StdHashMap<u32, Option<i64>> = r.final_get.iter().cloned().collect();
    for k in 0..p.universe {
        let initial = if p.prefill.contains(&k) { Some(1000 + k as i64) } else { None };
        let calls = per_key.remove(&k).unwrap_or_default();
        let fin = finals.get(&k).cloned();
        if !linearizable(initial, &calls, fin) {
            let has_retain = calls.iter().any(|c| matches!(c.op, KOp::CondRemove(_) | KOp::ForceRemove));
            let has_compute = calls.iter().any(|c| matches!(c.op, KOp::Compute(..)));
            let tag = if has_retain { "C13" } else if has_compute { "C08" } else { "C01" };
            out.push(format!(
                "{}: history of key {} is not linearizable (initial {:?}, final get {:?}): {}",
                tag,
                k,
                initial,
                fin,
                calls.iter().map(|c| c.desc.clone()).collect::<Vec<_>>().join(" | ")
            ));
        }
    }
    out
}

/// quiescent agreement (C05) and control state (C10) on the final dump
pub fn check_quiescent(p: &Program, r: &RunResult) -> Vec<String> {
    let mut out = Vec::new();
    if r.verdict != Verdict::Done {
        return out;
    }
    let d = match &r.final_dump {
        Some(d) => d,
        None => return out,
    };
    let present: Vec<(u32, i64)> = r.final_get.iter().filter_map(|(k, v)| v.map(|v| (*k, v))).collect();
    let mut it = r.final_iter.clone();
    it.sort();
    if it != present {
        out.push(format!("C05: at quiescence iteration yields {:?} but lookups find {:?}", it, present));
    }
    if r.final_len != present.len() {
        out.push(format!("C05: at quiescence len() = {} but {} keys are present", r.final_len, present.len()));
    }
    if d.next.is_some() {
        out.push("C10: next_table is not null at quiescence".into());
    }
    if d.sc < 0 {
        out.push(format!("C10: size_ctl = {} (still resizing) at quiescence", d.sc));
    }
    if let Some(t) = &d.table {
        let n = t.bins.len();
        if !n.is_power_of_two() {
            out.push(format!("C05: table length {} is not a power of two", n));
        }
        if d.sc >= 0 && d.sc != (n - n / 4) as i64 {
            out.push(format!("C10: threshold is {} for a table of {} bins (expected {})", d.sc, n, n - n / 4));
        }
        let mut seen = std::collections::HashSet::new();
        for (i, b) in t.bins.iter().enumerate() {
            let nodes: Vec<&crate::dump::CNode> = match b {
                CBin::Moved => {
                    out.push(format!("C05: forwarding marker left in bin {} at quiescence", i));
                    vec![]
                }
                CBin::List(l) => l.iter().collect(),
                CBin::Tree { ord, lock_state, .. } => {
                    if *lock_state != 0 {
                        out.push(format!("C11: tree bin {} has lock_state {} at quiescence", i, lock_state));
                    }
                    ord.iter().collect()
                }
                CBin::Empty => vec![],
            };
            for nd in nodes {
                if (nd.h as usize) & (n - 1) != i {
                    out.push(format!("C05: key {} (hash {}) sits in bin {} of {}", nd.k, nd.h, i, n));
                }
                if !seen.insert(nd.k) {
                    out.push(format!("C05: key {} occurs twice in the table", nd.k));
                }
            }
        }
        if d.cnt != seen.len() as i64 {
            out.push(format!("C05: count is {} but the table holds {} entries", d.cnt, seen.len()));
        }
    }
    for f in d.defects() {
        out.push(format!("C05/C06: {}", f));
    }
    out
}

/// resize protocol events (C10)
pub fn check_resize_events(r: &RunResult) -> Vec<String> {
    let mut out = Vec::new();
    let mut migrated: StdHashMap<(usize, usize), u32> = StdHashMap::new();
    let mut published: StdHashMap<usize, u32> = StdHashMap::new();
    let mut order: Vec<&Event> = Vec::new();
    for (_, e) in &r.events {
        order.push(e);
        match e {
            Event::BinMigrated { n, i } => *migrated.entry((*n, *i)).or_insert(0) += 1,
            Event::TablePublished { n } => *published.entry(*n).or_insert(0) += 1,
            _ => {}
        }
    }
    for ((n, i), c) in &migrated {
        if *c != 1 {
            out.push(format!("C10: bin {} of the {}-bin table was migrated {} times", i, n, c));
        }
    }
    for (n, c) in &published {
        if *c != 1 {
            out.push(format!("C10: a {}-bin table was published {} times", n, c));
        }
        if r.verdict == Verdict::Done {
            let old = n / 2;
            let m = (0..old).filter(|i| migrated.contains_key(&(old, *i))).count();
            if m != old {
                out.push(format!("C10: the {}-bin table was published after only {} of {} bins were migrated", n, m, old));
            }
        }
    }
    out
}

/// iterator weak consistency (C07)
pub fn check_iterators(p: &Program, r: &RunResult) -> Vec<String> {
    let mut out = Vec::new();
    if r.verdict != Verdict::Done {
        return out;
    }
    // writes per key: (inv, res, Some(value written) | None = removal)
    let mut writes: BTreeMap<u32, Vec<(u64, u64, Option<i64>)>> = BTreeMap::new();
    for k in &p.prefill {
        writes.entry(*k).or_default().push((0, 0, Some(1000 + *k as i64)));
    }
    for c in &r.calls {
        match (&c.op, &c.out) {
            (COp::Insert(k, v), _) => writes.entry(*k).or_default().push((c.inv, c.res, Some(*v))),
            (COp::TryInsert(k, v), Res::Inserted) => writes.entry(*k).or_default().push((c.inv, c.res, Some(*v))),
            (COp::Remove(k), Res::Val(_)) | (COp::RemoveEntry(k), Res::KV(..)) => writes.entry(*k).or_default().push((c.inv, c.res, None)),
            (COp::Compute(k, _), Res::Computed(Some(_), ret, _)) => writes.entry(*k).or_default().push((c.inv, c.res, *ret)),
            (COp::Retain(_), Res::Retained(log)) | (COp::RetainForce(_), Res::Retained(log)) | (COp::RetainTouch(..), Res::Retained(log)) => {
                for (_, k, _, verdict) in log {
                    if !*verdict {
                        writes.entry(*k).or_default().push((c.inv, c.res, None));
                    }
                }
            }
            (COp::Clear, _) => {
                for k in 0..p.universe {
                    writes.entry(k).or_default().push((c.inv, c.res, None));
                }
            }
            _ => {}
        }
    }
    for c in &r.calls {
        if let (COp::Iter, Res::Iterated(created, items)) = (&c.op, &c.out) {
            let end = c.res;
            let mut count: StdHashMap<u32, u32> = StdHashMap::new();
            for (step, k, v) in items {
                *count.entry(*k).or_insert(0) += 1;
                // (iii) v was k's value at some moment in [created, step]
                let ws = writes.get(k).cloned().unwrap_or_default();
                let candidate = ws.iter().any(|(winv, wres, wv)| {
                    *wv == Some(*v)
                        && *winv <= *step
                        && !ws.iter().any(|(oinv, ores, _)| *oinv > *wres && *ores < *created)
                });
                if !candidate {
                    out.push(format!(
                        "C07: iterator (thread {}, created at {}) yielded ({}, {}) at step {}, a pair the map never held in that interval",
                        c.tid, created, k, v, step
                    ));
                }
            }
            // (ii) untouched present keys exactly once
            for k in 0..p.universe {
                let ws = writes.get(&k).cloned().unwrap_or_default();
                let touched = ws.iter().any(|(winv, wres, _)| *wres >= *created && *winv <= end && !(*winv == 0 && *wres == 0));
                if touched {
                    continue;
                }
                // the key's state before the iteration is only judged when it is unambiguous: one
                // write that every other write on the key strictly precedes in real time
                let done: Vec<&(u64, u64, Option<i64>)> = ws.iter().filter(|w| w.1 < *created || (w.0 == 0 && w.1 == 0)).collect();
                let last = done.iter().find(|w| done.iter().all(|o| std::ptr::eq(*o, **w) || o.1 < w.0 || (o.0 == 0 && o.1 == 0 && !(w.0 == 0 && w.1 == 0))));
                let present = match last {
                    Some((_, _, Some(_))) => true,
                    Some((_, _, None)) => false,
                    None => {
                        if done.is_empty() {
                            false
                        } else {
                            continue;
                        }
                    }
                };
                let n = count.get(&k).cloned().unwrap_or(0);
                if present && n != 1 {
                    out.push(format!(
                        "C07: key {} was present and untouched during an iteration (thread {}, steps {}..{}) but was yielded {} times",
                        k, c.tid, created, end, n
                    ));
                }
                if !present && n != 0 {
                    out.push(format!("C07: key {} was absent and untouched during an iteration but was yielded", k));
                }
            }
        }
    }
    // retain / retain_force consult their predicate for every entry nobody else touches meanwhile
    // (without concurrent writers they equal the standard retain): a present key that no other call
    // writes during the call must be shown to the predicate
    for c in &r.calls {
        if let (COp::Retain(_) | COp::RetainForce(_), Res::Retained(log)) = (&c.op, &c.out) {
            let (created, end) = (c.inv, c.res);
            for k in 0..p.universe {
                let ws: Vec<(u64, u64, Option<i64>)> =
                    writes.get(&k).cloned().unwrap_or_default().into_iter().filter(|w| !(w.0 == created && w.1 == end)).collect();
                let touched = ws.iter().any(|(winv, wres, _)| *wres >= created && *winv <= end && !(*winv == 0 && *wres == 0));
                if touched {
                    continue;
                }
                let done: Vec<&(u64, u64, Option<i64>)> = ws.iter().filter(|w| w.1 < created || (w.0 == 0 && w.1 == 0)).collect();
                let last = done.iter().find(|w| done.iter().all(|o| std::ptr::eq(*o, **w) || o.1 < w.0 || (o.0 == 0 && o.1 == 0 && !(w.0 == 0 && w.1 == 0))));
                let present = matches!(last, Some((_, _, Some(_))));
                let shown = log.iter().filter(|e| e.1 == k).count();
                if present && shown == 0 {
                    out.push(format!(
                        "C13: {:?} (thread {}, steps {}..{}) never showed key {} to its predicate although the key was present and untouched by any other call throughout - it cannot have removed what the predicate would reject",
                        c.op, c.tid, created, end, k
                    ));
                }
            }
        }
    }
    out
}

/// reads never block (C12): when a run hits the step limit, a thread that was inside a read
/// operation and has itself made a large share of the steps is a reader that spins
pub fn stuck_reads(p: &Program, r: &RunResult) -> Vec<String> {
    let mut out = Vec::new();
    if r.verdict != Verdict::StepLimit {
        return out;
    }
    for tid in 0..p.threads.len() {
        let done = r.calls.iter().filter(|c| c.tid == tid).count();
        if done >= p.threads[tid].len() {
            continue;
        }
        let op = &p.threads[tid][done];
        let is_read = matches!(op, COp::Get(_) | COp::GetKeyValue(_) | COp::ContainsKey(_) | COp::Iter | COp::Len);
        let mine = r.steps_of.get(tid).cloned().unwrap_or(0);
        if is_read && mine > 2000 && mine * 4 > r.steps {
            out.push(format!(
                "C12: the read operation {:?} of thread {} never returned - the thread made {} of the run's {} shared-memory steps and was still inside it at the step limit (a lookup must complete whatever writers do)",
                op, tid, mine, r.steps
            ));
        }
    }
    out
}

pub fn program_text(p: &Program) -> String {
    format!(
        "hasher={} cap={} prefill={:?} universe={} batch={} pin={} linger={} threads={:?}",
        HASHER_NAMES[p.hasher as usize], p.cap, p.prefill, p.universe, p.batch, p.pin, p.linger, p.threads
    )
}

pub fn trace_text(t: &[u16]) -> String {
    t.iter().map(|x| x.to_string()).collect::<Vec<_>>().join(",")
}

/* ------------------------------------------------------------------ */
/* program generation                                                   */

pub fn gen_program(rng: &mut SplitMix64, kind: u64) -> Program {
    let hasher = match rng.below(8) {
        0..=2 => H_ZERO,
        3..=4 => H_SAMEBIN,
        5..=6 => H_IDENTITY,
        _ => H_MIX,
    };
    let nthreads = 2 + rng.below(3) as usize;
    let mut p = Program {
        hasher,
        cap: [0, 1, 2, 16, 64][rng.below(5) as usize],
        prefill: vec![],
        threads: vec![],
        universe: 6,
        batch: [1, 1, 2, 0][rng.below(4) as usize],
        pin: rng.chance(1, 2),
        linger: rng.below(3) as u32,
    };
    let mut val = 1i64;
    let mut per_key_op = |rng: &mut SplitMix64, universe: u32, val: &mut i64| -> COp {
        let k = rng.below(universe as u64) as u32;
        match rng.below(20) {
            0..=4 => COp::Insert(k, { *val += 1; *val }),
            5..=6 => COp::TryInsert(k, { *val += 1; *val }),
            7..=9 => COp::Remove(k),
            10 => COp::RemoveEntry(k),
            11..=13 => COp::Compute(k, [0, 1, 1, 3][rng.below(4) as usize]),
            14..=16 => COp::Get(k),
            17 => COp::GetKeyValue(k),
            18 => COp::ContainsKey(k),
            _ => COp::Get(k),
        }
    };
    match kind % 17 {
        // compute_if_present against clear, with an observer of the same key (C08): list bins
        16 => {
            p.hasher = if rng.chance(1, 2) { H_ZERO } else { H_IDENTITY };
            p.cap = [0, 16][rng.below(2) as usize];
            let pre = 1 + rng.below(3) as u32;
            p.prefill = (0..pre).collect();
            p.universe = pre + 1;
            let k = rng.below(pre as u64) as u32;
            p.threads.push(vec![COp::Compute(k, [0, 1, 1, 3][rng.below(4) as usize])]);
            p.threads.push(vec![COp::Clear]);
            p.threads.push(vec![COp::Get(k), COp::Get(k)]);
            if nthreads > 3 {
                p.threads.push(vec![COp::Insert(k, { val += 1; val })]);
            }
        }
        // concurrent increments of one counter (C08)
        8 => {
            p.universe = 2;
            p.prefill = vec![0, 1];
            p.hasher = if rng.chance(1, 2) { H_ZERO } else { H_IDENTITY };
            for _ in 0..nthreads {
                let n = 1 + rng.below(3);
                p.threads.push((0..n).map(|_| if rng.chance(4, 5) { COp::Compute(0, 1) } else { COp::Compute(1, 1) }).collect());
            }
        }
        // publication chains (C15): a node appended by one thread, its predecessor unlinked by a
        // second (remove / compute -> None / retain), reached by a third that shares nothing else
        // with the first
        10 => {
            p.hasher = if rng.chance(3, 4) { H_ZERO } else { H_SAMEBIN };
            p.cap = [0, 16, 64][rng.below(3) as usize];
            let pre = 2 + rng.below(3) as u32;
            p.prefill = (0..pre).collect();
            p.universe = pre + 2;
            p.linger = 0;
            let victim = 1 + rng.below((pre - 1) as u64) as u32;
            p.threads.push(vec![COp::Insert(pre, { val += 1; val })]);
            p.threads.push(vec![match rng.below(4) {
                0 => COp::Remove(victim),
                1 => COp::Retain(0),
                _ => COp::Compute(victim, 0),
            }]);
            p.threads.push(vec![if rng.chance(1, 2) { COp::Get(pre) } else { COp::Iter }]);
        }
        // the element counter lags behind the structure: a removal of x overtakes the counter update
        // of the insert that linked x, so the counter reads one less than the number of entries
        // (0 with one stable key) while an iterator / len / is_empty looks at the map
        14 => {
            p.hasher = [H_ZERO, H_IDENTITY, H_MIX][rng.below(3) as usize];
            p.cap = [0, 16, 64][rng.below(3) as usize];
            let stable = 1 + rng.below(2) as u32;
            p.prefill = (0..stable).collect();
            p.universe = stable + 3;
            p.linger = 0;
            let x = stable + rng.below(2) as u32;
            p.threads.push(vec![COp::Insert(x, { val += 1; val })]);
            p.threads.push(vec![COp::Remove(x), COp::Remove(x)]);
            p.threads.push(vec![COp::Iter, COp::Iter]);
            if nthreads > 3 {
                p.threads.push(vec![COp::Get(0), COp::Iter]);
            }
        }
        // first operations on a map whose table has never been allocated (lazy initialisation)
        15 => {
            p.hasher = [H_IDENTITY, H_MIX, H_ZERO][rng.below(3) as usize];
            p.cap = 0;
            p.prefill = vec![];
            p.universe = 8;
            p.linger = 0;
            let mut next = 0u32;
            for _ in 0..nthreads.max(3) {
                let n = 1 + rng.below(2);
                let mut ops = Vec::new();
                for _ in 0..n {
                    ops.push(match rng.below(5) {
                        0 => COp::TryInsert(next, { val += 1; val }),
                        1 => COp::Reserve(1 + rng.below(20)),
                        _ => COp::Insert(next, { val += 1; val }),
                    });
                    next = (next + 1) % 8;
                }
                if rng.chance(1, 3) {
                    ops.push(COp::Get(rng.below(8) as u32));
                }
                p.threads.push(ops);
            }
        }
        // only readers, three or more, on one big tree bin (C06: lookups stay logarithmic however
        // many readers share the read lock)
        13 => {
            p.hasher = H_ZERO;
            p.cap = 64;
            let n = 24 + rng.below(40) as u32;
            p.prefill = (0..n).collect();
            p.universe = n + 2;
            p.linger = 0;
            let nt = 3 + rng.below(2) as usize;
            for _ in 0..nt {
                let m = 1 + rng.below(2);
                p.threads.push((0..m).map(|_| COp::Get(rng.below((n + 2) as u64) as u32)).collect());
            }
        }
        // the head of a list bin removed while a resize is about to migrate that bin
        12 => {
            p.cap = 8;
            p.hasher = H_IDENTITY;
            // keys 5, 21, 37 share bin 5 of the 16-bin table (and 5 / 21 / 5 of the 32-bin one)
            p.prefill = vec![0, 1, 2, 3, 5, 21, 37, 6, 7, 8, 9];
            p.universe = 40;
            p.linger = rng.below(2) as u32;
            let victim = [5u32, 21, 37][rng.below(3) as usize];
            p.threads.push(vec![COp::Insert(10, { val += 1; val }), COp::Get(victim)]);
            p.threads.push(vec![match rng.below(4) {
                0 => COp::Remove(victim),
                1 => COp::Retain(0),
                _ => COp::Compute(victim, 0),
            }]);
            if nthreads > 2 {
                p.threads.push(vec![if rng.chance(1, 2) { COp::Get(victim) } else { COp::Iter }]);
            }
        }
        // two resize generations back to back (16 -> 32 -> 64): the territory of finding F6
        11 => {
            p.cap = 8;
            p.hasher = if rng.chance(2, 3) { H_IDENTITY } else { H_MIX };
            p.prefill = (0..11).collect();
            p.universe = 40;
            p.linger = 0;
            let mut next = 11u32;
            for t in 0..nthreads {
                let n = if t == 0 { 1 + rng.below(2) } else { 5 + rng.below(5) };
                let mut ops = Vec::new();
                for _ in 0..n {
                    ops.push(COp::Insert(next, { val += 1; val }));
                    next += 1;
                }
                if rng.chance(1, 2) {
                    // a key whose bin is forwarded early in the first resize
                    ops.insert(0, COp::Insert(31 + t as u32 * 32 % 8, { val += 1; val }));
                }
                if rng.chance(1, 3) {
                    ops.push(COp::Get(rng.below(next as u64) as u32));
                }
                p.threads.push(ops);
            }
        }
        // a bin at the treeify threshold while others drain it (the race behind finding F5)
        9 => {
            p.cap = 64 + rng.below(64);
            p.hasher = H_ZERO;
            p.universe = 11;
            p.prefill = (0..8).collect();
            p.threads.push(vec![COp::Insert(8, { val += 1; val }), COp::Iter]);
            let mut rm: Vec<COp> = (0..8).map(COp::Remove).collect();
            rm.push(COp::Remove(8));
            p.threads.push(rm);
            if nthreads > 2 {
                p.threads.push(vec![COp::Iter, COp::Get(8)]);
            }
        }
        // random per-key programs on a small table
        0 | 1 => {
            p.universe = 3 + rng.below(4) as u32;
            p.prefill = (0..p.universe).filter(|_| rng.chance(1, 2)).collect();
            for _ in 0..nthreads {
                let n = 1 + rng.below(4);
                p.threads.push((0..n).map(|_| per_key_op(rng, p.universe, &mut val)).collect());
            }
        }
        // operations racing with a resize: fill to one below the threshold
        2 | 3 => {
            let n: u32 = if kind % 17 == 2 { 16 } else { 64 };
            p.cap = (n / 2) as u64; // with_capacity(n/2) -> table of n bins for n = 16, 64
            p.hasher = if rng.chance(1, 2) { H_IDENTITY } else { H_MIX };
            let fill = n - n / 4 - 1;
            p.universe = fill + 6;
            p.prefill = (0..fill).collect();
            for t in 0..nthreads {
                let mut ops = Vec::new();
                ops.push(COp::Insert(fill + t as u32, { val += 1; val }));
                for _ in 0..rng.below(3) {
                    ops.push(per_key_op(rng, p.universe, &mut val));
                }
                if rng.chance(1, 3) {
                    ops.push(COp::Iter);
                }
                p.threads.push(ops);
            }
        }
        // tree bins: many colliding keys in a table of >= 64 bins
        4 | 5 => {
            p.cap = 64;
            p.hasher = [H_ZERO, H_ZERO, H_SAMEBIN, H_ONES, H_HIGHONES][rng.below(5) as usize];
            let fill = 7 + rng.below(6) as u32;
            p.universe = fill + 4;
            p.prefill = (0..fill).collect();
            for _ in 0..nthreads {
                let n = 1 + rng.below(3);
                let mut ops: Vec<COp> = (0..n).map(|_| per_key_op(rng, p.universe, &mut val)).collect();
                if rng.chance(1, 4) {
                    ops.push(COp::Iter);
                }
                p.threads.push(ops);
            }
        }
        // retain / retain_force against replacements
        6 => {
            p.universe = 3 + rng.below(3) as u32;
            if rng.chance(1, 2) {
                // the entries live in a tree bin
                p.cap = 64;
                p.hasher = [H_ZERO, H_ONES, H_SAMEBIN][rng.below(3) as usize];
                p.universe = 9 + rng.below(4) as u32;
            }
            p.prefill = (0..p.universe).collect();
            p.threads.push(vec![match rng.below(6) {
                0..=2 => COp::Retain(rng.below(5) as u32),
                3 => COp::RetainForce(rng.below(5) as u32),
                4 => COp::RetainTouch(rng.below(p.universe as u64) as u32, { val += 1; val }, false),
                _ => COp::RetainTouch(rng.below(p.universe as u64) as u32, { val += 1; val }, true),
            }]);
            for _ in 1..nthreads {
                let n = 1 + rng.below(3);
                p.threads.push(
                    (0..n)
                        .map(|_| {
                            let k = rng.below(p.universe as u64) as u32;
                            match rng.below(4) {
                                0 | 1 => COp::Insert(k, { val += 1; val }),
                                2 => COp::Compute(k, 1),
                                _ => COp::Remove(k),
                            }
                        })
                        .collect(),
                );
            }
        }
        // iterators against updates, clear, reserve
        _ => {
            p.universe = 5 + rng.below(8) as u32;
            p.prefill = (0..p.universe).filter(|_| rng.chance(2, 3)).collect();
            p.threads.push(vec![COp::Iter]);
            for _ in 1..nthreads {
                let n = 1 + rng.below(3);
                p.threads.push(
                    (0..n)
                        .map(|_| match rng.below(10) {
                            0 => COp::Reserve(rng.below(40)),
                            1 => COp::Clear,
                            2 => COp::Len,
                            _ => per_key_op(rng, p.universe, &mut val),
                        })
                        .collect(),
                );
            }
        }
    }
    p
}
