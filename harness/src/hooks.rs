//! The harness side of flurry's verification hooks: per-thread mode switch, operation log,
//! memory tracker (quarantine of reclaimed blocks, use-after-free detection) and the
//! deterministic scheduler.
#![allow(dead_code)]

use flurry::verif::{self, Cell as VCell, Event, Hooks, Kind, Op};
use std::cell::RefCell;
use std::collections::{BTreeMap, HashMap, HashSet};
use std::panic::Location;
use std::sync::atomic::{AtomicBool, AtomicU64, Ordering};
use std::sync::{Arc, Condvar, Mutex};

/* ------------------------------------------------------------------ */
/* per-thread state                                                     */

#[derive(Clone, Debug)]
pub struct OpRec {
    pub kind: Kind,
    pub cell: VCell,
    pub ord: Ordering,
    pub ord_fail: Option<Ordering>,
    pub protected: bool,
    pub guard: usize,
    pub file: &'static str,
    pub line: u32,
}

#[derive(Default)]
pub struct ThreadLog {
    pub ops: Vec<OpRec>,
    pub locks: Vec<(&'static str, u32)>,
    pub events: Vec<Event>,
    /// (object, guard address) of every retire
    pub retires: Vec<(usize, usize)>,
    pub parks: u32,
    pub spins: u32,
}

pub enum Mode {
    Off,
    /// log operations of this thread
    Record,
    /// controlled by the scheduler as worker `tid`
    Sched(usize, Arc<Sched>),
}

thread_local! {
    static MODE: RefCell<Mode> = RefCell::new(Mode::Off);
    static LOG: RefCell<ThreadLog> = RefCell::new(ThreadLog::default());
}

pub fn set_mode(m: Mode) {
    MODE.with(|c| *c.borrow_mut() = m);
}
pub fn peek_locks() -> usize {
    LOG.with(|l| l.borrow().locks.len())
}
pub fn take_log() -> ThreadLog {
    LOG.with(|l| std::mem::take(&mut *l.borrow_mut()))
}
pub fn clear_log() {
    LOG.with(|l| *l.borrow_mut() = ThreadLog::default());
}

/* ------------------------------------------------------------------ */
/* memory tracker                                                       */

#[derive(Debug, Clone)]
pub struct MemViolation {
    pub what: String,
    pub ptr: usize,
    pub file: String,
    pub line: u32,
}

struct Quarantined {
    size: usize,
    align: usize,
    snapshot: Vec<u8>,
    have_snapshot: bool,
}

#[derive(Default)]
pub struct Mem {
    /// blocks allocated through Shared::boxed and still live: ptr -> size
    live: HashMap<usize, usize>,
    /// reclaimed blocks kept by us: start -> info
    freed: BTreeMap<usize, Quarantined>,
    retired: HashMap<usize, u32>,
    pub violations: Vec<MemViolation>,
    pub n_alloc: u64,
    pub n_retire: u64,
    pub n_reclaim: u64,
    pub n_deref: u64,
}

static MEM_ON: AtomicBool = AtomicBool::new(false);
static MEM: Mutex<Option<Mem>> = Mutex::new(None);

pub fn mem_start() {
    *MEM.lock().unwrap() = Some(Mem::default());
    MEM_ON.store(true, Ordering::SeqCst);
}

/// Stop tracking; check the quarantined blocks for writes after reclamation; release them.
pub fn mem_finish() -> Mem {
    MEM_ON.store(false, Ordering::SeqCst);
    let mut m = MEM.lock().unwrap().take().unwrap_or_default();
    let freed = std::mem::take(&mut m.freed);
    for (ptr, q) in freed {
        if q.have_snapshot {
            // safety: the block was handed to us by reclaim() and never returned to the allocator
            let now = unsafe { std::slice::from_raw_parts(ptr as *const u8, q.size) };
            if now != &q.snapshot[..] {
                m.violations.push(MemViolation {
                    what: "write to a block after it was reclaimed".into(),
                    ptr,
                    file: String::new(),
                    line: 0,
                });
            }
        }
        if q.size > 0 {
            unsafe {
                std::alloc::dealloc(
                    ptr as *mut u8,
                    std::alloc::Layout::from_size_align_unchecked(q.size, q.align),
                )
            };
        }
    }
    m
}

fn mem_with<R>(f: impl FnOnce(&mut Mem) -> R) -> Option<R> {
    if !MEM_ON.load(Ordering::SeqCst) {
        return None;
    }
    let mut g = MEM.lock().unwrap();
    g.as_mut().map(f)
}

fn in_freed(m: &Mem, addr: usize) -> Option<usize> {
    m.freed
        .range(..=addr)
        .next_back()
        .filter(|(s, q)| addr < **s + q.size)
        .map(|(s, _)| *s)
}

fn check_touch(addr: usize, what: &str, loc: &'static Location<'static>) {
    mem_with(|m| {
        if let Some(b) = in_freed(m, addr) {
            m.violations.push(MemViolation {
                what: format!("{} of reclaimed block {:#x}", what, b),
                ptr: addr,
                file: loc.file().to_string(),
                line: loc.line(),
            });
        }
    });
}

/* ------------------------------------------------------------------ */
/* scheduler                                                            */

#[derive(Clone, Copy, Debug, PartialEq, Eq)]
pub enum Status {
    NotStarted,
    Ready,
    WaitLock(usize),
    Parked,
    Spinning(u64),
    Finished,
}

#[derive(Clone, Copy, Debug, PartialEq, Eq)]
pub enum Verdict {
    Running,
    Done,
    Deadlock,
    StepLimit,
    /// the running thread did not reach a yield point for seconds: it is blocked in the OS,
    /// i.e. it waits on something the hooks do not cover (a lock taken without a hook, a sleep)
    Stuck,
}

pub enum Policy {
    /// follow the recorded choices, then the fallback policy
    Replay(Vec<usize>, Box<Policy>),
    /// uniformly random among enabled threads, staying on the current thread with prob stick/16
    Random(crate::types::SplitMix64, u64),
    /// as Random, but thread `.2` sleeps from its `.3`-th yield point on for `.4` scheduler steps
    /// (or until nobody else can run): the schedules in which one thread is descheduled for a
    /// long time at an arbitrary point - stale reads, ABA
    Sleeper(crate::types::SplitMix64, u64, usize, u64, u64),
    RoundRobin,
    /// run the given thread whenever it is enabled (solo runs)
    Prefer(usize),
    /// a script: run thread `.0` until condition `.1` holds, then go on with the next entry;
    /// afterwards round-robin
    Directed(Vec<(usize, Cond)>, usize),
}

#[derive(Clone, Debug)]
pub enum Cond {
    /// the thread's next shared operation lies in the named function
    EntersFn(String),
    /// the thread has completed this many operations of its program
    CompletedOps(usize),
    /// the thread has made this many further steps since the directive became current
    Steps(u64),
    Done,
}

/// (file suffix, line, function) rows of the translator's site table, for EntersFn
pub static SITE_FNS: Mutex<Vec<(String, u32, String)>> = Mutex::new(Vec::new());
pub fn fn_of(file: &str, line: u32) -> Option<String> {
    // the function whose signature starts last at or before `line` in that file
    let t = SITE_FNS.lock().unwrap();
    t.iter()
        .filter(|r| file.ends_with(&format!("/src/{}", r.0)) && r.1 <= line)
        .max_by_key(|r| r.1)
        .map(|r| r.2.clone())
}

/// One scheduler step: the thread that ran, how many calls of its program it had completed, and
/// the yield point it continued from. `kind`: 0 = access to a pointer cell, 1 = lock, 2 = thread
/// start, 3 = other (harness yield, spin), 4 = access to an integer control word, 5 = park;
/// `aux` (kinds 0 and 4) = access kind (0 load, 1 store, 2 swap, 3 cas, 4 rmw, 5 clone-load) +
/// 16 * cell (0 ptr, 1 size_ctl, 2 transfer_index, 3 count, 4 lock_state).
#[derive(Clone, Copy, Debug)]
pub struct TraceSite {
    pub tid: u16,
    pub op_index: u16,
    pub file: &'static str,
    pub line: u32,
    pub kind: u8,
    pub aux: u8,
}

pub fn aux_of(op: &Op) -> u8 {
    let k = match op.kind {
        Kind::Load => 0,
        Kind::Store => 1,
        Kind::Swap => 2,
        Kind::Cas => 3,
        Kind::Rmw => 4,
        Kind::CloneLoad => 5,
    };
    let c = match op.cell {
        VCell::Ptr => 0,
        VCell::SizeCtl => 1,
        VCell::TransferIndex => 2,
        VCell::Count => 3,
        VCell::LockState => 4,
    };
    k + 16 * c
}

pub struct Inner {
    pub status: Vec<Status>,
    pub tokens: Vec<bool>,
    pub thread_ids: Vec<Option<std::thread::ThreadId>>,
    pub current: Option<usize>,
    pub policy: Policy,
    pub trace: Vec<u16>,
    pub step: u64,
    /// step at which some thread last executed an operation (for spinning threads)
    pub last_progress: Vec<u64>,
    pub verdict: Verdict,
    pub step_limit: u64,
    pub steps_of: Vec<u64>,
    pub replay_pos: usize,
    /// threads that must not be scheduled (frozen writers)
    pub frozen: Vec<bool>,
    /// optional: freeze thread t when it reaches its k-th yield point
    pub freeze_at: Vec<Option<u64>>,
    pub blocked_on_lock_events: u64,
    pub park_events: u64,
    /// set by the controller when the run is over: every waiting worker unwinds
    pub shutdown: bool,
    pub status_at_verdict: Vec<Status>,
    pub last_op: Vec<(&'static str, u32)>,
    pub ops_done: Vec<usize>,
    pub directive_steps: u64,
    /// the yield point each thread is waiting at: (file, line, 0 = atomic access, 1 = lock,
    /// 2 = thread start, 3 = anything else)
    pub pending: Vec<(&'static str, u32, u8, u8)>,
    /// per scheduler step: the thread that ran and the yield point it continued from
    pub trace_sites: Vec<TraceSite>,
}

pub struct Sched {
    pub inner: Mutex<Inner>,
    pub cv: Condvar,
}

pub struct Abort;

impl Sched {
    pub fn new(n: usize, policy: Policy, step_limit: u64) -> Arc<Sched> {
        Arc::new(Sched {
            inner: Mutex::new(Inner {
                status: vec![Status::NotStarted; n],
                tokens: vec![false; n],
                thread_ids: vec![None; n],
                current: None,
                policy,
                trace: Vec::new(),
                step: 0,
                last_progress: vec![0; n],
                verdict: Verdict::Running,
                step_limit,
                steps_of: vec![0; n],
                replay_pos: 0,
                frozen: vec![false; n],
                freeze_at: vec![None; n],
                blocked_on_lock_events: 0,
                park_events: 0,
                shutdown: false,
                status_at_verdict: Vec::new(),
                last_op: vec![("", 0); n],
                ops_done: vec![0; n],
                directive_steps: 0,
                pending: vec![("", 0, 2, 0); n],
                trace_sites: Vec::new(),
            }),
            cv: Condvar::new(),
        })
    }

    fn enabled(inner: &Inner, t: usize) -> bool {
        if inner.frozen[t] {
            return false;
        }
        match inner.status[t] {
            Status::NotStarted | Status::Finished => false,
            Status::Ready => true,
            Status::WaitLock(p) => {
                // safety: the lock lives in a node/tree bin the waiting thread reached under its
                // guard; it cannot be reclaimed while that thread waits
                let l = unsafe { &*(p as *const parking_lot::Mutex<()>) };
                !l.is_locked()
            }
            Status::Parked => inner.tokens[t],
            // a spinning thread re-checks its condition when it runs again; whether it makes
            // progress is judged by the step limit, not here
            Status::Spinning(_) => true,
        }
    }

    /// pick the next thread to run; None = nobody can run
    fn choose(inner: &mut Inner, me: Option<usize>) -> Option<usize> {
        let n = inner.status.len();
        let en: Vec<usize> = (0..n).filter(|t| Self::enabled(inner, *t)).collect();
        if en.is_empty() {
            return None;
        }
        let pick = loop {
            match &mut inner.policy {
                Policy::Replay(v, _) => {
                    if inner.replay_pos < v.len() {
                        let c = v[inner.replay_pos] as usize;
                        inner.replay_pos += 1;
                        if en.contains(&c) {
                            break c;
                        }
                        // the recorded choice is not enabled here: fall back for this step
                        break en[0];
                    } else {
                        let fb = std::mem::replace(&mut inner.policy, Policy::RoundRobin);
                        if let Policy::Replay(_, b) = fb {
                            inner.policy = *b;
                        }
                        continue;
                    }
                }
                Policy::Random(rng, stick) => {
                    if let Some(m) = me {
                        if en.contains(&m) && rng.below(16) < *stick {
                            break m;
                        }
                    }
                    break en[rng.below(en.len() as u64) as usize];
                }
                Policy::Sleeper(rng, stick, victim, at, dur) => {
                    let asleep = inner.steps_of[*victim] >= *at && *dur > 0;
                    let others: Vec<usize> = en.iter().cloned().filter(|t| t != victim).collect();
                    if asleep && !others.is_empty() {
                        *dur -= 1;
                        if let Some(m) = me {
                            if others.contains(&m) && rng.below(16) < *stick {
                                break m;
                            }
                        }
                        break others[rng.below(others.len() as u64) as usize];
                    }
                    if asleep {
                        // nobody else can run: the sleep is over
                        *dur = 0;
                    }
                    if let Some(m) = me {
                        if en.contains(&m) && rng.below(16) < *stick {
                            break m;
                        }
                    }
                    break en[rng.below(en.len() as u64) as usize];
                }
                Policy::RoundRobin => {
                    let start = me.map(|m| m + 1).unwrap_or(0);
                    let c = (0..n).map(|k| (start + k) % n).find(|t| en.contains(t)).unwrap();
                    break c;
                }
                Policy::Prefer(p) => {
                    if en.contains(p) {
                        break *p;
                    }
                    break en[0];
                }
                Policy::Directed(script, pos) => {
                    if *pos >= script.len() {
                        inner.policy = Policy::RoundRobin;
                        continue;
                    }
                    let (t, cond) = script[*pos].clone();
                    let finished = inner.status[t] == Status::Finished;
                    let sat = match &cond {
                        Cond::EntersFn(f) => {
                            let (file, line) = inner.last_op[t];
                            inner.status[t] != Status::NotStarted && fn_of(file, line).as_deref() == Some(f.as_str())
                        }
                        Cond::CompletedOps(n) => inner.ops_done[t] >= *n,
                        Cond::Steps(n) => inner.directive_steps >= *n,
                        Cond::Done => finished,
                    };
                    if sat || finished || !en.contains(&t) {
                        // next directive (a blocked thread cannot satisfy its directive: skip it)
                        if let Policy::Directed(_, p) = &mut inner.policy {
                            *p += 1;
                        }
                        inner.directive_steps = 0;
                        continue;
                    }
                    inner.directive_steps += 1;
                    break t;
                }
            }
        };
        Some(pick)
    }

    /// Called by worker `me` at a yield point, with its new status. Returns when `me` may run.
    fn yield_as(&self, me: usize, st: Status) -> Result<(), Abort> {
        let mut g = self.inner.lock().unwrap();
        if g.shutdown {
            return Err(Abort);
        }
        g.status[me] = st;
        g.steps_of[me] += 1;
        if let Some(k) = g.freeze_at[me] {
            if g.steps_of[me] >= k {
                g.frozen[me] = true;
                g.freeze_at[me] = None;
            }
        }
        g.step += 1;
        let step = g.step;
        g.last_progress[me] = step;
        if let Status::WaitLock(_) = st {
            if !Self::enabled(&g, me) {
                g.blocked_on_lock_events += 1;
            }
        }
        if g.step > g.step_limit {
            g.verdict = Verdict::StepLimit;
            self.cv.notify_all();
            return Err(Abort);
        }
        self.dispatch(&mut g, Some(me));
        self.wait_turn(g, me)
    }

    fn dispatch(&self, g: &mut Inner, me: Option<usize>) {
        match Self::choose(g, me) {
            Some(t) => {
                g.current = Some(t);
                g.trace.push(t as u16);
                let pd = g.pending[t];
                let oi = g.ops_done[t] as u16;
                g.trace_sites.push(TraceSite { tid: t as u16, op_index: oi, file: pd.0, line: pd.1, kind: pd.2, aux: pd.3 });
                g.pending[t] = ("", 0, 3, 0);
            }
            None => {
                g.current = None;
                let all_done = g
                    .status
                    .iter()
                    .enumerate()
                    .all(|(t, s)| *s == Status::Finished || g.frozen[t]);
                g.verdict = if all_done { Verdict::Done } else { Verdict::Deadlock };
                g.status_at_verdict = g.status.clone();
            }
        }
        self.cv.notify_all();
    }

    fn wait_turn(&self, mut g: std::sync::MutexGuard<'_, Inner>, me: usize) -> Result<(), Abort> {
        loop {
            if g.shutdown {
                return Err(Abort);
            }
            if g.current == Some(me) && g.verdict == Verdict::Running {
                // consume what made us runnable
                if g.status[me] == Status::Parked {
                    g.tokens[me] = false;
                }
                g.status[me] = Status::Ready;
                return Ok(());
            }
            g = self.cv.wait(g).unwrap();
        }
    }

    /// worker start: register and wait for the first turn
    pub fn enter(&self, me: usize) -> Result<(), Abort> {
        let mut g = self.inner.lock().unwrap();
        g.status[me] = Status::Ready;
        g.thread_ids[me] = Some(std::thread::current().id());
        self.cv.notify_all();
        self.wait_turn(g, me)
    }

    /// worker end
    pub fn finish(&self, me: usize) {
        let mut g = self.inner.lock().unwrap();
        g.status[me] = Status::Finished;
        g.step += 1;
        let step = g.step;
        g.last_progress[me] = step;
        if g.verdict == Verdict::Running {
            self.dispatch(&mut g, Some(me));
        }
    }

    fn wait_verdict<'a>(&self, mut g: std::sync::MutexGuard<'a, Inner>) -> std::sync::MutexGuard<'a, Inner> {
        let mut last = g.step;
        let mut idle = 0;
        while g.verdict == Verdict::Running {
            let (g2, to) = self.cv.wait_timeout(g, std::time::Duration::from_millis(500)).unwrap();
            g = g2;
            if to.timed_out() {
                if g.step == last {
                    idle += 1;
                    if idle >= 6 {
                        g.verdict = Verdict::Stuck;
                        g.status_at_verdict = g.status.clone();
                    }
                } else {
                    idle = 0;
                    last = g.step;
                }
            }
        }
        g
    }

    /// controller: start the run once all workers have registered, wait for the verdict
    pub fn run(&self) -> Verdict {
        let mut g = self.inner.lock().unwrap();
        while g.status.iter().any(|s| *s == Status::NotStarted) {
            g = self.cv.wait(g).unwrap();
        }
        self.dispatch(&mut g, None);
        let g = self.wait_verdict(g);
        g.verdict
    }

    /// controller: continue after the previous `run` ended with every live thread frozen
    pub fn resume(&self, unfreeze: &[usize]) -> Verdict {
        let mut g = self.inner.lock().unwrap();
        for t in unfreeze {
            g.frozen[*t] = false;
        }
        g.verdict = Verdict::Running;
        self.dispatch(&mut g, None);
        let g = self.wait_verdict(g);
        g.verdict
    }

    /// controller: the run is over, release every worker that is still waiting
    pub fn shutdown(&self) {
        let mut g = self.inner.lock().unwrap();
        g.shutdown = true;
        self.cv.notify_all();
    }

    /// a worker reports that it completed one operation of its program
    pub fn op_completed(&self, me: usize) {
        self.inner.lock().unwrap().ops_done[me] += 1;
    }

    /// an extra yield point requested by the harness itself
    pub fn yield_public(&self, me: usize) -> Result<(), Abort> {
        self.yield_as(me, Status::Ready)
    }

    fn unpark(&self, id: std::thread::ThreadId) {
        let mut g = self.inner.lock().unwrap();
        for t in 0..g.thread_ids.len() {
            if g.thread_ids[t] == Some(id) {
                g.tokens[t] = true;
            }
        }
    }
}

fn abort_thread() -> ! {
    // unwinds out of flurry; RAII lock guards are released on the way
    std::panic::resume_unwind(Box::new(Abort));
}


/* ------------------------------------------------------------------ */
/* happens-before (vector clocks) over the orderings the code passes   */

/// Vector-clock happens-before relation of one scheduled run, computed from the orderings the
/// crate actually passes (property C15): release stores / RMWs publish the writer's clock at the
/// cell, acquire loads / RMWs of that cell join it (release sequences continue through RMWs, a
/// plain relaxed store ends them), a mutex acquisition joins the clock of the previous holder,
/// unpark -> park joins. Deliberate over-approximations (they can hide a missing edge, never
/// invent a violation): mutex release is not hooked, so an acquisition joins the previous holder's
/// *current* clock; operations on the integer control words (size_ctl, transfer_index, count,
/// lock_state) report no outcome, so a CAS counts as successful.
/// Checked: whenever a thread dereferences an object allocated during the run, the allocation
/// (and with it the initialisation, which precedes it in program order) happens-before the
/// dereference.
pub struct Hb {
    pub vc: Vec<Vec<u64>>,
    rel: HashMap<usize, Vec<u64>>,
    lock_holder: HashMap<usize, usize>,
    tokens: Vec<Vec<u64>>,
    alloc: HashMap<usize, (usize, u64)>,
    pub violations: Vec<String>,
    seen: HashSet<(String, u32)>,
    pub derefs_checked: u64,
    pub cross_thread_derefs: u64,
    pub acquire_joins: u64,
}

static HB_ON: AtomicBool = AtomicBool::new(false);
static HB: Mutex<Option<Hb>> = Mutex::new(None);

fn join(a: &mut [u64], b: &[u64]) {
    for (x, y) in a.iter_mut().zip(b.iter()) {
        if *y > *x {
            *x = *y;
        }
    }
}

pub fn hb_start(n: usize) {
    let mut vc = vec![vec![0u64; n]; n];
    for (t, v) in vc.iter_mut().enumerate() {
        v[t] = 1;
    }
    *HB.lock().unwrap() = Some(Hb {
        vc,
        rel: HashMap::new(),
        lock_holder: HashMap::new(),
        tokens: vec![vec![0u64; n]; n],
        alloc: HashMap::new(),
        violations: Vec::new(),
        seen: HashSet::new(),
        derefs_checked: 0,
        cross_thread_derefs: 0,
        acquire_joins: 0,
    });
    HB_ON.store(true, Ordering::SeqCst);
}

pub fn hb_finish() -> Option<Hb> {
    HB_ON.store(false, Ordering::SeqCst);
    HB.lock().unwrap().take()
}

fn hb_with(f: impl FnOnce(&mut Hb, usize)) {
    if !HB_ON.load(Ordering::SeqCst) {
        return;
    }
    let me = MODE.with(|m| match &*m.borrow() {
        Mode::Sched(me, _) => Some(*me),
        _ => None,
    });
    if let Some(me) = me {
        let mut g = HB.lock().unwrap();
        if let Some(h) = g.as_mut() {
            if me < h.vc.len() {
                f(h, me);
            }
        }
    }
}

fn is_acq(o: Ordering) -> bool {
    matches!(o, Ordering::Acquire | Ordering::AcqRel | Ordering::SeqCst)
}
fn is_rel(o: Ordering) -> bool {
    matches!(o, Ordering::Release | Ordering::AcqRel | Ordering::SeqCst)
}

impl Hb {
    fn tick(&mut self, me: usize) {
        self.vc[me][me] += 1;
    }
    fn acquire(&mut self, me: usize, addr: usize) {
        if let Some(r) = self.rel.get(&addr) {
            let r = r.clone();
            join(&mut self.vc[me], &r);
            self.acquire_joins += 1;
        }
    }
    /// an atomic access whose outcome is known
    fn access(&mut self, me: usize, kind: Kind, addr: usize, ord: Ordering, ord_fail: Option<Ordering>, wrote: bool) {
        match kind {
            Kind::Load | Kind::CloneLoad => {
                if is_acq(ord) {
                    self.acquire(me, addr);
                }
            }
            Kind::Store => {
                self.tick(me);
                if is_rel(ord) {
                    self.rel.insert(addr, self.vc[me].clone());
                } else {
                    self.rel.remove(&addr);
                }
            }
            Kind::Swap | Kind::Rmw | Kind::Cas => {
                if wrote {
                    if is_acq(ord) {
                        self.acquire(me, addr);
                    }
                    self.tick(me);
                    if is_rel(ord) {
                        let mut r = self.rel.get(&addr).cloned().unwrap_or_else(|| vec![0; self.vc.len()]);
                        join(&mut r, &self.vc[me]);
                        self.rel.insert(addr, r);
                    }
                    // a relaxed RMW keeps the release sequence it continues
                } else if is_acq(ord_fail.unwrap_or(Ordering::Relaxed)) {
                    self.acquire(me, addr);
                }
            }
        }
    }
}

/* ------------------------------------------------------------------ */
/* the Hooks implementation                                             */

pub struct H;

pub static OPS_TOTAL: AtomicU64 = AtomicU64::new(0);

impl Hooks for H {
    fn before_op(&self, op: &Op) {
        check_touch(op.addr, "atomic access", op.loc);
        MODE.with(|m| match &*m.borrow() {
            Mode::Off => {}
            Mode::Record => {
                OPS_TOTAL.fetch_add(1, Ordering::Relaxed);
                LOG.with(|l| {
                    l.borrow_mut().ops.push(OpRec {
                        kind: op.kind,
                        cell: op.cell,
                        ord: op.ord,
                        ord_fail: op.ord_fail,
                        protected: op.protected,
                        guard: op.guard,
                        file: op.loc.file(),
                        line: op.loc.line(),
                    })
                });
            }
            Mode::Sched(me, s) => {
                LOG.with(|l| {
                    l.borrow_mut().ops.push(OpRec {
                        kind: op.kind,
                        cell: op.cell,
                        ord: op.ord,
                        ord_fail: op.ord_fail,
                        protected: op.protected,
                        guard: op.guard,
                        file: op.loc.file(),
                        line: op.loc.line(),
                    })
                });
                {
                    let mut g = s.inner.lock().unwrap();
                    g.last_op[*me] = (op.loc.file(), op.loc.line());
                    g.pending[*me] = (op.loc.file(), op.loc.line(), if op.cell == flurry::verif::Cell::Ptr { 0 } else { 4 }, aux_of(op));
                }
                if s.yield_as(*me, Status::Ready).is_err() {
                    abort_thread();
                }
            }
        });
        if op.cell != flurry::verif::Cell::Ptr {
            // the integer control words report no outcome: a CAS counts as successful
            hb_with(|h, me| h.access(me, op.kind, op.addr, op.ord, op.ord_fail, true));
        }
    }
    fn after_op(&self, op: &Op, _observed: usize, written: Option<usize>) {
        if op.cell == flurry::verif::Cell::Ptr {
            hb_with(|h, me| h.access(me, op.kind, op.addr, op.ord, op.ord_fail, written.is_some() || op.kind == Kind::Store));
        }
    }
    fn before_lock(&self, lock: &parking_lot::Mutex<()>, loc: &'static Location<'static>) {
        check_touch(lock as *const _ as usize, "lock", loc);
        MODE.with(|m| match &*m.borrow() {
            Mode::Off => {}
            Mode::Record => LOG.with(|l| l.borrow_mut().locks.push((loc.file(), loc.line()))),
            Mode::Sched(me, s) => {
                LOG.with(|l| l.borrow_mut().locks.push((loc.file(), loc.line())));
                {
                    s.inner.lock().unwrap().pending[*me] = (loc.file(), loc.line(), 1, 0);
                }
                if s.yield_as(*me, Status::WaitLock(lock as *const _ as usize)).is_err() {
                    abort_thread();
                }
            }
        });
        // the thread runs on only when the mutex is free: join the previous holder's clock
        hb_with(|h, me| {
            let a = lock as *const _ as usize;
            if let Some(prev) = h.lock_holder.insert(a, me) {
                if prev != me {
                    let c = h.vc[prev].clone();
                    join(&mut h.vc[me], &c);
                }
            }
        });
    }
    fn pre_park(&self, _loc: &'static Location<'static>) {
        MODE.with(|m| match &*m.borrow() {
            Mode::Off => {}
            Mode::Record => LOG.with(|l| l.borrow_mut().parks += 1),
            Mode::Sched(me, s) => {
                LOG.with(|l| l.borrow_mut().parks += 1);
                {
                    let mut g = s.inner.lock().unwrap();
                    g.park_events += 1;
                    g.pending[*me] = (_loc.file(), _loc.line(), 5, 0);
                }
                if s.yield_as(*me, Status::Parked).is_err() {
                    abort_thread();
                }
            }
        });
        hb_with(|h, me| {
            let c = h.tokens[me].clone();
            join(&mut h.vc[me], &c);
        });
    }
    fn on_unpark(&self, target: std::thread::ThreadId) {
        let mut tgt = None;
        MODE.with(|m| {
            if let Mode::Sched(_, s) = &*m.borrow() {
                s.unpark(target);
                let g = s.inner.lock().unwrap();
                tgt = g.thread_ids.iter().position(|x| *x == Some(target));
            }
        });
        if let Some(t) = tgt {
            hb_with(|h, me| {
                h.tick(me);
                let c = h.vc[me].clone();
                if t < h.tokens.len() {
                    join(&mut h.tokens[t], &c);
                }
            });
        }
    }
    fn spin(&self, _loc: &'static Location<'static>) {
        MODE.with(|m| match &*m.borrow() {
            Mode::Off => {}
            Mode::Record => LOG.with(|l| l.borrow_mut().spins += 1),
            Mode::Sched(me, s) => {
                LOG.with(|l| l.borrow_mut().spins += 1);
                let since = s.inner.lock().unwrap().step;
                if s.yield_as(*me, Status::Spinning(since + 1)).is_err() {
                    abort_thread();
                }
            }
        });
    }
    fn alloc(&self, ptr: usize, size: usize) {
        mem_with(|m| {
            m.n_alloc += 1;
            m.live.insert(ptr, size);
        });
        hb_with(|h, me| {
            h.tick(me);
            let c = h.vc[me][me];
            h.alloc.insert(ptr, (me, c));
        });
    }
    fn deref(&self, ptr: usize, loc: &'static Location<'static>) {
        mem_with(|m| m.n_deref += 1);
        check_touch(ptr, "dereference", loc);
        hb_with(|h, me| {
            if let Some(&(t0, c0)) = h.alloc.get(&ptr) {
                h.derefs_checked += 1;
                if t0 != me {
                    h.cross_thread_derefs += 1;
                    if h.vc[me][t0] < c0 && h.seen.insert((loc.file().to_string(), loc.line())) {
                        h.violations.push(format!(
                            "thread {} dereferences at {}:{} an object that thread {} allocated and initialised at its event {}, but only events up to {} of thread {} happen-before this access (no release/acquire chain from the initialisation to the read)",
                            me, loc.file(), loc.line(), t0, c0, h.vc[me][t0], t0
                        ));
                    }
                }
            }
        });
    }
    fn into_box(&self, ptr: usize, loc: &'static Location<'static>) {
        check_touch(ptr, "into_box", loc);
        mem_with(|m| {
            m.live.remove(&ptr);
        });
    }
    fn retire(&self, ptr: usize, guard: usize, loc: &'static Location<'static>) {
        check_touch(ptr, "retire", loc);
        MODE.with(|m| match &*m.borrow() {
            Mode::Off => {}
            _ => LOG.with(|l| l.borrow_mut().retires.push((ptr, guard))),
        });
        mem_with(|m| {
            m.n_retire += 1;
            let c = m.retired.entry(ptr).or_insert(0);
            *c += 1;
            if *c > 1 {
                m.violations.push(MemViolation {
                    what: "object retired twice".into(),
                    ptr,
                    file: loc.file().to_string(),
                    line: loc.line(),
                });
            }
        });
    }
    fn reclaim(&self, ptr: usize, _size: usize, _align: usize) -> bool {
        // take the block over; it counts as freed only once its destructor has run
        if HB_ON.load(Ordering::SeqCst) {
            if let Some(h) = HB.lock().unwrap().as_mut() {
                h.alloc.remove(&ptr);
            }
        }
        mem_with(|m| {
            m.n_reclaim += 1;
            m.live.remove(&ptr);
            m.retired.remove(&ptr);
            true
        })
        .unwrap_or(false)
    }
    fn reclaimed(&self, ptr: usize, size: usize, align: usize) {
        // the destructor has run: remember the bytes, any later change is a write after free
        let snap = unsafe { std::slice::from_raw_parts(ptr as *const u8, size) }.to_vec();
        let mut g = MEM.lock().unwrap();
        match g.as_mut() {
            Some(m) if MEM_ON.load(Ordering::SeqCst) => {
                m.freed.insert(
                    ptr,
                    Quarantined {
                        size,
                        align,
                        snapshot: snap,
                        have_snapshot: true,
                    },
                );
            }
            _ => {
                // tracking ended between reclaim() and now: give the block back
                drop(g);
                if size > 0 {
                    unsafe {
                        std::alloc::dealloc(
                            ptr as *mut u8,
                            std::alloc::Layout::from_size_align_unchecked(size, align),
                        )
                    };
                }
            }
        }
    }
    fn event(&self, ev: Event) {
        MODE.with(|m| match &*m.borrow() {
            Mode::Off => {}
            _ => LOG.with(|l| l.borrow_mut().events.push(ev)),
        });
    }
}

pub static HOOKS: H = H;

pub fn install() {
    verif::set_hooks(Some(&HOOKS));
}
