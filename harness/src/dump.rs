//! Canonical, owned form of the inspector dump; pointer-level consistency checks; Coq printer.
#![allow(dead_code)]
use crate::types::{Key, Val};
use flurry::verif::{BinDump, Dump, NodeDump, TableDump, TreeNodeDump};
use std::collections::{HashMap, HashSet};

#[derive(Clone, Debug, PartialEq, Eq)]
pub struct CNode {
    pub h: u64,
    pub k: u32,
    pub inst: u32,
    pub v: i64,
    pub alive: bool,
    pub addr: usize,
    pub vaddr: usize,
    pub locked: bool,
}

#[derive(Clone, Debug, PartialEq, Eq)]
pub enum CTree {
    Leaf,
    Node(bool, Box<CTree>, CNode, Box<CTree>),
}

#[derive(Clone, Debug, PartialEq, Eq)]
pub enum CBin {
    Empty,
    Moved,
    List(Vec<CNode>),
    Tree {
        tree: CTree,
        ord: Vec<CNode>,
        /// pointer-level defects found (parent/prev inverses, root parent, node sets)
        defects: Vec<String>,
        lock_state: i64,
        locked: bool,
        waiter_null: bool,
    },
}

#[derive(Clone, Debug, PartialEq, Eq)]
pub struct CTable {
    pub addr: usize,
    pub bins: Vec<CBin>,
    pub next_table: usize,
}

#[derive(Clone, Debug, PartialEq, Eq)]
pub struct CDump {
    pub table: Option<CTable>,
    pub next: Option<CTable>,
    pub sc: i64,
    pub ti: i64,
    pub cnt: i64,
}

fn cnode(n: &NodeDump<'_, Key, Val>) -> CNode {
    CNode {
        h: n.hash,
        k: n.key.id,
        inst: n.key.inst,
        v: n.value.map(|v| v.payload).unwrap_or(i64::MIN),
        alive: n.key.alive() && n.value.map(|v| v.alive()).unwrap_or(false),
        addr: n.addr,
        vaddr: n.value_addr,
        locked: n.locked,
    }
}

fn build_tree(
    root: usize,
    by_addr: &HashMap<usize, &TreeNodeDump<'_, Key, Val>>,
    seen: &mut HashSet<usize>,
    defects: &mut Vec<String>,
    parent: usize,
) -> CTree {
    if root == 0 {
        return CTree::Leaf;
    }
    if !seen.insert(root) {
        defects.push(format!("tree node {:#x} reached twice", root));
        return CTree::Leaf;
    }
    match by_addr.get(&root) {
        None => {
            defects.push(format!("tree link to unknown node {:#x}", root));
            CTree::Leaf
        }
        Some(t) => {
            if t.parent != parent {
                defects.push(format!("parent link of key {} is not the inverse of its child link", t.node.key.id));
            }
            let l = build_tree(t.left, by_addr, seen, defects, root);
            let r = build_tree(t.right, by_addr, seen, defects, root);
            CTree::Node(t.red, Box::new(l), cnode(&t.node), Box::new(r))
        }
    }
}

fn ctable(t: &TableDump<'_, Key, Val>) -> CTable {
    let bins = t
        .bins
        .iter()
        .map(|b| match b {
            BinDump::Empty => CBin::Empty,
            BinDump::Moved => CBin::Moved,
            BinDump::List(ns) => CBin::List(ns.iter().map(cnode).collect()),
            BinDump::Tree {
                locked,
                lock_state,
                waiter_null,
                root,
                first,
                list,
                tree,
                ..
            } => {
                let mut defects = Vec::new();
                let mut by_addr: HashMap<usize, &TreeNodeDump<'_, Key, Val>> = HashMap::new();
                for n in tree.iter().chain(list.iter()) {
                    by_addr.entry(n.node.addr).or_insert(n);
                }
                let mut seen = HashSet::new();
                let ctree = build_tree(*root, &by_addr, &mut seen, &mut defects, 0);
                // list links: prev is the inverse of next, first has no prev
                let mut prev = 0usize;
                for (i, n) in list.iter().enumerate() {
                    if i == 0 && n.node.addr != *first {
                        defects.push("first does not start the next-list".into());
                    }
                    if n.prev != prev {
                        defects.push(format!("prev link of key {} is not the inverse of next", n.node.key.id));
                    }
                    prev = n.node.addr;
                }
                CBin::Tree {
                    tree: ctree,
                    ord: list.iter().map(|n| cnode(&n.node)).collect(),
                    defects,
                    lock_state: *lock_state,
                    locked: *locked,
                    waiter_null: *waiter_null,
                }
            }
        })
        .collect();
    CTable {
        addr: t.addr,
        bins,
        next_table: t.next_table,
    }
}

pub fn canon(d: &Dump<'_, Key, Val>) -> CDump {
    CDump {
        table: d.table.as_ref().map(ctable),
        next: d.next.as_ref().map(ctable),
        sc: d.size_ctl as i64,
        ti: d.transfer_index as i64,
        cnt: d.count as i64,
    }
}

/* ---------------- Coq printer ---------------- */

fn z(v: i64) -> String {
    if v < 0 {
        format!("({})", v)
    } else {
        v.to_string()
    }
}

pub fn node_coq(n: &CNode) -> String {
    format!("N_ {} {} {} {}", n.h, n.k, n.inst, z(n.v))
}

fn list_coq(ns: &[CNode]) -> String {
    format!("[{}]", ns.iter().map(node_coq).collect::<Vec<_>>().join(";"))
}

pub fn tree_coq(t: &CTree) -> String {
    match t {
        CTree::Leaf => "L_".into(),
        CTree::Node(red, l, e, r) => format!(
            "(T_ {} {} ({}) {})",
            if *red { "true" } else { "false" },
            tree_coq(l),
            node_coq(e),
            tree_coq(r)
        ),
    }
}

pub fn bin_coq(b: &CBin) -> String {
    match b {
        CBin::Empty => "BNull".into(),
        CBin::Moved => "BMoved".into(),
        CBin::List(ns) => format!("BList {}", list_coq(ns)),
        CBin::Tree { tree, ord, .. } => format!("BTree (mkTBin {} {})", tree_coq(tree), list_coq(ord)),
    }
}

/// `mkD len [(i, bin); ...] sc cnt`  (sparse: empty bins are omitted)
pub fn dump_coq(d: &CDump) -> String {
    match &d.table {
        None => format!("mkD 0 [] {} {}", z(d.sc), z(d.cnt)),
        Some(t) => {
            let bins: Vec<String> = t
                .bins
                .iter()
                .enumerate()
                .filter(|(_, b)| !matches!(b, CBin::Empty))
                .map(|(i, b)| format!("B_ {} ({})", i, bin_coq(b)))
                .collect();
            format!("mkD {} [{}] {} {}", t.bins.len(), bins.join(";"), z(d.sc), z(d.cnt))
        }
    }
}

/// `mkDd base [changed bins] sc cnt` for two dumps of equal table length
pub fn dump_delta_coq(base: &CDump, d: &CDump, base_name: &str) -> String {
    let (bt, dt) = (base.table.as_ref().unwrap(), d.table.as_ref().unwrap());
    let ch: Vec<String> = dt
        .bins
        .iter()
        .enumerate()
        .filter(|(i, b)| bin_coq(b) != bin_coq(&bt.bins[*i]))
        .map(|(i, b)| format!("B_ {} ({})", i, bin_coq(b)))
        .collect();
    format!("mkDd {} [{}] {} {}", base_name, ch.join(";"), z(d.sc), z(d.cnt))
}

impl CDump {
    pub fn len(&self) -> usize {
        self.table.as_ref().map(|t| t.bins.len()).unwrap_or(0)
    }
    /// all (key, inst, value) triples in iteration order of the current table
    pub fn entries(&self) -> Vec<(u32, u32, i64)> {
        let mut v = Vec::new();
        if let Some(t) = &self.table {
            for b in &t.bins {
                match b {
                    CBin::List(ns) => v.extend(ns.iter().map(|n| (n.k, n.inst, n.v))),
                    CBin::Tree { ord, .. } => v.extend(ord.iter().map(|n| (n.k, n.inst, n.v))),
                    _ => {}
                }
            }
        }
        v
    }
    pub fn defects(&self) -> Vec<String> {
        let mut v = Vec::new();
        for t in self.table.iter().chain(self.next.iter()) {
            for (i, b) in t.bins.iter().enumerate() {
                match b {
                    CBin::Tree { defects, locked, ord, .. } => {
                        for d in defects {
                            v.push(format!("bin {}: {}", i, d));
                        }
                        if *locked {
                            v.push(format!("bin {}: tree bin lock held", i));
                        }
                        for n in ord {
                            if !n.alive {
                                v.push(format!("bin {}: dead key/value reachable (key {})", i, n.k));
                            }
                        }
                    }
                    CBin::List(ns) => {
                        for n in ns {
                            if n.locked {
                                v.push(format!("bin {}: node lock held (key {})", i, n.k));
                            }
                            if !n.alive {
                                v.push(format!("bin {}: dead key/value reachable (key {})", i, n.k));
                            }
                        }
                    }
                    _ => {}
                }
            }
        }
        v
    }
    /// structure without addresses (for "unchanged" comparisons)
    pub fn shape(&self) -> String {
        format!("{} | next={}", dump_coq(self), self.next.is_some())
    }
}
