//! Step-by-step conformance of the tree-bin lock model (coq/Model/TreeLock.v) with the crate:
//! one tree bin, one writer thread restructuring it, reader threads looking keys up, under the
//! deterministic scheduler; the steps that belong to the lock protocol are named through the
//! regenerated function and site tables and replayed on the model by Model/TreeConf.v.
use crate::conc::*;
use crate::hooks::{self, TraceSite};
use crate::types::*;
use std::fmt::Write as _;

pub struct TlSites {
    cas_lines: Vec<u32>,   // contended_lock: lock_state compare_exchange rows, by line
    swap_lines: Vec<u32>,  // contended_lock: waiter swap rows, by line of the method name
    find_waiter_load: Vec<u32>,
}

impl TlSites {
    pub fn load(gen_json: &str) -> TlSites {
        let txt = std::fs::read_to_string(gen_json).expect("gen.json");
        let gen: serde_json::Value = serde_json::from_str(&txt).expect("gen.json parse");
        let mut t = TlSites { cas_lines: vec![], swap_lines: vec![], find_waiter_load: vec![] };
        for r in gen["atomics"].as_array().expect("atomics") {
            if r["file"].as_str() != Some("node.rs") {
                continue;
            }
            let (f, field, m) = (r["fn"].as_str().unwrap_or(""), r["field"].as_str().unwrap_or(""), r["method"].as_str().unwrap_or(""));
            let (line, mline) = (r["line"].as_u64().unwrap_or(0) as u32, r["mline"].as_u64().unwrap_or(0) as u32);
            match (f, field, m) {
                ("contended_lock", "lock_state", "compare_exchange") => t.cas_lines.push(line),
                ("contended_lock", "waiter", "swap") => t.swap_lines.push(mline),
                ("find", "waiter", "load") => t.find_waiter_load.push(mline),
                _ => {}
            }
        }
        t.cas_lines.sort();
        t.swap_lines.sort();
        t
    }
    /// the tables have the shape the classification relies on
    pub fn shape_ok(&self) -> bool {
        self.cas_lines.len() == 2 && self.swap_lines.len() == 2 && self.find_waiter_load.len() == 1
    }

    pub fn class(&self, ts: &TraceSite) -> Option<&'static str> {
        if !ts.file.ends_with("/src/node.rs") {
            return None;
        }
        let f = hooks::fn_of(ts.file, ts.line).unwrap_or_default();
        match ts.kind {
            5 => Some("TWPark"),
            4 => {
                if ts.aux / 16 != 4 {
                    return None;
                }
                match (f.as_str(), ts.aux % 16) {
                    ("lock_root", 3) => Some("TWFirstCas"),
                    ("unlock_root", 1) => Some("TWUnlock"),
                    ("contended_lock", 0) => Some("TWLoad"),
                    ("contended_lock", 3) => Some(if ts.line < self.cas_lines[0] { "TWCasWriter" } else { "TWCasWaiter" }),
                    ("find", 0) => Some("TRLoad"),
                    ("find", 3) => Some("TRCas"),
                    ("find", 4) => Some("TRExit"),
                    _ => Some("UNKNOWN"),
                }
            }
            0 => {
                if self.swap_lines.contains(&ts.line) {
                    Some(if ts.line == self.swap_lines[0] { "TWClearWaiter" } else { "TWSetWaiter" })
                } else if self.find_waiter_load.contains(&ts.line) {
                    Some("TRLoadWaiter")
                } else {
                    None
                }
            }
            _ => None,
        }
    }
}

pub fn gen_tl_program(rng: &mut SplitMix64) -> Program {
    let fill = 9 + rng.below(5) as u32;
    let mut p = Program {
        hasher: H_ZERO,
        cap: 64,
        prefill: (0..fill).collect(),
        threads: vec![],
        universe: fill + 6,
        batch: [1, 2, 0][rng.below(3) as usize],
        pin: rng.chance(1, 2),
        linger: 0,
    };
    let mut val = 1i64;
    let mut fresh = fill;
    let nw = 2 + rng.below(4);
    p.threads.push(
        (0..nw)
            .map(|_| {
                if rng.chance(3, 5) {
                    fresh += 1;
                    COp::Insert(fresh - 1, { val += 1; val })
                } else {
                    COp::Remove(rng.below(fill as u64) as u32)
                }
            })
            .collect(),
    );
    for _ in 0..(1 + rng.below(3)) {
        let n = 1 + rng.below(3);
        p.threads.push((0..n).map(|_| COp::Get(rng.below((fill + 2) as u64) as u32)).collect());
    }
    p
}

pub struct TlOut {
    pub coq: Option<String>,
    pub protocol_steps: usize,
    pub parks: u64,
    pub rounds: usize,
    pub failures: Vec<String>,
}

pub fn tl_case(p: &Program, r: &RunResult, sites: &TlSites) -> TlOut {
    let mut out = TlOut { coq: None, protocol_steps: 0, parks: r.parks, rounds: 0, failures: vec![] };
    if r.verdict != hooks::Verdict::Done {
        out.failures.push(format!("run ended with verdict {:?}: {}", r.verdict, r.statuses));
        return out;
    }
    // model thread of every reader call
    let mut ids = std::collections::BTreeMap::<(u16, u16), usize>::new();
    let mut next = 1usize;
    for (t, ops) in p.threads.iter().enumerate().skip(1) {
        for j in 0..ops.len() {
            ids.insert((t as u16, j as u16), next);
            next += 1;
        }
    }
    let mut loads = vec![0usize; next];
    let mut steps: Vec<(usize, &'static str)> = Vec::new();
    for ts in &r.trace_sites {
        if let Some(c) = sites.class(ts) {
            if c == "UNKNOWN" {
                out.failures.push(format!("an access to lock_state at {}:{} is not one the model knows", ts.file, ts.line));
                return out;
            }
            let writer_acc = c.starts_with("TW");
            let m = if ts.tid == 0 {
                0
            } else {
                match ids.get(&(ts.tid, ts.op_index)) {
                    Some(m) => *m,
                    None => {
                        out.failures.push(format!("thread {} call {} is not a call of its program", ts.tid, ts.op_index));
                        return out;
                    }
                }
            };
            if writer_acc != (m == 0) {
                out.failures.push(format!(
                    "thread {} performed the {} access {} at {}:{}",
                    ts.tid,
                    if writer_acc { "writer" } else { "reader" },
                    c,
                    ts.file,
                    ts.line
                ));
                return out;
            }
            if c == "TWFirstCas" {
                out.rounds += 1;
            }
            if c == "TRLoad" {
                loads[m] += 1;
            }
            steps.push((m, c));
        }
    }
    out.protocol_steps = steps.len();
    let mut s = String::new();
    let _ = write!(s, "tl_conform {}%nat [", out.rounds);
    let _ = write!(s, "{}", (1..next).map(|m| format!("{}%nat", loads[m] + 1)).collect::<Vec<_>>().join("; "));
    let _ = write!(s, "] [");
    let _ = write!(s, "{}", steps.iter().map(|(m, c)| format!("({}%nat, {})", m, c)).collect::<Vec<_>>().join("; "));
    let _ = write!(s, "]");
    out.coq = Some(s);
    out
}
