//! HashSet against std (BTreeSet) and against the relation specification Model/SetSpec.v:
//! every operation's return value, the contents after it, and the four relations between two
//! sets (is_subset / is_superset / is_disjoint / ==) through the guard API and through pinned
//! references, for sets related in every way (equal, proper subset, superset, disjoint,
//! overlapping, empty) under every hasher and several capacities.
use crate::types::*;
use crate::with_hasher;
use flurry::HashSet;
use std::collections::BTreeSet;
use std::fmt::Write as _;
use std::hash::BuildHasher;

pub struct SetsResult {
    pub cases: u64,
    pub ops: u64,
    pub relation_checks: u64,
    pub equal_pairs: u64,
    pub failures: Vec<String>,
    pub coq: String,
}

fn build<S: BuildHasher + Default>(rng: &mut SplitMix64, universe: u32, cap: usize, model: &mut BTreeSet<u32>, pin: bool, fails: &mut Vec<String>, ops: &mut u64, what: &str) -> HashSet<Key, S> {
    let set: HashSet<Key, S> = if cap == 0 { HashSet::with_hasher(S::default()) } else { HashSet::with_capacity_and_hasher(cap, S::default()) };
    let n = rng.below(2 * universe as u64 + 2);
    for i in 0..n {
        let k = rng.below(universe as u64) as u32;
        *ops += 1;
        let g = set.guard();
        let r = set.pin();
        match rng.below(12) {
            0..=5 => {
                let got = if pin { r.insert(Key::new(k, i as u32)) } else { set.insert(Key::new(k, i as u32), &g) };
                let want = model.insert(k);
                if got != want {
                    fails.push(format!("{}: insert({}) returned {} (std: {})", what, k, got, want));
                }
            }
            6..=7 => {
                let got = if pin { r.remove(&Key::probe(k)) } else { set.remove(&Key::probe(k), &g) };
                let want = model.remove(&k);
                if got != want {
                    fails.push(format!("{}: remove({}) returned {} (std: {})", what, k, got, want));
                }
            }
            8 => {
                let got = if pin { r.take(&Key::probe(k)).map(|x| x.id) } else { set.take(&Key::probe(k), &g).map(|x| x.id) };
                let want = model.take(&k);
                if got != want {
                    fails.push(format!("{}: take({}) returned {:?} (std: {:?})", what, k, got, want));
                }
            }
            9 => {
                let m = 2 + rng.below(3) as u32;
                if pin { r.retain(|x| x.id % m != 0) } else { set.retain(|x| x.id % m != 0, &g) };
                model.retain(|x| x % m != 0);
            }
            10 => {
                if rng.chance(1, 4) {
                    if pin { r.clear() } else { set.clear(&g) };
                    model.clear();
                } else {
                    let a = rng.below(40) as usize;
                    if pin { r.reserve(a) } else { set.reserve(a, &g) };
                }
            }
            _ => {
                let c = if pin { r.contains(&Key::probe(k)) } else { set.contains(&Key::probe(k), &g) };
                let gk = if pin { r.get(&Key::probe(k)).map(|x| x.id) } else { set.get(&Key::probe(k), &g).map(|x| x.id) };
                if c != model.contains(&k) || gk != model.get(&k).cloned() {
                    fails.push(format!("{}: contains/get({}) = {}/{:?} (std: {})", what, k, c, gk, model.contains(&k)));
                }
            }
        }
        let content: BTreeSet<u32> = set.iter(&g).map(|x| x.id).collect();
        let count = set.iter(&g).count();
        if content != *model || count != model.len() || set.len() != model.len() || set.is_empty() != model.is_empty() {
            fails.push(format!("{}: after operation {} the set holds {:?} (len {} / {} yielded), std holds {:?}", what, i, content, set.len(), count, model));
            break;
        }
    }
    set
}

fn nl(s: &BTreeSet<u32>) -> String {
    format!("[{}]%N", s.iter().map(|x| x.to_string()).collect::<Vec<_>>().join("; "))
}

pub fn run(seed: u64, n: u64) -> SetsResult {
    let mut rng = SplitMix64(seed ^ 0x5E75);
    let mut r = SetsResult { cases: 0, ops: 0, relation_checks: 0, equal_pairs: 0, failures: vec![], coq: String::from("From Flurry Require Import Model.SetSpec.\nOpen Scope N_scope.\n") };
    for ci in 0..n {
        let hasher = rng.below(8) as u8;
        let universe = 1 + rng.below(14) as u32;
        let cap = [0usize, 0, 1, 7, 64][rng.below(5) as usize];
        let pin = rng.chance(1, 2);
        let shape = rng.below(6);
        let mut fails = Vec::new();
        let mut ops = 0u64;
        with_hasher!(hasher, S, {
            let mut ma = BTreeSet::new();
            let a: HashSet<Key, S> = build::<S>(&mut rng, universe, cap, &mut ma, pin, &mut fails, &mut ops, "set A");
            // B in a chosen relation to A
            let mut mb = BTreeSet::new();
            let b: HashSet<Key, S> = match shape {
                0 => build::<S>(&mut rng, universe, cap, &mut mb, !pin, &mut fails, &mut ops, "set B"),
                _ => {
                    let b: HashSet<Key, S> = HashSet::with_hasher(S::default());
                    let gb = b.guard();
                    for k in ma.iter() {
                        let keep = match shape {
                            1 => true,                    // equal
                            2 => rng.chance(2, 3),       // B subset of A
                            3 => true,                    // B superset of A (extras below)
                            4 => false,                   // disjoint (extras below)
                            _ => rng.chance(1, 2),
                        };
                        if keep {
                            b.insert(Key::new(*k, 77), &gb);
                            mb.insert(*k);
                        }
                    }
                    if shape >= 3 {
                        for _ in 0..rng.below(4) {
                            let k = universe + rng.below(6) as u32;
                            b.insert(Key::new(k, 78), &gb);
                            mb.insert(k);
                        }
                    }
                    drop(gb);
                    b
                }
            };
            let (ga, gb) = (a.guard(), b.guard());
            let ans = [
                ("guard API", a.is_subset(&b, &ga, &gb), a.is_superset(&b, &ga, &gb), a.is_disjoint(&b, &ga, &gb), a == b),
                ("pinned references", a.pin().is_subset(&b.pin()), a.pin().is_superset(&b.pin()), a.pin().is_disjoint(&b.pin()), a.pin() == b.pin()),
            ];
            let want = (ma.is_subset(&mb), ma.is_superset(&mb), ma.is_disjoint(&mb), ma == mb);
            if ma == mb {
                r.equal_pairs += 1;
            }
            for (api, sub, sup, dis, eq) in ans {
                r.relation_checks += 4;
                if (sub, sup, dis, eq) != want {
                    fails.push(format!(
                        "{}: A = {:?}, B = {:?}: is_subset / is_superset / is_disjoint / == answered {:?}, std answers {:?}",
                        api, ma, mb, (sub, sup, dis, eq), want
                    ));
                }
                let _ = write!(
                    r.coq,
                    "Eval vm_compute in ({}, rel_check {} {} (mkAns {} {} {} {})).\n",
                    r.cases, nl(&ma), nl(&mb), sub, sup, dis, eq
                );
                r.cases += 1;
            }
        });
        r.ops += ops;
        for f in fails.into_iter().take(2) {
            r.failures.push(format!("case {} (seed {}, hasher {}, cap {}, universe {}, shape {}): {}", ci, seed, HASHER_NAMES[hasher as usize], cap, universe, shape, f));
        }
    }
    r
}

/* ---------- concurrent programs through the set facades (C01) ---------- */

use crate::hooks::{self, Mode, Policy, Sched, Verdict};
use std::panic::{catch_unwind, AssertUnwindSafe};
use std::sync::Mutex;

#[derive(Clone, Debug, PartialEq)]
pub enum SOp {
    Insert(u32),
    Remove(u32),
    Take(u32),
    Contains(u32),
    Get(u32),
}
impl SOp {
    fn key(&self) -> u32 {
        match self {
            SOp::Insert(k) | SOp::Remove(k) | SOp::Take(k) | SOp::Contains(k) | SOp::Get(k) => *k,
        }
    }
}
#[derive(Clone, Debug)]
struct SCall {
    tid: usize,
    op: SOp,
    inv: u64,
    res: u64,
    /// what the call reported: inserted / removed / found
    out: bool,
}

pub struct SetConcResult {
    pub runs: u64,
    pub steps: u64,
    pub calls: u64,
    pub overlapping_same_key_inserts: u64,
    pub failures: Vec<String>,
    pub samples: Vec<String>,
}

/// is there an order of the calls on one element - respecting real time - in which every call
/// reports what a sequential set would?
fn set_linearizable(initial: bool, calls: &[SCall], fin: bool) -> bool {
    fn go(state: bool, done: u32, calls: &[SCall], fin: bool) -> bool {
        if done.count_ones() as usize == calls.len() {
            return state == fin;
        }
        for (i, c) in calls.iter().enumerate() {
            if done & (1 << i) != 0 {
                continue;
            }
            // c may come next unless a call not yet placed returned before c was invoked
            if calls.iter().enumerate().any(|(j, d)| j != i && done & (1 << j) == 0 && d.res < c.inv) {
                continue;
            }
            let (want, next) = match c.op {
                SOp::Insert(_) => (!state, true),
                SOp::Remove(_) | SOp::Take(_) => (state, false),
                SOp::Contains(_) | SOp::Get(_) => (state, state),
            };
            if c.out == want && go(next, done | (1 << i), calls, fin) {
                return true;
            }
        }
        false
    }
    go(initial, 0, calls, fin)
}

fn run_set_program<S: BuildHasher + Default + Send + Sync>(prefill: &[u32], threads: &[Vec<SOp>], pins: &[bool], universe: u32, policy: Policy) -> (Verdict, Vec<SCall>, Vec<bool>, usize, u64, Vec<String>) {
    let n = threads.len();
    let sched = Sched::new(n, policy, 100_000);
    let calls: Mutex<Vec<SCall>> = Mutex::new(Vec::new());
    let fails: Mutex<Vec<String>> = Mutex::new(Vec::new());
    ledger_reset();
    hooks::mem_start();
    let set: HashSet<Key, S> = HashSet::with_hasher(S::default());
    {
        let g = set.guard();
        for k in prefill {
            set.insert(Key::new(*k, 0), &g);
        }
    }
    let mut verdict = Verdict::Running;
    std::thread::scope(|scope| {
        for tid in 0..n {
            let sched = sched.clone();
            let set = &set;
            let calls = &calls;
            let fails = &fails;
            let ops = &threads[tid];
            let pin = pins[tid];
            scope.spawn(move || {
                hooks::clear_log();
                hooks::set_mode(Mode::Sched(tid, sched.clone()));
                let r = catch_unwind(AssertUnwindSafe(|| {
                    if sched.enter(tid).is_err() {
                        return;
                    }
                    for (i, op) in ops.iter().enumerate() {
                        let inv = sched.inner.lock().unwrap().step;
                        let inst = (tid as u32 + 1) * 1000 + i as u32;
                        let out = if pin {
                            let r = set.pin();
                            match op {
                                SOp::Insert(k) => r.insert(Key::new(*k, inst)),
                                SOp::Remove(k) => r.remove(&Key::probe(*k)),
                                SOp::Take(k) => r.take(&Key::probe(*k)).map(|x| assert!(x.alive())).is_some(),
                                SOp::Contains(k) => r.contains(&Key::probe(*k)),
                                SOp::Get(k) => r.get(&Key::probe(*k)).map(|x| assert!(x.alive())).is_some(),
                            }
                        } else {
                            let g = set.guard();
                            match op {
                                SOp::Insert(k) => set.insert(Key::new(*k, inst), &g),
                                SOp::Remove(k) => set.remove(&Key::probe(*k), &g),
                                SOp::Take(k) => set.take(&Key::probe(*k), &g).map(|x| assert!(x.alive())).is_some(),
                                SOp::Contains(k) => set.contains(&Key::probe(*k), &g),
                                SOp::Get(k) => set.get(&Key::probe(*k), &g).map(|x| assert!(x.alive())).is_some(),
                            }
                        };
                        let res = sched.inner.lock().unwrap().step;
                        calls.lock().unwrap().push(SCall { tid, op: op.clone(), inv, res, out });
                        sched.op_completed(tid);
                    }
                }));
                hooks::set_mode(Mode::Off);
                let _ = hooks::take_log();
                if let Err(e) = r {
                    if e.downcast_ref::<hooks::Abort>().is_none() {
                        fails.lock().unwrap().push(format!("panic in thread {}", tid));
                    }
                }
                sched.finish(tid);
            });
        }
        verdict = sched.run();
        if verdict == Verdict::Stuck {
            println!("FOUND C11 a thread of a concurrent set program stopped making progress without reaching a yield point");
            use std::io::Write;
            let _ = std::io::stdout().flush();
            std::process::exit(3);
        }
        sched.shutdown();
    });
    let steps = sched.inner.lock().unwrap().step;
    let mut failures = fails.into_inner().unwrap();
    let g = set.guard();
    let fin: Vec<bool> = (0..universe).map(|k| set.contains(&Key::probe(k), &g)).collect();
    let len = set.len();
    drop(g);
    drop(set);
    let mem = hooks::mem_finish();
    for v in mem.violations.iter().take(2) {
        failures.push(format!("C03: {} at {}:{}", v.what, v.file, v.line));
    }
    let _ = ledger_take();
    (verdict, calls.into_inner().unwrap(), fin, len, steps, failures)
}

/// `n` random programs x `scheds` schedules: 2-4 threads, 1-3 operations each on 1-3 elements,
/// half of the programs racing inserts of one and the same element; through the guard API and
/// through pinned references
pub fn run_conc(seed: u64, n: u64, scheds: u64) -> SetConcResult {
    let mut rng = SplitMix64(seed ^ 0x5E7C);
    let mut out = SetConcResult { runs: 0, steps: 0, calls: 0, overlapping_same_key_inserts: 0, failures: vec![], samples: vec![] };
    for pi in 0..n {
        let universe = 1 + rng.below(3) as u32;
        let nt = 2 + rng.below(3) as usize;
        let hasher = [H_IDENTITY, H_ZERO, H_MIX, H_AHASH][rng.below(4) as usize];
        let racing = pi % 2 == 0;
        let prefill: Vec<u32> = (0..universe).filter(|_| rng.chance(1, 3)).collect();
        let threads: Vec<Vec<SOp>> = (0..nt)
            .map(|_| {
                (0..1 + rng.below(3))
                    .map(|j| {
                        let k = if racing { 0 } else { rng.below(universe as u64) as u32 };
                        if racing && j == 0 {
                            return SOp::Insert(k);
                        }
                        match rng.below(8) {
                            0..=2 => SOp::Insert(k),
                            3 => SOp::Remove(k),
                            4 => SOp::Take(k),
                            5 => SOp::Get(k),
                            _ => SOp::Contains(k),
                        }
                    })
                    .collect()
            })
            .collect();
        let prefill = if racing { vec![] } else { prefill };
        let pins: Vec<bool> = (0..nt).map(|_| rng.chance(1, 2)).collect();
        for s in 0..scheds {
            let sseed = seed.wrapping_mul(7919) ^ (pi << 16) ^ s;
            let stick = [0u64, 4, 8, 12][(s % 4) as usize];
            let policy = Policy::Random(SplitMix64(sseed), stick);
            let text = format!("hasher={} prefill={:?} pinned={:?} threads={:?} schedule seed={} stick={}", HASHER_NAMES[hasher as usize], prefill, pins, threads, sseed, stick);
            println!("AT setconc {}", text);
            let (verdict, calls, fin, len, steps, fails) = with_hasher!(hasher, S, { run_set_program::<S>(&prefill, &threads, &pins, universe, policy) });
            out.runs += 1;
            out.steps += steps;
            out.calls += calls.len() as u64;
            for f in fails {
                out.failures.push(format!("{} || {}", f, text));
            }
            match verdict {
                Verdict::Done => {}
                Verdict::Deadlock => out.failures.push(format!("C11: deadlock in a concurrent set program || {}", text)),
                Verdict::StepLimit => out.failures.push(format!("C11: step limit exceeded in a concurrent set program || {}", text)),
                _ => {}
            }
            if verdict != Verdict::Done {
                continue;
            }
            if len != fin.iter().filter(|x| **x).count() {
                out.failures.push(format!("C05: len() {} differs from the number of elements found at quiescence {:?} || {}", len, fin, text));
            }
            for k in 0..universe {
                let ck: Vec<SCall> = calls.iter().filter(|c| c.op.key() == k).cloned().collect();
                let ins: Vec<&SCall> = ck.iter().filter(|c| matches!(c.op, SOp::Insert(_))).collect();
                if ins.iter().enumerate().any(|(i, a)| ins.iter().skip(i + 1).any(|b| a.inv <= b.res && b.inv <= a.res)) {
                    out.overlapping_same_key_inserts += 1;
                }
                if ck.len() <= 12 && !set_linearizable(prefill.contains(&k), &ck, fin[k as usize]) {
                    out.failures.push(format!(
                        "C01: history of set element {} is not linearizable (initially {}, finally {}): {} || {}",
                        k,
                        if prefill.contains(&k) { "present" } else { "absent" },
                        if fin[k as usize] { "present" } else { "absent" },
                        ck.iter().map(|c| format!("t{} {:?} -> {} [{}..{}]", c.tid, c.op, c.out, c.inv, c.res)).collect::<Vec<_>>().join(" | "),
                        text
                    ));
                }
            }
            if out.samples.len() < 3 && racing && s == 0 {
                out.samples.push(text);
            }
        }
    }
    out
}
