//! HashSet against std (BTreeSet) and against the relation specification Model/SetSpec.v:
//! every operation's return value, the contents after it, and the four relations between two
//! sets (is_subset / is_superset / is_disjoint / ==) through the guard API and through pinned
//! references, for sets related in every way (equal, proper subset, superset, disjoint,
//! overlapping, empty) under every hasher and several capacities.
use crate::types::*;
use crate::with_hasher;
use flurry::HashSet;
use std::collections::BTreeSet;
use std::fmt::Write as _;
use std::hash::BuildHasher;

pub struct SetsResult {
    pub cases: u64,
    pub ops: u64,
    pub relation_checks: u64,
    pub equal_pairs: u64,
    pub failures: Vec<String>,
    pub coq: String,
}

fn build<S: BuildHasher + Default>(rng: &mut SplitMix64, universe: u32, cap: usize, model: &mut BTreeSet<u32>, pin: bool, fails: &mut Vec<String>, ops: &mut u64, what: &str) -> HashSet<Key, S> {
    let set: HashSet<Key, S> = if cap == 0 { HashSet::with_hasher(S::default()) } else { HashSet::with_capacity_and_hasher(cap, S::default()) };
    let n = rng.below(2 * universe as u64 + 2);
    for i in 0..n {
        let k = rng.below(universe as u64) as u32;
        *ops += 1;
        let g = set.guard();
        let r = set.pin();
        match rng.below(12) {
            0..=5 => {
                let got = if pin { r.insert(Key::new(k, i as u32)) } else { set.insert(Key::new(k, i as u32), &g) };
                let want = model.insert(k);
                if got != want {
                    fails.push(format!("{}: insert({}) returned {} (std: {})", what, k, got, want));
                }
            }
            6..=7 => {
                let got = if pin { r.remove(&Key::probe(k)) } else { set.remove(&Key::probe(k), &g) };
                let want = model.remove(&k);
                if got != want {
                    fails.push(format!("{}: remove({}) returned {} (std: {})", what, k, got, want));
                }
            }
            8 => {
                let got = if pin { r.take(&Key::probe(k)).map(|x| x.id) } else { set.take(&Key::probe(k), &g).map(|x| x.id) };
                let want = model.take(&k);
                if got != want {
                    fails.push(format!("{}: take({}) returned {:?} (std: {:?})", what, k, got, want));
                }
            }
            9 => {
                let m = 2 + rng.below(3) as u32;
                if pin { r.retain(|x| x.id % m != 0) } else { set.retain(|x| x.id % m != 0, &g) };
                model.retain(|x| x % m != 0);
            }
            10 => {
                if rng.chance(1, 4) {
                    if pin { r.clear() } else { set.clear(&g) };
                    model.clear();
                } else {
                    let a = rng.below(40) as usize;
                    if pin { r.reserve(a) } else { set.reserve(a, &g) };
                }
            }
            _ => {
                let c = if pin { r.contains(&Key::probe(k)) } else { set.contains(&Key::probe(k), &g) };
                let gk = if pin { r.get(&Key::probe(k)).map(|x| x.id) } else { set.get(&Key::probe(k), &g).map(|x| x.id) };
                if c != model.contains(&k) || gk != model.get(&k).cloned() {
                    fails.push(format!("{}: contains/get({}) = {}/{:?} (std: {})", what, k, c, gk, model.contains(&k)));
                }
            }
        }
        let content: BTreeSet<u32> = set.iter(&g).map(|x| x.id).collect();
        let count = set.iter(&g).count();
        if content != *model || count != model.len() || set.len() != model.len() || set.is_empty() != model.is_empty() {
            fails.push(format!("{}: after operation {} the set holds {:?} (len {} / {} yielded), std holds {:?}", what, i, content, set.len(), count, model));
            break;
        }
    }
    set
}

fn nl(s: &BTreeSet<u32>) -> String {
    format!("[{}]%N", s.iter().map(|x| x.to_string()).collect::<Vec<_>>().join("; "))
}

pub fn run(seed: u64, n: u64) -> SetsResult {
    let mut rng = SplitMix64(seed ^ 0x5E75);
    let mut r = SetsResult { cases: 0, ops: 0, relation_checks: 0, equal_pairs: 0, failures: vec![], coq: String::from("From Flurry Require Import Model.SetSpec.\nOpen Scope N_scope.\n") };
    for ci in 0..n {
        let hasher = rng.below(8) as u8;
        let universe = 1 + rng.below(14) as u32;
        let cap = [0usize, 0, 1, 7, 64][rng.below(5) as usize];
        let pin = rng.chance(1, 2);
        let shape = rng.below(6);
        let mut fails = Vec::new();
        let mut ops = 0u64;
        with_hasher!(hasher, S, {
            let mut ma = BTreeSet::new();
            let a: HashSet<Key, S> = build::<S>(&mut rng, universe, cap, &mut ma, pin, &mut fails, &mut ops, "set A");
            // B in a chosen relation to A
            let mut mb = BTreeSet::new();
            let b: HashSet<Key, S> = match shape {
                0 => build::<S>(&mut rng, universe, cap, &mut mb, !pin, &mut fails, &mut ops, "set B"),
                _ => {
                    let b: HashSet<Key, S> = HashSet::with_hasher(S::default());
                    let gb = b.guard();
                    for k in ma.iter() {
                        let keep = match shape {
                            1 => true,                    // equal
                            2 => rng.chance(2, 3),       // B subset of A
                            3 => true,                    // B superset of A (extras below)
                            4 => false,                   // disjoint (extras below)
                            _ => rng.chance(1, 2),
                        };
                        if keep {
                            b.insert(Key::new(*k, 77), &gb);
                            mb.insert(*k);
                        }
                    }
                    if shape >= 3 {
                        for _ in 0..rng.below(4) {
                            let k = universe + rng.below(6) as u32;
                            b.insert(Key::new(k, 78), &gb);
                            mb.insert(k);
                        }
                    }
                    drop(gb);
                    b
                }
            };
            let (ga, gb) = (a.guard(), b.guard());
            let ans = [
                ("guard API", a.is_subset(&b, &ga, &gb), a.is_superset(&b, &ga, &gb), a.is_disjoint(&b, &ga, &gb), a == b),
                ("pinned references", a.pin().is_subset(&b.pin()), a.pin().is_superset(&b.pin()), a.pin().is_disjoint(&b.pin()), a.pin() == b.pin()),
            ];
            let want = (ma.is_subset(&mb), ma.is_superset(&mb), ma.is_disjoint(&mb), ma == mb);
            if ma == mb {
                r.equal_pairs += 1;
            }
            for (api, sub, sup, dis, eq) in ans {
                r.relation_checks += 4;
                if (sub, sup, dis, eq) != want {
                    fails.push(format!(
                        "{}: A = {:?}, B = {:?}: is_subset / is_superset / is_disjoint / == answered {:?}, std answers {:?}",
                        api, ma, mb, (sub, sup, dis, eq), want
                    ));
                }
                let _ = write!(
                    r.coq,
                    "Eval vm_compute in ({}, rel_check {} {} (mkAns {} {} {} {})).\n",
                    r.cases, nl(&ma), nl(&mb), sub, sup, dis, eq
                );
                r.cases += 1;
            }
        });
        r.ops += ops;
        for f in fails.into_iter().take(2) {
            r.failures.push(format!("case {} (seed {}, hasher {}, cap {}, universe {}, shape {}): {}", ci, seed, HASHER_NAMES[hasher as usize], cap, universe, shape, f));
        }
    }
    r
}
