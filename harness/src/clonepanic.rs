//! C11 (no reachable state makes a later operation block forever): a panic in `K::clone` while a
//! resize is moving a bin leaves that resize unfinished for good; every later operation - on
//! bins that were already forwarded, on the bin that was being moved, on the others - must still
//! return. Only termination is judged here; the map is leaked afterwards (what an abandoned
//! resize means for teardown is not C11's subject).
use crate::types::*;
use flurry::HashMap;
use std::panic::{catch_unwind, AssertUnwindSafe};
use std::sync::atomic::Ordering;
use std::sync::mpsc;
use std::time::Duration;

pub struct ClonePanicResult {
    pub scenarios: u64,
    pub panics_inside_resize: u64,
    pub later_operations: u64,
    pub failures: Vec<String>,
}

type S = ModeBuild<0>;

pub fn run() -> ClonePanicResult {
    let mut r = ClonePanicResult { scenarios: 0, panics_inside_resize: 0, later_operations: 0, failures: vec![] };
    // 16 bins; bins 15, 12 and 7 hold three keys each whose hashes alternate in the bit the resize
    // splits on (so the two front nodes of each are cloned by transfer), two more keys elsewhere:
    // the 12th insert starts the resize, which moves bin 15 first
    let groups: [[u32; 3]; 3] = [[15, 31, 47], [12, 28, 44], [7, 23, 39]];
    for fuse in 1..=6i64 {
        for variant in 0..2 {
            r.scenarios += 1;
            let map: &'static HashMap<Key, Val, S> = Box::leak(Box::new(HashMap::with_hasher(S::default())));
            {
                let g = map.guard();
                for grp in &groups {
                    for k in grp {
                        map.insert(Key::new(*k, 0), Val::new(*k as i64), &g);
                    }
                }
                map.insert(Key::new(0, 0), Val::new(0), &g);
                map.insert(Key::new(1, 0), Val::new(1), &g);
            }
            println!("AT clonepanic fuse={} variant={}", fuse, variant);
            CLONE_FUSE.store(fuse, Ordering::SeqCst);
            let res = catch_unwind(AssertUnwindSafe(|| {
                let g = map.guard();
                if variant == 0 {
                    map.insert(Key::new(2, 0), Val::new(2), &g);
                } else {
                    map.reserve(20, &g);
                }
            }));
            let fired = CLONE_FUSE.load(Ordering::SeqCst) <= 0;
            CLONE_FUSE.store(0, Ordering::SeqCst);
            if res.is_ok() || !fired {
                // the resize needed fewer clones than the fuse allowed
                continue;
            }
            r.panics_inside_resize += 1;
            // later operations, from another thread, each with a deadline
            let (tx, rx) = mpsc::channel::<(usize, String)>();
            let ops: Vec<String> = vec![
                "get(15)", "insert(15) [forwarded bin]", "insert(63) [new key, forwarded bin]", "remove(31)", "compute_if_present(47)",
                "insert(12)", "remove(28)", "insert(7)", "get(39)", "insert(3) [empty bin]", "iter", "len",
                "insert of 12 fresh keys [crosses the threshold]", "reserve(8)", "retain", "clear", "insert(15) after clear", "get(15) after clear",
            ]
            .into_iter()
            .map(String::from)
            .collect();
            let n_ops = ops.len();
            let names = ops.clone();
            std::thread::spawn(move || {
                let g = map.guard();
                for (i, name) in names.iter().enumerate() {
                    match i {
                        0 => drop(map.get(&Key::probe(15), &g)),
                        1 => drop(map.insert(Key::new(15, 1), Val::new(150), &g)),
                        2 => drop(map.insert(Key::new(63, 1), Val::new(630), &g)),
                        3 => drop(map.remove(&Key::probe(31), &g)),
                        4 => drop(map.compute_if_present(&Key::probe(47), |_, v| Some(Val::new(v.payload + 1)), &g)),
                        5 => drop(map.insert(Key::new(12, 1), Val::new(120), &g)),
                        6 => drop(map.remove(&Key::probe(28), &g)),
                        7 => drop(map.insert(Key::new(7, 1), Val::new(70), &g)),
                        8 => drop(map.get(&Key::probe(39), &g)),
                        9 => drop(map.insert(Key::new(3, 1), Val::new(30), &g)),
                        10 => drop(map.iter(&g).count()),
                        11 => drop(map.len()),
                        12 => {
                            for k in 100..112u32 {
                                map.insert(Key::new(k, 1), Val::new(k as i64), &g);
                            }
                        }
                        13 => map.reserve(8, &g),
                        14 => map.retain(|k, _| k.id % 2 == 0, &g),
                        15 => map.clear(&g),
                        16 => drop(map.insert(Key::new(15, 2), Val::new(151), &g)),
                        _ => drop(map.get(&Key::probe(15), &g)),
                    }
                    if tx.send((i, name.clone())).is_err() {
                        return;
                    }
                }
            });
            let mut done = 0usize;
            while done < n_ops {
                match rx.recv_timeout(Duration::from_secs(10)) {
                    Ok(_) => {
                        done += 1;
                        r.later_operations += 1;
                    }
                    Err(mpsc::RecvTimeoutError::Timeout) => {
                        r.failures.push(format!(
                            "C11 after a panic in K::clone inside the resize started by {} (clone #{} of the resize; 16 bins, keys {:?} + 0, 1) the later operation `{}` does not return within 10 s (operations before it did: {})",
                            if variant == 0 { "insert(2)" } else { "reserve(20)" },
                            fuse,
                            groups,
                            ops[done],
                            done
                        ));
                        break;
                    }
                    Err(mpsc::RecvTimeoutError::Disconnected) => {
                        // the worker panicked: not a termination failure
                        break;
                    }
                }
            }
            if !r.failures.is_empty() {
                // the stuck thread keeps spinning: stop here, one witness is enough
                return r;
            }
        }
    }
    r
}
