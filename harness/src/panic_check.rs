//! C18: a panic injected at the i-th callback invocation (compute_if_present, retain,
//! retain_force, iterator consumer) must propagate, leave the processed entry unchanged, leave no
//! lock held, and leave the map usable and consistent with the operations completed before.
use crate::dump::canon;
use crate::seq::{keep, remap};
use crate::types::*;
use flurry::HashMap;
use std::collections::BTreeMap;
use std::panic::{catch_unwind, AssertUnwindSafe};
use std::sync::atomic::{AtomicBool, Ordering};
use std::sync::Arc;

pub struct PanicResult {
    pub failures: Vec<String>,
    pub injections: u64,
    pub in_tree_bins: u64,
    pub in_list_bins: u64,
    pub retain_injections: u64,
    pub samples: Vec<String>,
}

type StdMap = BTreeMap<u32, i64>;

fn contents<S: std::hash::BuildHasher>(m: &HashMap<Key, Val, S>) -> StdMap {
    let g = m.guard();
    m.iter(&g).map(|(k, v)| (k.id, v.payload)).collect()
}

fn run_one<S: std::hash::BuildHasher + Default + Send + Sync>(rng: &mut SplitMix64, r: &mut PanicResult, hasher: u8) {
    let universe = 6 + rng.below(30) as u32;
    let cap = [0u64, 4, 16, 64, 100][rng.below(5) as usize];
    let map: HashMap<Key, Val, S> = if cap == 0 {
        HashMap::with_hasher(S::default())
    } else {
        HashMap::with_capacity_and_hasher(cap as usize, S::default())
    };
    // reclaim eagerly in most runs, so that whatever was retired by an interrupted call is
    // really gone when the map is looked at afterwards
    let batch = [1usize, 1, 2, 0][rng.below(4) as usize];
    let map = if batch > 0 { map.with_collector(seize::Collector::new().batch_size(batch)) } else { map };
    let mut std: StdMap = BTreeMap::new();
    let mut val = 0i64;
    let fill = rng.below(universe as u64 + 1) as u32;
    {
        let g = map.guard();
        for _ in 0..fill {
            let k = rng.below(universe as u64) as u32;
            val += 1;
            map.insert(Key::new(k, 0), Val::new(val), &g);
            std.insert(k, val);
        }
    }
    let desc = format!("hasher={} cap={} universe={} contents={:?}", HASHER_NAMES[hasher as usize], cap, universe, std);
    for round in 0..6 {
        let before = {
            let g = map.guard();
            canon(&map.verif_dump(&g))
        };
        let trees = before
            .table
            .as_ref()
            .map(|t| t.bins.iter().any(|b| matches!(b, crate::dump::CBin::Tree { .. })))
            .unwrap_or(false);
        let kind = rng.below(4);
        // if the implementation takes the process down, the last AT line names the scenario
        println!("AT panic round={} kind={} (0/1 compute_if_present guard/pinned, 2 retain, 3 retain_force) batch={} || {}", round, kind, batch, desc);
        r.injections += 1;
        if trees {
            r.in_tree_bins += 1;
        } else {
            r.in_list_bins += 1;
        }
        let what;
        match kind {
            0 | 1 => {
                // compute_if_present on a present key (if any), panicking in the callback
                let k = match std.keys().nth(rng.below(std.len().max(1) as u64) as usize) {
                    Some(k) => *k,
                    None => rng.below(universe as u64) as u32,
                };
                what = format!("compute_if_present({}) with a panicking callback", k);
                let present = std.contains_key(&k);
                let res = catch_unwind(AssertUnwindSafe(|| {
                    let g = map.guard();
                    let pin = map.pin();
                    if kind == 0 {
                        map.compute_if_present(&Key::probe(k), |_, _| -> Option<Val> { panic!("injected") }, &g).map(|v| v.payload)
                    } else {
                        pin.compute_if_present(&Key::probe(k), |_, _| -> Option<Val> { panic!("injected") }).map(|v| v.payload)
                    }
                }));
                if present && res.is_ok() {
                    r.failures.push(format!("{}: the panic did not propagate || {}", what, desc));
                }
                if !present && res.is_err() {
                    r.failures.push(format!("{}: callback was invoked for an absent key || {}", what, desc));
                }
                // the entry (and everything else) is unchanged
            }
            _ => {
                // retain / retain_force panicking at the i-th predicate call
                r.retain_injections += 1;
                let order = before.entries();
                let i = rng.below(order.len() as u64 + 1) as usize;
                let p = 2 + rng.below(3) as u32;
                let force = kind == 3;
                what = format!("{}(pred {}) panicking at predicate call #{}", if force { "retain_force" } else { "retain" }, p, i);
                let mut calls = 0usize;
                let res = catch_unwind(AssertUnwindSafe(|| {
                    let g = map.guard();
                    let f = |kk: &Key, v: &Val| {
                        if calls == i {
                            panic!("injected");
                        }
                        calls += 1;
                        keep(p, kk.id, v.payload)
                    };
                    if force {
                        map.retain_force(f, &g)
                    } else {
                        map.retain(f, &g)
                    }
                }));
                if i < order.len() && res.is_ok() {
                    r.failures.push(format!("{}: the panic did not propagate || {}", what, desc));
                }
                // entries yielded before the panic were processed
                for (k, _, v) in order.iter().take(i) {
                    if !keep(p, *k, *v) {
                        std.remove(k);
                    }
                }
            }
        }
        // state after the panic
        let after = {
            let g = map.guard();
            canon(&map.verif_dump(&g))
        };
        for d in after.defects() {
            r.failures.push(format!("{}: {} || {}", what, d, desc));
        }
        let got = contents(&map);
        if got != std {
            r.failures.push(format!("{}: contents after the panic are {:?}, expected {:?} || {}", what, got, std, desc));
        }
        if map.len() != std.len() {
            r.failures.push(format!("{}: len() {} != {} || {}", what, map.len(), std.len(), desc));
        }
        if r.samples.len() < 3 && round == 0 {
            r.samples.push(format!("{} || {}", what, desc));
        }
        // every bin can still be written from another thread (no lock left behind)
        let done = Arc::new(AtomicBool::new(false));
        let ok = std::thread::scope(|sc| {
            let d2 = done.clone();
            let m = &map;
            let h = sc.spawn(move || {
                let g = m.guard();
                for k in 0..universe {
                    // touch every bin that holds something: replace the value by itself
                    m.compute_if_present(&Key::probe(k), |_, v| Some(Val::new(v.payload)), &g);
                }
                m.insert(Key::new(universe + 1, 0), Val::new(-5), &g);
                m.remove(&Key::probe(universe + 1), &g);
                d2.store(true, Ordering::SeqCst);
            });
            let t0 = std::time::Instant::now();
            while !done.load(Ordering::SeqCst) && t0.elapsed().as_secs() < 5 {
                std::thread::sleep(std::time::Duration::from_millis(1));
            }
            let fin = done.load(Ordering::SeqCst);
            if !fin {
                // leave the stuck thread behind: it holds only a reference we keep alive by exiting
                std::process::exit({
                    println!("FOUND C18 {}: a later write from another thread blocked (lock left held?) || {}", what, desc);
                    println!("JSON {{\"injections\":0,\"failures\":1,\"in_tree_bins\":0,\"in_list_bins\":0,\"retain_injections\":0,\"samples\":[]}}");
                    0
                });
            }
            let _ = h.join();
            fin
        });
        let _ = ok;
        // a few ordinary operations afterwards
        {
            let g = map.guard();
            for _ in 0..4 {
                let k = rng.below(universe as u64) as u32;
                match rng.below(3) {
                    0 => {
                        val += 1;
                        let old = map.insert(Key::new(k, 1), Val::new(val), &g).map(|v| v.payload);
                        if old != std.insert(k, val) {
                            r.failures.push(format!("after {}: insert({}) returned {:?} || {}", what, k, old, desc));
                        }
                    }
                    1 => {
                        let old = map.remove(&Key::probe(k), &g).map(|v| v.payload);
                        if old != std.remove(&k) {
                            r.failures.push(format!("after {}: remove({}) returned {:?} || {}", what, k, old, desc));
                        }
                    }
                    _ => {
                        let f = rng.below(4) as u32;
                        let got = map.compute_if_present(&Key::probe(k), |kk, v| remap(f, kk.id, v.payload).map(Val::new), &g).map(|v| v.payload);
                        let want = match std.get(&k).cloned() {
                            None => None,
                            Some(v) => match remap(f, k, v) {
                                Some(nv) => {
                                    std.insert(k, nv);
                                    Some(nv)
                                }
                                None => {
                                    std.remove(&k);
                                    None
                                }
                            },
                        };
                        if got != want {
                            r.failures.push(format!("after {}: compute_if_present({}) returned {:?}, expected {:?} || {}", what, k, got, want, desc));
                        }
                    }
                }
            }
        }
        if r.failures.len() > 20 {
            return;
        }
    }
    // a panic in code consuming an iterator
    let res = catch_unwind(AssertUnwindSafe(|| {
        let g = map.guard();
        let mut n = 0;
        for _ in map.iter(&g) {
            n += 1;
            if n == 2 {
                panic!("injected");
            }
        }
    }));
    let _ = res;
    if contents(&map) != std {
        r.failures.push(format!("contents changed after a panic in an iterator consumer || {}", desc));
    }
}

pub fn run(seed: u64, n: u64) -> PanicResult {
    let mut r = PanicResult {
        failures: vec![],
        injections: 0,
        in_tree_bins: 0,
        in_list_bins: 0,
        retain_injections: 0,
        samples: vec![],
    };
    let mut rng = SplitMix64(seed ^ 0x9A71C);
    for _ in 0..n {
        let hasher = [H_IDENTITY, H_ZERO, H_ZERO, H_SAMEBIN, H_MIX, H_AHASH][rng.below(6) as usize];
        // reclaimed memory is quarantined: touching or re-retiring it is reported, not executed
        crate::hooks::mem_start();
        crate::with_hasher!(hasher, S, { run_one::<S>(&mut rng, &mut r, hasher) });
        let mem = crate::hooks::mem_finish();
        for v in mem.violations.iter().take(2) {
            r.failures.push(format!("after a panic in a callback: {} at {}:{} (hasher {})", v.what, v.file, v.line, HASHER_NAMES[hasher as usize]));
        }
        if r.failures.len() > 20 {
            break;
        }
    }
    r
}
