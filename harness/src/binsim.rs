//! Step-by-step conformance of the list-bin protocol model (coq/Model/BinProto.v) with the crate:
//! programs of get / insert / try_insert / remove / compute_if_present on a table that neither
//! resizes nor treeifies run under the deterministic scheduler; every scheduler step is recorded
//! with the source site the thread continued from; the site is mapped to an access class through
//! the regenerated site table (gen.json "atomics": file, line, field, method); Coq replays the
//! sequence on the model (Model/BinConf.v `conform`).
use crate::conc::*;
use crate::dump::CBin;
use crate::hooks::{Policy, Verdict};
use crate::types::*;
use crate::with_hasher;
use std::collections::HashMap as StdHashMap;
use std::fmt::Write as _;

pub struct SiteTable {
    /// (file suffix, line) -> class name
    rows: StdHashMap<(String, u32), &'static str>,
}

impl SiteTable {
    pub fn load(gen_json: &str) -> SiteTable {
        let txt = std::fs::read_to_string(gen_json).expect("gen.json");
        let gen: serde_json::Value = serde_json::from_str(&txt).expect("gen.json parse");
        let mut rows = StdHashMap::new();
        let cls_of = |field: &str, method: &str| -> &'static str {
            match (field, method) {
                ("bins", "load") => "ABinLoad",
                ("bins", "compare_exchange") => "ABinCas",
                ("bins", "store") => "ABinStore",
                ("value", "load") => "AValLoad",
                ("value", "swap") | ("value", "store") => "AValWrite",
                ("next", "load") => "ANextLoad",
                ("next", "store") => "ANextStore",
                _ => "AOther",
            }
        };
        for r in gen["atomics"].as_array().expect("atomics") {
            let cls = cls_of(r["field"].as_str().unwrap_or(""), r["method"].as_str().unwrap_or(""));
            let file = r["file"].as_str().unwrap_or("").to_string();
            // a #[track_caller] wrapper reports the line of the method name; plain sites the same
            rows.insert((file.clone(), r["mline"].as_u64().unwrap_or(0) as u32), cls);
            rows.entry((file, r["line"].as_u64().unwrap_or(0) as u32)).or_insert(cls);
        }
        // the bin accessors of raw::Table are #[track_caller]: the hook reports their call sites
        for r in gen["bin_calls"].as_array().expect("bin_calls") {
            let cls = match r["accessor"].as_str().unwrap_or("") {
                "bin" => "ABinLoad",
                "cas_bin" => "ABinCas",
                "store_bin" => "ABinStore",
                _ => "AOther",
            };
            rows.insert((r["file"].as_str().unwrap_or("").to_string(), r["mline"].as_u64().unwrap_or(0) as u32), cls);
        }
        SiteTable { rows }
    }
    /// None: the site is not in the regenerated table (the code has an access the translator did
    /// not see)
    pub fn class(&self, file: &str, line: u32, kind: u8) -> Option<&'static str> {
        match kind {
            1 => Some("ALock"),
            2 => Some("AStart"),
            3 => Some("AOther"),
            _ => {
                let suffix = file.rsplit("/src/").next().unwrap_or(file);
                let c = self.rows.get(&(suffix.to_string(), line)).copied();
                if suffix.starts_with("iter/") && c.is_some() {
                    // the traversal inside retain is not part of the model (its removals are)
                    return Some("AOther");
                }
                c
            }
        }
    }
}

pub fn gen_binsim_program(rng: &mut SplitMix64) -> Program {
    let nthreads = 2 + rng.below(3) as usize;
    let universe = 2 + rng.below(5) as u32; // at most 6 keys: no resize of a 16-bin table, no tree bin
    let mut p = Program {
        hasher: [H_ZERO, H_ZERO, H_SAMEBIN, H_IDENTITY, H_MIX, H_ONES][rng.below(6) as usize],
        cap: [0, 0, 16, 64][rng.below(4) as usize],
        prefill: (0..universe).filter(|_| rng.chance(3, 5)).collect(),
        threads: vec![],
        universe,
        batch: [1, 2, 0][rng.below(3) as usize],
        pin: rng.chance(1, 2),
        linger: rng.below(2) as u32,
    };
    if p.prefill.is_empty() {
        // the table is allocated lazily; the model starts from an allocated one
        p.prefill.push(0);
    }
    let mut val = 1i64;
    for _ in 0..nthreads {
        let n = 1 + rng.below(4);
        p.threads.push(
            (0..n)
                .map(|_| {
                    let k = rng.below(universe as u64) as u32;
                    match rng.below(16) {
                        0..=3 => COp::Insert(k, { val += 1; val }),
                        4..=5 => COp::TryInsert(k, { val += 1; val }),
                        6..=9 => COp::Remove(k),
                        10..=12 => COp::Compute(k, [0, 1, 1, 3][rng.below(4) as usize]),
                        _ => COp::Get(k),
                    }
                })
                .collect(),
        );
    }
    if rng.chance(1, 3) {
        // retain / retain_force: the model sees its removals (replace_node with / without an
        // observed value), the traversal is a stutter
        let pi = rng.below(5) as u32;
        p.threads.push(vec![if rng.chance(2, 3) { COp::Retain(pi) } else { COp::RetainForce(pi) }]);
    }
    p
}

fn z(v: i64) -> String {
    if v < 0 { format!("({})", v) } else { v.to_string() }
}
fn oz(v: &Option<i64>) -> String {
    match v {
        Some(x) => format!("(Some {})", z(*x)),
        None => "None".into(),
    }
}

fn op_coq(op: &COp) -> String {
    match op {
        COp::Get(k) => format!("OGet {}", k),
        COp::Insert(k, v) => format!("OInsert {} {}", k, z(*v)),
        COp::TryInsert(k, v) => format!("OTryInsert {} {}", k, z(*v)),
        COp::Remove(k) => format!("ORemove {}", k),
        COp::Compute(k, f) => format!("OCompute {} (cremap_tbl {} {})", k, f, k),
        other => panic!("binsim: operation {:?} is outside the model", other),
    }
}

/// the model operations a completed call stands for, each with the result to compare (None: the
/// implementation does not report one)
fn model_ops(c: &Call) -> Vec<(String, Option<String>)> {
    match (&c.op, &c.out) {
        (COp::Retain(_), Res::Retained(log)) => log
            .iter()
            .filter(|e| !e.3)
            .map(|e| (format!("OCondRemove {} {}", e.1, z(e.2)), None))
            .collect(),
        (COp::RetainForce(_), Res::Retained(log)) => log.iter().filter(|e| !e.3).map(|e| (format!("ORemove {}", e.1), None)).collect(),
        (op, out) => vec![(op_coq(op), Some(res_coq(out)))],
    }
}

fn res_coq(r: &Res) -> String {
    match r {
        Res::None => "RNone".into(),
        Res::Val(v) => format!("RVal {}", z(*v)),
        Res::Inserted => "RInserted".into(),
        Res::Exists(v) => format!("RExists {}", z(*v)),
        Res::Computed(s, t, _) => format!("RComputed {} {}", oz(s), oz(t)),
        other => panic!("binsim: result {:?} is outside the model", other),
    }
}

pub struct BinsimOut {
    pub coq: Option<String>,
    pub unknown_sites: Vec<String>,
    pub steps: usize,
    pub modelled_steps: usize,
    pub lock_waits: u64,
    pub failures: Vec<String>,
}

/// Coq term `mkCase ...` for one finished run, or why the run cannot be compared
pub fn case_of(p: &Program, r: &RunResult, sites: &SiteTable) -> BinsimOut {
    let mut out = BinsimOut { coq: None, unknown_sites: vec![], steps: r.trace_sites.len(), modelled_steps: 0, lock_waits: r.lock_waits, failures: vec![] };
    if r.verdict != Verdict::Done {
        out.failures.push(format!("run ended with verdict {:?}: {}", r.verdict, r.statuses));
        return out;
    }
    let d = match &r.final_dump {
        Some(d) => d,
        None => {
            out.failures.push("no final dump".into());
            return out;
        }
    };
    let t = match (&d.table, &d.next) {
        (Some(t), None) => t,
        _ => {
            out.failures.push("the table was resized although the program stays below every threshold".into());
            return out;
        }
    };
    let mut s = String::new();
    let _ = write!(s, "mkCase [");
    let _ = write!(s, "{}", r.final_hashes.iter().map(|(k, h)| format!("({}, {})", k, h)).collect::<Vec<_>>().join("; "));
    let _ = write!(s, "]%N {}%nat [", t.bins.len());
    let _ = write!(s, "{}", p.prefill.iter().map(|k| format!("OInsert {} {}", k, 1000 + *k as i64)).collect::<Vec<_>>().join("; "));
    let _ = write!(s, "] [");
    let per_thread: Vec<Vec<(String, Option<String>)>> =
        (0..p.threads.len()).map(|tid| r.calls.iter().filter(|c| c.tid == tid).flat_map(model_ops).collect()).collect();
    let _ = write!(
        s,
        "{}",
        per_thread.iter().map(|ops| format!("[{}]", ops.iter().map(|o| o.0.clone()).collect::<Vec<_>>().join("; "))).collect::<Vec<_>>().join("; ")
    );
    let _ = write!(s, "] [");
    let mut first = true;
    for ts in &r.trace_sites {
        let (tid, file, line) = (&ts.tid, ts.file, &ts.line);
        // integer control words and parks are outside this model
        let kind = &(if ts.kind >= 3 { 3 } else { ts.kind });
        let cls = match sites.class(file, *line, *kind) {
            Some(c) => c,
            None => {
                out.unknown_sites.push(format!("{}:{}", file, line));
                "AOther"
            }
        };
        if cls == "AOther" {
            continue; // a stutter either way; keeps the case file small
        }
        out.modelled_steps += 1;
        if !first {
            let _ = write!(s, "; ");
        }
        first = false;
        let _ = write!(s, "({}%nat, {})", tid, cls);
    }
    let _ = write!(s, "] [");
    let _ = write!(
        s,
        "{}",
        per_thread
            .iter()
            .map(|ops| format!(
                "[{}]",
                ops.iter().map(|o| match &o.1 { Some(r) => format!("Some ({})", r), None => "None".to_string() }).collect::<Vec<_>>().join("; ")
            ))
            .collect::<Vec<_>>()
            .join("; ")
    );
    let _ = write!(s, "] [");
    let mut bins = Vec::new();
    for b in &t.bins {
        match b {
            CBin::Empty => bins.push("[]".to_string()),
            CBin::List(ns) => bins.push(format!("[{}]", ns.iter().map(|n| format!("({}%N, {})", n.k, z(n.v))).collect::<Vec<_>>().join("; "))),
            _ => {
                out.failures.push("a tree bin or forwarding marker appeared although no bin reaches the treeify threshold".into());
                return out;
            }
        }
    }
    let _ = write!(s, "{}]", bins.join("; "));
    out.coq = Some(s);
    out
}

pub fn run_one(p: &Program, policy: Policy) -> RunResult {
    let opts = RunOpts { policy, step_limit: 200_000, freeze: None };
    with_hasher!(p.hasher, S, { run_program::<S>(p, opts) })
}
