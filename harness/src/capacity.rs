//! C14 / C10 directed checks on the implementation: capacity rounding, growth points, removal
//! near the threshold, resize stamps. Prints data for the Coq comparison as well.
use crate::types::*;
use flurry::HashMap;

type S = ModeBuild<0>; // identity: keys 0..n are collision free in a table of >= n bins
type M = HashMap<Key, Val, S>;

fn table_len(m: &M) -> usize {
    let g = m.guard();
    m.verif_dump(&g).table.map(|t| t.bins.len()).unwrap_or(0)
}
fn sc(m: &M) -> isize {
    let g = m.guard();
    m.verif_dump(&g).size_ctl
}

pub struct CapResult {
    pub failures: Vec<String>,
    /// (requested capacity, table length) pairs for the Coq comparison
    pub sizes: Vec<(u64, u64)>,
    /// (n, resize_stamp(n)) for the Coq comparison
    pub stamps: Vec<(u64, i64)>,
    pub constants: (usize, isize, usize, usize, isize),
    pub evaluations: u64,
}

pub fn run(max_c: u64, thorough: bool) -> CapResult {
    let mut r = CapResult {
        failures: vec![],
        sizes: vec![],
        stamps: vec![],
        constants: M::verif_constants(),
        evaluations: 0,
    };
    // 1. with_capacity(c): size, no table for 0, c entries fit
    let mut cs: Vec<u64> = (0..=max_c).collect();
    for j in 10..=22u32 {
        for d in [-2i64, -1, 0, 1, 2] {
            cs.push(((1i64 << j) * 2 / 3 + d) as u64);
            cs.push(((1i64 << j) + d) as u64);
        }
    }
    for c in cs {
        let m = M::with_capacity_and_hasher(c as usize, S::default());
        let n = table_len(&m);
        r.sizes.push((c, n as u64));
        r.evaluations += 1;
        if c == 0 && n != 0 {
            r.failures.push("with_capacity(0) allocated a table".into());
        }
        if c > 0 && (n == 0 || !n.is_power_of_two() || n > (1 << 30)) {
            r.failures.push(format!("with_capacity({}) made a table of {} bins", c, n));
        }
        if c <= if thorough { 8192 } else { 1500 } {
            let g = m.guard();
            for k in 0..c {
                m.insert(Key::new(k as u32, 0), Val::new(k as i64), &g);
            }
            let n2 = table_len(&m);
            if n2 != n {
                r.failures.push(format!(
                    "with_capacity({}) gave {} bins but inserting {} collision-free keys grew the table to {}",
                    c, n, c, n2
                ));
            }
        }
    }
    // 1b. an overfull bin: in a table shorter than 64 bins it makes the table grow (try_presize(2n));
    // from 64 bins on the bin becomes a tree and the table keeps its length
    for c in [1u64, 5, 10, 11, 21, 22, 30, 42, 43, 85, 86, 170] {
        let m = M::with_capacity_and_hasher(c as usize, S::default());
        let n = table_len(&m);
        if n == 0 {
            continue;
        }
        let g = m.guard();
        // keys agreeing in all the bits a table of up to 2^20 bins looks at
        for j in 0..9u32 {
            m.insert(Key::new(3 + (j << 20), 0), Val::new(j as i64), &g);
            if j == 6 {
                // replacing the value of the last of seven colliding entries meets no overfull bin
                m.insert(Key::new(3 + (j << 20), 1), Val::new(70), &g);
            }
            if (j == 6 || j == 7) && n >= 16 {
                // seven, then eight colliding entries: the bin is not overfull yet (the insert that
                // finds eight entries in front of it is the first to act)
                let d = crate::dump::canon(&m.verif_dump(&g));
                let trees = d.table.as_ref().map(|t| t.bins.iter().filter(|b| matches!(b, crate::dump::CBin::Tree { .. })).count()).unwrap_or(0);
                r.evaluations += 1;
                if table_len(&m) != n || trees != 0 {
                    r.failures.push(format!(
                        "with_capacity({}) gave {} bins; {} keys colliding in one bin (entry count below the threshold, no overfull bin met) left a table of {} bins with {} tree bin(s)",
                        c, n, j + 1, table_len(&m), trees
                    ));
                }
            }
        }
        let n2 = table_len(&m);
        let d = crate::dump::canon(&m.verif_dump(&g));
        let trees = d.table.as_ref().map(|t| t.bins.iter().filter(|b| matches!(b, crate::dump::CBin::Tree { .. })).count()).unwrap_or(0);
        r.evaluations += 1;
        if n >= 64 && (n2 != n || trees != 1) {
            r.failures.push(format!(
                "with_capacity({}) gave {} bins; 9 keys colliding in one bin left a table of {} bins with {} tree bin(s) (expected {} bins, 1 tree bin)",
                c, n, n2, trees, n
            ));
        }
        if n < 64 && n2 <= n {
            r.failures.push(format!(
                "with_capacity({}) gave {} bins (< 64); 9 keys colliding in one bin did not make the table grow ({} bins)",
                c, n, n2
            ));
        }
    }
    // 2. reserve(a) on a map holding m0 entries: a further entries fit
    for m0 in [0u64, 1, 5, 11, 12, 13, 47, 48, 100] {
        for a in [0u64, 1, 2, 7, 16, 33, 100, 385, 1000] {
            let m = M::with_hasher(S::default());
            let g = m.guard();
            for k in 0..m0 {
                m.insert(Key::new(k as u32, 0), Val::new(0), &g);
            }
            m.reserve(a as usize, &g);
            let n = table_len(&m);
            for k in m0..m0 + a {
                m.insert(Key::new(k as u32, 0), Val::new(0), &g);
            }
            r.evaluations += 1;
            if table_len(&m) != n {
                r.failures.push(format!(
                    "reserve({}) on a map of {} entries gave {} bins, but {} further collision-free inserts grew it to {}",
                    a, m0, n, a, table_len(&m)
                ));
            }
        }
    }
    // 3. growth exactly when due, never on removal; lengths only double
    for cap in [0u64, 1, 2, 3, 8, 11, 24, 48, 100] {
        let m = if cap == 0 { M::with_hasher(S::default()) } else { M::with_capacity_and_hasher(cap as usize, S::default()) };
        let g = m.guard();
        let mut count = 0u64;
        let limit = if thorough { 3000 } else { 800 };
        for k in 0..limit {
            let before = table_len(&m);
            let thr = sc(&m);
            m.insert(Key::new(k as u32, 0), Val::new(0), &g);
            count += 1;
            let after = table_len(&m);
            r.evaluations += 1;
            if before != 0 {
                let due = count as isize >= thr;
                if (after != before) != due {
                    r.failures.push(format!(
                        "insert #{} into a {}-bin table (threshold {}): table {} -> {} bins, growth was {}due",
                        count, before, thr, before, after, if due { "" } else { "not " }
                    ));
                    break;
                }
                if after != before && after != 2 * before {
                    r.failures.push(format!("a resize took the table from {} to {} bins (not twice)", before, after));
                }
                if after != before {
                    let nt = sc(&m);
                    if nt != (after - after / 4) as isize {
                        r.failures.push(format!("threshold after growing to {} bins is {} (expected {})", after, nt, after - after / 4));
                    }
                }
            }
        }
    }
    // 4. removals just below / at the threshold never grow the table
    for n in [16usize, 32, 64, 128] {
        let thr = n - n / 4;
        for fill in [thr - 2, thr - 1] {
            for which in 0..6 {
                let m = M::with_capacity_and_hasher(n / 2, S::default());
                let g = m.guard();
                if table_len(&m) != n {
                    continue;
                }
                for k in 0..fill {
                    m.insert(Key::new(k as u32, 0), Val::new(k as i64), &g);
                }
                let before = table_len(&m);
                let name = match which {
                    0 => {
                        m.remove(&Key::probe(0), &g);
                        "remove"
                    }
                    1 => {
                        m.remove_entry(&Key::probe(0), &g);
                        "remove_entry"
                    }
                    2 => {
                        m.compute_if_present(&Key::probe(0), |_, _| None, &g);
                        "compute_if_present -> None"
                    }
                    3 => {
                        m.retain(|k, _| k.id != 0, &g);
                        "retain"
                    }
                    4 => {
                        m.retain_force(|k, _| k.id != 0, &g);
                        "retain_force"
                    }
                    _ => {
                        m.clear(&g);
                        "clear"
                    }
                };
                r.evaluations += 1;
                let after = table_len(&m);
                if after != before {
                    r.failures.push(format!(
                        "{} on a {}-bin table holding {} entries (threshold {}) grew the table to {} bins",
                        name, before, fill, thr, after
                    ));
                }
            }
        }
    }
    // 5. resize stamps for all 31 lengths
    for j in 0..=30u32 {
        let n = 1u64 << j;
        r.stamps.push((n, M::verif_resize_stamp(n as usize) as i64));
    }
    r
}

pub fn to_coq(r: &CapResult) -> String {
    let mut s = String::from("From Flurry Require Import Model.Arith.\nFrom Coq Require Import List ZArith.\nImport ListNotations.\nOpen Scope Z_scope.\n");
    s.push_str(&format!(
        "Definition sizes : list (Z * Z) := [{}].\n",
        r.sizes.iter().map(|(c, n)| format!("({},{})", c, n)).collect::<Vec<_>>().join(";")
    ));
    s.push_str(&format!(
        "Definition stamps : list (Z * Z) := [{}].\n",
        r.stamps.iter().map(|(n, v)| format!("({},{})", n, if *v < 0 { format!("({})", v) } else { v.to_string() })).collect::<Vec<_>>().join(";")
    ));
    s.push_str("Eval vm_compute in (List.length (filter (fun '(c, n) => negb ((if c =? 0 then 0 else table_size_for c) =? n)) sizes)).\n");
    s.push_str("Eval vm_compute in (List.length (filter (fun '(n, v) => negb (resize_stamp n =? v)) stamps)).\n");
    let (shift, maxr, maxcap, defcap, stride) = r.constants;
    s.push_str(&format!(
        "Eval vm_compute in ((RESIZE_STAMP_SHIFT =? {}) && (MAX_RESIZERS =? {}) && (MAXIMUM_CAPACITY =? {}) && (DEFAULT_CAPACITY =? {}) && (MIN_TRANSFER_STRIDE =? {}))%bool.\n",
        shift, maxr, maxcap, defcap, stride
    ));
    s
}
