//! C09 (dynamic side): call every guard-taking entry point with a guard of a foreign collector.
use crate::dump::canon;
use crate::hooks::{self, Mode};
use crate::types::*;
use flurry::{Guard, HashMap, HashSet};
use std::panic::{catch_unwind, AssertUnwindSafe};

type S = ModeBuild<0>;
type M = HashMap<Key, Val, S>;
type St = HashSet<Key, S>;

pub struct Ctx {
    pub map: M,
    pub other: M,
    pub set: St,
    pub oset: St,
}

/// 0: all empty; 1: populated, the two maps / sets differ in size; 2: populated and equal
fn ctx(populated: u8) -> Ctx {
    let c = Ctx {
        map: M::default(),
        other: M::default(),
        set: St::default(),
        oset: St::default(),
    };
    if populated > 0 {
        let n_other = if populated == 2 { 20u32 } else { 5u32 };
        let g = c.map.guard();
        for i in 0..20u32 {
            c.map.insert(Key::new(i, 0), Val::new(i as i64), &g);
        }
        let g = c.other.guard();
        for i in 0..n_other {
            c.other.insert(Key::new(i, 0), Val::new(i as i64), &g);
        }
        let g = c.set.guard();
        for i in 0..20u32 {
            c.set.insert(Key::new(i, 0), &g);
        }
        let g = c.oset.guard();
        for i in 0..n_other {
            c.oset.insert(Key::new(i, 0), &g);
        }
    }
    c
}

/// (name, which guard position is under test, stub(ctx, guard under test, a proper guard of `other`))
type Stub = (&'static str, Box<dyn Fn(&Ctx, &Guard<'_>)>);

fn stubs() -> Vec<Stub> {
    let k = || Key::probe(3);
    let mut v: Vec<Stub> = Vec::new();
    macro_rules! s {
        ($name:expr, |$c:ident, $g:ident| $body:expr) => {
            v.push(($name, Box::new(move |$c: &Ctx, $g: &Guard<'_>| {
                let _ = $body;
            })));
        };
    }
    // HashMap
    s!("HashMap::iter", |c, g| c.map.iter(g).count());
    s!("HashMap::keys", |c, g| c.map.keys(g).count());
    s!("HashMap::values", |c, g| c.map.values(g).count());
    s!("HashMap::reserve", |c, g| c.map.reserve(100, g));
    s!("HashMap::contains_key", |c, g| c.map.contains_key(&k(), g));
    s!("HashMap::get", |c, g| c.map.get(&k(), g).map(|v| v.payload));
    s!("HashMap::get_key_value", |c, g| c.map.get_key_value(&k(), g).map(|v| v.1.payload));
    s!("HashMap::clear", |c, g| c.map.clear(g));
    s!("HashMap::insert", |c, g| c.map.insert(Key::new(3, 1), Val::new(7), g).map(|v| v.payload));
    s!("HashMap::try_insert", |c, g| c.map.try_insert(Key::new(3, 1), Val::new(7), g).is_ok());
    s!("HashMap::compute_if_present", |c, g| c
        .map
        .compute_if_present(&k(), |_, v| Some(Val::new(v.payload + 1)), g)
        .map(|v| v.payload));
    s!("HashMap::remove", |c, g| c.map.remove(&k(), g).map(|v| v.payload));
    s!("HashMap::remove_entry", |c, g| c.map.remove_entry(&k(), g).map(|v| v.1.payload));
    s!("HashMap::retain", |c, g| c.map.retain(|_, _| false, g));
    s!("HashMap::retain_force", |c, g| c.map.retain_force(|_, _| false, g));
    // HashSet
    s!("HashSet::iter", |c, g| c.set.iter(g).count());
    s!("HashSet::contains", |c, g| c.set.contains(&k(), g));
    s!("HashSet::get", |c, g| c.set.get(&k(), g).map(|x| x.id));
    s!("HashSet::is_disjoint#0", |c, g| c.set.is_disjoint(&c.oset, g, &c.oset.guard()));
    s!("HashSet::is_disjoint#1", |c, g| c.set.is_disjoint(&c.oset, &c.set.guard(), g));
    s!("HashSet::is_subset#0", |c, g| c.set.is_subset(&c.oset, g, &c.oset.guard()));
    s!("HashSet::is_subset#1", |c, g| c.set.is_subset(&c.oset, &c.set.guard(), g));
    s!("HashSet::is_superset#0", |c, g| c.set.is_superset(&c.oset, g, &c.oset.guard()));
    s!("HashSet::is_superset#1", |c, g| c.set.is_superset(&c.oset, &c.set.guard(), g));
    s!("HashSet::insert", |c, g| c.set.insert(Key::new(3, 1), g));
    s!("HashSet::remove", |c, g| c.set.remove(&k(), g));
    s!("HashSet::take", |c, g| c.set.take(&k(), g).map(|x| x.id));
    s!("HashSet::retain", |c, g| c.set.retain(|_| false, g));
    s!("HashSet::clear", |c, g| c.set.clear(g));
    s!("HashSet::reserve", |c, g| c.set.reserve(100, g));
    // HashMapRef through with_guard
    s!("HashMapRef::iter", |c, g| c.map.with_guard(g).iter().count());
    s!("HashMapRef::keys", |c, g| c.map.with_guard(g).keys().count());
    s!("HashMapRef::values", |c, g| c.map.with_guard(g).values().count());
    s!("HashMapRef::reserve", |c, g| c.map.with_guard(g).reserve(100));
    s!("HashMapRef::contains_key", |c, g| c.map.with_guard(g).contains_key(&k()));
    s!("HashMapRef::get", |c, g| c.map.with_guard(g).get(&k()).map(|v| v.payload));
    s!("HashMapRef::get_key_value", |c, g| c.map.with_guard(g).get_key_value(&k()).map(|v| v.1.payload));
    s!("HashMapRef::clear", |c, g| c.map.with_guard(g).clear());
    s!("HashMapRef::insert", |c, g| c.map.with_guard(g).insert(Key::new(3, 1), Val::new(7)).map(|v| v.payload));
    s!("HashMapRef::try_insert", |c, g| c.map.with_guard(g).try_insert(Key::new(3, 1), Val::new(7)).is_ok());
    s!("HashMapRef::compute_if_present", |c, g| c
        .map
        .with_guard(g)
        .compute_if_present(&k(), |_, v| Some(Val::new(v.payload + 1)))
        .map(|v| v.payload));
    s!("HashMapRef::remove", |c, g| c.map.with_guard(g).remove(&k()).map(|v| v.payload));
    s!("HashMapRef::remove_entry", |c, g| c.map.with_guard(g).remove_entry(&k()).map(|v| v.1.payload));
    s!("HashMapRef::retain", |c, g| c.map.with_guard(g).retain(|_, _| false));
    s!("HashMapRef::retain_force", |c, g| c.map.with_guard(g).retain_force(|_, _| false));
    s!("HashMapRef::into_iter", |c, g| (&c.map.with_guard(g)).into_iter().count());
    s!("HashMapRef::eq#0", |c, g| c.map.with_guard(g) == c.other.pin());
    s!("HashMapRef::eq#1", |c, g| c.map.pin() == c.other.with_guard(g));
    s!("HashMapRef::eq_map", |c, g| c.map.with_guard(g) == c.other);
    s!("HashMap::eq_ref", |c, g| c.map == c.other.with_guard(g));
    // HashSetRef through with_guard
    s!("HashSetRef::iter", |c, g| c.set.with_guard(g).iter().count());
    s!("HashSetRef::contains", |c, g| c.set.with_guard(g).contains(&k()));
    s!("HashSetRef::get", |c, g| c.set.with_guard(g).get(&k()).map(|x| x.id));
    s!("HashSetRef::is_disjoint#0", |c, g| c.set.with_guard(g).is_disjoint(&c.oset.pin()));
    s!("HashSetRef::is_disjoint#1", |c, g| c.set.pin().is_disjoint(&c.oset.with_guard(g)));
    s!("HashSetRef::is_subset#0", |c, g| c.set.with_guard(g).is_subset(&c.oset.pin()));
    s!("HashSetRef::is_subset#1", |c, g| c.set.pin().is_subset(&c.oset.with_guard(g)));
    s!("HashSetRef::is_superset#0", |c, g| c.set.with_guard(g).is_superset(&c.oset.pin()));
    s!("HashSetRef::is_superset#1", |c, g| c.set.pin().is_superset(&c.oset.with_guard(g)));
    s!("HashSetRef::insert", |c, g| c.set.with_guard(g).insert(Key::new(3, 1)));
    s!("HashSetRef::remove", |c, g| c.set.with_guard(g).remove(&k()));
    s!("HashSetRef::take", |c, g| c.set.with_guard(g).take(&k()).map(|x| x.id));
    s!("HashSetRef::retain", |c, g| c.set.with_guard(g).retain(|_| false));
    s!("HashSetRef::clear", |c, g| c.set.with_guard(g).clear());
    s!("HashSetRef::reserve", |c, g| c.set.with_guard(g).reserve(100));
    s!("HashSetRef::into_iter", |c, g| (&c.set.with_guard(g)).into_iter().count());
    s!("HashSetRef::eq#0", |c, g| c.set.with_guard(g) == c.oset.pin());
    s!("HashSetRef::eq#1", |c, g| c.set.pin() == c.oset.with_guard(g));
    v
}

fn shape(c: &Ctx) -> String {
    let g1 = c.map.guard();
    let g2 = c.other.guard();
    format!(
        "{} || {} || {} {}",
        canon(&c.map.verif_dump(&g1)).shape(),
        canon(&c.other.verif_dump(&g2)).shape(),
        c.set.len(),
        c.oset.len()
    )
}

pub struct ApiResult {
    pub name: String,
    pub populated: bool,
    pub panicked: bool,
    /// protected loads and retires made through the foreign guard
    pub foreign_uses: usize,
    pub two_guard: bool,
    pub ops_before_panic: usize,
    pub locks_before_panic: usize,
    pub unchanged: bool,
    pub control_ok: bool,
    /// keys / values created during the call's scenario and not destroyed once every collection
    /// is dropped (the foreign collector still alive); destroyed more than once
    pub undropped_after_teardown: usize,
    pub overdropped: usize,
}

pub fn run(json_rows: &[(String, String)]) -> (Vec<ApiResult>, Vec<String>) {
    let mut out = Vec::new();
    let all = stubs();
    for populated in [0u8, 1, 2] {
        for (name, f) in &all {
            // foreign guard
            ledger_reset();
            let c = ctx(populated);
            let before = shape(&c);
            let evil = seize::Collector::new();
            let eg = evil.enter();
            hooks::clear_log();
            hooks::set_mode(Mode::Record);
            let r = catch_unwind(AssertUnwindSafe(|| f(&c, &eg)));
            hooks::set_mode(Mode::Off);
            let log = hooks::take_log();
            let ega = &eg as *const Guard<'_> as usize;
            let foreign_uses = log.ops.iter().filter(|o| o.guard == ega).count()
                + log.retires.iter().filter(|r| r.1 == ega).count();
            let after = shape(&c);
            // teardown of every collection while the foreign collector and its guard still live:
            // every key and value ever created must have been destroyed by then, exactly once
            drop(c);
            let led = ledger_take();
            let undropped = led.objs.iter().filter(|o| o.2 == 1 && o.3 == 0).count();
            let overdropped = led.objs.iter().filter(|o| o.3 > 1).count();
            drop(eg);
            drop(evil);
            // control: a guard of the right collector (of whichever collection the position belongs to)
            let c2 = ctx(populated);
            let own: Guard<'_> = if name.ends_with("#1") || *name == "HashMap::eq_ref" {
                if name.starts_with("HashSet") {
                    c2.oset.guard()
                } else {
                    c2.other.guard()
                }
            } else if name.starts_with("HashSet") {
                c2.set.guard()
            } else {
                c2.map.guard()
            };
            let ctrl = catch_unwind(AssertUnwindSafe(|| f(&c2, &own)));
            drop(own);
            out.push(ApiResult {
                name: name.to_string(),
                populated: populated > 0,
                panicked: r.is_err(),
                foreign_uses,
                two_guard: name.contains('#') || name.contains("::eq"),
                ops_before_panic: log.ops.len(),
                locks_before_panic: log.locks.len(),
                unchanged: before == after,
                control_ok: ctrl.is_ok(),
                undropped_after_teardown: undropped,
                overdropped,
            });
        }
    }
    // every guard entry of the translator's table must have a stub
    let names: Vec<String> = all
        .iter()
        .map(|(n, _)| n.split('#').next().unwrap().to_string())
        .collect();
    let mut missing = Vec::new();
    for (ty, name) in json_rows {
        let full = format!("{}::{}", ty, name);
        let alt = match name.as_str() {
            "eq" => vec![format!("{}::eq", ty), format!("{}::eq_map", ty), format!("{}::eq_ref", ty)],
            _ => vec![full.clone()],
        };
        if !alt.iter().any(|a| names.contains(a)) {
            missing.push(full);
        }
    }
    (out, missing)
}
