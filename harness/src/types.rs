//! Instrumented key / value types, hashers and the drop ledger.
#![allow(dead_code)]
use std::cell::Cell;
use std::hash::{BuildHasher, Hash, Hasher};
use std::sync::atomic::{AtomicU64, Ordering};
use std::sync::Mutex;

pub struct SplitMix64(pub u64);
impl SplitMix64 {
    pub fn next(&mut self) -> u64 {
        self.0 = self.0.wrapping_add(0x9E3779B97F4A7C15);
        let mut z = self.0;
        z = (z ^ (z >> 30)).wrapping_mul(0xBF58476D1CE4E5B9);
        z = (z ^ (z >> 27)).wrapping_mul(0x94D049BB133111EB);
        z ^ (z >> 31)
    }
    pub fn below(&mut self, n: u64) -> u64 {
        if n == 0 {
            0
        } else {
            self.next() % n
        }
    }
    pub fn chance(&mut self, num: u64, den: u64) -> bool {
        self.below(den) < num
    }
    pub fn fork(&mut self) -> SplitMix64 {
        SplitMix64(self.next())
    }
}

/* ---------------- ledger ---------------- */

#[derive(Clone, Copy, Debug, PartialEq, Eq)]
pub enum ObjKind {
    Key,
    Val,
}

#[derive(Default)]
pub struct Ledger {
    /// per object: (kind, logical id, created, dropped)
    pub objs: Vec<(ObjKind, u64, u32, u32)>,
    /// sequence of (object, is_drop, guard epoch) for ordering checks
    pub log: Vec<(u64, bool)>,
}

pub static LEDGER: Mutex<Option<Ledger>> = Mutex::new(None);
static NEXT_OBJ: AtomicU64 = AtomicU64::new(0);

pub fn ledger_reset() {
    NEXT_OBJ.store(0, Ordering::SeqCst);
    *LEDGER.lock().unwrap() = Some(Ledger::default());
}
pub fn ledger_take() -> Ledger {
    LEDGER.lock().unwrap().take().unwrap_or_default()
}
fn created(kind: ObjKind, logical: u64) -> u64 {
    let obj = NEXT_OBJ.fetch_add(1, Ordering::SeqCst);
    if let Some(l) = LEDGER.lock().unwrap().as_mut() {
        while l.objs.len() <= obj as usize {
            l.objs.push((kind, 0, 0, 0));
        }
        l.objs[obj as usize] = (kind, logical, 1, 0);
        l.log.push((obj, false));
    }
    obj
}
fn dropped(obj: u64) {
    if let Some(l) = LEDGER.lock().unwrap().as_mut() {
        if let Some(o) = l.objs.get_mut(obj as usize) {
            o.3 += 1;
        }
        l.log.push((obj, true));
    }
}

thread_local! {
    pub static EQ_CALLS: Cell<u64> = Cell::new(0);
    pub static ORD_CALLS: Cell<u64> = Cell::new(0);
}
pub fn reset_cmp() {
    EQ_CALLS.with(|c| c.set(0));
    ORD_CALLS.with(|c| c.set(0));
}
pub fn cmp_calls() -> (u64, u64) {
    (EQ_CALLS.with(|c| c.get()), ORD_CALLS.with(|c| c.get()))
}

pub const MAGIC: u64 = 0x600D_F00D_600D_F00D;

#[derive(Debug)]
pub struct Key {
    pub magic: u64,
    pub id: u32,
    /// which insertion created the stored instance ("first key is kept")
    pub inst: u32,
    pub obj: u64,
}
impl Key {
    pub fn new(id: u32, inst: u32) -> Key {
        Key {
            magic: MAGIC,
            id,
            inst,
            obj: created(ObjKind::Key, id as u64),
        }
    }
    /// a lookup key: not tracked by the ledger
    pub fn probe(id: u32) -> Key {
        Key {
            magic: MAGIC,
            id,
            inst: u32::MAX,
            obj: u64::MAX,
        }
    }
    pub fn alive(&self) -> bool {
        self.magic == MAGIC
    }
}
/// fault injection: when positive, the n-th clone of a tracked key from now on panics (0 = off)
pub static CLONE_FUSE: std::sync::atomic::AtomicI64 = std::sync::atomic::AtomicI64::new(0);

impl Clone for Key {
    fn clone(&self) -> Key {
        assert!(self.alive(), "clone of a dead key");
        if self.obj != u64::MAX && CLONE_FUSE.load(Ordering::SeqCst) > 0 && CLONE_FUSE.fetch_sub(1, Ordering::SeqCst) == 1 {
            panic!("injected panic in Clone for Key");
        }
        if self.obj == u64::MAX {
            return Key::probe(self.id);
        }
        Key {
            magic: MAGIC,
            id: self.id,
            inst: self.inst,
            obj: created(ObjKind::Key, self.id as u64),
        }
    }
}
impl Drop for Key {
    fn drop(&mut self) {
        if self.obj != u64::MAX {
            dropped(self.obj);
        }
        self.magic = 0xDEAD_DEAD_DEAD_DEAD;
    }
}
impl PartialEq for Key {
    fn eq(&self, o: &Key) -> bool {
        EQ_CALLS.with(|c| c.set(c.get() + 1));
        self.id == o.id
    }
}
impl Eq for Key {}
impl PartialOrd for Key {
    fn partial_cmp(&self, o: &Key) -> Option<std::cmp::Ordering> {
        Some(self.cmp(o))
    }
}
impl Ord for Key {
    fn cmp(&self, o: &Key) -> std::cmp::Ordering {
        ORD_CALLS.with(|c| c.set(c.get() + 1));
        self.id.cmp(&o.id)
    }
}
impl Hash for Key {
    fn hash<H: Hasher>(&self, h: &mut H) {
        h.write_u64(self.id as u64)
    }
}

#[derive(Debug)]
pub struct Val {
    pub magic: u64,
    pub payload: i64,
    pub obj: u64,
}
impl Val {
    pub fn new(payload: i64) -> Val {
        Val {
            magic: MAGIC,
            payload,
            obj: created(ObjKind::Val, payload as u64),
        }
    }
    pub fn alive(&self) -> bool {
        self.magic == MAGIC
    }
}
impl Clone for Val {
    fn clone(&self) -> Val {
        assert!(self.alive(), "clone of a dead value");
        Val::new(self.payload)
    }
}
impl Drop for Val {
    fn drop(&mut self) {
        dropped(self.obj);
        self.magic = 0xDEAD_DEAD_DEAD_DEAD;
    }
}
impl PartialEq for Val {
    fn eq(&self, o: &Val) -> bool {
        self.payload == o.payload
    }
}
impl Eq for Val {}

/* ---------------- hashers ---------------- */

pub const H_IDENTITY: u8 = 0;
pub const H_ZERO: u8 = 1;
pub const H_HIGH: u8 = 2;
pub const H_SAMEBIN: u8 = 3;
pub const H_MIX: u8 = 4;
pub const H_AHASH: u8 = 5;
/// every key hashes to all-ones: the bin always moves to the high half when the table doubles
pub const H_ONES: u8 = 6;
/// different hashes, same bin, low 32 bits all ones
pub const H_HIGHONES: u8 = 7;
pub const HASHER_NAMES: [&str; 8] = ["identity", "zero", "highbit", "samebin", "mix", "ahash", "ones", "highones"];

#[derive(Clone, Copy, Default, Debug)]
pub struct ModeBuild<const M: u8>;
pub struct ModeHasher<const M: u8>(u64);
impl<const M: u8> BuildHasher for ModeBuild<M> {
    type Hasher = ModeHasher<M>;
    fn build_hasher(&self) -> ModeHasher<M> {
        ModeHasher(0)
    }
}
pub fn mode_hash(m: u8, k: u64) -> u64 {
    match m {
        H_IDENTITY => k,
        H_ZERO => 0,
        H_HIGH => k << 32,
        H_SAMEBIN => k.wrapping_mul(64),
        H_ONES => u64::MAX,
        H_HIGHONES => (k << 32) | 0xFFFF_FFFF,
        _ => {
            let mut z = k.wrapping_add(0x9E3779B97F4A7C15);
            z = (z ^ (z >> 30)).wrapping_mul(0xBF58476D1CE4E5B9);
            z = (z ^ (z >> 27)).wrapping_mul(0x94D049BB133111EB);
            z ^ (z >> 31)
        }
    }
}
impl<const M: u8> Hasher for ModeHasher<M> {
    fn finish(&self) -> u64 {
        mode_hash(M, self.0)
    }
    fn write(&mut self, bytes: &[u8]) {
        for b in bytes {
            self.0 = (self.0 << 8) | *b as u64;
        }
    }
    fn write_u64(&mut self, i: u64) {
        self.0 = i;
    }
    fn write_u32(&mut self, i: u32) {
        self.0 = i as u64;
    }
}

/// Run `$body` with the type alias `$S` bound to the BuildHasher selected by `$mode`.
#[macro_export]
macro_rules! with_hasher {
    ($mode:expr, $S:ident, $body:block) => {
        match $mode {
            0 => {
                type $S = $crate::types::ModeBuild<0>;
                $body
            }
            1 => {
                type $S = $crate::types::ModeBuild<1>;
                $body
            }
            2 => {
                type $S = $crate::types::ModeBuild<2>;
                $body
            }
            3 => {
                type $S = $crate::types::ModeBuild<3>;
                $body
            }
            4 => {
                type $S = $crate::types::ModeBuild<4>;
                $body
            }
            6 => {
                type $S = $crate::types::ModeBuild<6>;
                $body
            }
            7 => {
                type $S = $crate::types::ModeBuild<7>;
                $body
            }
            _ => {
                type $S = flurry::DefaultHashBuilder;
                $body
            }
        }
    };
}
