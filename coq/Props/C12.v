(* C12 - reads never block and never take locks (static part): over the call graph and the
   table of blocking sites regenerated from the source. *)
From Flurry Require Import Model.Atomics Proofs.AtomicsProofs.

(* no lock(), park(), yield_now() or spin_loop() is reachable (by name and arity, an
   over-approximation of the real call graph) from get, get_key_value, contains_key, iteration,
   len, is_empty, equality, the set relations and the facades' versions of them *)
Theorem C12_no_blocking_site_reachable_from_reads : reads_reach_no_blocking = true.
Proof. exact reads_reach_no_blocking_true. Qed.
Print Assumptions C12_no_blocking_site_reachable_from_reads.

Theorem C12_graph_not_vacuous : read_entries_present = true /\ writers_do_lock = true.
Proof. split; [exact read_entries_present_true | exact writers_do_lock_true]. Qed.
Print Assumptions C12_graph_not_vacuous.

(* ---- reads never wait: the unbounded theorem over the list-bin protocol model ----
   From ANY reachable configuration of Model/BinProto.v - other threads suspended anywhere, also
   inside critical sections holding bin locks or half-way through an unlink - a lookup in
   progress, run ALONE, returns after at most |heap| + 2 of its own steps, is enabled at each of
   them (never blocked) and changes neither a lock nor the heap nor a bin.  It rests on the
   invariant that `next` pointers only lead to larger addresses (no cycle can be built, not even
   through unlinked nodes).  The model is tied to the code by the step conformance of C01. *)
From Flurry Require Import Model.BinProto Proofs.BinProtoProofs Proofs.BinProtoReads.

Theorem C12_next_pointers_increase : forall khash nbins progs sched a b,
  (0 < nbins)%nat ->
  let c := run khash nbins (init nbins progs) sched in
  (a < length (heap (sh c)))%nat -> cnext (cell_at (sh c) a) = Some b ->
  (a < b /\ b < length (heap (sh c)))%nat.
Proof. exact next_increases. Qed.
Print Assumptions C12_next_pointers_increase.

Theorem C12_get_completes_alone : forall khash nbins progs sched t k,
  (0 < nbins)%nat ->
  let c := run khash nbins (init nbins progs) sched in
  cur (get_thr c t) = Some (OGet k) ->
  exists n, (n <= length (heap (sh c)) + 2)%nat /\
    calls_done (solo khash nbins c t n) t = S (calls_done c t) /\
    (forall m, (m < n)%nat -> enabled (solo khash nbins c t m) t = true) /\
    (forall m, (m <= n)%nat -> locks (sh (solo khash nbins c t m)) = locks (sh c) /\
                               heap (sh (solo khash nbins c t m)) = heap (sh c) /\
                               bins (sh (solo khash nbins c t m)) = bins (sh c)).
Proof. exact get_completes_alone. Qed.
Print Assumptions C12_get_completes_alone.
