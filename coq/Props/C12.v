(* C12 - reads never block and never take locks (static part): over the call graph and the
   table of blocking sites regenerated from the source. *)
From Flurry Require Import Model.Atomics Proofs.AtomicsProofs.

(* no lock(), park(), yield_now() or spin_loop() is reachable (by name and arity, an
   over-approximation of the real call graph) from get, get_key_value, contains_key, iteration,
   len, is_empty, equality, the set relations and the facades' versions of them *)
Theorem C12_no_blocking_site_reachable_from_reads : reads_reach_no_blocking = true.
Proof. exact reads_reach_no_blocking_true. Qed.
Print Assumptions C12_no_blocking_site_reachable_from_reads.

Theorem C12_graph_not_vacuous : read_entries_present = true /\ writers_do_lock = true.
Proof. split; [exact read_entries_present_true | exact writers_do_lock_true]. Qed.
Print Assumptions C12_graph_not_vacuous.
