(* C08 - compute_if_present is an atomic read-modify-write. *)
From Flurry Require Import Model.Lin Proofs.LinProofs Proofs.SpecProofs.
From Coq Require Import List ZArith.
Open Scope Z_scope.

Theorem C08_checker_sound : forall init calls fin,
  lin_b init calls fin = true -> linearizable init calls fin.
Proof. exact lin_b_sound. Qed.
Print Assumptions C08_checker_sound.

(* what linearizability demands of a compute call: the callback saw the value current at the
   instant the update took effect, and its result replaced exactly that value *)
Theorem C08_spec_is_atomic_rmw : forall st f seen ret st',
  kapply st (KCompute f seen ret) = Some st' ->
  match st with
  | None => seen = None /\ ret = None /\ st' = None
  | Some s => seen = Some s /\ ret = f s /\ st' = f s
  end.
Proof. exact kapply_compute. Qed.
Print Assumptions C08_spec_is_atomic_rmw.

(* concurrent increments of one counter are never lost: any linearizable history of n
   increments from c ends at c + n *)
Theorem C08_counter : forall init calls fin c,
  init = Some c -> Forall is_inc calls -> linearizable init calls (Some fin) ->
  fin = Some (c + Z.of_nat (length calls)).
Proof. exact counter_never_loses_updates. Qed.
Print Assumptions C08_counter.

(* ---- the unbounded theorem over the list-bin protocol model (Model/BinProto.v) ----
   For every hash function, table size, program and schedule: every compute_if_present call whose
   callback ran returned f(seen), and in a legal linearization of the key's history respecting
   real time, `seen` is exactly the key's value immediately before the call and f(seen) its value
   immediately after - no other update falls in between. *)
From Flurry Require Import Model.BinProto Proofs.BinProtoProofs.
Theorem C08_binproto_compute_atomic : forall khash nbins progs sched k,
  (0 < nbins)%nat ->
  let c := run khash nbins (init nbins progs) sched in
  all_done c = true ->
  exists order, Permutation order (key_history c k) /\ respects_rt order /\
    legal None order = Some (lookup khash nbins c k) /\
    forall h f seen ret, In h (hist c) -> h_op h = OCompute k f -> h_res h = RComputed (Some seen) ret ->
      ret = f seen /\
      exists pre post, let x := C_ (h_inv h) (h_resp h) (KCompute f (Some seen) ret) in
        order = pre ++ x :: post /\ legal None pre = Some (Some seen) /\ legal None (pre ++ [x]) = Some (f seen).
Proof. exact compute_atomic. Qed.
Print Assumptions C08_binproto_compute_atomic.
