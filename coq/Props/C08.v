(* C08 - compute_if_present is an atomic read-modify-write. *)
From Flurry Require Import Model.Lin Proofs.LinProofs Proofs.SpecProofs.
From Coq Require Import List ZArith.
Open Scope Z_scope.

Theorem C08_checker_sound : forall init calls fin,
  lin_b init calls fin = true -> linearizable init calls fin.
Proof. exact lin_b_sound. Qed.
Print Assumptions C08_checker_sound.

(* what linearizability demands of a compute call: the callback saw the value current at the
   instant the update took effect, and its result replaced exactly that value *)
Theorem C08_spec_is_atomic_rmw : forall st f seen ret st',
  kapply st (KCompute f seen ret) = Some st' ->
  match st with
  | None => seen = None /\ ret = None /\ st' = None
  | Some s => seen = Some s /\ ret = f s /\ st' = f s
  end.
Proof. exact kapply_compute. Qed.
Print Assumptions C08_spec_is_atomic_rmw.

(* concurrent increments of one counter are never lost: any linearizable history of n
   increments from c ends at c + n *)
Theorem C08_counter : forall init calls fin c,
  init = Some c -> Forall is_inc calls -> linearizable init calls (Some fin) ->
  fin = Some (c + Z.of_nat (length calls)).
Proof. exact counter_never_loses_updates. Qed.
Print Assumptions C08_counter.
