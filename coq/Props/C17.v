(* C17 - only thread-safe keys and values can enter a map (compile time): over the bounds table
   and call graph regenerated from the source. *)
From Flurry Require Import Model.Types Proofs.TypesProofs.
From Coq Require Import List.

(* every public item from which put (or compute_if_present's value store) is reachable in the
   call graph requires K: Send + Sync and, for maps, V: Send + Sync *)
Theorem C17_inserting_require_send_sync :
  forall b, In b bounds -> b_pub b = true -> inserts b = true -> bounds_ok b = true.
Proof. exact every_inserter_bounded. Qed.
Print Assumptions C17_inserting_require_send_sync.

Theorem C17_table_not_trivial : 20 <= List.length inserting_rows.
Proof. exact inserting_rows_many. Qed.
Print Assumptions C17_table_not_trivial.

(* lookup and iteration stay available without those bounds *)
Theorem C17_lookup_unbounded : lookups_unbounded = true.
Proof. exact lookups_unbounded_true. Qed.
Print Assumptions C17_lookup_unbounded.

(* the unsafe Send / Sync impls of BinEntry are conditional on K and V *)
Theorem C17_binentry_conditional : binentry_conditional = true.
Proof. exact binentry_conditional_true. Qed.
Print Assumptions C17_binentry_conditional.
