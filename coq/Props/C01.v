(* C01 - single-key operations are linearizable under every interleaving.
   (a) The specification and the definition of linearizability (Model/Lin.v) with a sound
       executable checker: every history of the implementation explored by a run is certified
       by evaluating lin_b inside Coq.
   (b) The unbounded theorem over the list-bin protocol model (Model/BinProto.v) is pinned in
       Props/C01_model.v once Proofs/BinProtoProofs.v provides it. *)
From Flurry Require Import Model.Lin Proofs.LinProofs.
From Coq Require Import List ZArith.

Theorem C01_checker_sound : forall init calls fin,
  lin_b init calls fin = true -> linearizable init calls fin.
Proof. exact lin_b_sound. Qed.
Print Assumptions C01_checker_sound.

(* the specification rejects a lost update and accepts the overlapping legal execution *)
Theorem C01_spec_not_vacuous :
  lin_b (Some 0%Z)
        [C_ 1 2 (KCompute (fun v => Some (v + 1)%Z) (Some 0%Z) (Some 1%Z));
         C_ 1 3 (KCompute (fun v => Some (v + 1)%Z) (Some 0%Z) (Some 1%Z))]
        (Some (Some 1%Z)) = false /\
  lin_b (Some 0%Z)
        [C_ 1 4 (KCompute (fun v => Some (v + 1)%Z) (Some 0%Z) (Some 1%Z));
         C_ 2 5 (KCompute (fun v => Some (v + 1)%Z) (Some 1%Z) (Some 2%Z))]
        (Some (Some 2%Z)) = true.
Proof. split; [exact lost_update_rejected | exact overlapping_increments_accepted]. Qed.
Print Assumptions C01_spec_not_vacuous.

(* ---- (b) the unbounded theorem over the list-bin protocol model ---- *)
From Flurry Require Import Model.BinProto Proofs.BinProtoProofs.

(* For every hash function, every table size, every program (any number of threads, any
   operations among get / insert / try_insert / remove / compute_if_present) and EVERY schedule:
   when all calls have returned, the history of each key is linearizable against the sequential
   specification, and its final state is what a lookup finds.  One step of the model = one
   shared-memory operation (lock-free readers included). *)
Theorem C01_binproto_linearizable : forall khash nbins progs sched k,
  (0 < nbins)%nat ->
  let c := run khash nbins (init nbins progs) sched in
  all_done c = true ->
  linearizable None (key_history c k) (Some (lookup khash nbins c k)).
Proof. exact binproto_linearizable. Qed.
Print Assumptions C01_binproto_linearizable.

(* the same for every reachable configuration: operations still in flight either have taken
   effect (result decided) or have not *)
Theorem C01_binproto_linearizable_at_every_step : forall khash nbins progs sched k,
  (0 < nbins)%nat ->
  let c := run khash nbins (init nbins progs) sched in
  linearizable None (key_history c k ++ pending_calls k c) (Some (lookup khash nbins c k)).
Proof. exact binproto_linearizable_inv. Qed.
Print Assumptions C01_binproto_linearizable_at_every_step.

(* no update is attributed to another key *)
Theorem C01_no_cross_key : forall khash nbins progs sched k t,
  (0 < nbins)%nat ->
  let c := run khash nbins (init nbins progs) sched in
  lookup khash nbins (step khash nbins c t) k <> lookup khash nbins c k ->
  exists o, cur (get_thr c t) = Some o /\ op_key o = k.
Proof. exact no_cross_key. Qed.
Print Assumptions C01_no_cross_key.

Theorem C01_binproto_deadlock_free : forall khash nbins,
  (0 < nbins)%nat -> forall progs sched,
  let c := run khash nbins (init nbins progs) sched in
  all_done c = false -> exists t, (t < length (thr c))%nat /\ enabled c t = true.
Proof. exact binproto_deadlock_free. Qed.
Print Assumptions C01_binproto_deadlock_free.
