(* C01 - single-key operations are linearizable under every interleaving.
   (a) The specification and the definition of linearizability (Model/Lin.v) with a sound
       executable checker: every history of the implementation explored by a run is certified
       by evaluating lin_b inside Coq.
   (b) The unbounded theorem over the list-bin protocol model (Model/BinProto.v) is pinned in
       Props/C01_model.v once Proofs/BinProtoProofs.v provides it. *)
From Flurry Require Import Model.Lin Proofs.LinProofs.
From Coq Require Import List ZArith.

Theorem C01_checker_sound : forall init calls fin,
  lin_b init calls fin = true -> linearizable init calls fin.
Proof. exact lin_b_sound. Qed.
Print Assumptions C01_checker_sound.

(* the specification rejects a lost update and accepts the overlapping legal execution *)
Theorem C01_spec_not_vacuous :
  lin_b (Some 0%Z)
        [C_ 1 2 (KCompute (fun v => Some (v + 1)%Z) (Some 0%Z) (Some 1%Z));
         C_ 1 3 (KCompute (fun v => Some (v + 1)%Z) (Some 0%Z) (Some 1%Z))]
        (Some (Some 1%Z)) = false /\
  lin_b (Some 0%Z)
        [C_ 1 4 (KCompute (fun v => Some (v + 1)%Z) (Some 0%Z) (Some 1%Z));
         C_ 2 5 (KCompute (fun v => Some (v + 1)%Z) (Some 1%Z) (Some 2%Z))]
        (Some (Some 2%Z)) = true.
Proof. split; [exact lost_update_rejected | exact overlapping_increments_accepted]. Qed.
Print Assumptions C01_spec_not_vacuous.
