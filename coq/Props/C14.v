(* C14 - capacity contract. Arithmetic part over the expressions regenerated from map.rs
   (Gen/GenArith.v); the operation-sequence part is in the sequential refinement (Proofs/SeqProofs). *)
From Flurry Require Import Model.Arith Proofs.ArithProofs.
From Coq Require Import ZArith List.
Open Scope Z_scope.

(* a table sized for c (with_capacity / presize / reserve use the same rounding) has a resize
   threshold strictly above c: c entries fit without growth *)
Theorem C14_with_capacity_holds : forall c, 0 < c <= 2 ^ 29 -> c < load_factor (table_size_for c).
Proof. exact table_size_for_holds. Qed.
Check C14_with_capacity_holds : forall c, 0 < c <= 2 ^ 29 -> c < load_factor (table_size_for c).
Print Assumptions C14_with_capacity_holds.

Theorem C14_power_of_two_le_2_30 :
  forall c, 0 <= c -> exists j, 0 <= j <= 30 /\ table_size_for c = 2 ^ j.
Proof. exact table_size_for_pow2. Qed.
Print Assumptions C14_power_of_two_le_2_30.

Theorem C14_reserve_rounds_like_with_capacity :
  forall c, capacity_round_presize c = capacity_round_try_presize c.
Proof. exact both_roundings_agree. Qed.
Print Assumptions C14_reserve_rounds_like_with_capacity.

(* the count a removing caller compares with the threshold is the count the map now holds
   (refuted before fix c5f2850: the regenerated expression was old - n) *)
Theorem C14_removal_counts_exactly :
  forall old n, add_count_local old n = add_count_stored old n /\ add_count_stored old n = old + n.
Proof. intros; split; [apply add_count_local_is_stored | apply add_count_stored_eq]. Qed.
Print Assumptions C14_removal_counts_exactly.

(* removal paths other than compute_if_present never ask add_count to consider a resize *)
Theorem C14_removals_pass_no_hint : removal_sites_without_hint = true.
Proof. exact removal_sites_ok. Qed.
Print Assumptions C14_removals_pass_no_hint.

Theorem C14_threshold_after_resize :
  forall n, 0 <= n < 2 ^ 61 -> Z.even n = true \/ n = 1 ->
    next_threshold n = load_factor (transfer_new_len n) /\ transfer_new_len n = 2 * n.
Proof. exact next_threshold_eq. Qed.
Print Assumptions C14_threshold_after_resize.

(* ---------- over all operation sequences (sequential refinement) ---------- *)
From Flurry Require Import Model.Spec Proofs.SeqProofs Proofs.SeqFinal.

Theorem C14_never_shrinks : forall khash remap keep s o,
  WF khash s -> tlen_s s <= tlen_s (fst (step khash remap keep s o)).
Proof. exact table_never_shrinks_final. Qed.
Print Assumptions C14_never_shrinks.

Theorem C14_removal_never_grows : forall khash remap keep s o,
  WF khash s ->
  match o with Remove _ | RemoveEntry _ | Retain _ | RetainForce _ | Clear => True | _ => False end ->
  tlen_s (fst (step khash remap keep s o)) = tlen_s s.
Proof. exact removal_never_grows_final. Qed.
Print Assumptions C14_removal_never_grows.

Theorem C14_compute_never_grows : forall khash remap keep s k f,
  WF khash s -> sized s -> tbl s <> None ->
  tlen_s (fst (step khash remap keep s (Compute k f))) = tlen_s s.
Proof. exact compute_never_grows. Qed.
Print Assumptions C14_compute_never_grows.

Theorem C14_growth_only_when_due : forall khash remap keep s t o,
  WF khash s -> sized s -> tbl s = Some t ->
  tlen_s (fst (step khash remap keep s o)) <> tlen_s s ->
  match o with
  | Insert k _ _ | TryInsert k _ _ => growth_due khash s t k
  | Reserve _ | Extend _ _ => True
  | _ => False
  end.
Proof. exact growth_only_when_due_final. Qed.
Print Assumptions C14_growth_only_when_due.
