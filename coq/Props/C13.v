(* C13 - retain removes only what its predicate rejected; retain_force always removes. *)
From Flurry Require Import Model.Lin Proofs.LinProofs Proofs.SpecProofs.
From Coq Require Import List ZArith.

Theorem C13_checker_sound : forall init calls fin,
  lin_b init calls fin = true -> linearizable init calls fin.
Proof. exact lin_b_sound. Qed.
Print Assumptions C13_checker_sound.

(* the specification of a retain removal: it takes effect only if the value associated with the
   key at that instant is still the one the predicate inspected; otherwise nothing changes *)
Theorem C13_retain_is_compare_and_remove : forall st obs st',
  kapply st (KCondRemove obs) = Some st' ->
  (st = Some obs /\ st' = None) \/ (st <> Some obs /\ st' = st).
Proof. exact kapply_cond_remove. Qed.
Print Assumptions C13_retain_is_compare_and_remove.

Theorem C13_retain_force_always_removes : forall st st',
  kapply st KForceRemove = Some st' -> st' = None.
Proof. exact kapply_force_remove. Qed.
Print Assumptions C13_retain_force_always_removes.

(* ---- the unbounded theorem over the list-bin protocol model (Model/BinProto.v) ----
   retain's removal of an entry its predicate rejected is the model operation `OCondRemove k obs`
   (replace_node with the observed value: lock the bin, re-validate, walk, load the value, unlink
   only if it is still `obs`); retain_force's is `ORemove k`.  Its history entry is
   `KCondRemove obs`, whose specification is the compare-and-remove above.  For every hash
   function, table size, program - any mix of get / insert / try_insert / remove /
   compute_if_present / conditional removals, any number of threads - and every schedule, the
   history of every key is linearizable with the final lookup as final state: a conditional removal
   never removes a value other than the one observed, whatever replaces it concurrently. *)
From Flurry Require Import Model.BinProto Proofs.BinProtoProofs.

Theorem C13_binproto_linearizable_with_retain_removals : forall khash nbins progs sched k,
  (0 < nbins)%nat ->
  let c := run khash nbins (init nbins progs) sched in
  all_done c = true ->
  linearizable None (key_history c k) (Some (lookup khash nbins c k)).
Proof. exact binproto_linearizable. Qed.
Print Assumptions C13_binproto_linearizable_with_retain_removals.

(* the operation is in the model's vocabulary and maps to the conditional specification *)
Theorem C13_cond_remove_is_an_operation : forall k obs r,
  op_key (OCondRemove k obs) = k /\ kop_of (OCondRemove k obs) r = KCondRemove obs.
Proof. intros k obs r. split; reflexivity. Qed.
Print Assumptions C13_cond_remove_is_an_operation.
