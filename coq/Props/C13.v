(* C13 - retain removes only what its predicate rejected; retain_force always removes. *)
From Flurry Require Import Model.Lin Proofs.LinProofs Proofs.SpecProofs.
From Coq Require Import List ZArith.

Theorem C13_checker_sound : forall init calls fin,
  lin_b init calls fin = true -> linearizable init calls fin.
Proof. exact lin_b_sound. Qed.
Print Assumptions C13_checker_sound.

(* the specification of a retain removal: it takes effect only if the value associated with the
   key at that instant is still the one the predicate inspected; otherwise nothing changes *)
Theorem C13_retain_is_compare_and_remove : forall st obs st',
  kapply st (KCondRemove obs) = Some st' ->
  (st = Some obs /\ st' = None) \/ (st <> Some obs /\ st' = st).
Proof. exact kapply_cond_remove. Qed.
Print Assumptions C13_retain_is_compare_and_remove.

Theorem C13_retain_force_always_removes : forall st st',
  kapply st KForceRemove = Some st' -> st' = None.
Proof. exact kapply_force_remove. Qed.
Print Assumptions C13_retain_force_always_removes.
