(* C18 - a panicking callback leaves the map consistent and unlocked. *)
From Flurry Require Import Model.Panic Proofs.PanicProofs.
From Coq Require Import List.

(* over the event sequences regenerated from map.rs: in compute_if_present the callback runs
   inside the bin's critical section before any write, the lock guard is an RAII local that is
   never forgotten; hence unwinding releases the lock with the entry untouched *)
Theorem C18_callback_before_writes : callbacks_ok = true.
Proof. exact callbacks_ok_true. Qed.
Print Assumptions C18_callback_before_writes.

(* retain / retain_force invoke the predicate while holding no lock *)
Theorem C18_retain_predicate_outside_locks : retain_lock_free = true.
Proof. exact retain_lock_free_true. Qed.
Print Assumptions C18_retain_predicate_outside_locks.

(* the callback is shown the current value and nothing was modified before it ran *)
Theorem C18_compute_callback_sees_current : forall khash s k v,
  compute_reaches_callback khash s k = Some v ->
  init_table s = s /\ exists n, get_node khash s k = Some n /\ nv n = v.
Proof. exact compute_callback_sees_current. Qed.
Print Assumptions C18_compute_callback_sees_current.

(* a retain interrupted at predicate call i has processed exactly the first i entries *)
Theorem C18_retain_prefix : forall khash keep s p,
  retain_until khash keep s p 0 = s /\
  retain_until khash keep s p (List.length (nodes s)) = retain khash keep s p.
Proof. intros; split; [apply retain_until_zero | apply retain_until_all]. Qed.
Print Assumptions C18_retain_prefix.

(* in the sequential model: the callback is applied to the current value of the unmodified
   state, and every write comes after it returned *)
From Flurry Require Import Proofs.SeqProofs Proofs.SeqFinal.
Theorem C18_compute_callback_before_write : forall khash remap s0 k f,
  WF khash s0 ->
  let s := init_table s0 in
  (forall k', abs khash s k' = abs khash s0 k') /\
  match abs khash s0 k with
  | Some (_, v) => exists t, tbl s = Some t /\
        compute khash remap s0 k f = compute_finish khash s t k (remap f k v)
  | None => compute khash remap s0 k f = (s, ONone)
  end.
Proof. exact compute_callback_before_write_final. Qed.
Print Assumptions C18_compute_callback_before_write.
