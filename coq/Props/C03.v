(* C03 - references handed out under a guard never dangle; freed memory is never touched. *)
From Flurry Require Import Model.Reclaim Proofs.ReclaimProofs.

(* For every trace - every interleaving, any number of threads, guards, retirements - if the
   collector honours its contract (an object retired through a protected guard is freed only
   after every guard active at its retirement has ended) and the map keeps its two disciplines
   (retire only after unlinking; whoever touches an object began its guard while the object
   was still reachable), then no object is touched at or after the moment it is freed. *)
Theorem C03_no_use_after_free : forall tr,
  collector_ok tr -> unlink_before_retire tr -> access_was_reachable tr -> safe tr.
Proof. exact no_use_after_free. Qed.
Print Assumptions C03_no_use_after_free.

(* over the API table regenerated from the source: only exclusive-ownership teardown paths run
   under Guard::unprotected(), under which retirement frees immediately (refuted before fix
   9e60424: FromIterator did) *)
Theorem C03_unprotected_only_in_teardown : unprotected_only_in_teardown = true.
Proof. exact unprotected_only_in_teardown_true. Qed.
Print Assumptions C03_unprotected_only_in_teardown.

(* over the write sequences regenerated from map.rs: in every function that retires memory a
   retirement is preceded by an unlinking store *)
Theorem C03_retire_after_unlink_in_source : retire_discipline_ok = true.
Proof. exact retire_discipline_ok_true. Qed.
Print Assumptions C03_retire_after_unlink_in_source.
