(* C03 - references handed out under a guard never dangle; freed memory is never touched. *)
From Flurry Require Import Model.Reclaim Proofs.ReclaimProofs.

(* For every trace - every interleaving, any number of threads, guards, retirements - if the
   collector honours its contract (an object retired through a protected guard is freed only
   after every guard active at its retirement has ended) and the map keeps its two disciplines
   (retire only after unlinking; whoever touches an object began its guard while the object
   was still reachable), then no object is touched at or after the moment it is freed. *)
Theorem C03_no_use_after_free : forall tr,
  collector_ok tr -> unlink_before_retire tr -> access_was_reachable tr -> safe tr.
Proof. exact no_use_after_free. Qed.
Print Assumptions C03_no_use_after_free.

(* over the API table regenerated from the source: only exclusive-ownership teardown paths run
   under Guard::unprotected(), under which retirement frees immediately (refuted before fix
   9e60424: FromIterator did) *)
Theorem C03_unprotected_only_in_teardown : unprotected_only_in_teardown = true.
Proof. exact unprotected_only_in_teardown_true. Qed.
Print Assumptions C03_unprotected_only_in_teardown.

(* over the write sequences regenerated from map.rs: in every function that retires memory a
   retirement is preceded by an unlinking store *)
Theorem C03_retire_after_unlink_in_source : retire_discipline_ok = true.
Proof. exact retire_discipline_ok_true. Qed.
Print Assumptions C03_retire_after_unlink_in_source.

(* The two disciplines are not only premises: over the list-bin protocol model (Model/BinProto.v,
   tied to map.rs by the lock-step conformance replays of C01), for EVERY schedule, thread count
   and program:
   D1  a cell is unlinked (and hence retired) at most once, and once unlinked it is never
       reachable from any bin again;
   D2  whatever cell a call holds in its program counter - the cells it may dereference next -
       was unlinked, if at all, strictly after the call was invoked, i.e. while the guard the
       call runs under was already active. *)
From Flurry Require Import Model.BinReclaim Proofs.BinReclaimProofs.

Theorem C03_unlinked_once : forall khash nbins progs sched,
  (0 < nbins)%nat ->
  NoDup (map fst (unlink_log khash nbins (BinProto.init nbins progs) sched)).
Proof. exact unlinked_once. Qed.
Print Assumptions C03_unlinked_once.

Theorem C03_unlinked_never_reachable_again : forall khash nbins progs sched1 sched2 a u,
  (0 < nbins)%nat ->
  In (a, u) (unlink_log khash nbins (BinProto.init nbins progs) sched1) ->
  reachable nbins (BinProto.run khash nbins (BinProto.init nbins progs) (sched1 ++ sched2)) a = false.
Proof. exact unlinked_never_reachable_again. Qed.
Print Assumptions C03_unlinked_never_reachable_again.

Theorem C03_held_cells_unlinked_after_invocation : forall khash nbins progs sched t a u,
  (0 < nbins)%nat ->
  let c := BinProto.run khash nbins (BinProto.init nbins progs) sched in
  In a (held_cells (at_ (get_thr c t))) ->
  In (a, u) (unlink_log khash nbins (BinProto.init nbins progs) sched) ->
  (inv_at (get_thr c t) < u)%N.
Proof. exact held_cells_unlinked_after_invocation. Qed.
Print Assumptions C03_held_cells_unlinked_after_invocation.
