(* C10 - cooperative resizing: no overlap, single publication, full completion. *)
From Flurry Require Import Model.ResizeProto Proofs.ArithProofs Proofs.ResizeProofs.
From Coq Require Import List ZArith.
Open Scope Z_scope.

(* ---- stamp arithmetic, for all 31 legal table lengths (regenerated expressions) ---- *)
Theorem C10_stamp_negative : forall n, In n table_lengths -> rs n < 0.
Proof. exact stamp_negative. Qed.
Print Assumptions C10_stamp_negative.

Theorem C10_stamp_ranges_disjoint : forall n m, In n table_lengths -> In m table_lengths ->
  rs n + MAX_RESIZERS < 0 /\ - 2 ^ 63 <= rs n /\ (n <> m -> MAX_RESIZERS < Z.abs (rs n - rs m)).
Proof. exact stamp_ranges. Qed.
Print Assumptions C10_stamp_ranges_disjoint.

Theorem C10_join_tests_use_shifted_stamp :
  forall n, rs_help_transfer n = rs_add_count n /\ rs_try_presize n = rs_add_count n.
Proof. exact rs_sites_agree. Qed.
Print Assumptions C10_join_tests_use_shifted_stamp.

Theorem C10_last_leaver_is_elected : forall sc n,
  transfer_not_last sc n = false <-> sc = init_sc_add_count (rs n).
Proof. exact transfer_last_iff. Qed.
Print Assumptions C10_last_leaver_is_elected.

Theorem C10_threshold_after_resize : forall n, 0 <= n < 2 ^ 61 -> Z.even n = true \/ n = 1 ->
  next_threshold n = load_factor (transfer_new_len n) /\ transfer_new_len n = 2 * n.
Proof. exact next_threshold_eq. Qed.
Print Assumptions C10_threshold_after_resize.

(* ---- the protocol: any table length, any number of threads, any schedule ---- *)
Section Protocol.
Variables (n ncpu sc0 : Z) (bins0 : list binstate) (k : nat).
Hypothesis Hn : In n table_lengths.
Hypothesis Hsc : 0 <= sc0.
Hypothesis Hlen : length bins0 = Z.to_nat n.
Hypothesis Hfwd : ~ In BFwd bins0.

Theorem C10_each_bin_once : forall sched i,
  (count_ev (is_migrated i) (run n ncpu (init sc0 bins0 k) sched) <= 1)%nat.
Proof. intros; apply each_bin_once; assumption. Qed.

Theorem C10_single_publisher : forall sched,
  (count_ev is_published (run n ncpu (init sc0 bins0 k) sched) <= 1)%nat.
Proof. intros; apply single_publisher; assumption. Qed.

Theorem C10_published_after_all_migrated : forall sched,
  count_ev is_published (run n ncpu (init sc0 bins0 k) sched) = 1%nat ->
  all_fwd (run n ncpu (init sc0 bins0 k) sched) = true.
Proof. intros; apply published_after_all_migrated; assumption. Qed.

(* whenever nobody is inside transfer the map is untouched or completely resized, with the
   threshold 2n - n/2 installed and next_table cleared: never left in a resizing state *)
Theorem C10_completion : forall sched,
  let c := run n ncpu (init sc0 bins0 k) sched in
  nobody_inside c = true ->
  (c_swapped c = false /\ c_sc c = sc0 /\ c_nt c = false /\ c_log c = nil) \/
  (c_swapped c = true /\ c_sc c = next_threshold n /\ c_nt c = false /\ all_fwd c = true /\
   count_ev is_published c = 1%nat).
Proof. intros; apply completion; assumption. Qed.

Theorem C10_helpers_bounded : forall sched,
  count_thr inside (run n ncpu (init sc0 bins0 k) sched) < MAX_RESIZERS.
Proof. intros; apply helpers_bounded; assumption. Qed.

Theorem C10_indices_in_range : forall sched t ph l seen,
  thr (run n ncpu (init sc0 bins0 k) sched) t = T ph (AtBin l seen) -> 0 <= li l < n.
Proof. intros sched t ph l seen H. eapply indices_in_range in H; try eassumption. tauto. Qed.
End Protocol.
Print Assumptions C10_each_bin_once.
Print Assumptions C10_single_publisher.
Print Assumptions C10_published_after_all_migrated.
Print Assumptions C10_completion.
Print Assumptions C10_helpers_bounded.
Print Assumptions C10_indices_in_range.
