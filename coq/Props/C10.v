(* C10 - cooperative resizing: no overlap, single publication, full completion. *)
From Flurry Require Import Model.ResizeProto Proofs.ArithProofs Proofs.ResizeProofs.
From Coq Require Import List ZArith.
Open Scope Z_scope.

(* ---- stamp arithmetic, for all 31 legal table lengths (regenerated expressions) ---- *)
Theorem C10_stamp_negative : forall n, In n table_lengths -> rs n < 0.
Proof. exact stamp_negative. Qed.
Print Assumptions C10_stamp_negative.

Theorem C10_stamp_ranges_disjoint : forall n m, In n table_lengths -> In m table_lengths ->
  rs n + MAX_RESIZERS < 0 /\ - 2 ^ 63 <= rs n /\ (n <> m -> MAX_RESIZERS < Z.abs (rs n - rs m)).
Proof. exact stamp_ranges. Qed.
Print Assumptions C10_stamp_ranges_disjoint.

Theorem C10_join_tests_use_shifted_stamp :
  forall n, rs_help_transfer n = rs_add_count n /\ rs_try_presize n = rs_add_count n.
Proof. exact rs_sites_agree. Qed.
Print Assumptions C10_join_tests_use_shifted_stamp.

Theorem C10_last_leaver_is_elected : forall sc n,
  transfer_not_last sc n = false <-> sc = init_sc_add_count (rs n).
Proof. exact transfer_last_iff. Qed.
Print Assumptions C10_last_leaver_is_elected.

Theorem C10_threshold_after_resize : forall n, 0 <= n < 2 ^ 61 -> Z.even n = true \/ n = 1 ->
  next_threshold n = load_factor (transfer_new_len n) /\ transfer_new_len n = 2 * n.
Proof. exact next_threshold_eq. Qed.
Print Assumptions C10_threshold_after_resize.

(* ---- the protocol: any table length, any number of threads, any schedule ---- *)
(* Resizes of different generations do not overlap through a helper that slept: help_transfer
   validates `table` / `next_table` and only then reads size_ctl, so the value it reads may belong
   to the resize of a later table; every size_ctl value of the resize of a table of length m is
   rs m + k with 0 <= k <= MAX_RESIZERS, and the join test (regenerated from map.rs) refuses all of
   them unless m is the length of the table the helper holds.  On the code as found this statement
   was false (finding F6: a helper holding the retired 16-bin table joined the resize of the 32-bin
   table, left last and nobody finished the resize); Proofs/ArithProofs.v keeps the witness. *)
Theorem C10_helper_joins_own_generation : forall n m k ti,
  In n table_lengths -> In m table_lengths -> n <> m -> 0 <= k <= MAX_RESIZERS ->
  help_transfer_break (rs m + k) (rs_help_transfer n) ti = true.
Proof. exact helper_joins_own_generation. Qed.
Print Assumptions C10_helper_joins_own_generation.


Section Protocol.
Variables (n ncpu sc0 : Z) (bins0 : list binstate) (k : nat).
Hypothesis Hn : In n table_lengths.
Hypothesis Hsc : 0 <= sc0.
Hypothesis Hlen : length bins0 = Z.to_nat n.
Hypothesis Hfwd : ~ In BFwd bins0.

Theorem C10_each_bin_once : forall sched i,
  (count_ev (is_migrated i) (run n ncpu (init sc0 bins0 k) sched) <= 1)%nat.
Proof. intros; apply each_bin_once; assumption. Qed.

Theorem C10_single_publisher : forall sched,
  (count_ev is_published (run n ncpu (init sc0 bins0 k) sched) <= 1)%nat.
Proof. intros; apply single_publisher; assumption. Qed.

Theorem C10_published_after_all_migrated : forall sched,
  count_ev is_published (run n ncpu (init sc0 bins0 k) sched) = 1%nat ->
  all_fwd (run n ncpu (init sc0 bins0 k) sched) = true.
Proof. intros; apply published_after_all_migrated; assumption. Qed.

(* whenever nobody is inside transfer the map is untouched or completely resized, with the
   threshold 2n - n/2 installed and next_table cleared: never left in a resizing state *)
Theorem C10_completion : forall sched,
  let c := run n ncpu (init sc0 bins0 k) sched in
  nobody_inside c = true ->
  (c_swapped c = false /\ c_sc c = sc0 /\ c_nt c = false /\ c_log c = nil) \/
  (c_swapped c = true /\ c_sc c = next_threshold n /\ c_nt c = false /\ all_fwd c = true /\
   count_ev is_published c = 1%nat).
Proof. intros; apply completion; assumption. Qed.

Theorem C10_helpers_bounded : forall sched,
  count_thr inside (run n ncpu (init sc0 bins0 k) sched) < MAX_RESIZERS.
Proof. intros; apply helpers_bounded; assumption. Qed.

Theorem C10_indices_in_range : forall sched t ph l seen,
  thr (run n ncpu (init sc0 bins0 k) sched) t = T ph (AtBin l seen) -> 0 <= li l < n.
Proof. intros sched t ph l seen H. eapply indices_in_range in H; try eassumption. tauto. Qed.
End Protocol.
Print Assumptions C10_each_bin_once.
Print Assumptions C10_single_publisher.
Print Assumptions C10_published_after_all_migrated.
Print Assumptions C10_completion.
Print Assumptions C10_helpers_bounded.
Print Assumptions C10_indices_in_range.

(* ---- generations (Model/GenProto.v): successive resizes, and helpers that may have slept through
   any number of them, following help_transfer step by step (validate table / next_table; load
   size_ctl and apply the join test regenerated from map.rs; CAS size_ctl + 1; later leave with the
   election test computed from the table they hold).  For every number of helpers and every
   schedule of helper and environment actions: no helper is ever inside transfer - or elected
   finisher - for a table that is not the current one, and size_ctl never rests at rs + 1 with
   nobody to finish the resize.  The same model run with the join test as it was before fix
   1ef080f reaches both (finding F6). *)
From Flurry Require Import Model.GenProto Proofs.GenProofs.

Theorem C10_no_stale_helper_inside : forall k sched,
  stale_inside (grun help_transfer_break (ginit k) sched) = false.
Proof. exact no_stale_helper_inside. Qed.
Print Assumptions C10_no_stale_helper_inside.

Theorem C10_resize_never_left_unfinished : forall k sched,
  stuck (grun help_transfer_break (ginit k) sched) = false.
Proof. exact never_stuck. Qed.
Print Assumptions C10_resize_never_left_unfinished.

Theorem C10_F6_before_fix :
  (exists sched, stale_inside (grun help_transfer_break_before_fix (ginit 1) sched) = true) /\
  (exists sched, stuck (grun help_transfer_break_before_fix (ginit 1) sched) = true).
Proof. exact (conj F6_stale_helper_before_fix F6_stuck_before_fix). Qed.
Print Assumptions C10_F6_before_fix.

(* ---- what an observer of the resize events may rely on: one boolean predicate over the event
   log of a resize (each bin migrated at most once and only bins of the table; at most one
   publication, one initiator, one finisher; a published table has received every bin exactly
   once).  It holds of the log of every reachable configuration of the protocol model, and the same
   predicate is evaluated inside Coq on the event log the instrumented crate produces for every
   resize of every scheduled run. *)
From Flurry Require Import Model.ResizeLog Proofs.ResizeLogProofs.
Theorem C10_model_logs_ok : forall n ncpu sc0 bins0 k sched,
  In n table_lengths -> 0 <= sc0 -> length bins0 = Z.to_nat n -> ~ In BFwd bins0 ->
  ResizeLog.log_ok (Z.to_nat n) (c_log (run n ncpu (init sc0 bins0 k) sched)) = true.
Proof. exact model_logs_ok. Qed.
Print Assumptions C10_model_logs_ok.
