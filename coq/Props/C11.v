(* C11 - every operation terminates under any fair schedule (no deadlock, no lost wake-up).
   Part 1: the tree-bin read-write lock (Model/TreeLock.v, a step-by-step rendering of
   lock_root / contended_lock / unlock_root and the tree-mode attempt of TreeBin::find). *)
From Flurry Require Import Model.TreeLock Proofs.TreeLockProofs.
From Coq Require Import List ZArith.

(* a writer restructures the tree only while no reader searches it *)
Theorem C11_tree_lock_exclusive : forall rounds readers sched,
  let c := run (init rounds readers) sched in
  writer_holds c = true -> readers_inside c = 0%nat.
Proof. exact mutual_exclusion. Qed.
Print Assumptions C11_tree_lock_exclusive.

(* a parked writer without a token always has a reader on its way to wake it *)
Theorem C11_no_lost_wakeup : forall rounds readers sched r,
  let c := run (init rounds readers) sched in
  get_thr c 0 = W (WPark r) -> token c 0 = false ->
  exists t, get_thr c t = R RInside \/ get_thr c t = R RExit \/
            get_thr c t = R RLoadWaiter \/ get_thr c t = R (RUnpark 0).
Proof. exact no_lost_wakeup. Qed.
Print Assumptions C11_no_lost_wakeup.

(* in every reachable state some unfinished thread can move: no deadlock, for any number of
   readers, any number of writer rounds, any schedule *)
Theorem C11_deadlock_free : forall rounds readers sched,
  let c := run (init rounds readers) sched in
  all_done c = false -> some_enabled c = true.
Proof. exact deadlock_free. Qed.
Print Assumptions C11_deadlock_free.

(* the writer never spins without having announced itself *)
Theorem C11_no_blind_spin : forall rounds readers sched t r,
  let c := run (init rounds readers) sched in
  get_thr c t = W (WLoad r false) -> waiter_bit_clear (ls c) = true.
Proof. exact unreachable_spin. Qed.
Print Assumptions C11_no_blind_spin.

(* termination: a measure that every step of an enabled thread strictly decreases; hence the
   number of steps enabled threads can make is bounded, whatever the schedule - under a fair
   schedule every call returns *)
Theorem C11_every_step_makes_progress : forall rounds readers sched t,
  let c := run (init rounds readers) sched in
  enabled c t = true -> (mu (step c t) < mu c)%nat.
Proof. exact step_decreases. Qed.
Print Assumptions C11_every_step_makes_progress.

Theorem C11_bounded_runs : forall rounds readers sched,
  (busy (init rounds readers) sched <= run_bound rounds readers)%nat.
Proof. exact bounded_runs. Qed.
Print Assumptions C11_bounded_runs.

(* the model's lock_state tests and written values are the expressions regenerated from
   node.rs (Gen/GenArith.v, the gl_ definitions): editing a mask, a constant or a CAS operand in the code
   re-opens this obligation *)
Theorem C11_model_uses_code_tests :
  (forall s, only_waiter_bit s = gl_only_waiter s) /\
  (forall s, waiter_bit_clear s = gl_waiter_clear s) /\
  (forall s, has_writer_or_waiter s = gl_busy s) /\
  gl_first_cas_expected = 0%Z /\ gl_first_cas_new = WRITER /\ gl_unlock_val = 0%Z /\
  (forall s, gl_writer_val s = WRITER) /\
  (forall s, gl_set_waiter s = Z.lor s WAITER) /\
  (forall s, gl_reader_inc s = (s + READER)%Z) /\
  gl_reader_dec = (- READER)%Z /\ gl_last_reader_old = Z.lor READER WAITER.
Proof. repeat split; reflexivity. Qed.
Print Assumptions C11_model_uses_code_tests.

(* Part 2: the bin mutexes.  Over the lock-extent table and call graph regenerated from the source
   (Gen/GenLocks.v, Gen/GenAtomics.v; resolution by name and arity, an over-approximation): while a
   thread holds a bin mutex it never acquires a second mutex, directly or through any function it
   can reach - so the wait-for relation among mutex holders has no edges and no cycle - and the
   only other waits it can perform are those of the tree-bin write lock (lock_root /
   contended_lock), which Part 1 shows to terminate: the readers it waits for hold no mutex and
   never block (C12). *)
From Flurry Require Import Model.Locks Proofs.LocksProofs.
From Coq Require Import String.
Import ListNotations.
Open Scope string_scope.

Theorem C11_one_bin_lock_at_a_time : forall e, In e lock_extents ->
  forall b, In b (ext_blocking e) -> snd b <> "lock".
Proof. exact no_nested_mutex. Qed.
Print Assumptions C11_one_bin_lock_at_a_time.

Theorem C11_waits_under_bin_lock_are_tree_lock_waits : forall e, In e lock_extents ->
  forall b, In b (ext_blocking e) -> In (fst b) ["lock_root"; "contended_lock"].
Proof. exact waits_under_mutex. Qed.
Print Assumptions C11_waits_under_bin_lock_are_tree_lock_waits.

(* the table accounts for every `.lock()` in the sources, the calls it does not follow (clone on a
   key or value) are what they are taken to be, and the graph does see the tree lock *)
Theorem C11_lock_table_complete :
  extents_cover_lock_sites = true /\ clones_are_of_keys_and_values = true /\
  extents_reach_tree_lock = true /\ all_explicit_drops = true.
Proof.
  exact (conj extents_cover_lock_sites_true (conj clones_are_of_keys_and_values_true
        (conj extents_reach_tree_lock_true all_explicit_drops_true))).
Qed.
Print Assumptions C11_lock_table_complete.
