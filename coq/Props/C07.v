(* C07 - iterators are weakly consistent, also across concurrent resizes.
   The traverser model (Model/Trav.v: NodeIter::next field by field over a chain of forwarded
   tables) is validated against the implementation on every run: forests built by suspending a
   real resize after k steps are iterated by both, the yielded sequences must be equal.
   The exactness theorem over all well-formed forests is pinned in Props/C07_model.v once
   Proofs/TravProofs.v provides it. *)
From Flurry Require Import Model.Trav.
From Coq Require Import List.
Import ListNotations.
Open Scope N_scope.

Definition n_ (k : N) : node := N_ k k 0 0%Z.

(* nested forwarding, three levels, a marker reached through the high half of another marker *)
Example C07_three_levels :
  let f := [[BMoved; BMoved];
            [BMoved; BList [n_ 1; n_ 5]; BList [n_ 2]; BMoved];
            [BList [n_ 8]; BNull; BNull; BList [n_ 3]; BList [n_ 4]; BNull; BNull; BList [n_ 7]]] in
  wf_forest f = true /\ map nk (iterate f) = map nk (contents f) /\ map nk (iterate f) = [8; 4; 2; 1; 5; 3; 7].
Proof. vm_compute. repeat split. Qed.
Print Assumptions C07_three_levels.

Example C07_partial_resize :
  let f := [[BList [n_ 0; n_ 2]; BMoved];
            [BMoved; BList [n_ 1]; BNull; BList [n_ 3; n_ 7]];
            [BNull; BNull; BNull; BNull; BNull; BNull; BNull; BNull]] in
  wf_forest f = true /\ iterate f = contents f.
Proof. vm_compute. repeat split. Qed.
Print Assumptions C07_partial_resize.

(* ---- the exactness theorem over all well-formed forests (Proofs/TravProofs.v) ---- *)
From Flurry Require Import Proofs.TravProofs.

(* whatever the depth of nested forwarding and whatever the pattern of forwarded bins, the
   traverser yields exactly the reachable entries, each once (indeed in the canonical order) *)
Theorem C07_static_exact : forall f, wf_forest f = true -> iterate f = contents f.
Proof. exact iterate_exact. Qed.
Print Assumptions C07_static_exact.

Theorem C07_no_duplicates : forall f, wf_forest f = true ->
  NoDup (map nk (contents f)) -> NoDup (map nk (iterate f)).
Proof. exact iterate_no_duplicates. Qed.
Print Assumptions C07_no_duplicates.

(* termination: the fuel of the model is never what ends an iteration *)
Theorem C07_terminates : forall f F calls, wf_forest f = true -> trav_fuel f <= F ->
  S (total_nodes f) <= calls -> drain calls F f (new_iter f) = iterate f.
Proof. exact drain_fuel_calls_irrelevant. Qed.
Print Assumptions C07_terminates.

(* ---- the dynamic half: a resize migrates bins while an iterator is live (Model/TravDyn.v,
   Proofs/TravDynProofs.v). `migrate hi f j i` is what `transfer` does to bin i of table j: its nodes
   are split by `hi` into bins i and i + n of table j+1 and the bin becomes a forwarding marker
   (up to order: the code reverses part of a list and may build tree bins, hence Permutation).
   `drain_dyn` interleaves calls of next() with guarded migration steps under ANY schedule. ---- *)
From Flurry Require Import Model.TravDyn Proofs.TravDynProofs.
From Coq Require Import Permutation.

Theorem C07_migration_keeps_forest : forall hi steps f, wf_forest f = true ->
  wf_forest (migrates hi steps f) = true /\ Permutation (contents (migrates hi steps f)) (contents f).
Proof. intros hi steps f H. split; [exact (migrates_wf hi steps f H) | exact (migrates_contents_perm hi steps f H)]. Qed.
Print Assumptions C07_migration_keeps_forest.

(* an iterator created after any number of migration steps yields exactly the entries *)
Theorem C07_iterate_after_migrations : forall hi steps f, wf_forest f = true ->
  Permutation (iterate (migrates hi steps f)) (iterate f).
Proof. exact migrates_iterate_perm. Qed.
Print Assumptions C07_iterate_after_migrations.

(* a LIVE iterator, any schedule of next() calls and migrations, any per-call fuel: no key twice,
   nothing but entries of the map *)
Theorem C07_live_no_duplicates : forall hi sched F f, wf_forest f = true ->
  NoDup (map nk (contents f)) -> NoDup (map nk (drain_dyn hi sched F f (new_iter f))).
Proof. exact drain_dyn_no_duplicates. Qed.
Print Assumptions C07_live_no_duplicates.

Theorem C07_live_yields_only_contents : forall hi sched F f x, wf_forest f = true ->
  In x (drain_dyn hi sched F f (new_iter f)) -> In x (contents f).
Proof. exact drain_dyn_yields_contents. Qed.
Print Assumptions C07_live_yields_only_contents.

(* ... and when the run ends with the iterator exhausted, every entry was yielded; the version
   with a fuel hypothesis instead of the exhaustion hypothesis is C07_live_complete below *)
Theorem C07_live_complete_partial : forall hi sched F f, wf_forest f = true ->
  exhausted (snd (snd (drain_dyn_end hi sched F f (new_iter f)))) ->
  Permutation (drain_dyn hi sched F f (new_iter f)) (contents f).
Proof. exact drain_dyn_complete. Qed.
Print Assumptions C07_live_complete_partial.

(* non-vacuity: 2 bins migrated to 4 and then 8 while the iterator runs *)
Check dyn_fA_run.

(* fuel adequacy under interleaved migration (Proofs/TravDynFuel.v): migration does not change
   trav_fuel, and from ANY valid iterator state (mid-descent included) a call that answers None
   with that much fuel leaves the iterator exhausted. Hence the full statement: whenever next()
   answers None - whatever migrations were interleaved - every entry of the map has been yielded. *)
From Flurry Require Import Proofs.TravDynFuel.

Theorem C07_migration_keeps_fuel : forall hi steps f, trav_fuel (migrates hi steps f) = trav_fuel f.
Proof. exact migrates_trav_fuel. Qed.
Print Assumptions C07_migration_keeps_fuel.

Theorem C07_live_complete : forall hi sched F f, wf_forest f = true -> trav_fuel f <= F ->
  drain_dyn_stopped hi sched F f (new_iter f) = true ->
  Permutation (drain_dyn hi sched F f (new_iter f)) (contents f).
Proof. exact drain_dyn_complete_fuel. Qed.
Print Assumptions C07_live_complete.

Check dyn_fA_stopped.
