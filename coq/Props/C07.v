(* C07 - iterators are weakly consistent, also across concurrent resizes.
   The traverser model (Model/Trav.v: NodeIter::next field by field over a chain of forwarded
   tables) is validated against the implementation on every run: forests built by suspending a
   real resize after k steps are iterated by both, the yielded sequences must be equal.
   The exactness theorem over all well-formed forests is pinned in Props/C07_model.v once
   Proofs/TravProofs.v provides it. *)
From Flurry Require Import Model.Trav.
From Coq Require Import List.
Import ListNotations.
Open Scope N_scope.

Definition n_ (k : N) : node := N_ k k 0 0%Z.

(* nested forwarding, three levels, a marker reached through the high half of another marker *)
Example C07_three_levels :
  let f := [[BMoved; BMoved];
            [BMoved; BList [n_ 1; n_ 5]; BList [n_ 2]; BMoved];
            [BList [n_ 8]; BNull; BNull; BList [n_ 3]; BList [n_ 4]; BNull; BNull; BList [n_ 7]]] in
  wf_forest f = true /\ map nk (iterate f) = map nk (contents f) /\ map nk (iterate f) = [8; 4; 2; 1; 5; 3; 7].
Proof. vm_compute. repeat split. Qed.
Print Assumptions C07_three_levels.

Example C07_partial_resize :
  let f := [[BList [n_ 0; n_ 2]; BMoved];
            [BMoved; BList [n_ 1]; BNull; BList [n_ 3; n_ 7]];
            [BNull; BNull; BNull; BNull; BNull; BNull; BNull; BNull]] in
  wf_forest f = true /\ iterate f = contents f.
Proof. vm_compute. repeat split. Qed.
Print Assumptions C07_partial_resize.

(* ---- the exactness theorem over all well-formed forests (Proofs/TravProofs.v) ---- *)
From Flurry Require Import Proofs.TravProofs.

(* whatever the depth of nested forwarding and whatever the pattern of forwarded bins, the
   traverser yields exactly the reachable entries, each once (indeed in the canonical order) *)
Theorem C07_static_exact : forall f, wf_forest f = true -> iterate f = contents f.
Proof. exact iterate_exact. Qed.
Print Assumptions C07_static_exact.

Theorem C07_no_duplicates : forall f, wf_forest f = true ->
  NoDup (map nk (contents f)) -> NoDup (map nk (iterate f)).
Proof. exact iterate_no_duplicates. Qed.
Print Assumptions C07_no_duplicates.

(* termination: the fuel of the model is never what ends an iteration *)
Theorem C07_terminates : forall f F calls, wf_forest f = true -> trav_fuel f <= F ->
  S (total_nodes f) <= calls -> drain calls F f (new_iter f) = iterate f.
Proof. exact drain_fuel_calls_irrelevant. Qed.
Print Assumptions C07_terminates.
