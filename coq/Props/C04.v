(* C04 - every key and value is destroyed exactly once, at map teardown at the latest. *)
From Flurry Require Import Model.Reclaim Proofs.ReclaimProofs.

(* with at most one retirement per object, a collector that answers every retirement with at
   most one reclamation and has drained destroys each retired object exactly once *)
Theorem C04_destroyed_exactly_once : forall tr o,
  retire_once tr -> frees_match_retires tr -> drained tr ->
  count (is_free o) tr = count (is_retire o) tr /\ count (is_free o) tr <= 1.
Proof. exact destroyed_exactly_once. Qed.
Print Assumptions C04_destroyed_exactly_once.

(* not before the last observer: a reclamation (= destruction) follows the end of every guard
   that was active when the object was retired - this is C03's theorem read for drops *)
Theorem C04_not_before_last_observer : forall tr,
  collector_ok tr -> unlink_before_retire tr -> access_was_reachable tr -> safe tr.
Proof. exact no_use_after_free. Qed.
Print Assumptions C04_not_before_last_observer.

(* the premise retire_once is not only assumed: over the list-bin protocol model
   (Model/BinProto.v, tied to map.rs by the conformance replays of C01) a cell is unlinked - the
   one place where the code retires a node - at most once on EVERY schedule *)
From Flurry Require Import Model.BinReclaim Proofs.BinReclaimProofs.
Theorem C04_unlinked_at_most_once : forall khash nbins progs sched,
  (0 < nbins)%nat ->
  NoDup (map fst (unlink_log khash nbins (BinProto.init nbins progs) sched)).
Proof. exact unlinked_once. Qed.
Print Assumptions C04_unlinked_at_most_once.
