(* C05 - at quiescence lookups, iteration and len() agree and the table is well formed. *)
From Flurry Require Import Model.Spec Proofs.SeqProofs Proofs.SeqFinal.
From Coq Require Import List ZArith.

(* iteration over a quiescent well-formed table yields exactly the entries lookups find, each
   key once *)
Theorem C05_iter_get_agree : forall khash s,
  WF khash s -> lists (map entry (nodes s)) (abs khash s).
Proof. exact nodes_lists_abs_final. Qed.
Print Assumptions C05_iter_get_agree.

Theorem C05_len_agrees : forall khash s, WF khash s -> cnt s = Z.of_nat (length (nodes s)).
Proof. exact wf_len. Qed.
Print Assumptions C05_len_agrees.

(* every state reachable by any operation sequence from any capacity is well formed: power of
   two length <= 2^30, every node in the bin its hash selects, keys distinct, no forwarding
   marker, threshold = 3/4 of the length, tree bins red-black with list = tree *)
Theorem C05_reachable_well_formed : forall khash remap keep c ops,
  let '(s', _) := run khash remap keep (with_capacity c) ops in WF khash s' /\ sized s'.
Proof. exact reachable_wf_sized_final. Qed.
Print Assumptions C05_reachable_well_formed.
