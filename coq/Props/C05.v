(* C05 - at quiescence lookups, iteration and len() agree and the table is well formed. *)
From Flurry Require Import Model.Spec Proofs.SeqProofs Proofs.SeqFinal.
From Coq Require Import List ZArith.

(* iteration over a quiescent well-formed table yields exactly the entries lookups find, each
   key once *)
Theorem C05_iter_get_agree : forall khash s,
  WF khash s -> lists (map entry (nodes s)) (abs khash s).
Proof. exact nodes_lists_abs_final. Qed.
Print Assumptions C05_iter_get_agree.

Theorem C05_len_agrees : forall khash s, WF khash s -> cnt s = Z.of_nat (length (nodes s)).
Proof. exact wf_len. Qed.
Print Assumptions C05_len_agrees.

(* every state reachable by any operation sequence from any capacity is well formed: power of
   two length <= 2^30, every node in the bin its hash selects, keys distinct, no forwarding
   marker, threshold = 3/4 of the length, tree bins red-black with list = tree *)
Theorem C05_reachable_well_formed : forall khash remap keep c ops,
  let '(s', _) := run khash remap keep (with_capacity c) ops in WF khash s' /\ sized s'.
Proof. exact reachable_wf_sized_final. Qed.
Print Assumptions C05_reachable_well_formed.

(* ---- list bins under every schedule, at EVERY instant (Model/BinProto.v) ----
   Not only at quiescence: in every reachable configuration - operations in flight, bin locks
   held, unlinks half done - every bin's chain holds pairwise distinct keys, each in the bin its
   hash selects, and a lookup of k finds exactly what the chain of k's bin holds for k; so
   iterating the bins and looking keys up agree at every instant.  (Model tied to the code by the
   step conformance of C01.) *)
From Flurry Require Import Model.BinProto Model.BinConf Proofs.BinProtoWF.
Theorem C05_bins_well_formed_at_every_instant : forall khash nbins progs sched i,
  (0 < nbins)%nat -> (i < nbins)%nat ->
  let c := run khash nbins (init nbins progs) sched in
  NoDup (map fst (chain_of c i)) /\
  Forall (fun kv => bini khash nbins (fst kv) = i) (chain_of c i).
Proof. exact bins_well_formed_at_every_instant. Qed.
Print Assumptions C05_bins_well_formed_at_every_instant.

Theorem C05_lookup_agrees_with_chain_at_every_instant : forall khash nbins progs sched k,
  (0 < nbins)%nat ->
  let c := run khash nbins (init nbins progs) sched in
  lookup khash nbins c k = assoc_kv k (chain_of c (bini khash nbins k)).
Proof. exact lookup_agrees_with_chain_at_every_instant. Qed.
Print Assumptions C05_lookup_agrees_with_chain_at_every_instant.
