(* C15 - updates happen-before the reads that observe them. *)
From Flurry Require Import Model.HB Proofs.AtomicsProofs.
From Coq Require Import List.

(* every atomic-operation site of the crate (regenerated table) respects its discipline:
   publishing stores / swaps / CASes are at least Release, loads of integer cells at least
   Acquire (pointer cells are loaded through Guard::protect, i.e. SeqCst), and weaker orderings
   occur only at the exempted sites (private objects, under the tree write lock, under the bin
   lock, exclusive access, diagnostics) *)
Theorem C15_disciplines_hold : forall s, In s sites -> site_ok s = true.
Proof. exact every_site_ok. Qed.
Print Assumptions C15_disciplines_hold.

Theorem C15_lock_edges : tree_lock_edges_ok = true /\ bin_edges_ok = true.
Proof. split; [exact tree_lock_edges_ok_true | exact bin_edges_ok_true]. Qed.
Print Assumptions C15_lock_edges.

(* under the release/acquire fragment: along any publication path - any number of hops, each a
   synchronising write (release store, or mutex unlock) observed by a synchronising read
   (acquire load, or mutex lock) - initialisation happens-before the final access *)
Theorem C15_publication_hb : forall (event : Type) po rf ord_of unlock_lock a b,
  path event po rf ord_of unlock_lock a b -> hb event po rf ord_of unlock_lock a b.
Proof. exact path_hb. Qed.
Print Assumptions C15_publication_hb.

(* ---- the exemption "UnderTreeWriteLock" is what it says ----
   Over the tables regenerated from node.rs (Gen/GenLocks.v): every Relaxed store of node.rs lies,
   in a function that takes the tree-bin write lock, between its lock_root() and its unlock_root();
   in any other function it belongs to a restructuring helper or to TreeBin::new (which builds a
   tree nobody else can see); the helpers are only called from inside such an extent, from each
   other, or from TreeBin::new; and each locker has exactly one lock_root() before one
   unlock_root(). *)
From Flurry Require Import Model.Locks Proofs.LocksProofs.
Theorem C15_tree_links_written_under_write_lock :
  relaxed_stores_inside_write_lock = true /\ relaxed_stores_only_in_known_functions = true /\
  helpers_called_under_write_lock = true /\ lockers_well_bracketed = true /\ lockers_exist = true.
Proof.
  exact (conj relaxed_stores_inside_write_lock_true (conj relaxed_stores_only_in_known_functions_true
        (conj helpers_called_under_write_lock_true (conj lockers_well_bracketed_true lockers_exist_true)))).
Qed.
Print Assumptions C15_tree_links_written_under_write_lock.
