(* C09 - every guard-taking operation rejects guards of a foreign collector.
   Statement over the API table regenerated from /repo/src by the translator. *)
From Coq Require Import List String Bool.
From Flurry Require Import Model.Api Proofs.ApiProofs.

(* Every public method of HashMap/HashSet that takes a guard, and every method of the
   HashMapRef/HashSetRef facades (which forward the unchecked guard given to with_guard), either
   starts with check_guard on that guard or only hands the guard on to methods that do. *)
Theorem C09_all_entry_points :
  forall r, In r api -> guard_entry r = true -> row_ok 6 r = true.
Proof. exact every_guard_entry_ok. Qed.
Check C09_all_entry_points :
  forall r, In r api -> guard_entry r = true -> row_ok 6 r = true.
Print Assumptions C09_all_entry_points.

Theorem C09_table_not_trivial : 40 <= List.length (filter guard_entry api).
Proof. exact guard_entries_exist. Qed.
Print Assumptions C09_table_not_trivial.
