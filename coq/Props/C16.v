(* C16 - borrowed results cannot outlive the guard or the map (compile time): over the
   signature table regenerated from the source. The borrow checker itself is the oracle of the
   compile corpus; Coq's part is that the enumeration is complete and what "tied" means is fixed. *)
From Flurry Require Import Model.Types Proofs.TypesProofs.
From Coq Require Import List String NArith.
Import ListNotations.
Open Scope string_scope.

(* every public method of HashMap, HashSet, HashMapRef, HashSetRef whose return type carries a
   lifetime: EVERY lifetime in that type (each reference handed out, each half of a pair) is
   bounded by the lifetime of `self` and by that of every guard parameter - equal to it, or below
   it through declared outlives bounds *)
Theorem C16_results_tied : forall r, In r sigs -> borrow_row r = true -> row_tied r = true.
Proof. exact every_borrow_tied. Qed.
Print Assumptions C16_results_tied.

Theorem C16_no_static : no_static_bounds = true.
Proof. exact no_static_bounds_true. Qed.
Print Assumptions C16_no_static.

(* no public method declares its lookup-key parameter Q without ?Sized *)
Theorem C16_lookup_keys_may_be_unsized : forall r, In r sigs -> g_q_sized r = false.
Proof.
  intros r Hr. pose proof lookup_keys_may_be_unsized_true as H. unfold lookup_keys_may_be_unsized in H.
  rewrite forallb_forall in H. specialize (H r Hr). destruct (g_q_sized r); [discriminate H | reflexivity].
Qed.
Print Assumptions C16_lookup_keys_may_be_unsized.

(* no public method puts a named lifetime on a parameter other than `self` and the guards: a lookup
   key (or an inserted key / value, or a closure) is never required to live as long as the result *)
Theorem C16_lookup_keys_unconstrained : forall r, In r sigs -> g_key_lts r = [].
Proof.
  intros r Hr. pose proof lookup_keys_unconstrained_true as H. unfold lookup_keys_unconstrained in H.
  rewrite forallb_forall in H. specialize (H r Hr). destruct (g_key_lts r); [reflexivity | discriminate H].
Qed.
Print Assumptions C16_lookup_keys_unconstrained.

Theorem C16_table_not_trivial : 30 <= borrow_rows.
Proof. exact borrow_rows_many. Qed.
Print Assumptions C16_table_not_trivial.

(* the predicate is not satisfied by merely mentioning both lifetimes somewhere: a pair whose value
   half is tied to the guard only (`(&'m K, &'g V)` with `'g: 'm`) is rejected, its key half alone
   would be accepted *)
Theorem C16_split_pair_rejected :
  row_tied {| g_file := ""; g_ty := "HashMap"; g_trait := ""; g_name := "get_key_value"; g_line := 0%N;
              g_self := "m"; g_guards := ["g"]; g_ret_lts := ["m"; "g"]; g_outlives := [("g", "m")]; g_q_sized := false; g_key_lts := [];
              g_ret := ""; g_borrow := true; g_static := false |} = false /\
  row_tied {| g_file := ""; g_ty := "HashMap"; g_trait := ""; g_name := "get_key"; g_line := 0%N;
              g_self := "m"; g_guards := ["g"]; g_ret_lts := ["m"]; g_outlives := [("g", "m")]; g_q_sized := false; g_key_lts := [];
              g_ret := ""; g_borrow := true; g_static := false |} = true.
Proof. exact split_pair_rejected. Qed.
Print Assumptions C16_split_pair_rejected.
