(* C16 - borrowed results cannot outlive the guard or the map (compile time): over the
   signature table regenerated from the source. The borrow checker itself is the oracle of the
   compile corpus; Coq's part is that the enumeration is complete and what "tied" means is fixed. *)
From Flurry Require Import Model.Types Proofs.TypesProofs.
From Coq Require Import List.

(* every public method of HashMap, HashSet, HashMapRef, HashSetRef whose return type carries a
   lifetime mentions in it the lifetime of `self` and of every guard parameter *)
Theorem C16_results_tied : forall r, In r sigs -> borrow_row r = true -> row_tied r = true.
Proof. exact every_borrow_tied. Qed.
Print Assumptions C16_results_tied.

Theorem C16_no_static : no_static_bounds = true.
Proof. exact no_static_bounds_true. Qed.
Print Assumptions C16_no_static.

Theorem C16_table_not_trivial : 30 <= borrow_rows.
Proof. exact borrow_rows_many. Qed.
Print Assumptions C16_table_not_trivial.
