(* C19 - optional bulk paths (serde, rayon). Statements at the level of the abstract map; the
   glue (serde formats, rayon scheduling) is covered by the direct differential runs. *)
From Flurry Require Import Model.Bulk Proofs.BulkProofs.
From Coq Require Import List ZArith Permutation.
Open Scope Z_scope.

Theorem C19_roundtrip : forall l (m : amap), lists l m ->
  forall k, option_map snd (de l k) = option_map snd (m k).
Proof. exact de_ser_values. Qed.
Print Assumptions C19_roundtrip.

(* deserialisation is total on every entry list; a repeated key keeps the last value *)
Theorem C19_de_total : forall entries k, option_map snd (de entries k) = last_val entries k.
Proof. exact de_last_wins. Qed.
Print Assumptions C19_de_total.

(* the visitors of serde_impls.rs contain no unreachable!/panic! (regenerated from the source;
   refuted before fix 11a4377) *)
Theorem C19_visitors_do_not_panic : visitors_total = true.
Proof. exact visitors_total_true. Qed.
Print Assumptions C19_visitors_do_not_panic.

Theorem C19_par_extend : forall items perm (m : amap), Permutation items perm ->
  forall k, (aput_all m perm k <> None <-> (m k <> None \/ exists i v, In (k, i, v) items)) /\
            (forall v, option_map snd (aput_all m perm k) = Some v ->
               supplied items k v \/ ((forall i v', ~ In (k, i, v') items) /\ option_map snd (m k) = Some v)).
Proof. exact par_extend_any_order. Qed.
Print Assumptions C19_par_extend.
