(* C06 - crowded bins are balanced search trees: logarithmic lookups, consistent links.
   Statements over the tree-bin model (Model/RB.v, validated step by step against node.rs with
   identical shapes and colours); proofs in Proofs/RBProofs.v. *)
From Flurry Require Import Model.WF Proofs.RBProofs.
From Coq Require Import ZArith List Lia Permutation.
Open Scope Z_scope.

(* TreeBin::new, find_or_put_tree_val, value replacement and remove_tree_node keep the bin a
   red-black tree ordered by (hash, key) whose next-list holds exactly the tree's nodes *)
Theorem C06_new_preserves : forall l, nodup_keys l = true ->
  (forall a b, In a l -> In b l -> nk a = nk b -> nh a = nh b) -> l <> [] -> tb_b (tb_new l) = true.
Proof. exact tb_new_ok. Qed.
Print Assumptions C06_new_preserves.

Theorem C06_put_preserves : forall b e, tb_b b = true ->
  (forall a, In a (tord b) -> nk a <> nk e) -> tb_b (tb_put b e) = true.
Proof. exact tb_put_ok. Qed.
Print Assumptions C06_put_preserves.

Theorem C06_set_preserves : forall b h k v, tb_b b = true -> tb_b (tb_set b h k v) = true.
Proof. exact tb_set_ok. Qed.
Print Assumptions C06_set_preserves.

Theorem C06_remove_preserves : forall b h k b', tb_b b = true ->
  tb_remove b h k = (b', false) -> tb_b b' = true.
Proof. exact tb_remove_ok. Qed.
Print Assumptions C06_remove_preserves.

Theorem C06_delete_rebalances : forall t h k e, rb_b t = true -> too_small t = false ->
  In e (t_elems t) -> nh e = h -> nk e = k ->
  rb_b (t_delete t h k) = true /\ Permutation (t_elems t) (e :: t_elems (t_delete t h k)).
Proof. exact t_delete_rb. Qed.
Print Assumptions C06_delete_rebalances.

(* readers walking the next-list and readers descending the tree find the same node *)
Theorem C06_find_agrees : forall b h k, tb_b b = true ->
  t_find (troot b) h k = lb_find (tord b) h k.
Proof. exact t_find_lb_find. Qed.
Print Assumptions C06_find_agrees.

(* height is logarithmic: 2^height <= (size+1)^2 *)
Theorem C06_height : forall t, rb_b t = true ->
  2 ^ Z.of_nat (t_height t) <= (Z.of_nat (t_size t) + 1) ^ 2.
Proof. exact rb_height. Qed.
Print Assumptions C06_height.

(* a lookup, hit or miss, makes at most 2 key comparisons per level; hence
   2^(comparisons) <= (n+1)^4, i.e. comparisons <= 4*log2(n+1) *)
Theorem C06_find_cost : forall t h k, rb_b t = true ->
  2 ^ (t_find_cost t h k) <= (Z.of_nat (t_size t) + 1) ^ 4.
Proof.
  intros t h k Hrb.
  pose proof (t_find_cost_le t h k) as Hc.
  pose proof (rb_height t Hrb) as Hh.
  assert (Hnn : 0 <= t_find_cost t h k).
  { clear. induction t as [|c l IHl e r IHr]; cbn [t_find_cost]; [lia|].
    destruct (N.compare (nh e) h); [|assumption|assumption].
    destruct (N.eqb (nk e) k); [lia|].
    destruct l, r; try lia; destruct (N.compare (nk e) k); lia. }
  apply Z.le_trans with (2 ^ (2 * Z.of_nat (t_height t))).
  - apply Z.pow_le_mono_r; lia.
  - rewrite Z.mul_comm, Z.pow_mul_r by lia.
    replace ((Z.of_nat (t_size t) + 1) ^ 4) with (((Z.of_nat (t_size t) + 1) ^ 2) ^ 2) by ring.
    apply Z.pow_le_mono_l. split; [apply Z.pow_nonneg; lia | exact Hh].
Qed.
Print Assumptions C06_find_cost.
