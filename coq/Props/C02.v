(* C02 - sequential behaviour equals a reference map for every operation sequence and hasher. *)
From Flurry Require Import Model.Spec Proofs.SeqProofs Proofs.SeqFinal.
From Coq Require Import List ZArith.

(* for every hash function, every remapping function / predicate table, every well-formed
   state and every operation: the model step returns what the abstract map specifies, moves the
   abstraction as specified, and stays well formed *)
Theorem C02_step_refines : forall khash remap keep s o,
  WF khash s ->
  let '(s', out) := step khash remap keep s o in
  WF khash s' /\
  (forall k, abs khash s' k = spec_state remap keep (abs khash s) o k) /\
  out = spec_out remap (abs khash s) o (Z.of_nat (length (nodes s))) (map entry (nodes s)).
Proof. exact step_refines_final. Qed.
Print Assumptions C02_step_refines.

(* ... hence for every operation sequence from any initial capacity *)
Theorem C02_run_refines : forall khash remap keep s ops,
  WF khash s ->
  let '(s', outs) := run khash remap keep s ops in
  WF khash s' /\ spec_run remap keep (abs khash s) ops (abs khash s') outs /\
  (tlen_s s <= tlen_s s')%Z /\ (sized s -> sized s').
Proof. exact run_refines_final. Qed.
Print Assumptions C02_run_refines.

Theorem C02_any_capacity_starts_empty : forall khash c,
  WF khash (with_capacity c) /\ (forall k, abs khash (with_capacity c) k = aempty k) /\
  nodes (with_capacity c) = nil /\ sized (with_capacity c).
Proof. exact with_capacity_wf_final. Qed.
Print Assumptions C02_any_capacity_starts_empty.

(* the specification mentions neither the hash function nor the capacity: outcomes cannot
   depend on them (spec_state / spec_out have no such argument) *)
Theorem C02_first_key_kept : forall (m : amap) k i i0 v v0,
  m k = Some (i0, v0) -> ains m k i v k = Some (i0, v).
Proof.
  intros m k i i0 v v0 H. unfold ains. rewrite H. unfold aupd. rewrite N.eqb_refl. reflexivity.
Qed.
Print Assumptions C02_first_key_kept.

(* ---- the set relations (HashSet::is_subset / is_superset / is_disjoint / ==) ----
   The specification the implementation's answers are evaluated against on every run
   (Model/SetSpec.v rel_check) is the set-theoretic one; in particular every set is a subset and a
   superset of any set with the same elements. *)
From Flurry Require Import Model.SetSpec Proofs.SetSpecProofs.
Theorem C02_set_relations_spec : forall a b,
  (subset_b a b = true <-> (forall x, In x a -> In x b)) /\
  (superset_b a b = true <-> (forall x, In x b -> In x a)) /\
  (disjoint_b a b = true <-> (forall x, In x a -> ~ In x b)) /\
  (seteq_b a b = true <-> (forall x, In x a <-> In x b)).
Proof.
  intros a b. exact (conj (subset_b_spec a b) (conj (superset_b_spec a b)
                    (conj (disjoint_b_spec a b) (seteq_b_spec a b)))).
Qed.
Print Assumptions C02_set_relations_spec.

Theorem C02_equal_sets_are_subsets_of_each_other : forall a b,
  seteq_b a b = true -> subset_b a b = true /\ superset_b a b = true.
Proof. exact equal_sets_are_subsets. Qed.
Print Assumptions C02_equal_sets_are_subsets_of_each_other.

Theorem C02_relation_check_is_exact : forall a b r,
  rel_check a b r = 0%N <->
  a_sub r = subset_b a b /\ a_sup r = superset_b a b /\ a_dis r = disjoint_b a b /\ a_eq r = seteq_b a b.
Proof. exact rel_check_ok. Qed.
Print Assumptions C02_relation_check_is_exact.
