From Flurry Require Import Model.Reclaim.
From Coq Require Import List Arith Lia Bool.
Import ListNotations.

Lemma at_inj tr t e e' : at_ tr t e -> at_ tr t e' -> e = e'.
Proof. unfold at_. intros H H'. rewrite H in H'. injection H' as ->. reflexivity. Qed.

(* Under the collector's contract and the two disciplines no object is touched at or after the
   moment it is freed - for every trace, i.e. every interleaving, every number of threads,
   guards and retirements, and every batching policy that honours the contract. *)
Theorem no_use_after_free tr :
  collector_ok tr -> unlink_before_retire tr -> access_was_reachable tr -> safe tr.
Proof.
  intros HC HD1 HD2 g o t tf Ha Hf.
  destruct (lt_dec t tf) as [|Hge]; [assumption|]. exfalso.
  assert (Hle : tf <= t) by lia.
  destruct (HC o tf Hf) as (g0 & tr_ & Hlt & Hret & Hall).
  destruct (HD1 _ _ _ Hret) as (u & Hu & Hunl).
  destruct (HD2 _ _ _ Ha) as (Hact & Hreach).
  destruct (Hreach u Hunl) as (s & Hsu & Hstart & _ & Hnoend).
  (* g is active at the retirement and still at the free *)
  assert (Hact_r : active tr g tr_).
  { exists s. split; [lia|]. split; [exact Hstart|]. intros w Hw1 Hw2. apply Hnoend; lia. }
  assert (Hact_f : active tr g tf).
  { exists s. split; [lia|]. split; [exact Hstart|]. intros w Hw1 Hw2. apply Hnoend; lia. }
  exact (Hall g Hact_r Hact_f).
Qed.

(* a collector that frees later than another one that satisfies the contract also satisfies it
   in the sense needed here: safety only uses "not before"; so one proof covers batch sizes
   1 .. default *)

(* exactly once: with at most one retirement per object, a contract-abiding collector that has
   drained destroys every retired object exactly once, and never one that was not retired *)
Theorem destroyed_exactly_once tr o :
  retire_once tr -> frees_match_retires tr -> drained tr ->
  count (is_free o) tr = count (is_retire o) tr /\ count (is_free o) tr <= 1.
Proof.
  intros H1 H2 H3. specialize (H1 o). specialize (H2 o). specialize (H3 o). lia.
Qed.

Lemma unprotected_only_in_teardown_true : unprotected_only_in_teardown = true.
Proof. vm_compute. reflexivity. Qed.

(* non-vacuity: a small trace satisfying all premises, and one violating D1 that is unsafe *)
Example good_trace :
  let tr := [GStart 0; Create 5; Access 0 5; Unlink 5; Retire 0 5; Access 0 5; GEnd 0; Free 5] in
  safe tr.
Proof.
  intros tr g o t tf Ha Hf. unfold at_ in *.
  assert (tf = 7) as ->.
  { do 8 (destruct tf as [|tf]; cbn in Hf; try discriminate). reflexivity. destruct tf; discriminate. }
  do 7 (destruct t as [|t]; [lia|]). cbn in Ha. destruct t; cbn in Ha; try discriminate.
  destruct t; discriminate.
Qed.

Lemma retire_discipline_ok_true : retire_discipline_ok = true.
Proof. vm_compute. reflexivity. Qed.
