From Flurry Require Import Model.Locks.
From Coq Require Import List String Bool NArith.
Import ListNotations.
Open Scope string_scope.

Lemma all_extents_mutex_free_true : all_extents_mutex_free = true.
Proof. vm_compute. reflexivity. Qed.
Lemma extents_cover_lock_sites_true : extents_cover_lock_sites = true.
Proof. vm_compute. reflexivity. Qed.
Lemma all_extent_waits_are_tree_lock_true : all_extent_waits_are_tree_lock = true.
Proof. vm_compute. reflexivity. Qed.
Lemma all_explicit_drops_true : all_explicit_drops = true.
Proof. vm_compute. reflexivity. Qed.
Lemma clones_are_of_keys_and_values_true : clones_are_of_keys_and_values = true.
Proof. vm_compute. reflexivity. Qed.
Lemma extents_reach_tree_lock_true : extents_reach_tree_lock = true.
Proof. vm_compute. reflexivity. Qed.

Lemma no_nested_mutex : forall e, In e lock_extents ->
  forall b, In b (ext_blocking e) -> snd b <> "lock".
Proof.
  intros e He b Hb. pose proof all_extents_mutex_free_true as H.
  unfold all_extents_mutex_free in H. rewrite forallb_forall in H. specialize (H e He).
  unfold ext_mutex_free in H. rewrite forallb_forall in H. specialize (H b Hb).
  intro E. rewrite E in H. discriminate.
Qed.

Lemma waits_under_mutex : forall e, In e lock_extents ->
  forall b, In b (ext_blocking e) -> In (fst b) tree_lock_fns.
Proof.
  intros e He b Hb. pose proof all_extent_waits_are_tree_lock_true as H.
  unfold all_extent_waits_are_tree_lock in H. rewrite forallb_forall in H. specialize (H e He).
  unfold ext_waits_ok in H. rewrite forallb_forall in H. specialize (H b Hb).
  apply orb_true_iff in H. destruct H as [H | H].
  - exfalso. apply (no_nested_mutex e He b Hb). apply String.eqb_eq. exact H.
  - unfold mem in H. apply existsb_exists in H. destruct H as [x [Hx E]].
    apply String.eqb_eq in E. subst x. exact Hx.
Qed.

(* the test is not trivially true: an extent that calls `put` (which locks) is rejected *)
Example nested_lock_rejected :
  ext_mutex_free {| l_file := "map.rs"; l_fn := "x"; l_line := 1%N; l_recv := "a.lock"; l_guard := "g";
                    l_explicit_drop := true; l_end := 2%N; l_calls := ["put/4"]; l_blocking := []; l_clone_recvs := [] |} = false.
Proof. vm_compute. reflexivity. Qed.

(* ---------- tree-bin write lock ---------- *)
Lemma relaxed_stores_inside_write_lock_true : relaxed_stores_inside_write_lock = true.
Proof. vm_compute. reflexivity. Qed.
Lemma relaxed_stores_only_in_known_functions_true : relaxed_stores_only_in_known_functions = true.
Proof. vm_compute. reflexivity. Qed.
Lemma helpers_called_under_write_lock_true : helpers_called_under_write_lock = true.
Proof. vm_compute. reflexivity. Qed.
Lemma lockers_well_bracketed_true : lockers_well_bracketed = true.
Proof. vm_compute. reflexivity. Qed.
Lemma lockers_exist_true : lockers_exist = true.
Proof. vm_compute. reflexivity. Qed.

Lemma every_relaxed_store_ok : forall s, In s relaxed_stores_node_rs -> store_ok s = true /\ store_fn_ok s = true.
Proof.
  intros s Hs. split.
  - pose proof relaxed_stores_inside_write_lock_true as H. unfold relaxed_stores_inside_write_lock in H.
    rewrite forallb_forall in H. exact (H s Hs).
  - pose proof relaxed_stores_only_in_known_functions_true as H. unfold relaxed_stores_only_in_known_functions in H.
    rewrite forallb_forall in H. exact (H s Hs).
Qed.
