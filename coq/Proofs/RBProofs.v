(* Red-black tree bins (C06): invariants preserved by every tree-bin operation.

   Everything below is about the executable models in Model/RB.v and the boolean invariants in
   Model/WF.v; nothing is assumed (see the axiom audit at the end of the file).

   Method.  The order on (hash,key) is the Prop [nlt]; [ordered t None None] is reflected as
   [sorted (t_elems t)] (StronglySorted).  A zipper [p] lists the nodes to the left ([pl p]) and to
   the right ([pr p]) of its focus; plug, bal_ins, bal_del and t_delete_at all have the in-order
   listing [pl p ++ (focus) ++ pr p], so ordering and the Permutation statements are list facts.
   Colours and black heights are carried by three path invariants: [PBH p n m] (a focus of black
   height n gives a tree of black height m), [path_ok xred p] (no red-red on the path, the focus
   being red iff xred) and [last_black p] (the root frame is black).  Insertion keeps
   "x is a red node, path_ok false p"; deletion keeps "x is one black level short of what p
   expects" ([PBH p (S n) m] with [bheight x = Some n]).

   Main results (exact names requested): t_insert_rb, t_insert_elems, t_new_rb, t_find_spec,
   t_find_lb_find, t_set_rb, t_set_elems (+ t_set_elems_lb), t_delete_rb, rb_height,
   t_find_cost_le, tb_new_ok, tb_put_ok, tb_set_ok, tb_remove_ok.

   No statement was found to be false of the model.  The hypothesis [too_small t = false] of
   t_delete_rb is necessary: see Example t_delete_needs_too_small near the end. *)
From Coq Require Import List ZArith NArith Bool Lia Permutation Sorted.
From Flurry Require Import Model.WF.
Import ListNotations.
Local Open Scope N_scope.

(* ---------- the order on (hash,key) ---------- *)
Definition nlt (a b : node) : Prop := nh a < nh b \/ (nh a = nh b /\ nk a < nk b).
Definition pk (h k : N) : node := N_ h k 0 0%Z.

Lemma lt_node_iff a b : lt_node a b = true <-> nlt a b.
Proof.
  unfold lt_node, nlt.
  destruct (N.compare_spec (nh a) (nh b)) as [H|H|H]; rewrite ?N.ltb_lt;
    split; intros H1; try discriminate; try reflexivity; lia.
Qed.

Lemma ncmp_spec h k e :
  match ncmp h k e with
  | Lt => nlt (pk h k) e
  | Gt => nlt e (pk h k)
  | Eq => nh e = h /\ nk e = k
  end.
Proof.
  unfold ncmp, nlt, pk; cbn.
  destruct (N.compare_spec h (nh e)) as [H|H|H];
    [destruct (N.compare_spec k (nk e)) as [H1|H1|H1]|..]; lia.
Qed.

Lemma matches_iff h k n : matches h k n = true <-> nh n = h /\ nk n = k.
Proof. unfold matches. rewrite andb_true_iff, !N.eqb_eq. tauto. Qed.

Lemma nlt_trans a b c : nlt a b -> nlt b c -> nlt a c.
Proof. unfold nlt; lia. Qed.
Lemma nlt_irrefl a : ~ nlt a a.
Proof. unfold nlt; lia. Qed.

(* ---------- sorted lists ---------- *)
Definition sorted (l : list node) : Prop := StronglySorted nlt l.

Lemma sorted_app l1 l2 :
  sorted (l1 ++ l2) <->
  sorted l1 /\ sorted l2 /\ (forall a b, In a l1 -> In b l2 -> nlt a b).
Proof.
  unfold sorted. induction l1 as [|x l1 IH]; cbn.
  - split.
    + intros H. split; [constructor|]. split; [exact H|]. intros a b [].
    + intros (_ & H & _). exact H.
  - split.
    + intros H. inversion H as [|? ? H1 H2]; subst.
      apply IH in H1 as (A & B & C). rewrite Forall_app in H2. destruct H2 as [H2 H3].
      split; [constructor; assumption|]. split; [assumption|].
      intros a b [Ha|Ha] Hb.
      * subst a. rewrite Forall_forall in H3. auto.
      * auto.
    + intros (A & B & C). inversion A as [|? ? A1 A2]; subst.
      constructor.
      * apply IH. split; [assumption|]. split; [assumption|]. intros; apply C; auto.
      * rewrite Forall_app. split; [assumption|]. rewrite Forall_forall. intros b Hb. apply C; auto.
Qed.

Lemma sorted_cons x l : sorted (x :: l) <-> sorted l /\ (forall b, In b l -> nlt x b).
Proof.
  unfold sorted. split.
  - intros H. inversion H; subst. rewrite Forall_forall in *. auto.
  - intros [A B]. constructor; [assumption|]. rewrite Forall_forall. exact B.
Qed.

Lemma sorted_nil : sorted [].
Proof. constructor. Qed.

Lemma sorted_remove_mid A x B : sorted (A ++ x :: B) -> sorted (A ++ B).
Proof.
  rewrite !sorted_app, sorted_cons. intros (H1 & (H2 & H3) & H4).
  split; [assumption|]. split; [assumption|]. intros a b Ha Hb. apply H4; cbn; auto.
Qed.

Lemma sorted_insert_mid A x B :
  sorted (A ++ B) -> (forall a, In a A -> nlt a x) -> (forall b, In b B -> nlt x b) ->
  sorted (A ++ x :: B).
Proof.
  rewrite !sorted_app, sorted_cons. intros (H1 & H2 & H3) Ha Hb.
  split; [assumption|]. split; [split; assumption|].
  intros a b HA [Hx|HB]; [subst; auto|auto].
Qed.

Lemma sorted_unique l a b :
  sorted l -> In a l -> In b l -> nh a = nh b -> nk a = nk b -> a = b.
Proof.
  induction l as [|x l IH]; intros Hs Ha Hb Hh Hk; [destruct Ha|].
  apply sorted_cons in Hs as [Hs Hx].
  destruct Ha as [Ha|Ha], Hb as [Hb|Hb]; subst.
  - reflexivity.
  - apply Hx in Hb. unfold nlt in Hb. lia.
  - apply Hx in Ha. unfold nlt in Ha. lia.
  - auto.
Qed.

Lemma sorted_NoDup_keys l : sorted l -> NoDup (map (fun n => (nh n, nk n)) l).
Proof.
  induction l as [|x l IH]; intros Hs; cbn; [constructor|].
  apply sorted_cons in Hs as [Hs Hx]. constructor; [|auto].
  rewrite in_map_iff. intros (y & Hy & Hin). apply Hx in Hin.
  injection Hy as H1 H2. unfold nlt in Hin. lia.
Qed.

Lemma sorted_NoDup l : sorted l -> NoDup l.
Proof.
  intros H. apply sorted_NoDup_keys in H. eapply NoDup_map_inv. exact H.
Qed.

(* ---------- ordered <-> sorted elems ---------- *)
Definition lob (lo : option node) (x : node) : Prop :=
  match lo with Some a => nlt a x | None => True end.
Definition hib (hi : option node) (x : node) : Prop :=
  match hi with Some b => nlt x b | None => True end.

Lemma ordered_iff t : forall lo hi,
  ordered t lo hi = true <->
  sorted (t_elems t) /\ (forall x, In x (t_elems t) -> lob lo x /\ hib hi x).
Proof.
  induction t as [|c l IHl e r IHr]; intros lo hi; cbn [ordered t_elems].
  - split; [intros _; split; [apply sorted_nil|intros x []]|reflexivity].
  - rewrite !andb_true_iff, IHl, IHr, sorted_app, sorted_cons.
    assert (Hlo : match lo with Some a => lt_node a e | None => true end = true <-> lob lo e).
    { destruct lo; cbn; [apply lt_node_iff|tauto]. }
    assert (Hhi : match hi with Some b => lt_node e b | None => true end = true <-> hib hi e).
    { destruct hi; cbn; [apply lt_node_iff|tauto]. }
    rewrite Hlo, Hhi. clear Hlo Hhi IHl IHr. cbn [lob hib].
    split.
    + intros (((Hlo & Hhi) & (Sl & Bl)) & (Sr & Br)).
      split.
      * split; [assumption|]. split; [split; [assumption|intros b Hb; apply Br; assumption]|].
        intros a b Ha [Hb|Hb].
        -- subst b. apply Bl; assumption.
        -- eapply nlt_trans; [apply Bl; eassumption|apply Br; assumption].
      * intros x Hx. apply in_app_or in Hx as [Hx|[Hx|Hx]].
        -- split; [apply Bl; assumption|].
           destruct hi as [b|]; cbn in *; [|exact I].
           eapply nlt_trans; [apply Bl; eassumption|assumption].
        -- subst x. split; assumption.
        -- split; [|apply Br; assumption].
           destruct lo as [a|]; cbn in *; [|exact I].
           eapply nlt_trans; [eassumption|apply Br; assumption].
    + intros ((Sl & (Sr & Hr) & Hlr) & B).
      split; [split; [split|]|].
      * apply (B e). apply in_or_app; right; left; reflexivity.
      * apply (B e). apply in_or_app; right; left; reflexivity.
      * split; [assumption|]. intros x Hx. split.
        -- apply (B x). apply in_or_app; left; assumption.
        -- apply Hlr; [assumption|left; reflexivity].
      * split; [assumption|]. intros x Hx. split.
        -- apply Hr; assumption.
        -- apply (B x). apply in_or_app; right; right; assumption.
Qed.

Lemma ordered_sorted t : ordered t None None = true <-> sorted (t_elems t).
Proof.
  rewrite ordered_iff. cbn. split; [tauto|]. intros H; split; [assumption|auto].
Qed.

(* ---------- zippers: in-order listing ---------- *)
Fixpoint pl (p : path) : list node :=
  match p with
  | [] => []
  | f :: p' => pl p' ++ match fdir f with DL => [] | DR => t_elems (fsib f) ++ [fe f] end
  end.
Fixpoint pr (p : path) : list node :=
  match p with
  | [] => []
  | f :: p' => match fdir f with DL => fe f :: t_elems (fsib f) | DR => [] end ++ pr p'
  end.

Ltac lnorm :=
  repeat (rewrite <- app_assoc || rewrite <- app_comm_cons || rewrite app_nil_r
          || rewrite app_nil_l); cbn [app].

Lemma elems_plug p : forall x, t_elems (plug x p) = pl p ++ t_elems x ++ pr p.
Proof.
  induction p as [|[d c e s] p IH]; intros x; cbn [plug pl pr].
  - cbn. rewrite app_nil_r. reflexivity.
  - rewrite IH. unfold plug1. destruct d; cbn; lnorm; reflexivity.
Qed.

Lemma elems_blacken t : t_elems (blacken t) = t_elems t.
Proof. destruct t; reflexivity. Qed.
Lemma elems_top p t : t_elems (top p t) = t_elems t.
Proof. destruct p; cbn; [apply elems_blacken|reflexivity]. Qed.

Lemma pl_app p q : pl (p ++ q) = pl q ++ pl p.
Proof. induction p as [|f p IH]; cbn; [rewrite app_nil_r; reflexivity|]. rewrite IH. lnorm. reflexivity. Qed.
Lemma pr_app p q : pr (p ++ q) = pr p ++ pr q.
Proof. induction p as [|f p IH]; cbn; [reflexivity|]. rewrite IH. lnorm. reflexivity. Qed.
Lemma plug_app p q x : plug x (p ++ q) = plug (plug x p) q.
Proof. revert x; induction p as [|f p IH]; intros x; cbn; [reflexivity|apply IH]. Qed.

Lemma path_ind2 (P : path -> Prop) :
  P [] -> (forall f, P [f]) -> (forall f1 f2 p, P p -> P (f1 :: f2 :: p)) -> forall p, P p.
Proof.
  intros H0 H1 H2. fix IH 1. intros [|f1 [|f2 p]].
  - exact H0.
  - apply H1.
  - apply H2. apply IH.
Qed.

Lemma bal_ins_nil x : bal_ins x [] = blacken x.
Proof. reflexivity. Qed.
Lemma bal_ins_one x f : bal_ins x [f] = plug x [f].
Proof. cbn. destruct (fred f); reflexivity. Qed.

Lemma elems_bal_ins p : forall x, t_elems (bal_ins x p) = pl p ++ t_elems x ++ pr p.
Proof.
  induction p as [| f | [d1 c1 e1 s1] [d2 c2 e2 s2] p IH] using path_ind2; intros x.
  - cbn. rewrite app_nil_r. apply elems_blacken.
  - rewrite bal_ins_one. apply elems_plug.
  - cbn [bal_ins fred fdir fsib fe negb].
    destruct c1; cbn [negb]; [|apply elems_plug].
    destruct d2; destruct (is_red s2) eqn:Hs2.
    + rewrite IH. cbn [t_elems pl pr fdir fsib fe]. rewrite elems_blacken.
      destruct d1; lnorm; reflexivity.
    + destruct d1; [|destruct x as [|cx b xe c]]; rewrite ?elems_plug, ?elems_top;
        cbn [t_elems pl pr fdir fsib fe]; lnorm; reflexivity.
    + rewrite IH. cbn [t_elems pl pr fdir fsib fe]. rewrite elems_blacken.
      destruct d1; lnorm; reflexivity.
    + destruct d1; [destruct x as [|cx b xe c]|]; rewrite ?elems_plug, ?elems_top;
        cbn [t_elems pl pr fdir fsib fe]; lnorm; reflexivity.
Qed.

(* ---------- locate ---------- *)
Lemma locate_plug t : forall h k p0 s p, locate t h k p0 = (s, p) -> plug s p = plug t p0.
Proof.
  induction t as [|c l IHl e r IHr]; intros h k p0 s p H; cbn [locate] in H.
  - injection H as <- <-. reflexivity.
  - destruct (ncmp h k e).
    + injection H as <- <-. reflexivity.
    + apply IHl in H. rewrite H. reflexivity.
    + apply IHr in H. rewrite H. reflexivity.
Qed.

Lemma locate_elems t : forall h k p0 s p,
  locate t h k p0 = (s, p) -> sorted (t_elems t) ->
  exists A B, t_elems t = A ++ t_elems s ++ B /\ pl p = pl p0 ++ A /\ pr p = B ++ pr p0 /\
              (forall a, In a A -> nlt a (pk h k)) /\ (forall b, In b B -> nlt (pk h k) b).
Proof.
  induction t as [|c l IHl e r IHr]; intros h k p0 s p H Hs; cbn [locate] in H.
  - injection H as <- <-. exists [], []. cbn. rewrite app_nil_r. repeat split; intros ? [].
  - cbn [t_elems] in Hs. apply sorted_app in Hs as (Sl & Sr & Hlr).
    apply sorted_cons in Sr as (Sr & Her).
    pose proof (ncmp_spec h k e) as Hc. destruct (ncmp h k e).
    + injection H as <- <-. exists [], []. cbn. rewrite !app_nil_r. repeat split; intros ? [].
    + destruct (IHl _ _ _ _ _ H Sl) as (A & B & E1 & E2 & E3 & HA & HB).
      exists A, (B ++ e :: t_elems r). cbn [t_elems]. rewrite E1, E2, E3. cbn [pl pr fdir fsib fe].
      lnorm. repeat split; try assumption.
      intros b Hb. apply in_app_or in Hb as [Hb|[Hb|Hb]]; [auto|subst; assumption|].
      eapply nlt_trans; [exact Hc|auto].
    + destruct (IHr _ _ _ _ _ H Sr) as (A & B & E1 & E2 & E3 & HA & HB).
      exists (t_elems l ++ e :: A), B. cbn [t_elems]. rewrite E1, E2, E3. cbn [pl pr fdir fsib fe].
      lnorm. repeat split; try assumption.
      intros a Ha. apply in_app_or in Ha as [Ha|[Ha|Ha]]; [|subst; assumption|auto].
      eapply nlt_trans; [|exact Hc]. apply Hlr; [assumption|left; reflexivity].
Qed.

Lemma locate_found t : forall h k p0 c l e r p,
  locate t h k p0 = (T_ c l e r, p) -> nh e = h /\ nk e = k.
Proof.
  induction t as [|c0 l0 IHl e0 r0 IHr]; intros h k p0 c l e r p H; cbn [locate] in H.
  - discriminate.
  - pose proof (ncmp_spec h k e0) as Hc. destruct (ncmp h k e0); eauto.
    injection H as <- <- <- <- <-. exact Hc.
Qed.

(* ---------- t_find ---------- *)
Lemma find_none_intro (f : node -> bool) l : (forall a, In a l -> f a = false) -> find f l = None.
Proof.
  induction l as [|x l IH]; intros H; cbn; [reflexivity|].
  rewrite (H x (or_introl eq_refl)). apply IH. intros a Ha. apply H. right; exact Ha.
Qed.
Lemma find_none_lt h k l : (forall a, In a l -> nlt a (pk h k)) -> find (matches h k) l = None.
Proof.
  intros H. apply find_none_intro. intros a Ha. apply H in Ha.
  destruct (matches h k a) eqn:E; [|reflexivity]. apply matches_iff in E. unfold nlt, pk in Ha; cbn in Ha. lia.
Qed.
Lemma find_none_gt h k l : (forall a, In a l -> nlt (pk h k) a) -> find (matches h k) l = None.
Proof.
  intros H. apply find_none_intro. intros a Ha. apply H in Ha.
  destruct (matches h k a) eqn:E; [|reflexivity]. apply matches_iff in E. unfold nlt, pk in Ha; cbn in Ha. lia.
Qed.

Lemma find_app' (f : node -> bool) l1 l2 :
  find f (l1 ++ l2) = match find f l1 with Some x => Some x | None => find f l2 end.
Proof. induction l1 as [|x l1 IH]; cbn; [reflexivity|]. destruct (f x); [reflexivity|exact IH]. Qed.

Lemma t_find_sorted t h k : sorted (t_elems t) -> t_find t h k = find (matches h k) (t_elems t).
Proof.
  induction t as [|c l IHl e r IHr]; intros Hs; cbn [t_find t_elems]; [reflexivity|].
  apply sorted_app in Hs as (Sl & Sr & Hlr). apply sorted_cons in Sr as (Sr & HR0).
  assert (HR : forall b, In b (t_elems r) -> nlt e b) by exact HR0. clear HR0.
  specialize (IHl Sl). specialize (IHr Sr).
  assert (HL : forall a, In a (t_elems l) -> nlt a e) by (intros a Ha; apply Hlr; [assumption|left; reflexivity]).
  clear Hlr Sl Sr.
  rewrite find_app'. cbn [find]. rewrite IHl, IHr. clear IHl IHr.
  remember (t_elems l) as L eqn:EL in *. remember (t_elems r) as R eqn:ER in *.
  destruct (N.compare_spec (nh e) h) as [Hh|Hh|Hh].
  - destruct (N.eqb_spec (nk e) k) as [Hk|Hk].
    + assert (Hm : matches h k e = true) by (apply matches_iff; auto). rewrite Hm.
      rewrite find_none_lt; [reflexivity|]. intros a Ha. apply HL in Ha.
      unfold nlt, pk in *; cbn; lia.
    + assert (Hm : matches h k e = false).
      { destruct (matches h k e) eqn:E; [|reflexivity]. apply matches_iff in E. tauto. }
      rewrite Hm.
      destruct l as [|cl ll le lr].
      { cbn in EL. subst L. reflexivity. }
      destruct r as [|cr rl re rr].
      { cbn in ER. subst R. cbn. destruct (find (matches h k) L); reflexivity. }
      destruct (N.compare_spec (nk e) k) as [Hc|Hc|Hc].
      * contradiction.
      * rewrite (find_none_lt h k L); [reflexivity|].
        intros a Ha. apply HL in Ha. unfold nlt, pk in *; cbn; lia.
      * rewrite (find_none_gt h k R); [destruct (find (matches h k) L); reflexivity|].
        intros a Ha. apply HR in Ha. unfold nlt, pk in *; cbn; lia.
  - assert (Hm : matches h k e = false).
    { destruct (matches h k e) eqn:E; [|reflexivity]. apply matches_iff in E. lia. }
    rewrite Hm. rewrite (find_none_lt h k L); [reflexivity|].
    intros a Ha. apply HL in Ha. unfold nlt, pk in *; cbn; lia.
  - assert (Hm : matches h k e = false).
    { destruct (matches h k e) eqn:E; [|reflexivity]. apply matches_iff in E. lia. }
    rewrite Hm. rewrite (find_none_gt h k R); [destruct (find (matches h k) L); reflexivity|].
    intros a Ha. apply HR in Ha. unfold nlt, pk in *; cbn; lia.
Qed.

(* goal 3 *)
Theorem t_find_spec : forall t h k,
  ordered t None None = true -> t_find t h k = find (matches h k) (t_elems t).
Proof. intros t h k H. apply t_find_sorted. apply ordered_sorted. exact H. Qed.

(* goal 6 *)
Theorem t_find_cost_le : forall t h k, (t_find_cost t h k <= 2 * Z.of_nat (t_height t))%Z.
Proof.
  intros t h k. induction t as [|c l IHl e r IHr]; cbn [t_find_cost t_height]; [lia|].
  destruct (N.compare (nh e) h); [|lia|lia].
  destruct (nk e =? k); [lia|].
  destruct l as [|cl ll le lr]; [lia|].
  destruct r as [|cr rl re rr]; [lia|].
  destruct (N.compare (nk e) k); lia.
Qed.

Lemma bheight_T c l e r n :
  bheight (T_ c l e r) = Some n <->
  exists a, bheight l = Some a /\ bheight r = Some a /\ n = if c then a else S a.
Proof.
  cbn [bheight]. destruct (bheight l) as [a|], (bheight r) as [b|].
  - destruct (Nat.eqb_spec a b) as [E|E].
    + subst b. split.
      * intros H. injection H as <-. exists a. auto.
      * intros (a' & H1 & _ & ->). injection H1 as <-. reflexivity.
    + split; [discriminate|]. intros (a' & H1 & H2 & _). congruence.
  - split; [discriminate|]. intros (a' & _ & H2 & _). discriminate.
  - split; [discriminate|]. intros (a' & H1 & _). discriminate.
  - split; [discriminate|]. intros (a' & H1 & _). discriminate.
Qed.

Lemma norr_T c l e r :
  no_red_red (T_ c l e r) = true <->
  (c = true -> is_red l = false /\ is_red r = false) /\ no_red_red l = true /\ no_red_red r = true.
Proof.
  cbn [no_red_red]. destruct c, (is_red l), (is_red r), (no_red_red l), (no_red_red r); cbn;
    intuition congruence.
Qed.

Lemma bh_facts t : forall n, no_red_red t = true -> bheight t = Some n ->
  (t_height t <= 2 * n + (if is_red t then 1 else 0))%nat /\ (2 ^ n <= t_size t + 1)%nat.
Proof.
  induction t as [|c l IHl e r IHr]; intros n Hrr Hbh.
  - cbn in *. injection Hbh as <-. cbn. lia.
  - apply bheight_T in Hbh as (a & Hl & Hr & ->). apply norr_T in Hrr as (Hc & Nl & Nr).
    destruct (IHl a Nl Hl) as [H1 H2]. destruct (IHr a Nr Hr) as [H3 H4].
    cbn [t_height t_size is_red]. destruct c.
    + destruct (Hc eq_refl) as [E1 E2]. rewrite E1 in H1. rewrite E2 in H3. lia.
    + rewrite Nat.pow_succ_r'. destruct (is_red l), (is_red r); lia.
Qed.

Lemma rb_b_iff t :
  rb_b t = true <->
  sorted (t_elems t) /\ is_red t = false /\ no_red_red t = true /\ exists n, bheight t = Some n.
Proof.
  unfold rb_b. rewrite !andb_true_iff, ordered_sorted, negb_true_iff.
  destruct (bheight t) as [n|].
  - split; [intros (((A & B) & C) & _); eauto 6|tauto].
  - split; [intros (_ & H); discriminate|intros (_ & _ & _ & n & H); discriminate].
Qed.

Theorem rb_height : forall t, rb_b t = true ->
  (2 ^ Z.of_nat (t_height t) <= (Z.of_nat (t_size t) + 1) ^ 2)%Z.
Proof.
  intros t H. apply rb_b_iff in H as (_ & Hr & Hn & n & Hb).
  destruct (bh_facts t n Hn Hb) as [H1 H2]. rewrite Hr in H1.
  assert (E1 : (2 ^ Z.of_nat (t_height t) <= 2 ^ (Z.of_nat n * 2))%Z) by (apply Z.pow_le_mono_r; lia).
  rewrite Z.pow_mul_r in E1 by lia.
  assert (E2 : (2 ^ Z.of_nat n <= Z.of_nat (t_size t) + 1)%Z).
  { apply Nat2Z.inj_le in H2. rewrite Nat2Z.inj_pow in H2. rewrite Nat2Z.inj_add in H2. exact H2. }
  eapply Z.le_trans; [exact E1|]. apply Z.pow_le_mono_l. split; [|exact E2].
  apply Z.pow_nonneg. lia.
Qed.

(* ---------- colour / black-height invariants of a zipper ---------- *)
Fixpoint PBH (p : path) (n m : nat) : Prop :=
  match p with
  | [] => n = m
  | f :: p' => bheight (fsib f) = Some n /\ PBH p' (if fred f then n else S n) m
  end.
Fixpoint path_ok (xred : bool) (p : path) : Prop :=
  match p with
  | [] => True
  | f :: p' => no_red_red (fsib f) = true /\
               (fred f = true -> xred = false /\ is_red (fsib f) = false) /\
               path_ok (fred f) p'
  end.
Fixpoint last_black (p : path) : bool :=
  match p with
  | [] => true
  | f :: p' => match p' with [] => negb (fred f) | _ => last_black p' end
  end.

Definition good (t : tree) : Prop :=
  no_red_red t = true /\ is_red t = false /\ exists m, bheight t = Some m.

Lemma is_red_plug1 x f : is_red (plug1 x f) = fred f.
Proof. unfold plug1. destruct (fdir f), (fred f); reflexivity. Qed.

Lemma bheight_plug1 x f n' :
  bheight (plug1 x f) = Some n' <->
  exists n, bheight x = Some n /\ bheight (fsib f) = Some n /\ n' = if fred f then n else S n.
Proof.
  unfold plug1. destruct (fdir f); rewrite bheight_T; split; intros (a & H1 & H2 & H3); eauto.
Qed.

Lemma bheight_plug p : forall x m,
  bheight (plug x p) = Some m <-> exists n, bheight x = Some n /\ PBH p n m.
Proof.
  induction p as [|f p IH]; intros x m; cbn [plug PBH].
  - split; [intros H; eauto|intros (n & H & <-); exact H].
  - rewrite IH. split.
    + intros (n' & H1 & H2). apply bheight_plug1 in H1 as (n & Hx & Hs & ->). eauto.
    + intros (n & Hx & Hs & H2). eexists. split; [|exact H2]. apply bheight_plug1. eauto.
Qed.

Lemma norr_plug1 x f :
  no_red_red (plug1 x f) = true <->
  no_red_red x = true /\ no_red_red (fsib f) = true /\
  (fred f = true -> is_red x = false /\ is_red (fsib f) = false).
Proof. unfold plug1. destruct (fdir f); rewrite norr_T; tauto. Qed.

Lemma norr_plug p : forall x,
  no_red_red (plug x p) = true <-> no_red_red x = true /\ path_ok (is_red x) p.
Proof.
  induction p as [|f p IH]; intros x; cbn [plug path_ok].
  - tauto.
  - rewrite IH, norr_plug1, is_red_plug1. tauto.
Qed.

Lemma is_red_plug p : forall x, p <> [] -> is_red (plug x p) = negb (last_black p).
Proof.
  induction p as [|f p IH]; intros x Hp; [congruence|].
  cbn [plug last_black]. destruct p as [|g p].
  - cbn [plug]. rewrite is_red_plug1, negb_involutive. reflexivity.
  - apply IH. discriminate.
Qed.

Lemma path_ok_weaken b p : path_ok b p -> path_ok false p.
Proof. destruct p as [|f p]; cbn; [tauto|]. intros (A & B & C). repeat split; auto. apply B; assumption. Qed.

Lemma path_ok_black_first b f p : path_ok false (f :: p) -> fred f = false -> path_ok b (f :: p).
Proof. cbn. intros (A & B & C) E. repeat split; auto; congruence. Qed.

Lemma last_black_tail f p : last_black (f :: p) = true -> last_black p = true.
Proof. destruct p; cbn; auto. Qed.

Lemma last_black_one f : last_black [f] = true -> fred f = false.
Proof. cbn. destruct (fred f); auto. Qed.

Lemma is_red_blacken t : is_red (blacken t) = false.
Proof. destruct t; reflexivity. Qed.
Lemma norr_blacken t : no_red_red t = true -> no_red_red (blacken t) = true.
Proof.
  destruct t as [|c l e r]; [auto|]. cbn [blacken]. rewrite !norr_T. intros (_ & A & B).
  repeat split; auto; discriminate.
Qed.
Lemma bheight_blacken t n :
  bheight t = Some n -> bheight (blacken t) = Some (if is_red t then S n else n).
Proof.
  destruct t as [|c l e r]; [auto|]. cbn [blacken is_red]. rewrite !bheight_T.
  intros (a & A & B & ->). exists a. destruct c; auto.
Qed.
Lemma blacken_black t : is_red t = false -> blacken t = t.
Proof. destruct t as [|[] l e r]; cbn; congruence. Qed.

Lemma good_blacken t n : no_red_red (blacken t) = true -> bheight t = Some n -> good (blacken t).
Proof.
  intros A B. split; [assumption|]. split; [apply is_red_blacken|].
  eexists. apply bheight_blacken. exact B.
Qed.

Lemma plug_good p X n m :
  bheight X = Some n -> no_red_red X = true -> PBH p n m -> path_ok (is_red X) p ->
  last_black p = true -> (p = [] -> is_red X = false) -> good (plug X p).
Proof.
  intros HB HN HP HO HL HE. split; [apply norr_plug; auto|]. split.
  - destruct p as [|f p]; [cbn; auto|]. rewrite is_red_plug by discriminate. rewrite HL. reflexivity.
  - exists m. apply bheight_plug. eauto.
Qed.

Lemma plug_top_good p X n m :
  bheight X = Some n -> no_red_red X = true -> PBH p n m -> path_ok (is_red X) p ->
  last_black p = true -> good (plug (top p X) p).
Proof.
  intros HB HN HP HO HL. destruct p as [|f p].
  - cbn [top plug]. eapply good_blacken; [apply norr_blacken|]; eassumption.
  - cbn [top]. eapply plug_good; eauto. discriminate.
Qed.

Ltac norr :=
  rewrite ?norr_T; repeat match goal with |- _ /\ _ => split end;
  try (let E := fresh in intros E; discriminate E); try (intros _; split);
  auto using is_red_blacken, norr_blacken.

Ltac bh :=
  lazymatch goal with
  | |- bheight (T_ _ _ _ _) = Some _ =>
      rewrite bheight_T; eexists; split; [bh|split; [bh|try reflexivity]]
  | |- bheight (blacken ?t) = Some _ =>
      erewrite (bheight_blacken t) by eassumption;
      match goal with H : is_red t = _ |- _ => rewrite H end; reflexivity
  | |- _ => eassumption
  end.

(* ---------- balance_insertion ---------- *)
Lemma bal_ins_good p : forall x n m,
  is_red x = true -> no_red_red x = true -> bheight x = Some n ->
  PBH p n m -> path_ok false p -> last_black p = true -> good (bal_ins x p).
Proof.
  induction p as [| f | [d1 c1 e1 s1] [d2 c2 e2 s2] p IH] using path_ind2;
    intros x n m Hr Hn Hb HP HO HL.
  - rewrite bal_ins_nil. eapply good_blacken; [apply norr_blacken|]; eassumption.
  - rewrite bal_ins_one. pose proof (last_black_one _ HL) as HL1.
    eapply plug_good; eauto; try (intros E; discriminate E); apply path_ok_black_first; assumption.
  - cbn [bal_ins fred fdir fsib fe].
    destruct c1; cbn [negb].
    2:{ eapply plug_good; eauto; try (intros E; discriminate E); apply path_ok_black_first; auto. }
    cbn [path_ok fred fsib] in HO. destruct HO as (Ns1 & Hc1 & Ns2 & Hc2 & HO).
    destruct (Hc1 eq_refl) as [_ Rs1]. clear Hc1.
    destruct c2; [destruct (Hc2 eq_refl) as [E _]; discriminate E|]. clear Hc2.
    cbn [PBH fred fsib] in HP. destruct HP as (Bs1 & Bs2 & HP).
    apply last_black_tail, last_black_tail in HL.
    destruct d2; destruct (is_red s2) eqn:Rs2.
    + (* uncle red, left *)
      eapply (IH _ (S n) m); try assumption; [reflexivity| |].
      * destruct d1; norr.
      * destruct d1; bh.
    + destruct d1.
      * eapply (plug_top_good p _ (S n) m); try assumption; [bh|norr].
      * destruct x as [|cx b xe c]; [discriminate|]. destruct cx; [clear Hr|discriminate Hr].
        apply bheight_T in Hb as (a & Bb & Bc & ->).
        apply norr_T in Hn as (Hcx & Nb & Nc). destruct (Hcx eq_refl) as [Rb Rc].
        eapply (plug_top_good p _ (S a) m); try assumption; [bh|norr].
    + (* uncle red, right *)
      eapply (IH _ (S n) m); try assumption; [reflexivity| |].
      * destruct d1; norr.
      * destruct d1; bh.
    + destruct d1.
      * destruct x as [|cx b xe c]; [discriminate|]. destruct cx; [clear Hr|discriminate Hr].
        apply bheight_T in Hb as (a & Bb & Bc & ->).
        apply norr_T in Hn as (Hcx & Nb & Nc). destruct (Hcx eq_refl) as [Rb Rc].
        eapply (plug_top_good p _ (S a) m); try assumption; [bh|norr].
      * eapply (plug_top_good p _ (S n) m); try assumption; [bh|norr].
Qed.

Lemma rb_good t : rb_b t = true <-> sorted (t_elems t) /\ good t.
Proof. rewrite rb_b_iff. unfold good. tauto. Qed.

Definition absent (h k : N) (l : list node) : Prop :=
  forall a, In a l -> ~ (nh a = h /\ nk a = k).

Lemma find_absent h k l : find (matches h k) l = None <-> absent h k l.
Proof.
  split.
  - intros H a Ha E. apply (find_none _ _ H) in Ha. apply matches_iff in E. congruence.
  - intros H. apply find_none_intro. intros a Ha. destruct (matches h k a) eqn:E; [|reflexivity].
    apply matches_iff in E. destruct (H a Ha E).
Qed.

Lemma t_find_absent t h k :
  ordered t None None = true -> (t_find t h k = None <-> absent h k (t_elems t)).
Proof. intros H. rewrite t_find_spec by assumption. apply find_absent. Qed.

Lemma locate_in t h k c l e r p :
  locate t h k [] = (T_ c l e r, p) -> In e (t_elems t) /\ nh e = h /\ nk e = k.
Proof.
  intros H. split; [|eapply locate_found; eassumption].
  apply locate_plug in H. cbn [plug] in H. rewrite <- H, elems_plug. cbn [t_elems].
  apply in_or_app; right. apply in_or_app; left. apply in_or_app; right. left. reflexivity.
Qed.

Lemma locate_absent t h k s p :
  locate t h k [] = (s, p) -> absent h k (t_elems t) -> s = L_.
Proof.
  intros H Ha. destruct s as [|c l e r]; [reflexivity|].
  apply locate_in in H as (Hi & Hk). destruct (Ha e Hi Hk).
Qed.

(* facts about a located focus inside a red-black tree *)
Lemma focus_facts t s p m :
  plug s p = t -> no_red_red t = true -> is_red t = false -> bheight t = Some m ->
  no_red_red s = true /\ path_ok (is_red s) p /\ (exists n, bheight s = Some n /\ PBH p n m) /\
  last_black p = true /\ (p = [] -> is_red s = false).
Proof.
  intros <- Hn Hr Hb. apply norr_plug in Hn as [N1 N2]. apply bheight_plug in Hb.
  repeat split; try assumption.
  - destruct p as [|f p]; [reflexivity|]. rewrite is_red_plug in Hr by discriminate.
    apply negb_false_iff in Hr. exact Hr.
  - intros ->. exact Hr.
Qed.

Lemma t_insert_facts t e :
  rb_b t = true -> absent (nh e) (nk e) (t_elems t) ->
  good (t_insert t e) /\
  exists A B, t_elems t = A ++ B /\ t_elems (t_insert t e) = A ++ e :: B /\
              (forall a, In a A -> nlt a e) /\ (forall b, In b B -> nlt e b).
Proof.
  intros Hrb Habs. apply rb_good in Hrb as (Hs & Hn & Hr & m & Hb).
  destruct t as [|c l e0 r].
  - cbn [t_insert]. split.
    + unfold good. cbn. eauto.
    + exists [], []. cbn. repeat split; intros ? [].
  - unfold t_insert. destruct (locate (T_ c l e0 r) (nh e) (nk e) []) as [s p] eqn:HL.
    pose proof (locate_absent _ _ _ _ _ HL Habs) as ->.
    pose proof (locate_plug _ _ _ _ _ _ HL) as HP. cbn [plug] in HP.
    destruct (locate_elems _ _ _ _ _ _ HL Hs) as (A & B & E1 & E2 & E3 & HA & HB).
    cbn [t_elems pl pr] in E1, E2, E3. rewrite app_nil_r in E3. cbn [app] in E1, E2.
    destruct (focus_facts _ _ _ _ HP Hn Hr Hb) as (_ & F2 & (n & F3 & F4) & F5 & _).
    cbn in F3. injection F3 as <-.
    split.
    + eapply (bal_ins_good p _ 0%nat m); try assumption; reflexivity.
    + exists A, B. rewrite elems_bal_ins, E2, E3. cbn [t_elems app]. repeat split; assumption.
Qed.

(* goal 1 *)
Theorem t_insert_rb : forall t e,
  rb_b t = true -> t_find t (nh e) (nk e) = None -> rb_b (t_insert t e) = true.
Proof.
  intros t e Hrb Hf. pose proof Hrb as Hrb'. apply rb_good in Hrb' as (Hs & _).
  apply t_find_absent in Hf; [|apply ordered_sorted; assumption].
  destruct (t_insert_facts t e Hrb Hf) as (G & A & B & E1 & E2 & HA & HB).
  apply rb_good. split; [|assumption]. rewrite E2. apply sorted_insert_mid; [rewrite <- E1|..]; assumption.
Qed.

Theorem t_insert_elems : forall t e,
  rb_b t = true -> t_find t (nh e) (nk e) = None ->
  Permutation (t_elems (t_insert t e)) (e :: t_elems t).
Proof.
  intros t e Hrb Hf. pose proof Hrb as Hrb'. apply rb_good in Hrb' as (Hs & _).
  apply t_find_absent in Hf; [|apply ordered_sorted; assumption].
  destruct (t_insert_facts t e Hrb Hf) as (G & A & B & E1 & E2 & HA & HB).
  rewrite E1, E2. symmetry. apply Permutation_middle.
Qed.

(* goal 2 *)
Lemma t_new_gen l : forall t,
  rb_b t = true -> NoDup (map (fun n => (nh n, nk n)) l) ->
  (forall a b, In a (t_elems t) -> In b l -> ~ (nh a = nh b /\ nk a = nk b)) ->
  rb_b (fold_left t_insert l t) = true /\ Permutation (t_elems (fold_left t_insert l t)) (t_elems t ++ l).
Proof.
  induction l as [|e l IH]; intros t Hrb Hnd Hx; cbn [fold_left].
  - split; [assumption|]. rewrite app_nil_r. apply Permutation_refl.
  - cbn [map] in Hnd. inversion Hnd as [|? ? Hni Hnd']; subst.
    assert (Hf : t_find t (nh e) (nk e) = None).
    { apply t_find_absent.
      - apply rb_good in Hrb as (Hs & _). apply ordered_sorted. assumption.
      - intros a Ha. apply Hx; [assumption|left; reflexivity]. }
    pose proof (t_insert_rb t e Hrb Hf) as Hrb1. pose proof (t_insert_elems t e Hrb Hf) as Hp1.
    destruct (IH (t_insert t e) Hrb1 Hnd') as [R1 R2].
    + intros a b Ha Hb. eapply Permutation_in in Ha; [|exact Hp1]. destruct Ha as [<-|Ha].
      * intros [E1 E2]. apply Hni. apply in_map_iff. exists b. split; [|assumption]. congruence.
      * apply Hx; [assumption|right; assumption].
    + split; [assumption|]. eapply Permutation_trans; [exact R2|].
      eapply Permutation_trans; [apply Permutation_app_tail; exact Hp1|].
      cbn [app]. apply Permutation_middle.
Qed.

Theorem t_new_rb : forall l,
  NoDup (map (fun n => (nh n, nk n)) l) ->
  rb_b (t_new l) = true /\ Permutation (t_elems (t_new l)) l.
Proof.
  intros l H. destruct (t_new_gen l L_ eq_refl H) as [A B].
  - intros a b [].
  - split; assumption.
Qed.

(* ---------- balance_deletion: in-order listing ---------- *)
Lemma elems_del_left x c e sib rest :
  match del_left x c e sib rest with
  | Done t => t_elems t = pl rest ++ (t_elems x ++ e :: t_elems sib) ++ pr rest
  | Up x' => t_elems x' = t_elems x ++ e :: t_elems sib
  end.
Proof.
  destruct sib as [|sc sl se sr]; cbn [del_left]; [reflexivity|].
  destruct (is_red sr), (is_red sl); cbn [negb andb].
  - rewrite elems_plug, elems_top. cbn [t_elems]. rewrite elems_blacken. lnorm. reflexivity.
  - rewrite elems_plug, elems_top. cbn [t_elems]. rewrite elems_blacken. lnorm. reflexivity.
  - destruct sl as [|slc sll sle slr]; rewrite elems_plug, ?elems_top; cbn [t_elems]; lnorm; reflexivity.
  - reflexivity.
Qed.

Lemma elems_del_right x c e sib rest :
  match del_right x c e sib rest with
  | Done t => t_elems t = pl rest ++ (t_elems sib ++ e :: t_elems x) ++ pr rest
  | Up x' => t_elems x' = t_elems sib ++ e :: t_elems x
  end.
Proof.
  destruct sib as [|sc sl se sr]; cbn [del_right]; [reflexivity|].
  destruct (is_red sl), (is_red sr); cbn [negb andb].
  - rewrite elems_plug, elems_top. cbn [t_elems]. rewrite elems_blacken. lnorm. reflexivity.
  - rewrite elems_plug, elems_top. cbn [t_elems]. rewrite elems_blacken. lnorm. reflexivity.
  - destruct sr as [|src srl sre srr]; rewrite elems_plug, ?elems_top; cbn [t_elems]; lnorm; reflexivity.
  - reflexivity.
Qed.

Lemma elems_bal_del p : forall xr x, t_elems (bal_del xr x p) = pl p ++ t_elems x ++ pr p.
Proof.
  induction p as [|[d1 c1 e1 s1] rest IH]; intros xr x.
  - cbn. rewrite app_nil_r. reflexivity.
  - cbn [bal_del fdir fsib fred fe]. destruct xr.
    { rewrite elems_plug, elems_blacken. reflexivity. }
    destruct d1.
    + destruct s1 as [|[|] sl se sr].
      * pose proof (elems_del_left x c1 e1 L_ rest) as H.
        destruct (del_left x c1 e1 L_ rest) as [t|x'].
        -- rewrite H. cbn [pl pr fdir fsib fe t_elems]. lnorm. reflexivity.
        -- rewrite IH, H. cbn [pl pr fdir fsib fe t_elems]. lnorm. reflexivity.
      * pose proof (elems_del_left x true e1 sl (F_ DL false se sr :: rest)) as H.
        destruct (del_left x true e1 sl (F_ DL false se sr :: rest)) as [t|x'].
        -- rewrite H. cbn [pl pr fdir fsib fe t_elems]. lnorm. reflexivity.
        -- rewrite elems_plug, elems_blacken, H. cbn [pl pr fdir fsib fe t_elems]. lnorm. reflexivity.
      * pose proof (elems_del_left x c1 e1 (T_ false sl se sr) rest) as H.
        destruct (del_left x c1 e1 (T_ false sl se sr) rest) as [t|x'].
        -- rewrite H. cbn [pl pr fdir fsib fe t_elems]. lnorm. reflexivity.
        -- rewrite IH, H. cbn [pl pr fdir fsib fe t_elems]. lnorm. reflexivity.
    + destruct s1 as [|[|] sl se sr].
      * pose proof (elems_del_right x c1 e1 L_ rest) as H.
        destruct (del_right x c1 e1 L_ rest) as [t|x'].
        -- rewrite H. cbn [pl pr fdir fsib fe t_elems]. lnorm. reflexivity.
        -- rewrite IH, H. cbn [pl pr fdir fsib fe t_elems]. lnorm. reflexivity.
      * pose proof (elems_del_right x true e1 sr (F_ DR false se sl :: rest)) as H.
        destruct (del_right x true e1 sr (F_ DR false se sl :: rest)) as [t|x'].
        -- rewrite H. cbn [pl pr fdir fsib fe t_elems]. lnorm. reflexivity.
        -- rewrite elems_plug, elems_blacken, H. cbn [pl pr fdir fsib fe t_elems]. lnorm. reflexivity.
      * pose proof (elems_del_right x c1 e1 (T_ false sl se sr) rest) as H.
        destruct (del_right x c1 e1 (T_ false sl se sr) rest) as [t|x'].
        -- rewrite H. cbn [pl pr fdir fsib fe t_elems]. lnorm. reflexivity.
        -- rewrite IH, H. cbn [pl pr fdir fsib fe t_elems]. lnorm. reflexivity.
Qed.

(* ---------- leftmost ---------- *)
Lemma leftmost_spec t : forall p0 sc se sr sp,
  leftmost t p0 = Some (sc, se, sr, sp) ->
  plug (T_ sc L_ se sr) sp = plug t p0 /\ pl sp = pl p0.
Proof.
  induction t as [|c l IHl e r _]; intros p0 sc se sr sp H; cbn [leftmost] in H; [discriminate|].
  destruct l as [|lc ll le lr].
  - injection H as <- <- <- <-. split; reflexivity.
  - apply IHl in H as [H1 H2]. split.
    + rewrite H1. reflexivity.
    + rewrite H2. cbn [pl fdir]. apply app_nil_r.
Qed.

Lemma leftmost_T t : forall p, t <> L_ -> leftmost t p <> None.
Proof.
  induction t as [|c l IHl e r _]; intros p H; [congruence|]. cbn [leftmost].
  destruct l as [|lc ll le lr]; [discriminate|]. apply IHl. discriminate.
Qed.

Lemma del_one_eq (sr : tree) (sc : bool) (hp : path) :
  match sr with
  | T_ _ _ _ _ => if sc then plug sr hp else bal_del (is_red sr) sr hp
  | L_ => if sc then plug L_ hp else bal_del false L_ hp
  end = if sc then plug sr hp else bal_del (is_red sr) sr hp.
Proof. destruct sr; reflexivity. Qed.

Lemma t_delete_at_elems c l r p :
  t_elems (t_delete_at c l r p) = pl p ++ t_elems l ++ t_elems r ++ pr p.
Proof.
  unfold t_delete_at.
  destruct l as [|lc ll le lr], r as [|rc rl re rr].
  - destruct c; rewrite ?elems_plug, ?elems_bal_del; reflexivity.
  - destruct c; rewrite ?elems_plug, ?elems_bal_del; reflexivity.
  - destruct c; rewrite ?elems_plug, ?elems_bal_del; lnorm; reflexivity.
  - destruct (leftmost (T_ rc rl re rr) []) as [[[[sc se] sr] sp]|] eqn:HL.
    2:{ exfalso. revert HL. apply leftmost_T. discriminate. }
    apply leftmost_spec in HL as [H1 H2]. cbn [plug pl] in H1, H2.
    rewrite <- H1. rewrite (elems_plug sp). rewrite H2. cbn [app].
    assert (E : t_elems (if sc then plug sr (sp ++ F_ DR c se (T_ lc ll le lr) :: p)
                          else bal_del (is_red sr) sr (sp ++ F_ DR c se (T_ lc ll le lr) :: p)) =
                pl (sp ++ F_ DR c se (T_ lc ll le lr) :: p) ++ t_elems sr ++
                pr (sp ++ F_ DR c se (T_ lc ll le lr) :: p)).
    { destruct sc; [apply elems_plug|apply elems_bal_del]. }
    cbv zeta. rewrite del_one_eq, E, pl_app, pr_app. cbn [pl pr fdir fsib fe]. rewrite H2.
    lnorm. reflexivity.
Qed.

(* ---------- balance_deletion: colours and black heights ---------- *)
Definition up_ok (xpred : bool) (n : nat) (x' : tree) : Prop :=
  bheight x' = Some (if xpred then n else S n) /\ no_red_red (blacken x') = true /\
  is_red x' = xpred.

Lemma del_left_good (x : tree) (xpred : bool) (xpe : node) (sib : tree) (rest : path) (n m : nat) :
  bheight x = Some n -> no_red_red x = true -> is_red x = false ->
  bheight sib = Some (S n) -> no_red_red sib = true -> is_red sib = false ->
  PBH rest (if xpred then S n else S (S n)) m -> path_ok xpred rest -> last_black rest = true ->
  match del_left x xpred xpe sib rest with
  | Done t => good t
  | Up x' => up_ok xpred n x'
  end.
Proof.
  intros Bx Nx Rx Bs Ns Rs HP HO HL.
  destruct sib as [|sc sl se sr]; [discriminate Bs|].
  destruct sc; [discriminate Rs|]. clear Rs.
  apply bheight_T in Bs as (a & Bsl & Bsr & Ea). injection Ea as <-.
  apply norr_T in Ns as (_ & Nsl & Nsr).
  cbn [del_left].
  destruct (is_red sr) eqn:Rsr, (is_red sl) eqn:Rsl; cbn [negb andb].
  - destruct xpred; eapply plug_top_good; try eassumption; [bh|norr|bh|norr].
  - destruct xpred; eapply plug_top_good; try eassumption; [bh|norr|bh|norr].
  - destruct sl as [|slc sll sle slr]; [discriminate Rsl|].
    destruct slc; [clear Rsl|discriminate Rsl].
    apply bheight_T in Bsl as (b & Bsll & Bslr & ->).
    apply norr_T in Nsl as (Hc & Nsll & Nslr). destruct (Hc eq_refl) as [Rsll Rslr].
    destruct xpred; eapply plug_top_good; try eassumption; [bh|norr|bh|norr].
  - unfold up_ok. destruct xpred; cbn [blacken is_red]; (split; [bh|split; [norr|reflexivity]]).
Qed.

Lemma del_right_good (x : tree) (xpred : bool) (xpe : node) (sib : tree) (rest : path) (n m : nat) :
  bheight x = Some n -> no_red_red x = true -> is_red x = false ->
  bheight sib = Some (S n) -> no_red_red sib = true -> is_red sib = false ->
  PBH rest (if xpred then S n else S (S n)) m -> path_ok xpred rest -> last_black rest = true ->
  match del_right x xpred xpe sib rest with
  | Done t => good t
  | Up x' => up_ok xpred n x'
  end.
Proof.
  intros Bx Nx Rx Bs Ns Rs HP HO HL.
  destruct sib as [|sc sl se sr]; [discriminate Bs|].
  destruct sc; [discriminate Rs|]. clear Rs.
  apply bheight_T in Bs as (a & Bsl & Bsr & Ea). injection Ea as <-.
  apply norr_T in Ns as (_ & Nsl & Nsr).
  cbn [del_right].
  destruct (is_red sl) eqn:Rsl, (is_red sr) eqn:Rsr; cbn [negb andb].
  - destruct xpred; eapply plug_top_good; try eassumption; [bh|norr|bh|norr].
  - destruct xpred; eapply plug_top_good; try eassumption; [bh|norr|bh|norr].
  - destruct sr as [|src srl sre srr]; [discriminate Rsr|].
    destruct src; [clear Rsr|discriminate Rsr].
    apply bheight_T in Bsr as (b & Bsrl & Bsrr & ->).
    apply norr_T in Nsr as (Hc & Nsrl & Nsrr). destruct (Hc eq_refl) as [Rsrl Rsrr].
    destruct xpred; eapply plug_top_good; try eassumption; [bh|norr|bh|norr].
  - unfold up_ok. destruct xpred; cbn [blacken is_red]; (split; [bh|split; [norr|reflexivity]]).
Qed.

Lemma bal_del_good p : forall x n m,
  bheight x = Some n -> no_red_red (blacken x) = true -> PBH p (S n) m -> path_ok false p ->
  last_black p = true -> (p = [] -> is_red x = false) -> good (bal_del (is_red x) x p).
Proof.
  induction p as [|[d1 c1 e1 s1] rest IH]; intros x n m Bx Nx HP HO HL HE.
  - cbn [bal_del]. specialize (HE eq_refl). rewrite (blacken_black _ HE) in Nx.
    unfold good. eauto.
  - cbn [bal_del]. destruct (is_red x) eqn:Rx.
    { eapply (plug_good _ _ (S n) m); try eassumption.
      - rewrite (bheight_blacken _ _ Bx), Rx. reflexivity.
      - rewrite is_red_blacken. assumption.
      - intros E; discriminate E. }
    rewrite (blacken_black _ Rx) in Nx.
    cbn [PBH fsib fred] in HP. destruct HP as (Bs1 & HP).
    cbn [path_ok fsib fred] in HO. destruct HO as (Ns1 & Hc1 & HO).
    pose proof (last_black_tail _ _ HL) as HL'.
    cbn [fdir fsib fred fe]. destruct d1.
    + destruct s1 as [|[|] sl se sr]; [discriminate Bs1| |].
      * (* red sibling *)
        destruct c1; [destruct (Hc1 eq_refl) as [_ E]; discriminate E|]. clear Hc1.
        apply bheight_T in Bs1 as (a & Bsl & Bsr & Ea). subst a.
        apply norr_T in Ns1 as (Hc & Nsl & Nsr). destruct (Hc eq_refl) as [Rsl Rsr]. clear Hc.
        assert (HP' : PBH (F_ DL false se sr :: rest) (S n) m) by (cbn; auto).
        assert (HO' : path_ok true (F_ DL false se sr :: rest)).
        { cbn. repeat split; auto; intros E; discriminate E. }
        assert (HL2 : last_black (F_ DL false se sr :: rest) = true).
        { destruct rest; [reflexivity|exact HL']. }
        pose proof (del_left_good x true e1 sl (F_ DL false se sr :: rest) n m
                      Bx Nx Rx Bsl Nsl Rsl HP' HO' HL2) as H.
        destruct (del_left x true e1 sl (F_ DL false se sr :: rest)) as [t|x']; [exact H|].
        destruct H as (B' & N' & R').
        eapply (plug_good _ _ (S n) m); try eassumption.
        -- rewrite (bheight_blacken _ _ B'), R'. reflexivity.
        -- rewrite is_red_blacken. apply (path_ok_weaken _ _ HO').
        -- intros E; discriminate E.
      * (* black sibling *)
        assert (HO1 : path_ok c1 rest) by exact HO.
        pose proof (del_left_good x c1 e1 (T_ false sl se sr) rest n m
                      Bx Nx Rx Bs1 Ns1 eq_refl HP HO1 HL') as H.
        destruct (del_left x c1 e1 (T_ false sl se sr) rest) as [t|x']; [exact H|].
        destruct H as (B' & N' & R').
        eapply (IH x' _ m); try eassumption.
        -- destruct c1; exact HP.
        -- apply (path_ok_weaken _ _ HO1).
        -- intros ->. rewrite R'. apply last_black_one in HL. exact HL.
    + destruct s1 as [|[|] sl se sr]; [discriminate Bs1| |].
      * destruct c1; [destruct (Hc1 eq_refl) as [_ E]; discriminate E|]. clear Hc1.
        apply bheight_T in Bs1 as (a & Bsl & Bsr & Ea). subst a.
        apply norr_T in Ns1 as (Hc & Nsl & Nsr). destruct (Hc eq_refl) as [Rsl Rsr]. clear Hc.
        assert (HP' : PBH (F_ DR false se sl :: rest) (S n) m) by (cbn; auto).
        assert (HO' : path_ok true (F_ DR false se sl :: rest)).
        { cbn. repeat split; auto; intros E; discriminate E. }
        assert (HL2 : last_black (F_ DR false se sl :: rest) = true).
        { destruct rest; [reflexivity|exact HL']. }
        pose proof (del_right_good x true e1 sr (F_ DR false se sl :: rest) n m
                      Bx Nx Rx Bsr Nsr Rsr HP' HO' HL2) as H.
        destruct (del_right x true e1 sr (F_ DR false se sl :: rest)) as [t|x']; [exact H|].
        destruct H as (B' & N' & R').
        eapply (plug_good _ _ (S n) m); try eassumption.
        -- rewrite (bheight_blacken _ _ B'), R'. reflexivity.
        -- rewrite is_red_blacken. apply (path_ok_weaken _ _ HO').
        -- intros E; discriminate E.
      * assert (HO1 : path_ok c1 rest) by exact HO.
        pose proof (del_right_good x c1 e1 (T_ false sl se sr) rest n m
                      Bx Nx Rx Bs1 Ns1 eq_refl HP HO1 HL') as H.
        destruct (del_right x c1 e1 (T_ false sl se sr) rest) as [t|x']; [exact H|].
        destruct H as (B' & N' & R').
        eapply (IH x' _ m); try eassumption.
        -- destruct c1; exact HP.
        -- apply (path_ok_weaken _ _ HO1).
        -- intros ->. rewrite R'. apply last_black_one in HL. exact HL.
Qed.

Lemma is_red_T c l e r : is_red (T_ c l e r) = c.
Proof. destruct c; reflexivity. Qed.

(* removing a node that has at most one child [ch] (the other one is a leaf) *)
Lemma delete_one_good (ch : tree) (dc : bool) (q : path) (m : nat) :
  no_red_red ch = true -> bheight ch = Some 0%nat -> (dc = true -> is_red ch = false) ->
  path_ok dc q -> PBH q (if dc then 0 else 1)%nat m -> last_black q = true ->
  (q = [] -> dc = false /\ is_red ch = false) ->
  good (if dc then plug ch q else bal_del (is_red ch) ch q).
Proof.
  intros Nc Bc Rc HO HP HL HE. destruct dc.
  - specialize (Rc eq_refl). eapply (plug_good _ _ 0%nat m); try eassumption.
    + rewrite Rc. apply (path_ok_weaken _ _ HO).
    + intros _. exact Rc.
  - eapply (bal_del_good _ _ 0%nat m); try eassumption.
    + apply norr_blacken. exact Nc.
    + intros E. apply HE. exact E.
Qed.

(* the invariants of a path do not depend on the entries stored in its frames *)
Lemma PBH_entry sp d c e e' s p : forall n m,
  PBH (sp ++ F_ d c e s :: p) n m <-> PBH (sp ++ F_ d c e' s :: p) n m.
Proof. induction sp as [|f sp IH]; intros n m; cbn; [tauto|]. rewrite IH. tauto. Qed.

Lemma path_ok_entry sp d c e e' s p : forall b,
  path_ok b (sp ++ F_ d c e s :: p) <-> path_ok b (sp ++ F_ d c e' s :: p).
Proof. induction sp as [|f sp IH]; intros b; cbn; [tauto|]. rewrite IH. tauto. Qed.

Lemma last_black_cons f p : p <> [] -> last_black (f :: p) = last_black p.
Proof. destruct p; [congruence|reflexivity]. Qed.

Lemma last_black_entry sp d c e e' s p :
  last_black (sp ++ F_ d c e s :: p) = last_black (sp ++ F_ d c e' s :: p).
Proof.
  induction sp as [|f sp IH]; cbn [app].
  - reflexivity.
  - rewrite !last_black_cons by (intros E; apply app_eq_nil in E as [_ E]; discriminate E).
    exact IH.
Qed.

Lemma t_delete_at_good c l e r p m :
  no_red_red (plug (T_ c l e r) p) = true -> is_red (plug (T_ c l e r) p) = false ->
  bheight (plug (T_ c l e r) p) = Some m -> (p = [] -> l <> L_ /\ r <> L_) ->
  good (t_delete_at c l r p).
Proof.
  intros Hn Hr Hb Hp.
  unfold t_delete_at.
  destruct l as [|lc ll le lr], r as [|rc rl re rr].
  - (* no child *)
    destruct (focus_facts _ _ _ _ eq_refl Hn Hr Hb) as (F1 & F2 & (n & F3 & F4) & F5 & F6).
    rewrite is_red_T in F2, F6.
    apply bheight_T in F3 as (a & Ba & _ & ->). cbn in Ba. injection Ba as <-.
    apply (delete_one_good L_ c p m); try assumption; try reflexivity.
    intros E. destruct (Hp E) as [E1 _]. congruence.
  - destruct (focus_facts _ _ _ _ eq_refl Hn Hr Hb) as (F1 & F2 & (n & F3 & F4) & F5 & F6).
    rewrite is_red_T in F2, F6.
    apply bheight_T in F3 as (a & Ba & Br & ->). cbn in Ba. injection Ba as <-.
    apply norr_T in F1 as (Hc & _ & Nr).
    apply (delete_one_good (T_ rc rl re rr) c p m); try assumption.
    + intros E. apply (Hc E).
    + intros E. destruct (Hp E) as [E1 _]. congruence.
  - destruct (focus_facts _ _ _ _ eq_refl Hn Hr Hb) as (F1 & F2 & (n & F3 & F4) & F5 & F6).
    rewrite is_red_T in F2, F6.
    apply bheight_T in F3 as (a & Bl & Ba & ->). cbn in Ba. injection Ba as <-.
    apply norr_T in F1 as (Hc & Nl & _).
    apply (delete_one_good (T_ lc ll le lr) c p m); try assumption.
    + intros E. apply (Hc E).
    + intros E. destruct (Hp E) as [_ E1]. congruence.
  - (* two children: the successor takes the place of the removed entry *)
    destruct (leftmost (T_ rc rl re rr) []) as [[[[sc se] sr] sp]|] eqn:HLm.
    2:{ exfalso. revert HLm. apply leftmost_T. discriminate. }
    apply leftmost_spec in HLm as [H1 _]. cbn [plug] in H1.
    cbv zeta. rewrite del_one_eq.
    assert (E : plug (T_ c (T_ lc ll le lr) e (T_ rc rl re rr)) p =
                plug (T_ sc L_ se sr) (sp ++ F_ DR c e (T_ lc ll le lr) :: p)).
    { rewrite plug_app, H1. reflexivity. }
    rewrite E in Hn, Hr, Hb.
    destruct (focus_facts _ _ _ _ eq_refl Hn Hr Hb) as (F1 & F2 & (n & F3 & F4) & F5 & F6).
    rewrite is_red_T in F2, F6.
    apply bheight_T in F3 as (a & Ba & Bsr & ->). cbn in Ba. injection Ba as <-.
    apply norr_T in F1 as (Hc & _ & Nsr).
    apply (path_ok_entry sp DR c e se) in F2.
    apply (PBH_entry sp DR c e se) in F4.
    rewrite (last_black_entry sp DR c e se) in F5.
    apply (delete_one_good sr sc _ m); try assumption.
    + intros E1. apply (Hc E1).
    + intros E1. apply app_eq_nil in E1 as [_ E1]. discriminate E1.
Qed.

Lemma too_small_root c l e r : too_small (T_ c l e r) = false -> l <> L_ /\ r <> L_.
Proof.
  cbn [too_small]. intros H. apply orb_false_iff in H as [H1 H2].
  split; intros ->; discriminate.
Qed.

(* the located node is the one we were asked to remove *)
Lemma locate_present t h k e :
  sorted (t_elems t) -> In e (t_elems t) -> nh e = h -> nk e = k ->
  exists c l r p, locate t h k [] = (T_ c l e r, p).
Proof.
  intros Hs Hi Hh Hk. destruct (locate t h k []) as [s p] eqn:HL.
  destruct s as [|c l e' r].
  - exfalso. destruct (locate_elems _ _ _ _ _ _ HL Hs) as (A & B & E1 & _ & _ & HA & HB).
    rewrite E1 in Hi. cbn [t_elems app] in Hi. apply in_app_or in Hi as [Hi|Hi].
    + apply HA in Hi. unfold nlt, pk in Hi; cbn in Hi. lia.
    + apply HB in Hi. unfold nlt, pk in Hi; cbn in Hi. lia.
  - destruct (locate_in _ _ _ _ _ _ _ _ HL) as (Hi' & Hh' & Hk').
    assert (e' = e) by (apply (sorted_unique (t_elems t)); auto; congruence).
    subst e'. eauto.
Qed.

(* goal 5 *)
Theorem t_delete_rb : forall t h k e,
  rb_b t = true -> too_small t = false -> In e (t_elems t) -> nh e = h -> nk e = k ->
  rb_b (t_delete t h k) = true /\ Permutation (t_elems t) (e :: t_elems (t_delete t h k)).
Proof.
  intros t h k e Hrb Hts Hi Hh Hk.
  apply rb_good in Hrb as (Hs & Hn & Hr & m & Hb).
  destruct (locate_present t h k e Hs Hi Hh Hk) as (c & l & r & p & HL).
  unfold t_delete. rewrite HL.
  pose proof (locate_plug _ _ _ _ _ _ HL) as HP. cbn [plug] in HP.
  assert (HE : t_elems t = (pl p ++ t_elems l) ++ e :: t_elems r ++ pr p).
  { rewrite <- HP, elems_plug. cbn [t_elems]. lnorm. reflexivity. }
  assert (HE' : t_elems (t_delete_at c l r p) = (pl p ++ t_elems l) ++ t_elems r ++ pr p).
  { rewrite t_delete_at_elems. lnorm. reflexivity. }
  split.
  - apply rb_good. split.
    + rewrite HE'. rewrite HE in Hs. apply sorted_remove_mid in Hs. exact Hs.
    + rewrite <- HP in Hn, Hr, Hb. apply (t_delete_at_good c l e r p m Hn Hr Hb).
      intros ->. cbn [plug] in HP. subst t. apply (too_small_root _ _ _ _ Hts).
  - rewrite HE, HE'. symmetry. apply Permutation_middle.
Qed.

(* ---------- t_set ---------- *)
Definition upd (h k : N) (v : Z) (n : node) : node :=
  if matches h k n then N_ (nh n) (nk n) (ni n) v else n.

Lemma upd_nh h k v n : nh (upd h k v n) = nh n.
Proof. unfold upd. destruct (matches h k n); reflexivity. Qed.
Lemma upd_nk h k v n : nk (upd h k v n) = nk n.
Proof. unfold upd. destruct (matches h k n); reflexivity. Qed.

Lemma nlt_upd h k v a b : nlt (upd h k v a) (upd h k v b) <-> nlt a b.
Proof. unfold nlt. rewrite !upd_nh, !upd_nk. tauto. Qed.

Lemma sorted_map_upd h k v l : sorted l -> sorted (map (upd h k v) l).
Proof.
  induction l as [|x l IH]; cbn [map]; intros H; [apply sorted_nil|].
  apply sorted_cons in H as [H1 H2]. apply sorted_cons. split; [auto|].
  intros b Hb. apply in_map_iff in Hb as (b' & <- & Hb'). apply nlt_upd. auto.
Qed.

Lemma matches_false_lt h k a : nlt a (pk h k) -> matches h k a = false.
Proof.
  intros H. destruct (matches h k a) eqn:E; [|reflexivity]. apply matches_iff in E.
  unfold nlt, pk in H; cbn in H. lia.
Qed.
Lemma matches_false_gt h k a : nlt (pk h k) a -> matches h k a = false.
Proof.
  intros H. destruct (matches h k a) eqn:E; [|reflexivity]. apply matches_iff in E.
  unfold nlt, pk in H; cbn in H. lia.
Qed.

Lemma upd_nomatch h k v e : matches h k e = false -> upd h k v e = e.
Proof. unfold upd. intros ->. reflexivity. Qed.

Lemma map_upd_id h k v l : (forall a, In a l -> matches h k a = false) -> map (upd h k v) l = l.
Proof.
  induction l as [|x l IH]; intros H; cbn [map]; [reflexivity|].
  rewrite IH by (intros a Ha; apply H; right; exact Ha).
  unfold upd. rewrite (H x (or_introl eq_refl)). reflexivity.
Qed.

Lemma t_set_elems_sorted t h k v :
  sorted (t_elems t) -> t_elems (t_set t h k v) = map (upd h k v) (t_elems t).
Proof.
  induction t as [|c l IHl e r IHr]; intros Hs; cbn [t_set t_elems map]; [reflexivity|].
  apply sorted_app in Hs as (Sl & Sr & Hlr). apply sorted_cons in Sr as (Sr & HR0).
  assert (HR : forall b, In b (t_elems r) -> nlt e b) by exact HR0. clear HR0.
  assert (HL : forall a, In a (t_elems l) -> nlt a e) by (intros a Ha; apply Hlr; [assumption|left; reflexivity]).
  rewrite map_app. cbn [map].
  pose proof (ncmp_spec h k e) as Hc. destruct (ncmp h k e); cbn [t_elems].
  - destruct Hc as [Hh Hk].
    rewrite (map_upd_id h k v (t_elems l)), (map_upd_id h k v (t_elems r)).
    + unfold upd. assert (Hm : matches h k e = true) by (apply matches_iff; auto). rewrite Hm. reflexivity.
    + intros a Ha. apply matches_false_gt. apply HR in Ha. unfold nlt, pk in *; cbn; lia.
    + intros a Ha. apply matches_false_lt. apply HL in Ha. unfold nlt, pk in *; cbn; lia.
  - rewrite (IHl Sl), (map_upd_id h k v (t_elems r)).
    + rewrite (upd_nomatch h k v e) by (apply matches_false_gt; exact Hc). reflexivity.
    + intros a Ha. apply matches_false_gt. eapply nlt_trans; [exact Hc|auto].
  - rewrite (IHr Sr), (map_upd_id h k v (t_elems l)).
    + rewrite (upd_nomatch h k v e) by (apply matches_false_lt; exact Hc). reflexivity.
    + intros a Ha. apply matches_false_lt. eapply nlt_trans; [|exact Hc]. auto.
Qed.

Lemma is_red_t_set t h k v : is_red (t_set t h k v) = is_red t.
Proof. destruct t as [|c l e r]; [reflexivity|]. cbn [t_set]. destruct (ncmp h k e); reflexivity. Qed.

Lemma bheight_t_set t h k v : bheight (t_set t h k v) = bheight t.
Proof.
  induction t as [|c l IHl e r IHr]; [reflexivity|]. cbn [t_set].
  destruct (ncmp h k e); cbn [bheight]; rewrite ?IHl, ?IHr; reflexivity.
Qed.

Lemma norr_t_set t h k v : no_red_red (t_set t h k v) = no_red_red t.
Proof.
  induction t as [|c l IHl e r IHr]; [reflexivity|]. cbn [t_set].
  destruct (ncmp h k e); cbn [no_red_red]; rewrite ?IHl, ?IHr, ?is_red_t_set; reflexivity.
Qed.

(* goal 4 *)
Theorem t_set_rb : forall t h k v, rb_b t = true -> rb_b (t_set t h k v) = true.
Proof.
  intros t h k v H. apply rb_b_iff in H as (Hs & Hr & Hn & Hb). apply rb_b_iff.
  rewrite is_red_t_set, norr_t_set, bheight_t_set, t_set_elems_sorted by assumption.
  repeat split; try assumption. apply sorted_map_upd. assumption.
Qed.

(* the element with pair (h,k), if any, has its value replaced; nothing else changes *)
Theorem t_set_elems : forall t h k v,
  ordered t None None = true -> t_elems (t_set t h k v) = map (upd h k v) (t_elems t).
Proof. intros t h k v H. apply t_set_elems_sorted. apply ordered_sorted. exact H. Qed.

Lemma lb_set_map h k v l :
  NoDup (map (fun n => (nh n, nk n)) l) -> lb_set l h k v = map (upd h k v) l.
Proof.
  induction l as [|x l IH]; intros Hnd; cbn [lb_set map]; [reflexivity|].
  cbn [map] in Hnd. inversion Hnd as [|? ? Hni Hnd']; subst.
  unfold upd at 1. destruct (matches h k x) eqn:E.
  - rewrite map_upd_id; [reflexivity|]. intros a Ha.
    destruct (matches h k a) eqn:Ea; [|reflexivity]. exfalso. apply Hni.
    apply matches_iff in E. apply matches_iff in Ea. apply in_map_iff. exists a.
    split; [|assumption]. destruct E, Ea. congruence.
  - rewrite IH by assumption. reflexivity.
Qed.

Theorem t_set_elems_lb : forall t h k v,
  ordered t None None = true -> t_elems (t_set t h k v) = lb_set (t_elems t) h k v.
Proof.
  intros t h k v H. rewrite t_set_elems by assumption. symmetry. apply lb_set_map.
  apply sorted_NoDup_keys. apply ordered_sorted. exact H.
Qed.

(* ---------- reflection of the list-level checks ---------- *)
Lemma node_eqb_eq a b : node_eqb a b = true <-> a = b.
Proof.
  destruct a as [ah ak ai av], b as [bh bk bi bv]. unfold node_eqb. cbn [nh nk ni nv].
  rewrite !andb_true_iff, !N.eqb_eq, Z.eqb_eq. split.
  - intros (((-> & ->) & ->) & ->). reflexivity.
  - intros E. injection E as -> -> -> ->. auto.
Qed.

Lemma mem_node_eq x l : mem_node x l = existsb (node_eqb x) l.
Proof. destruct l; reflexivity. Qed.

Lemma mem_node_in x l : mem_node x l = true <-> In x l.
Proof.
  rewrite mem_node_eq, existsb_exists. split.
  - intros (y & Hy & E). apply node_eqb_eq in E. subst. exact Hy.
  - intros H. exists x. split; [exact H|]. apply node_eqb_eq. reflexivity.
Qed.

Lemma same_nodes_iff a b :
  same_nodes a b = true <-> length a = length b /\ incl a b /\ incl b a.
Proof.
  unfold same_nodes. rewrite !andb_true_iff, Nat.eqb_eq, !forallb_forall. unfold incl.
  split.
  - intros ((H1 & H2) & H3). repeat split; auto; intros x Hx; apply mem_node_in; auto.
  - intros (H1 & H2 & H3). repeat split; auto; intros x Hx; apply mem_node_in; auto.
Qed.

Lemma same_nodes_perm a b : NoDup a -> (same_nodes a b = true <-> Permutation a b).
Proof.
  intros Hnd. rewrite same_nodes_iff. split.
  - intros (H1 & H2 & _). apply NoDup_Permutation_bis; auto. rewrite H1. apply le_n.
  - intros H. split; [apply Permutation_length; assumption|].
    split; intros x Hx.
    + apply (Permutation_in _ H Hx).
    + apply (Permutation_in _ (Permutation_sym H) Hx).
Qed.

Lemma nodup_keys_iff l : nodup_keys l = true <-> NoDup (map nk l).
Proof.
  induction l as [|x l IH]; cbn [nodup_keys map].
  - split; [constructor|reflexivity].
  - rewrite andb_true_iff, negb_true_iff, IH. split.
    + intros [H1 H2]. constructor; [|assumption]. intros Hin.
      apply in_map_iff in Hin as (y & Hy & Hin).
      assert (E : existsb (fun y => nk y =? nk x) l = true).
      { apply existsb_exists. exists y. split; [assumption|]. apply N.eqb_eq. assumption. }
      congruence.
    + intros H. inversion H as [|? ? H1 H2]; subst. split; [|assumption].
      destruct (existsb (fun y => nk y =? nk x) l) eqn:E; [|reflexivity].
      apply existsb_exists in E as (y & Hy & E). apply N.eqb_eq in E.
      exfalso. apply H1. apply in_map_iff. exists y. auto.
Qed.

Lemma NoDup_nk_keys l : NoDup (map nk l) -> NoDup (map (fun n => (nh n, nk n)) l).
Proof.
  intros H. apply (NoDup_map_inv snd). rewrite map_map. cbn [snd]. exact H.
Qed.

Lemma tb_b_iff b :
  tb_b b = true <->
  rb_b (troot b) = true /\ NoDup (map nk (tord b)) /\ Permutation (t_elems (troot b)) (tord b).
Proof.
  unfold tb_b. rewrite !andb_true_iff, nodup_keys_iff. split.
  - intros ((H1 & H2) & H3). repeat split; try assumption.
    apply same_nodes_perm; [|assumption].
    apply rb_good in H1 as [Hs _]. apply sorted_NoDup. assumption.
  - intros (H1 & H2 & H3). repeat split; try assumption.
    apply same_nodes_perm; [|assumption].
    apply rb_good in H1 as [Hs _]. apply sorted_NoDup. assumption.
Qed.

Lemma lb_find_find l h k : lb_find l h k = find (matches h k) l.
Proof. induction l as [|x l IH]; cbn; [reflexivity|]. rewrite IH. reflexivity. Qed.

Lemma NoDup_keys_unique l x y :
  NoDup (map (fun n => (nh n, nk n)) l) -> In x l -> In y l -> nh x = nh y -> nk x = nk y -> x = y.
Proof.
  induction l as [|z l IH]; intros Hnd Hx Hy Eh Ek; [destruct Hx|].
  cbn [map] in Hnd. inversion Hnd as [|? ? Hni Hnd']; subst.
  destruct Hx as [->|Hx], Hy as [->|Hy].
  - reflexivity.
  - exfalso. apply Hni. apply in_map_iff. exists y. split; [congruence|assumption].
  - exfalso. apply Hni. apply in_map_iff. exists x. split; [congruence|assumption].
  - auto.
Qed.

Lemma find_perm h k a b :
  Permutation a b -> NoDup (map (fun n => (nh n, nk n)) a) ->
  find (matches h k) a = find (matches h k) b.
Proof.
  intros Hp Hnd. destruct (find (matches h k) a) as [x|] eqn:Ea.
  - apply find_some in Ea as [Hx Mx].
    destruct (find (matches h k) b) as [y|] eqn:Eb.
    + apply find_some in Eb as [Hy My]. apply Permutation_sym in Hp.
      apply (Permutation_in _ Hp) in Hy.
      apply matches_iff in Mx. apply matches_iff in My. destruct Mx, My.
      f_equal. apply (NoDup_keys_unique a); auto; congruence.
    + apply (Permutation_in _ Hp) in Hx. apply (find_none _ _ Eb) in Hx. congruence.
  - symmetry. apply find_none_intro. intros y Hy. apply Permutation_sym in Hp.
    apply (Permutation_in _ Hp) in Hy. apply (find_none _ _ Ea). assumption.
Qed.

(* goal 3, corollary: no extra hypothesis is needed *)
Theorem t_find_lb_find : forall b h k,
  tb_b b = true -> t_find (troot b) h k = lb_find (tord b) h k.
Proof.
  intros b h k H. apply tb_b_iff in H as (H1 & H2 & H3).
  apply rb_good in H1 as [Hs _].
  rewrite lb_find_find, t_find_sorted by assumption.
  apply find_perm; [assumption|]. apply sorted_NoDup_keys. assumption.
Qed.

(* ---------- goal 7: the tree-bin operations keep tb_b ---------- *)
Theorem tb_new_ok : forall l,
  nodup_keys l = true ->
  (forall a b, In a l -> In b l -> nk a = nk b -> nh a = nh b) ->
  l <> [] -> tb_b (tb_new l) = true.
Proof.
  intros l H _ _. apply nodup_keys_iff in H. apply tb_b_iff. cbn [tb_new troot tord].
  destruct (t_new_rb l (NoDup_nk_keys _ H)) as [H1 H2]. auto.
Qed.

Theorem tb_put_ok : forall b e,
  tb_b b = true -> (forall a, In a (tord b) -> nk a <> nk e) -> tb_b (tb_put b e) = true.
Proof.
  intros b e H Hfresh. apply tb_b_iff in H as (H1 & H2 & H3). apply tb_b_iff.
  cbn [tb_put troot tord].
  assert (Hf : t_find (troot b) (nh e) (nk e) = None).
  { apply t_find_absent.
    - apply rb_good in H1 as [Hs _]. apply ordered_sorted. assumption.
    - intros a Ha [_ E]. apply (Permutation_in _ H3) in Ha. apply (Hfresh a Ha E). }
  split; [apply t_insert_rb; assumption|]. split.
  - cbn [map]. constructor; [|assumption]. intros Hin. apply in_map_iff in Hin as (a & E & Ha).
    apply (Hfresh a Ha E).
  - eapply Permutation_trans; [apply t_insert_elems; assumption|]. apply perm_skip. assumption.
Qed.

Lemma map_nk_upd h k v l : map nk (map (upd h k v) l) = map nk l.
Proof. rewrite map_map. apply map_ext. intros a. apply upd_nk. Qed.

Theorem tb_set_ok : forall b h k v, tb_b b = true -> tb_b (tb_set b h k v) = true.
Proof.
  intros b h k v H. apply tb_b_iff in H as (H1 & H2 & H3). apply tb_b_iff.
  cbn [tb_set troot tord].
  pose proof H1 as H1'. apply rb_good in H1' as [Hs _].
  rewrite (lb_set_map h k v (tord b)) by (apply NoDup_nk_keys; assumption).
  rewrite t_set_elems_sorted by assumption.
  split; [apply t_set_rb; assumption|]. split.
  - rewrite map_nk_upd. assumption.
  - apply Permutation_map. assumption.
Qed.

Lemma lb_remove_none h k l : find (matches h k) l = None -> lb_remove l h k = l.
Proof.
  induction l as [|x l IH]; cbn [find lb_remove]; [reflexivity|].
  destruct (matches h k x); [discriminate|]. intros H. rewrite IH by assumption. reflexivity.
Qed.

Lemma lb_remove_some h k l e :
  find (matches h k) l = Some e -> Permutation l (e :: lb_remove l h k).
Proof.
  induction l as [|x l IH]; cbn [find lb_remove]; [discriminate|].
  destruct (matches h k x).
  - intros E. injection E as ->. apply Permutation_refl.
  - intros E. eapply Permutation_trans; [apply perm_skip; apply IH; assumption|]. apply perm_swap.
Qed.

Theorem tb_remove_ok : forall b h k b',
  tb_b b = true -> tb_remove b h k = (b', false) -> tb_b b' = true.
Proof.
  intros b h k b' H Hrm. apply tb_b_iff in H as (H1 & H2 & H3).
  unfold tb_remove in Hrm.
  destruct (lb_remove (tord b) h k) as [|y ord'] eqn:Eord; [discriminate Hrm|].
  destruct (too_small (troot b)) eqn:Ets; [discriminate Hrm|].
  injection Hrm as <-. rewrite <- Eord. clear y ord' Eord.
  apply tb_b_iff. cbn [troot tord].
  pose proof H1 as H1'. apply rb_good in H1' as [Hs _].
  destruct (find (matches h k) (tord b)) as [e|] eqn:Ef.
  - pose proof (lb_remove_some _ _ _ _ Ef) as Hp.
    apply find_some in Ef as [Hi Hm]. apply matches_iff in Hm as [Hh Hk].
    apply Permutation_sym in H3. pose proof (Permutation_in _ H3 Hi) as Hi'.
    destruct (t_delete_rb (troot b) h k e H1 Ets Hi' Hh Hk) as [R1 R2].
    split; [assumption|]. split.
    + apply (Permutation_map nk) in Hp. apply (Permutation_NoDup Hp) in H2.
      cbn [map] in H2. inversion H2; assumption.
    + apply (Permutation_cons_inv (a := e)).
      eapply Permutation_trans; [apply Permutation_sym; exact R2|].
      eapply Permutation_trans; [apply Permutation_sym; exact H3|]. exact Hp.
  - rewrite (lb_remove_none _ _ _ Ef).
    assert (Habs : absent h k (t_elems (troot b))).
    { intros a Ha E. apply (Permutation_in _ H3) in Ha. apply (find_none _ _ Ef) in Ha.
      apply matches_iff in E. congruence. }
    unfold t_delete. destruct (locate (troot b) h k []) as [s p] eqn:HL.
    rewrite (locate_absent _ _ _ _ _ HL Habs). auto.
Qed.

(* ---------- sanity checks (non-vacuity, and why too_small is needed) ---------- *)
Definition demo_nodes : list node :=
  map (fun i => N_ (i / 2) i 0 0%Z) [5; 1; 9; 3; 7; 2; 8; 4; 6; 10; 12; 11].

Example demo_delete :
  let t := t_new demo_nodes in
  rb_b t = true /\ too_small t = false /\
  forallb (fun n => rb_b (t_delete t (nh n) (nk n))) demo_nodes = true.
Proof. vm_compute. auto. Qed.

(* without [too_small t = false] the conclusion of t_delete_rb fails: removing the root of a
   two-node tree leaves its red child as the (red) root, exactly as in the implementation,
   where this shape is untreeified instead *)
Example t_delete_needs_too_small :
  let t := T_ false (T_ true L_ (N_ 1 1 0 0%Z) L_) (N_ 2 2 0 0%Z) L_ in
  rb_b t = true /\ too_small t = true /\ rb_b (t_delete t 2 2) = false.
Proof. vm_compute. auto. Qed.

(* ---------- axiom audit ---------- *)
Print Assumptions t_insert_rb.
Print Assumptions t_insert_elems.
Print Assumptions t_new_rb.
Print Assumptions t_find_spec.
Print Assumptions t_find_lb_find.
Print Assumptions t_set_rb.
Print Assumptions t_set_elems.
Print Assumptions t_set_elems_lb.
Print Assumptions t_delete_rb.
Print Assumptions rb_height.
Print Assumptions t_find_cost_le.
Print Assumptions tb_new_ok.
Print Assumptions tb_put_ok.
Print Assumptions tb_set_ok.
Print Assumptions tb_remove_ok.
