(* Red-black tree bins (C06): invariants preserved by every tree-bin operation. *)
From Flurry Require Import Model.WF.
