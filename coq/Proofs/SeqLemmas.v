(* Sequential refinement, part 1: list, bit and table-structure lemmas.  Nothing here depends on
   the tree-bin facts; Proofs/SeqProofs.v builds the refinement theorems on top of this file. *)
From Flurry Require Import Model.Spec Proofs.ArithProofs.
From Coq Require Import Permutation Lia ZArith NArith List Bool.
Import ListNotations.
Open Scope Z_scope.
Ltac Zify.zify_post_hook ::= Z.div_mod_to_equations.

Arguments N.land : simpl never.
Arguments N.ones : simpl never.
Arguments N.pow : simpl never.
Arguments Z.pow : simpl never.
Arguments N.testbit : simpl never.
Arguments Z.of_nat : simpl never.
Arguments Z.to_N : simpl never.

(* ------------------------------------------------------------------------------------------ *)
(** * Keys, lookup in a node list *)

Definition keys (l : list node) : list N := map nk l.
Definition lookup (l : list node) (k : N) : option node := find (fun n => (nk n =? k)%N) l.

Lemma keys_app a b : keys (a ++ b) = keys a ++ keys b.
Proof. apply map_app. Qed.

Lemma nodup_keys_iff l : nodup_keys l = true <-> NoDup (keys l).
Proof.
  induction l as [|x l IH]; cbn [nodup_keys keys map].
  - split; [constructor | reflexivity].
  - rewrite andb_true_iff, negb_true_iff, IH. split.
    + intros [H1 H2]. constructor; [|exact H2]. intros Hin.
      apply in_map_iff in Hin as (y & Hy & Hin).
      assert (E : existsb (fun y => (nk y =? nk x)%N) l = true).
      { apply existsb_exists. exists y. split; [exact Hin | apply N.eqb_eq; exact Hy]. }
      congruence.
    + intros H. inversion H as [|? ? Hn Hd]; subst. split; [|exact Hd].
      destruct (existsb _ l) eqn:E; [|reflexivity]. exfalso. apply Hn.
      apply existsb_exists in E as (y & Hin & Hy). apply N.eqb_eq in Hy.
      apply in_map_iff. exists y. split; assumption.
Qed.

Lemma NoDup_app_iff {A} (a b : list A) :
  NoDup (a ++ b) <-> NoDup a /\ NoDup b /\ (forall x, In x a -> ~ In x b).
Proof.
  induction a as [|x a IH]; cbn [app].
  - split.
    + intros H. split; [constructor|]. split; [exact H|]. intros x [].
    + intros (_ & H & _). exact H.
  - split.
    + intros H. inversion H as [|? ? Hn Hd]; subst. apply IH in Hd as (Ha & Hb & Hab).
      split; [|split].
      * constructor; [|exact Ha]. intros Hx. apply Hn. apply in_or_app. left; exact Hx.
      * exact Hb.
      * intros y [<-|Hy]; [|apply Hab; exact Hy]. intros Hx. apply Hn. apply in_or_app. right; exact Hx.
    + intros (Ha & Hb & Hab). inversion Ha as [|? ? Hn Hd]; subst. constructor.
      * intros Hx. apply in_app_or in Hx as [Hx|Hx]; [apply Hn; exact Hx|].
        apply (Hab x); [left; reflexivity|exact Hx].
      * apply IH. split; [exact Hd|]. split; [exact Hb|]. intros y Hy. apply Hab. right; exact Hy.
Qed.

Lemma lookup_some l k n : lookup l k = Some n -> In n l /\ nk n = k.
Proof. intros H. apply find_some in H as [H1 H2]. apply N.eqb_eq in H2. split; assumption. Qed.

Lemma lookup_none l k : lookup l k = None -> forall n, In n l -> nk n <> k.
Proof.
  intros H n Hn E. pose proof (find_none _ _ H n Hn) as H1. cbv beta in H1.
  apply N.eqb_neq in H1. contradiction.
Qed.

Lemma lookup_none_keys l k : lookup l k = None <-> ~ In k (keys l).
Proof.
  split.
  - intros H Hin. apply in_map_iff in Hin as (n & E & Hn). exact (lookup_none _ _ H n Hn E).
  - intros H. destruct (lookup l k) as [n|] eqn:E; [|reflexivity]. exfalso. apply H.
    apply lookup_some in E as [E1 E2]. apply in_map_iff. exists n. split; assumption.
Qed.

Lemma lookup_in l n : NoDup (keys l) -> In n l -> lookup l (nk n) = Some n.
Proof.
  induction l as [|x l IH]; intros Hd Hin; [destruct Hin|].
  cbn [keys map] in Hd. inversion Hd as [|? ? Hn Hd']; subst.
  unfold lookup. cbn [find]. destruct (N.eqb_spec (nk x) (nk n)) as [E|E].
  - destruct Hin as [->|Hin]; [reflexivity|]. exfalso. apply Hn. rewrite E.
    apply in_map. exact Hin.
  - destruct Hin as [->|Hin]; [congruence|]. apply IH; assumption.
Qed.

Lemma lookup_app a b k :
  lookup (a ++ b) k = match lookup a k with Some n => Some n | None => lookup b k end.
Proof.
  unfold lookup. induction a as [|x a IH]; cbn [app find]; [reflexivity|].
  destruct (nk x =? k)%N; [reflexivity|exact IH].
Qed.

Lemma lookup_cons x l k :
  lookup (x :: l) k = if (nk x =? k)%N then Some x else lookup l k.
Proof. reflexivity. Qed.

Lemma keys_perm l l' : Permutation l l' -> Permutation (keys l) (keys l').
Proof. apply Permutation_map. Qed.

Lemma lookup_perm l l' k : NoDup (keys l) -> Permutation l l' -> lookup l k = lookup l' k.
Proof.
  intros Hd Hp.
  assert (Hd' : NoDup (keys l')) by (eapply Permutation_NoDup; [apply keys_perm; exact Hp|exact Hd]).
  destruct (lookup l k) as [n|] eqn:E.
  - apply lookup_some in E as [E1 <-]. symmetry. apply lookup_in; [exact Hd'|].
    eapply Permutation_in; eassumption.
  - symmetry. apply lookup_none_keys. apply lookup_none_keys in E. intros Hin. apply E.
    eapply Permutation_in; [apply Permutation_sym, keys_perm; exact Hp|exact Hin].
Qed.

(* ------------------------------------------------------------------------------------------ *)
(** * Powers of two, masks, the bit split *)

Lemma is_pow2_spec z : is_pow2 z = true -> exists j : nat, z = 2 ^ Z.of_nat j.
Proof.
  unfold is_pow2. rewrite andb_true_iff, Z.ltb_lt, Z.eqb_eq. intros [H1 H2].
  exists (Z.to_nat (Z.log2 z)). rewrite Z2Nat.id by apply Z.log2_nonneg. symmetry; exact H2.
Qed.

Lemma is_pow2_intro (j : nat) : is_pow2 (2 ^ Z.of_nat j) = true.
Proof.
  unfold is_pow2. rewrite Z.log2_pow2 by lia. rewrite Z.eqb_refl, andb_true_r.
  apply Z.ltb_lt. apply Z.pow_pos_nonneg; lia.
Qed.

Lemma to_N_of_nat n : Z.to_N (Z.of_nat n) = N.of_nat n.
Proof. rewrite <- nat_N_Z. apply N2Z.id. Qed.

Lemma pow2_nat_Z (j : nat) : Z.of_nat (2 ^ j) = 2 ^ Z.of_nat j.
Proof. rewrite Nat2Z.inj_pow. reflexivity. Qed.

Lemma pow2_nat_N (j : nat) : N.of_nat (2 ^ j) = (2 ^ N.of_nat j)%N.
Proof. rewrite Nat2N.inj_pow. reflexivity. Qed.

Lemma pow2_Z_inj_le (a b : nat) : 2 ^ Z.of_nat a <= 2 ^ Z.of_nat b -> (a <= b)%nat.
Proof. intros H. apply Z.pow_le_mono_r_iff in H; lia. Qed.

Lemma pow2_nat_pos (j : nat) : (0 < 2 ^ j)%nat.
Proof. induction j; cbn [Nat.pow]; lia. Qed.

(* the index mask of a table of length 2^j *)
Lemma mask_pow2 (j : nat) : (Z.to_N (2 ^ Z.of_nat j) - 1 = N.ones (N.of_nat j))%N.
Proof.
  rewrite <- pow2_nat_Z, to_N_of_nat, pow2_nat_N, N.ones_equiv, N.sub_1_r. reflexivity.
Qed.

Lemma land_mask_lt h (j : nat) : (N.to_nat (N.land h (N.ones (N.of_nat j))) < 2 ^ j)%nat.
Proof.
  rewrite N.land_ones.
  assert (H : (h mod 2 ^ N.of_nat j < 2 ^ N.of_nat j)%N).
  { apply N.mod_lt. apply N.pow_nonzero. discriminate. }
  set (x := (h mod 2 ^ N.of_nat j)%N) in *. clearbody x.
  rewrite <- pow2_nat_N in H. revert H. generalize (2 ^ j)%nat. intros p H. lia.
Qed.

Lemma land_ones_succ h j :
  N.land h (N.ones (N.succ j)) = (N.land h (N.ones j) + 2 ^ j * N.b2n (N.testbit h j))%N.
Proof.
  rewrite !N.land_ones, N.pow_succ_r', (N.mul_comm 2), N.mod_mul_r.
  - rewrite <- N.testbit_spec'. reflexivity.
  - apply N.pow_nonzero. discriminate.
  - discriminate.
Qed.

Lemma hbit_pow2 j x : hbit (2 ^ j) x = N.testbit (nh x) j.
Proof.
  unfold hbit. destruct (N.eqb_spec (N.land (nh x) (2 ^ j)) 0) as [E|E]; cbn [negb].
  - assert (H : N.testbit (N.land (nh x) (2 ^ j)) j = false) by (rewrite E; apply N.bits_0).
    rewrite N.land_spec, N.pow2_bits_true, andb_true_r in H. symmetry; exact H.
  - destruct (N.testbit (nh x) j) eqn:T; [reflexivity|]. exfalso; apply E.
    apply N.bits_inj. intros m. rewrite N.land_spec, N.bits_0, N.pow2_bits_eqb.
    destruct (N.eqb_spec j m) as [<-|Hne]; [rewrite T|rewrite andb_false_r]; reflexivity.
Qed.

(* the index of a hash in the doubled table *)
Lemma index_split h (j : nat) :
  N.to_nat (N.land h (N.ones (N.of_nat (S j)))) =
  (N.to_nat (N.land h (N.ones (N.of_nat j))) + if N.testbit h (N.of_nat j) then 2 ^ j else 0)%nat.
Proof.
  rewrite Nat2N.inj_succ, land_ones_succ, N2Nat.inj_add, N2Nat.inj_mul.
  rewrite <- pow2_nat_N, Nat2N.id. destruct (N.testbit h (N.of_nat j)); cbn [N.b2n]; lia.
Qed.

(* ------------------------------------------------------------------------------------------ *)
(** * List bins *)

Definition setv (v : Z) (n : node) : node := N_ (nh n) (nk n) (ni n) v.

Lemma matches_true h k n : matches h k n = true <-> nh n = h /\ nk n = k.
Proof. unfold matches. rewrite andb_true_iff, !N.eqb_eq. tauto. Qed.

Lemma lb_find_some l h k n : lb_find l h k = Some n -> In n l /\ nh n = h /\ nk n = k.
Proof.
  induction l as [|x l IH]; cbn [lb_find]; [discriminate|].
  destruct (matches h k x) eqn:M.
  - intros [= <-]. apply matches_true in M. split; [left; reflexivity|exact M].
  - intros H. apply IH in H as (H1 & H2). split; [right; exact H1|exact H2].
Qed.

Lemma lb_set_keys l h k v : keys (lb_set l h k v) = keys l.
Proof.
  induction l as [|x l IH]; cbn [lb_set]; [reflexivity|].
  destruct (matches h k x); cbn [keys map nk]; [reflexivity|]. f_equal. exact IH.
Qed.

Lemma lb_set_length l h k v : length (lb_set l h k v) = length l.
Proof. rewrite <- (map_length nk), <- (map_length nk l). f_equal. apply lb_set_keys. Qed.

Lemma lb_set_in l h k v x :
  In x (lb_set l h k v) -> exists y, In y l /\ nh x = nh y /\ nk x = nk y.
Proof.
  induction l as [|y l IH]; cbn [lb_set]; [intros []|].
  destruct (matches h k y).
  - intros [<-|Hx]; [exists y; split; [left; reflexivity|split; reflexivity]|].
    exists x. split; [right; exact Hx|split; reflexivity].
  - intros [<-|Hx]; [exists y; split; [left; reflexivity|split; reflexivity]|].
    destruct (IH Hx) as (z & Hz & E). exists z. split; [right; exact Hz|exact E].
Qed.

Lemma lb_remove_in l h k x : In x (lb_remove l h k) -> In x l.
Proof.
  induction l as [|y l IH]; cbn [lb_remove]; [intros []|].
  destruct (matches h k y); [intros H; right; exact H|].
  intros [<-|Hx]; [left; reflexivity|right; apply IH; exact Hx].
Qed.

Lemma lb_remove_length l h k :
  lb_find l h k <> None -> S (length (lb_remove l h k)) = length l.
Proof.
  induction l as [|y l IH]; cbn [lb_find lb_remove]; [congruence|].
  destruct (matches h k y); [reflexivity|]. intros H. cbn [length]. f_equal. apply IH; exact H.
Qed.

Lemma lb_remove_nodup l h k : NoDup (keys l) -> NoDup (keys (lb_remove l h k)).
Proof.
  induction l as [|y l IH]; cbn [lb_remove]; [trivial|]. cbn [keys map].
  intros Hd. inversion Hd as [|? ? Hn Hd']; subst.
  destruct (matches h k y); [exact Hd'|]. cbn [keys map]. constructor; [|apply IH; exact Hd'].
  intros Hin. apply Hn. apply in_map_iff in Hin as (z & E & Hz). apply in_map_iff.
  exists z. split; [exact E|eapply lb_remove_in; exact Hz].
Qed.

Lemma lb_pos_find l h k c : (lb_pos l h k c = None <-> lb_find l h k = None).
Proof.
  revert c. induction l as [|x l IH]; intros c; cbn [lb_pos lb_find]; [tauto|].
  destruct (matches h k x); [split; discriminate|apply IH].
Qed.

Lemma lb_pos_bound l h k c p : lb_pos l h k c = Some p -> c <= p < c + Z.of_nat (length l).
Proof.
  revert c. induction l as [|x l IH]; intros c; cbn [lb_pos length]; [discriminate|].
  destruct (matches h k x).
  - intros [= <-]. lia.
  - intros H. apply IH in H. lia.
Qed.

Section Hash.
Variable khash : N -> N.

(* every node carries the hash of its key *)
Definition hk_ok (l : list node) : Prop := forall n, In n l -> nh n = khash (nk n).

Lemma hk_ok_cons x l : hk_ok (x :: l) <-> nh x = khash (nk x) /\ hk_ok l.
Proof.
  unfold hk_ok. split.
  - intros H. split; [apply H; left; reflexivity|]. intros n Hn. apply H. right; exact Hn.
  - intros [H1 H2] n [<-|Hn]; [exact H1|apply H2; exact Hn].
Qed.

Lemma hk_ok_app a b : hk_ok (a ++ b) <-> hk_ok a /\ hk_ok b.
Proof.
  unfold hk_ok. split.
  - intros H. split; intros n Hn; apply H; apply in_or_app; [left|right]; exact Hn.
  - intros [H1 H2] n Hn. apply in_app_or in Hn as [Hn|Hn]; [apply H1|apply H2]; exact Hn.
Qed.

Lemma matches_key l x k : hk_ok l -> In x l -> matches (khash k) k x = (nk x =? k)%N.
Proof.
  intros H Hx. unfold matches. destruct (N.eqb_spec (nk x) k) as [E|E].
  - rewrite (H x Hx), E, N.eqb_refl. reflexivity.
  - apply andb_false_r.
Qed.

Lemma lb_find_lookup l k : hk_ok l -> lb_find l (khash k) k = lookup l k.
Proof.
  induction l as [|x l IH]; intros H; [reflexivity|].
  cbn [lb_find]. rewrite lookup_cons, (matches_key (x :: l)) by (auto; left; reflexivity).
  destruct (nk x =? k)%N; [reflexivity|]. apply IH. apply hk_ok_cons in H. apply H.
Qed.

Lemma lb_set_lookup l k v k' :
  hk_ok l ->
  lookup (lb_set l (khash k) k v) k' =
  if (k' =? k)%N then option_map (setv v) (lookup l k) else lookup l k'.
Proof.
  induction l as [|x l IH]; intros H.
  - cbn [lb_set]. unfold lookup. cbn [find option_map]. destruct (k' =? k)%N; reflexivity.
  - cbn [lb_set]. rewrite (matches_key (x :: l)) by (auto; left; reflexivity).
    apply hk_ok_cons in H as [Hx Hl]. specialize (IH Hl).
    destruct (N.eqb_spec (nk x) k) as [E|E].
    + rewrite !lookup_cons. cbn [nk]. destruct (N.eqb_spec k' k) as [Ek|Ne]; [subst k'|].
      * subst k. rewrite N.eqb_refl. reflexivity.
      * destruct (N.eqb_spec (nk x) k') as [E'|E']; [congruence|reflexivity].
    + rewrite !lookup_cons. destruct (N.eqb_spec k' k) as [Ek|Ne]; [subst k'|].
      * destruct (N.eqb_spec (nk x) k) as [E'|_]; [contradiction|]. rewrite IH. reflexivity.
      * destruct (nk x =? k')%N; [reflexivity|]. rewrite IH. reflexivity.
Qed.

Lemma lb_remove_lookup l k k' :
  hk_ok l -> NoDup (keys l) ->
  lookup (lb_remove l (khash k) k) k' = if (k' =? k)%N then None else lookup l k'.
Proof.
  induction l as [|x l IH]; intros H Hd.
  - cbn [lb_remove]. unfold lookup. cbn [find]. destruct (k' =? k)%N; reflexivity.
  - cbn [lb_remove]. rewrite (matches_key (x :: l)) by (auto; left; reflexivity).
    apply hk_ok_cons in H as [Hx Hl]. cbn [keys map] in Hd. inversion Hd as [|? ? Hn Hd']; subst.
    specialize (IH Hl Hd').
    destruct (N.eqb_spec (nk x) k) as [E|E].
    + rewrite lookup_cons. destruct (N.eqb_spec k' k) as [Ek|Ne]; [subst k'|].
      * apply lookup_none_keys. rewrite <- E. exact Hn.
      * destruct (N.eqb_spec (nk x) k'); [congruence|reflexivity].
    + rewrite !lookup_cons. destruct (N.eqb_spec k' k) as [Ek|Ne]; [subst k'|].
      * destruct (N.eqb_spec (nk x) k); [contradiction|]. rewrite IH. reflexivity.
      * destruct (nk x =? k')%N; [reflexivity|]. rewrite IH. reflexivity.
Qed.

End Hash.

(* ------------------------------------------------------------------------------------------ *)
(** * The split of a list bin performed by transfer *)

Lemma split_prefix_eq n pre lo hi :
  split_prefix n pre lo hi =
  (rev (filter (fun x => negb (hbit n x)) pre) ++ lo, rev (filter (hbit n) pre) ++ hi).
Proof.
  revert lo hi. induction pre as [|x pre IH]; intros lo hi; cbn [split_prefix filter]; [reflexivity|].
  destruct (hbit n x); cbn [negb]; rewrite IH; cbn [rev]; rewrite <- app_assoc; reflexivity.
Qed.

Lemma last_run_cons n x l' :
  l' <> [] ->
  last_run n (x :: l') =
  let r := last_run n l' in
  match r with
  | [] => x :: l'
  | y :: _ => if (length r =? length l')%nat && Bool.eqb (hbit n x) (hbit n y)
              then x :: l' else r
  end.
Proof. destruct l'; [congruence|reflexivity]. Qed.

Lemma last_run_spec n l :
  l <> [] ->
  exists pre y r, l = pre ++ y :: r /\ last_run n l = y :: r /\
                  (forall x, In x r -> hbit n x = hbit n y).
Proof.
  induction l as [|x l IH]; [congruence|]. intros _.
  destruct l as [|x' l'].
  - exists [], x, []. split; [reflexivity|]. split; [reflexivity|]. intros ? [].
  - destruct IH as (pre & y & r & E & Hr & Hall); [discriminate|].
    rewrite last_run_cons by discriminate. rewrite Hr. cbv beta iota zeta.
    destruct ((length (y :: r) =? length (x' :: l'))%nat && Bool.eqb (hbit n x) (hbit n y)) eqn:C.
    + apply andb_true_iff in C as [C1 C2]. apply Nat.eqb_eq in C1. apply eqb_prop in C2.
      assert (pre = []).
      { rewrite E, app_length in C1. destruct pre; [reflexivity|]. cbn [length] in C1. lia. }
      subst pre. cbn [app] in E. exists [], x, (x' :: l'). split; [reflexivity|].
      split; [reflexivity|]. rewrite E. intros z [<-|Hz]; [symmetry; exact C2|].
      rewrite C2. apply Hall; exact Hz.
    + exists (x :: pre), y, r. split; [cbn [app]; f_equal; exact E|]. split; [reflexivity|exact Hall].
Qed.

Lemma filter_negb_perm {A} (f : A -> bool) l :
  Permutation (filter (fun x => negb (f x)) l ++ filter f l) l.
Proof.
  induction l as [|x l IH]; cbn [filter]; [constructor|].
  destruct (f x); cbn [negb app].
  - apply Permutation_sym, Permutation_cons_app, Permutation_sym; exact IH.
  - constructor; exact IH.
Qed.

Lemma lb_split_spec n l lo hi :
  lb_split n l = (lo, hi) ->
  Permutation (lo ++ hi) l /\
  (forall x, In x lo -> hbit n x = false) /\ (forall x, In x hi -> hbit n x = true).
Proof.
  destruct l as [|x0 l0].
  - cbn. intros [= <- <-]. split; [constructor|]. split; intros ? [].
  - set (l := x0 :: l0). destruct (last_run_spec n l) as (pre & y & r & E & Hr & Hall); [discriminate|].
    unfold lb_split. rewrite Hr. cbv zeta.
    assert (Hpre : firstn (length l - length (y :: r)) l = pre).
    { rewrite E at 2. rewrite E, app_length, Nat.add_sub, firstn_app, firstn_all, Nat.sub_diag.
      cbn [firstn]. apply app_nil_r. }
    rewrite Hpre, !split_prefix_eq.
    assert (Hf : forall x, In x (filter (fun x => negb (hbit n x)) pre) -> hbit n x = false).
    { intros x Hx. apply filter_In in Hx as [_ Hx]. apply negb_true_iff in Hx. exact Hx. }
    assert (Ht : forall x, In x (filter (hbit n) pre) -> hbit n x = true).
    { intros x Hx. apply filter_In in Hx as [_ Hx]. exact Hx. }
    assert (Hp := filter_negb_perm (hbit n) pre).
    destruct (hbit n y) eqn:By; intros [= <- <-]; rewrite ?app_nil_r.
    + split; [|split].
      * rewrite E, app_assoc. apply Permutation_app_tail.
        etransitivity; [|exact Hp]. apply Permutation_app; apply Permutation_sym, Permutation_rev.
      * intros x Hx. apply in_rev in Hx. apply Hf; exact Hx.
      * intros x Hx. apply in_app_or in Hx as [Hx|[<-|Hx]].
        -- apply in_rev in Hx. apply Ht; exact Hx.
        -- exact By.
        -- apply Hall; exact Hx.
    + split; [|split].
      * rewrite E. rewrite <- app_assoc.
        etransitivity; [apply Permutation_app_head, Permutation_app_comm|].
        rewrite app_assoc. apply Permutation_app_tail.
        etransitivity; [|exact Hp]. apply Permutation_app; apply Permutation_sym, Permutation_rev.
      * intros x Hx. apply in_app_or in Hx as [Hx|[<-|Hx]].
        -- apply in_rev in Hx. apply Hf; exact Hx.
        -- exact By.
        -- apply Hall; exact Hx.
      * intros x Hx. apply in_rev in Hx. apply Ht; exact Hx.
Qed.

Lemma ord_split_spec n l lo hi :
  ord_split n l = (lo, hi) ->
  Permutation (lo ++ hi) l /\
  (forall x, In x lo -> hbit n x = false) /\ (forall x, In x hi -> hbit n x = true) /\
  (hi = [] -> lo = l) /\ (lo = [] -> hi = l).
Proof.
  unfold ord_split. intros [= <- <-]. split; [apply filter_negb_perm|]. split; [|split; [|split]].
  - intros x Hx. apply filter_In in Hx as [_ Hx]. apply negb_true_iff in Hx. exact Hx.
  - intros x Hx. apply filter_In in Hx as [_ Hx]. exact Hx.
  - induction l as [|x l IH]; cbn [filter]; [reflexivity|].
    destruct (hbit n x); cbn [negb]; [discriminate|]. intros H. f_equal. apply IH; exact H.
  - induction l as [|x l IH]; cbn [filter]; [reflexivity|].
    destruct (hbit n x); cbn [negb]; [|discriminate]. intros H. f_equal. apply IH; exact H.
Qed.

(* ------------------------------------------------------------------------------------------ *)
(** * Tables: get_bin, set_bin, the node listing *)

Lemma set_bin_cons0 a t b : set_bin (a :: t) 0 b = b :: t.
Proof. reflexivity. Qed.
Lemma set_bin_consS a t i b : set_bin (a :: t) (S i) b = a :: set_bin t i b.
Proof. reflexivity. Qed.

Lemma set_bin_length t i b : (i < length t)%nat -> length (set_bin t i b) = length t.
Proof.
  revert i. induction t as [|a t IH]; intros i Hi; cbn [length] in *; [lia|].
  destruct i; [reflexivity|]. rewrite set_bin_consS. cbn [length]. f_equal. apply IH. lia.
Qed.

Lemma set_bin_nth_error t i b j :
  (i < length t)%nat ->
  nth_error (set_bin t i b) j = if Nat.eqb j i then Some b else nth_error t j.
Proof.
  revert i j. induction t as [|a t IH]; intros i j Hi; cbn [length] in *; [lia|].
  destruct i.
  - rewrite set_bin_cons0. destruct j; reflexivity.
  - rewrite set_bin_consS. destruct j; [reflexivity|]. cbn [nth_error Nat.eqb]. apply IH. lia.
Qed.

Lemma get_bin_nth_error t i : (i < length t)%nat -> nth_error t i = Some (get_bin t i).
Proof. intros H. unfold get_bin. apply nth_error_nth'. exact H. Qed.

Lemma get_set_bin t i b : (i < length t)%nat -> get_bin (set_bin t i b) i = b.
Proof.
  intros H. assert (E := set_bin_nth_error t i b i H). rewrite Nat.eqb_refl in E.
  unfold get_bin. apply nth_error_nth with (d := BNull) in E. exact E.
Qed.

Lemma set_bin_self t i : (i < length t)%nat -> set_bin t i (get_bin t i) = t.
Proof.
  revert i. induction t as [|a t IH]; intros i Hi; cbn [length] in *; [lia|].
  destruct i; [reflexivity|]. rewrite set_bin_consS. unfold get_bin. cbn [nth].
  f_equal. apply IH. lia.
Qed.

Definition rest_of (t : list bin) (i : nat) : list node :=
  flat_map bin_nodes (firstn i t) ++ flat_map bin_nodes (skipn (S i) t).

Lemma nodes_set_perm t i b :
  Permutation (flat_map bin_nodes (set_bin t i b)) (bin_nodes b ++ rest_of t i).
Proof.
  unfold set_bin, rest_of. rewrite flat_map_app. cbn [flat_map]. apply Permutation_app_swap_app.
Qed.

Lemma nodes_get_perm t i :
  (i < length t)%nat -> Permutation (flat_map bin_nodes t) (bin_nodes (get_bin t i) ++ rest_of t i).
Proof. intros H. rewrite <- (set_bin_self t i H) at 1. apply nodes_set_perm. Qed.

Lemma in_nodes t n :
  In n (flat_map bin_nodes t) <-> exists j b, nth_error t j = Some b /\ In n (bin_nodes b).
Proof.
  rewrite in_flat_map. split.
  - intros (b & Hb & Hn). apply In_nth_error in Hb as [j Hj]. exists j, b. split; assumption.
  - intros (j & b & Hj & Hn). exists b. split; [eapply nth_error_In; exact Hj|exact Hn].
Qed.

Lemma tlen_set_bin t i b : (i < length t)%nat -> tlen (set_bin t i b) = tlen t.
Proof. intros H. unfold tlen. rewrite set_bin_length by exact H. reflexivity. Qed.

Lemma bini_set_bin t i b h : (i < length t)%nat -> bini (set_bin t i b) h = bini t h.
Proof. intros H. unfold bini. rewrite tlen_set_bin by exact H. reflexivity. Qed.

Lemma nodes_empty_table n : flat_map bin_nodes (empty_table n) = [].
Proof. unfold empty_table. induction (Z.to_nat n); [reflexivity|exact IHn0]. Qed.

(* ------------------------------------------------------------------------------------------ *)
(** * Well-formed tables, in Prop *)

Section Table.
Variable khash : N -> N.

Definition placed (len : Z) (i : nat) (n : node) : Prop :=
  nh n = khash (nk n) /\ N.to_nat (N.land (nh n) (Z.to_N len - 1)) = i.

Lemma node_placed_iff len i n : node_placed khash len i n = true <-> placed len i n.
Proof. unfold node_placed, placed. rewrite andb_true_iff, N.eqb_eq, Nat.eqb_eq. tauto. Qed.

Definition bin_ok (len : Z) (i : nat) (b : bin) : Prop :=
  match b with
  | BNull => True
  | BMoved => False
  | BList l => l <> [] /\ forall n, In n l -> placed len i n
  | BTree t => tb_b t = true /\ forall n, In n (tord t) -> placed len i n
  end.

Lemma forallb_placed len i l :
  forallb (node_placed khash len i) l = true <-> forall n, In n l -> placed len i n.
Proof.
  rewrite forallb_forall. split; intros H n Hn; apply node_placed_iff; apply H; exact Hn.
Qed.

Lemma bin_wf_iff len i b : bin_wf khash len i b = true <-> bin_ok len i b.
Proof.
  destruct b as [|l|t|]; cbn [bin_wf bin_ok].
  - tauto.
  - rewrite andb_true_iff, negb_true_iff, forallb_placed. destruct l; split; intros [H1 H2];
      (split; [congruence|exact H2]).
  - rewrite andb_true_iff, forallb_placed. tauto.
  - split; [discriminate|tauto].
Qed.

Lemma bins_wf_iff len off t :
  bins_wf khash len off t = true <->
  forall j b, nth_error t j = Some b -> bin_ok len (off + j) b.
Proof.
  revert off. induction t as [|a t IH]; intros off; cbn [bins_wf].
  - split; [intros _ j b H; destruct j; discriminate|reflexivity].
  - rewrite andb_true_iff, bin_wf_iff, IH. split.
    + intros [H1 H2] j b Hj. destruct j; cbn [nth_error] in Hj.
      * injection Hj as <-. rewrite Nat.add_0_r. exact H1.
      * replace (off + S j)%nat with (S off + j)%nat by lia. apply H2. exact Hj.
    + intros H. split.
      * specialize (H O a eq_refl). rewrite Nat.add_0_r in H. exact H.
      * intros j b Hj. replace (S off + j)%nat with (off + S j)%nat by lia. apply H. exact Hj.
Qed.

Lemma bin_ok_placed len i b n : bin_ok len i b -> In n (bin_nodes b) -> placed len i n.
Proof. destruct b; cbn [bin_ok bin_nodes In]; try tauto; intros [_ H]; apply H. Qed.

Lemma bin_ok_not_moved len i b : bin_ok len i b -> b <> BMoved.
Proof. destruct b; cbn [bin_ok]; [discriminate..|tauto]. Qed.

Definition WFT (t : list bin) : Prop :=
  (exists j : nat, (j <= 30)%nat /\ length t = (2 ^ j)%nat) /\
  (forall i b, nth_error t i = Some b -> bin_ok (tlen t) i b) /\
  NoDup (keys (flat_map bin_nodes t)).

Lemma tlen_pow2 t (j : nat) : length t = (2 ^ j)%nat -> tlen t = 2 ^ Z.of_nat j.
Proof. intros H. unfold tlen. rewrite H. apply pow2_nat_Z. Qed.

Lemma pow2_len_iff t :
  is_pow2 (tlen t) = true /\ tlen t <= MAXIMUM_CAPACITY <->
  exists j : nat, (j <= 30)%nat /\ length t = (2 ^ j)%nat.
Proof.
  rewrite MAXIMUM_CAPACITY_eq. split.
  - intros [H1 H2]. apply is_pow2_spec in H1 as [j Hj]. exists j. split.
    + apply pow2_Z_inj_le. rewrite <- Hj. exact H2.
    + unfold tlen in Hj. rewrite <- pow2_nat_Z in Hj. apply Nat2Z.inj in Hj. exact Hj.
  - intros (j & Hj & E). rewrite (tlen_pow2 t j E). split; [apply is_pow2_intro|].
    change 30 with (Z.of_nat 30). apply Z.pow_le_mono_r; lia.
Qed.

Lemma wf_b_some t sc0 cnt0 :
  wf_b khash (mkSt (Some t) sc0 cnt0) = true <->
  WFT t /\ cnt0 = Z.of_nat (length (flat_map bin_nodes t)) /\ sc0 = load_factor (tlen t).
Proof.
  unfold wf_b, WFT. cbn [tbl sc cnt nodes].
  rewrite !andb_true_iff, bins_wf_iff, nodup_keys_iff, !Z.eqb_eq, Z.leb_le.
  rewrite <- pow2_len_iff. cbn [Nat.add]. tauto.
Qed.

Lemma WFT_bini_lt t h : WFT t -> (bini t h < length t)%nat.
Proof.
  intros ((j & _ & E) & _). unfold bini. rewrite (tlen_pow2 t j E), mask_pow2, E.
  apply land_mask_lt.
Qed.

Lemma WFT_len_pos t : WFT t -> (0 < length t)%nat.
Proof. intros ((j & _ & E) & _). rewrite E. apply pow2_nat_pos. Qed.

Lemma WFT_len_bounds t : WFT t -> 1 <= tlen t <= MAXIMUM_CAPACITY.
Proof.
  intros H. pose proof (WFT_len_pos t H). destruct H as (Hp & _).
  apply pow2_len_iff in Hp as [_ Hp]. unfold tlen in *. lia.
Qed.

Lemma WFT_bin_ok t i : WFT t -> (i < length t)%nat -> bin_ok (tlen t) i (get_bin t i).
Proof. intros (_ & H & _) Hi. apply H. apply get_bin_nth_error. exact Hi. Qed.

(* where a key can be: only in the bin its hash selects *)
Lemma WFT_node_bin t n :
  WFT t -> In n (flat_map bin_nodes t) ->
  nh n = khash (nk n) /\ In n (bin_nodes (get_bin t (bini t (khash (nk n))))).
Proof.
  intros H Hn. apply in_nodes in Hn as (j & b & Hj & Hn).
  destruct H as (_ & Hb & _). pose proof (bin_ok_placed _ _ _ _ (Hb j b Hj) Hn) as [P1 P2].
  split; [exact P1|]. rewrite <- P1. unfold bini. rewrite P2.
  unfold get_bin. rewrite (nth_error_nth _ _ _ Hj). exact Hn.
Qed.

Lemma WFT_hk_ok t : WFT t -> hk_ok khash (flat_map bin_nodes t).
Proof. intros H n Hn. apply (WFT_node_bin t n H Hn). Qed.

Lemma WFT_bin_hk_ok t i : WFT t -> (i < length t)%nat -> hk_ok khash (bin_nodes (get_bin t i)).
Proof.
  intros H Hi n Hn. apply (WFT_hk_ok t H). apply in_nodes. exists i, (get_bin t i).
  split; [apply get_bin_nth_error; exact Hi|exact Hn].
Qed.

Lemma WFT_lookup t k :
  WFT t ->
  lookup (flat_map bin_nodes t) k = lookup (bin_nodes (get_bin t (bini t (khash k)))) k.
Proof.
  intros H. pose proof (WFT_bini_lt t (khash k) H) as Hi.
  destruct H as (Hp & Hb & Hd). set (i := bini t (khash k)) in *.
  destruct (lookup (bin_nodes (get_bin t i)) k) as [n|] eqn:E.
  - apply lookup_some in E as [E1 <-]. apply lookup_in; [exact Hd|].
    apply in_nodes. exists i, (get_bin t i). split; [apply get_bin_nth_error; exact Hi|exact E1].
  - destruct (lookup (flat_map bin_nodes t) k) as [n|] eqn:E'; [|reflexivity]. exfalso.
    apply lookup_some in E' as [E1 E2].
    destruct (WFT_node_bin t n (conj Hp (conj Hb Hd)) E1) as [_ Hin]. rewrite E2 in Hin.
    exact (lookup_none _ _ E n Hin E2).
Qed.

(* replacing one bin *)
Lemma WFT_set_bin t i b :
  WFT t -> (i < length t)%nat -> bin_ok (tlen t) i b ->
  NoDup (keys (bin_nodes b ++ rest_of t i)) ->
  WFT (set_bin t i b).
Proof.
  intros (Hp & Hb & Hd) Hi Hok Hnd. split; [|split].
  - rewrite set_bin_length by exact Hi. exact Hp.
  - intros j b' Hj. rewrite tlen_set_bin by exact Hi. rewrite set_bin_nth_error in Hj by exact Hi.
    destruct (Nat.eqb_spec j i) as [->|Hne].
    + injection Hj as <-. exact Hok.
    + apply Hb. exact Hj.
  - eapply Permutation_NoDup; [|exact Hnd]. apply Permutation_sym, keys_perm, nodes_set_perm.
Qed.

Lemma WFT_rest_nodup t i :
  WFT t -> (i < length t)%nat -> NoDup (keys (bin_nodes (get_bin t i) ++ rest_of t i)).
Proof.
  intros (_ & _ & Hd) Hi. eapply Permutation_NoDup; [|exact Hd].
  apply keys_perm, nodes_get_perm. exact Hi.
Qed.

(* the empty table of length 2^j *)
Lemma WFT_empty (j : nat) : (j <= 30)%nat -> WFT (empty_table (2 ^ Z.of_nat j)).
Proof.
  intros Hj. split; [|split].
  - exists j. split; [exact Hj|]. unfold empty_table. rewrite repeat_length, <- pow2_nat_Z. lia.
  - intros i b Hi. apply nth_error_In in Hi. apply repeat_spec in Hi. subst b. exact I.
  - rewrite nodes_empty_table. constructor.
Qed.

Lemma tlen_empty_table n : 0 <= n -> tlen (empty_table n) = n.
Proof. intros H. unfold tlen, empty_table. rewrite repeat_length. lia. Qed.

(* the index of a node in the doubled table *)
Lemma to_N_pow2 (j : nat) : Z.to_N (2 ^ Z.of_nat j) = (2 ^ N.of_nat j)%N.
Proof. rewrite <- pow2_nat_Z, to_N_of_nat. apply pow2_nat_N. Qed.

Lemma placed_split (j : nat) i n :
  placed (2 ^ Z.of_nat j) i n ->
  placed (2 ^ Z.of_nat (S j)) (if hbit (Z.to_N (2 ^ Z.of_nat j)) n then i + 2 ^ j else i)%nat n.
Proof.
  unfold placed. rewrite !mask_pow2. intros [H1 H2]. split; [exact H1|].
  rewrite index_split, H2, to_N_pow2, hbit_pow2. destruct (N.testbit (nh n) (N.of_nat j)); lia.
Qed.

End Table.
