(* Pure lemmas used by BinProtoProofs: the assembly of a linearization from per-call
   linearization points along a trace of abstract states. *)
From Flurry Require Import Model.Lin Proofs.LinProofs.
From Coq Require Import List Bool Lia Permutation NArith.
Import ListNotations.

(* a linearization point: a writer owns step l (the transition from instant l-1 to instant l);
   a reader observes the state at instant j *)
Inductive point := PW (l : N) | PR (j : N).

Definition pt_pos (pt : point) : N := match pt with PW l => l | PR j => j end.
Fixpoint wpts (l : list point) : list N :=
  match l with [] => [] | PW l :: r => l :: wpts r | PR _ :: r => wpts r end.

(* ---------- generic helpers ---------- *)
Lemma wpts_app a b : wpts (a ++ b) = wpts a ++ wpts b.
Proof.
  induction a as [|[l|j] a IH]; cbn; [reflexivity | rewrite IH; reflexivity | exact IH].
Qed.

Lemma In_wpts l ps : In l (wpts ps) <-> In (PW l) ps.
Proof.
  induction ps as [|[k|j] ps IH]; cbn.
  - tauto.
  - rewrite IH. split; intros [H|H]; auto; left; congruence.
  - rewrite IH. split; [auto|]. intros [H|H]; [discriminate|exact H].
Qed.

Lemma wpts_perm a b : Permutation a b -> Permutation (wpts a) (wpts b).
Proof.
  induction 1 as [|x a b Hp IH|x y a|a b c H1 IH1 H2 IH2].
  - constructor.
  - destruct x; cbn; [apply perm_skip|]; exact IH.
  - destruct x, y; cbn; try apply Permutation_refl. apply perm_swap.
  - eapply Permutation_trans; eassumption.
Qed.

Lemma filter_split {A} (f : A -> bool) l :
  Permutation l (filter f l ++ filter (fun x => negb (f x)) l).
Proof.
  induction l as [|x l IH]; cbn; [constructor|].
  destruct (f x); cbn.
  - apply perm_skip, IH.
  - apply Permutation_cons_app, IH.
Qed.

Lemma legal_app a : forall st b,
  legal st (a ++ b) = match legal st a with Some st' => legal st' b | None => None end.
Proof.
  induction a as [|c a IH]; intros st b; cbn; [reflexivity|].
  destruct (kapply st (c_op c)); [apply IH|reflexivity].
Qed.

Lemma legal_stutter st l :
  (forall c, In c l -> kapply st (c_op c) = Some st) -> legal st l = Some st.
Proof.
  induction l as [|c l IH]; intros H; cbn; [reflexivity|].
  rewrite (H c (or_introl eq_refl)). apply IH. intros d Hd. apply H. right. exact Hd.
Qed.

Lemma respects_rt_all l :
  (forall c d, In c l -> In d l -> ~ before d c) -> respects_rt l.
Proof.
  induction l as [|c l IH]; intros H; cbn; [exact I|]. split.
  - intros d Hd. apply H; [left; reflexivity | right; exact Hd].
  - apply IH. intros c' d Hc Hd. apply H; right; assumption.
Qed.

Lemma respects_rt_app a b :
  respects_rt a -> respects_rt b ->
  (forall c d, In c a -> In d b -> ~ before d c) -> respects_rt (a ++ b).
Proof.
  induction a as [|c a IH]; intros Ha Hb H; cbn; [exact Hb|].
  cbn in Ha. destruct Ha as [Hc Ha]. split.
  - intros d Hd. apply in_app_or in Hd as [Hd|Hd];
      [apply Hc; exact Hd | apply H; [left; reflexivity|exact Hd]].
  - apply IH; [exact Ha|exact Hb|]. intros c' d Hc' Hd. apply H; [right; exact Hc'|exact Hd].
Qed.

Lemma NoDup_app_remove_r {A} (a b : list A) : NoDup (a ++ b) -> NoDup a.
Proof.
  induction a as [|x a IH]; cbn; intros H; [constructor|].
  inversion H as [|y l Hni Hnd]; subst. constructor; [|apply IH; exact Hnd].
  intros Hin. apply Hni, in_or_app. left. exact Hin.
Qed.

Lemma NoDup_app_remove_l {A} (a b : list A) : NoDup (a ++ b) -> NoDup b.
Proof.
  induction a as [|x a IH]; cbn; intros H; [exact H|].
  inversion H as [|y l Hni Hnd]; subst. apply IH. exact Hnd.
Qed.

Lemma optZ_dec (a b : option Z) : {a = b} + {a <> b}.
Proof. decide equality. apply Z.eq_dec. Qed.

Lemma at_most_one k (l : list (kcall * point)) :
  (forall x, In x l -> snd x = PW k) -> NoDup (wpts (map snd l)) ->
  l = [] \/ exists x, l = [x].
Proof.
  intros H Hnd.
  destruct l as [|x [|y r]]; [left; reflexivity | right; exists x; reflexivity | exfalso].
  assert (Ex := H x (or_introl eq_refl)).
  assert (Ey := H y (or_intror (or_introl eq_refl))).
  cbn in Hnd. rewrite Ex, Ey in Hnd. cbn in Hnd.
  inversion Hnd as [|a b Hni Hnd']. apply Hni. left. reflexivity.
Qed.

Definition isold (n : N) (x : kcall * point) : bool := (pt_pos (snd x) <=? n)%N.
Definition isw (x : kcall * point) : bool :=
  match snd x with PW _ => true | PR _ => false end.

Section Assemble.
Variable tr : N -> option Z.   (* abstract value of the key at every instant *)

Definition valid_pt (c : kcall) (pt : point) : Prop :=
  match pt with
  | PW l => (c_inv c < l <= c_res c)%N /\ kapply (tr (l - 1)%N) (c_op c) = Some (tr l)
  | PR j => (c_inv c <= j <= c_res c)%N /\ kapply (tr j) (c_op c) = Some (tr j)
  end.

Theorem assemble : forall (n : N) (cs : list (kcall * point)),
  (forall c pt, In (c, pt) cs -> valid_pt c pt /\ (pt_pos pt <= n)%N) ->
  NoDup (wpts (map snd cs)) ->
  (forall l, (0 < l <= n)%N -> tr (l - 1)%N <> tr l -> In l (wpts (map snd cs))) ->
  linearizable (tr 0%N) (map fst cs) (Some (tr n)).
Proof.
  intros n. induction n as [|n IH] using N.peano_ind; intros cs Hv Hnd Hcov.
  - (* instant 0: only readers of the initial state *)
    exists (map fst cs), (tr 0%N).
    split; [apply Permutation_refl|]. split; [|split; [|reflexivity]].
    + apply respects_rt_all. intros c d Hc Hd Hb.
      apply in_map_iff in Hc as ([c' pt] & Ec & Hc). cbn in Ec. subst c'.
      destruct (Hv _ _ Hc) as [Hvp Hpos]. unfold before in Hb.
      destruct pt as [l|j]; cbn in Hvp, Hpos; destruct Hvp as [Hr _]; lia.
    + apply legal_stutter. intros c Hc.
      apply in_map_iff in Hc as ([c' pt] & Ec & Hc). cbn in Ec. subst c'.
      destruct (Hv _ _ Hc) as [Hvp Hpos].
      destruct pt as [l|j]; cbn in Hvp, Hpos; destruct Hvp as [Hr Hk].
      * lia.
      * assert (Ej : j = 0%N) by lia. subst j. exact Hk.
  - (* instants <= n first, then the writer of step n+1 (if any), then the readers of n+1 *)
    set (old := filter (isold n) cs).
    set (new := filter (fun x => negb (isold n x)) cs).
    set (nw := filter isw new).
    set (nr := filter (fun x => negb (isw x)) new).
    assert (Hp1 : Permutation cs (old ++ new)) by apply filter_split.
    assert (Hp2 : Permutation new (nw ++ nr)) by apply filter_split.
    assert (Hold : forall c pt, In (c, pt) old -> valid_pt c pt /\ (pt_pos pt <= n)%N).
    { intros c pt Hin. apply filter_In in Hin as [Hin Hf]. unfold isold in Hf. cbn in Hf.
      apply N.leb_le in Hf. split; [apply (Hv _ _ Hin)|exact Hf]. }
    assert (Hnew : forall c pt, In (c, pt) new -> valid_pt c pt /\ pt_pos pt = N.succ n).
    { intros c pt Hin. apply filter_In in Hin as [Hin Hf]. unfold isold in Hf. cbn in Hf.
      apply negb_true_iff, N.leb_gt in Hf. destruct (Hv _ _ Hin) as [Hvp Hpos].
      split; [exact Hvp|lia]. }
    assert (Hpw : Permutation (wpts (map snd cs))
                    (wpts (map snd old) ++ wpts (map snd nw) ++ wpts (map snd nr))).
    { rewrite <- !wpts_app, <- !map_app. apply wpts_perm, Permutation_map.
      eapply Permutation_trans; [exact Hp1|]. apply Permutation_app_head. exact Hp2. }
    assert (Hnd' := Permutation_NoDup Hpw Hnd).
    assert (Hndold : NoDup (wpts (map snd old))).
    { apply NoDup_app_remove_r in Hnd'. exact Hnd'. }
    assert (Hndnw : NoDup (wpts (map snd nw))).
    { apply NoDup_app_remove_l, NoDup_app_remove_r in Hnd'. exact Hnd'. }
    assert (Hcovold : forall l, (0 < l <= n)%N -> tr (l - 1)%N <> tr l ->
                                In l (wpts (map snd old))).
    { intros l Hl Hne. apply In_wpts, in_map_iff.
      assert (Hin : In l (wpts (map snd cs))) by (apply Hcov; [lia|exact Hne]).
      apply In_wpts, in_map_iff in Hin as ([c pt] & E & Hin). cbn in E. subst pt.
      exists (c, PW l). split; [reflexivity|]. apply filter_In. split; [exact Hin|].
      unfold isold. cbn. apply N.leb_le. lia. }
    destruct (IH old Hold Hndold Hcovold) as (oo & st & Hpo & Hrto & Hlo & Hfo).
    cbn in Hfo. subst st.
    assert (Hnewc : forall c, In c (map fst (nw ++ nr)) -> (c_inv c <= N.succ n <= c_res c)%N).
    { intros c Hc. apply in_map_iff in Hc as ([c' pt] & E & Hc). cbn in E. subst c'.
      apply (Permutation_in _ (Permutation_sym Hp2)) in Hc.
      destruct (Hnew _ _ Hc) as [Hvp Hpos].
      destruct pt as [l|j]; cbn in Hvp, Hpos; destruct Hvp as [Hr _]; lia. }
    assert (Holdc : forall c, In c oo -> (c_inv c <= n)%N).
    { intros c Hc. apply (Permutation_in _ Hpo) in Hc.
      apply in_map_iff in Hc as ([c' pt] & E & Hc). cbn in E. subst c'.
      destruct (Hold _ _ Hc) as [Hvp Hpos].
      destruct pt as [l|j]; cbn in Hvp, Hpos; destruct Hvp as [Hr _]; lia. }
    assert (Hnwall : forall x, In x nw -> snd x = PW (N.succ n)).
    { intros [c pt] Hx. apply filter_In in Hx as [Hx Hf].
      destruct (Hnew _ _ Hx) as [_ Hpos].
      destruct pt as [l|j]; [|cbn in Hf; discriminate Hf].
      cbn in Hpos. cbn. congruence. }
    assert (Hrd : legal (tr (N.succ n)) (map fst nr) = Some (tr (N.succ n))).
    { apply legal_stutter. intros c Hc.
      apply in_map_iff in Hc as ([c' pt] & E & Hc). cbn in E. subst c'.
      apply filter_In in Hc as [Hc Hf]. destruct (Hnew _ _ Hc) as [Hvp Hpos].
      destruct pt as [l|j]; [cbn in Hf; discriminate Hf|].
      cbn in Hvp, Hpos. subst j. apply Hvp. }
    exists (oo ++ map fst (nw ++ nr)), (tr (N.succ n)).
    split; [|split; [|split; [|reflexivity]]].
    + eapply Permutation_trans; [|apply Permutation_sym, Permutation_map, Hp1].
      rewrite (map_app fst old new). apply Permutation_app; [exact Hpo|].
      apply Permutation_map, Permutation_sym, Hp2.
    + apply respects_rt_app.
      * exact Hrto.
      * apply respects_rt_all. intros c d Hc Hd Hb. apply Hnewc in Hc, Hd.
        unfold before in Hb. lia.
      * intros c d Hc Hd Hb. apply Holdc in Hc. apply Hnewc in Hd.
        unfold before in Hb. lia.
    + rewrite legal_app, Hlo. cbv beta iota.
      rewrite (map_app fst nw nr), legal_app.
      destruct (at_most_one _ _ Hnwall Hndnw) as [E|[[c pt] E]].
      * rewrite E. cbn [map legal].
        assert (Heq : tr n = tr (N.succ n)).
        { destruct (optZ_dec (tr n) (tr (N.succ n))) as [e|ne]; [exact e|exfalso].
          assert (Hin : In (N.succ n) (wpts (map snd cs))).
          { apply Hcov; [lia|]. replace (N.succ n - 1)%N with n by lia. exact ne. }
          apply In_wpts, in_map_iff in Hin as ([c pt] & Ept & Hin). cbn in Ept. subst pt.
          assert (Hinw : In (c, PW (N.succ n)) nw).
          { apply filter_In. split; [|reflexivity]. apply filter_In. split; [exact Hin|].
            unfold isold. cbn. apply negb_true_iff, N.leb_gt. lia. }
          rewrite E in Hinw. exact Hinw. }
        rewrite Heq. exact Hrd.
      * assert (Hx : In (c, pt) nw) by (rewrite E; left; reflexivity).
        pose proof (Hnwall _ Hx) as Ept. cbn in Ept. subst pt.
        apply filter_In in Hx as [Hx _]. destruct (Hnew _ _ Hx) as [[Hr Hk] _].
        replace (N.succ n - 1)%N with n in Hk by lia.
        rewrite E. cbn [map legal fst]. rewrite Hk. cbv beta iota. exact Hrd.
Qed.
End Assemble.

Print Assumptions assemble.
