(* The observer's predicate on the event log of one resize (Model/ResizeLog.v, log_ok) holds of the
   log of every reachable configuration of the resize protocol model (Model/ResizeProto.v), for every
   legal table length, any number of threads and any schedule.  Built on the invariants of
   Proofs/ResizeProofs.v; the only new invariant is that the finisher's exit (ELeft _ true) and the
   publication event are emitted together. *)
From Flurry Require Import Model.ResizeLog Proofs.ArithProofs Proofs.ResizeProofs.
From Coq Require Import ZArith Lia List Bool Arith.
Import ListNotations.
(* ResizeProofs has its own (different) log_ok and cnt; the ones meant here are ResizeLog's *)
Import ResizeLog.
Open Scope Z_scope.

(* ---------- small facts about cnt ---------- *)

Lemma cnt_count_ev f c : cnt f (c_log c) = count_ev f c.
Proof. reflexivity. Qed.

Lemma in_cnt_pos (f : event -> bool) e l : In e l -> f e = true -> (1 <= cnt f l)%nat.
Proof.
  intros Hin Hf. unfold cnt.
  assert (H : In e (filter f l)) by (apply filter_In; split; assumption).
  destruct (filter f l); [contradiction|cbn [length]; lia].
Qed.

Lemma in_migrated_cnt_pos i l : In (EMigrated i) l -> (1 <= cnt (is_migrated i) l)%nat.
Proof. intros H. apply (in_cnt_pos _ _ _ H). cbn. apply Nat.eqb_refl. Qed.

Lemma is_init_ev_eq e : is_init_ev e = is_init e.
Proof. destruct e as [| |t b|t b]; try reflexivity; destruct b; reflexivity. Qed.

Lemma cnt_init_ev l : cnt is_init_ev l = length (filter is_init l).
Proof. unfold cnt. rewrite (filter_ext _ _ is_init_ev_eq). reflexivity. Qed.

(* ---------- the finisher leaves exactly when it publishes ---------- *)

Definition fin_pub (c : cfg) : Prop :=
  cnt is_finisher_left (c_log c) = cnt is_published (c_log c).

Ltac case_if :=
  match goal with
  | |- context [if ?b then _ else _] => destruct b eqn:?
  | |- context [match ?b with BEmpty => _ | BFull => _ | BFwd => _ end] => destruct b eqn:?
  end.

Lemma fin_pub_step n ncpu c t : fin_pub c -> fin_pub (step n ncpu c t).
Proof.
  unfold fin_pub, cnt. intros H. unfold step.
  destruct (thr c t) as [ph p]; destruct p; try destruct ph; cbn -[Nat.eqb]; repeat case_if;
    cbn [c_log upd_thr c_emit c_set_sc c_set_ti c_set_nt c_set_swapped c_set_bin
         filter is_finisher_left is_published length];
    try exact H; try (f_equal; exact H).
Qed.

Lemma fin_pub_env c i : fin_pub c -> fin_pub (env_flip c i).
Proof.
  unfold fin_pub, env_flip. intros H. destruct (c_bin c i); exact H.
Qed.

Lemma fin_pub_act n ncpu c a : fin_pub c -> fin_pub (act n ncpu c a).
Proof. destruct a; [apply fin_pub_step|apply fin_pub_env]. Qed.

Lemma fin_pub_run n ncpu c sched : fin_pub c -> fin_pub (run n ncpu c sched).
Proof.
  revert c. induction sched as [|a s IH]; intros c H; [exact H|].
  cbn [run fold_left]. apply IH. apply fin_pub_act. exact H.
Qed.

Theorem finisher_left_iff_published n ncpu sc0 bins0 k sched :
  cnt is_finisher_left (c_log (run n ncpu (init sc0 bins0 k) sched)) =
  cnt is_published (c_log (run n ncpu (init sc0 bins0 k) sched)).
Proof. apply fin_pub_run. reflexivity. Qed.

(* ---------- the theorem ---------- *)

Theorem model_logs_ok : forall n ncpu sc0 bins0 k sched,
  In n table_lengths -> 0 <= sc0 -> length bins0 = Z.to_nat n -> ~ In BFwd bins0 ->
  log_ok (Z.to_nat n) (c_log (run n ncpu (init sc0 bins0 k) sched)) = true.
Proof.
  intros n ncpu sc0 bins0 k sched Hn Hsc0 Hlen Hnf.
  pose proof (each_bin_once n ncpu sc0 bins0 k Hn Hsc0 Hlen Hnf sched) as H1.
  pose proof (migrated_iff_fwd n ncpu sc0 bins0 k Hn Hsc0 Hlen Hnf sched) as H1'.
  pose proof (migrated_in_range n ncpu sc0 bins0 k Hn Hsc0 Hlen Hnf sched) as H2.
  pose proof (single_publisher n ncpu sc0 bins0 k Hn Hsc0 Hlen Hnf sched) as H3.
  pose proof (single_initiator n ncpu sc0 bins0 k Hn Hsc0 Hlen Hnf sched) as H4.
  pose proof (published_after_all_migrated n ncpu sc0 bins0 k Hn Hsc0 Hlen Hnf sched) as H6.
  pose proof (finisher_left_iff_published n ncpu sc0 bins0 k sched) as H5.
  set (c := run n ncpu (init sc0 bins0 k) sched) in *.
  unfold count_ev in *. fold (cnt is_published (c_log c)) in *.
  unfold log_ok. rewrite !andb_true_iff. repeat split.
  - (* each bin at most once *)
    apply forallb_forall. intros i _. apply Nat.leb_le. exact (H1 i).
  - (* only bins of the table *)
    apply forallb_forall. intros e He. destruct e as [i| | |]; cbn [migrated_index]; try reflexivity.
    apply Nat.ltb_lt. destruct (Nat.lt_ge_cases i (Z.to_nat n)) as [Hlt|Hge]; [exact Hlt|].
    exfalso. apply in_migrated_cnt_pos in He. specialize (H2 i Hge). unfold cnt in He. lia.
  - (* one publication *)
    apply Nat.leb_le. exact H3.
  - (* one initiator *)
    apply Nat.leb_le. rewrite cnt_init_ev. exact H4.
  - (* one finisher *)
    apply Nat.leb_le. rewrite H5. exact H3.
  - (* published: every bin exactly once *)
    destruct (Nat.eqb_spec (cnt is_published (c_log c)) 1) as [E|_]; [|reflexivity].
    apply forallb_forall. intros i Hi. apply in_seq in Hi. apply Nat.eqb_eq.
    apply (H1' i); [lia|].
    specialize (H6 E). apply (all_fwd_iff c) in H6. unfold c_bin. apply H6. lia.
Qed.

(* ---------- non-vacuity ---------- *)

(* two threads, 16 bins, round robin with two environment actions in between: the resize runs to
   its publication; the log holds the 16 migrations (each once), one publication, one initiator,
   one finisher, and satisfies log_ok *)
Definition rr2 (m : nat) : list action := concat (repeat [AThread 0%nat; AThread 1%nat] m).
Definition lsched : list action := rr2 5 ++ [AEnv 3%nat; AEnv 9%nat] ++ rr2 100.
Definition llog : list event := c_log (run 16 4 (init 12 (repeat BFull 16) 2) lsched).

Example llog_ok :
  log_ok 16 llog = true /\
  cnt is_published llog = 1%nat /\
  forallb (fun i => Nat.eqb (cnt (is_migrated i) llog) 1) (seq 0 16) = true /\
  cnt is_init_ev llog = 1%nat /\ cnt is_finisher_left llog = 1%nat /\
  cnt (fun e => match e with EEntered _ false => true | _ => false end) llog = 1%nat.
Proof. vm_compute. repeat split; reflexivity. Qed.

(* the predicate is not trivially true *)
Example log_ok_rejects_double_migration : log_ok 2 [EMigrated 0; EMigrated 0] = false.
Proof. vm_compute. reflexivity. Qed.
Example log_ok_rejects_early_publication : log_ok 2 [EPublished; EMigrated 0] = false.
Proof. vm_compute. reflexivity. Qed.
Example log_ok_rejects_out_of_range : log_ok 2 [EMigrated 2] = false.
Proof. vm_compute. reflexivity. Qed.
Example log_ok_rejects_two_publications :
  log_ok 2 [EPublished; EPublished; EMigrated 1; EMigrated 0] = false.
Proof. vm_compute. reflexivity. Qed.
Example log_ok_rejects_two_finishers :
  log_ok 1 [ELeft 1 true; ELeft 0 true; EPublished; EMigrated 0] = false.
Proof. vm_compute. reflexivity. Qed.
Example log_ok_accepts_complete : log_ok 2 [ELeft 0 true; EPublished; EMigrated 0; EMigrated 1; EEntered 0 true] = true.
Proof. vm_compute. reflexivity. Qed.

Print Assumptions finisher_left_iff_published.
Print Assumptions model_logs_ok.
