(* Linearizability of the list-bin protocol (C01, C08 stage S1). *)
From Flurry Require Import Model.BinProto Proofs.LinProofs.
From Coq Require Import List Bool Lia Permutation NArith Arith.
From Hammer Require Import Tactics.
Import ListNotations.
Local Open Scope nat_scope.

(* ====================================================================== *)
(* Layer 0: lists                                                          *)
(* ====================================================================== *)

Lemma upd_list_cons {A} (a : A) l i x : upd_list (a :: l) (S i) x = a :: upd_list l i x.
Proof. reflexivity. Qed.

Lemma upd_list_length {A} (l : list A) i x : i < length l -> length (upd_list l i x) = length l.
Proof.
  revert i. induction l as [|a l IH]; intros [|i] Hi; cbn [length] in *; try lia.
  - reflexivity.
  - rewrite upd_list_cons. cbn [length]. rewrite IH; lia.
Qed.

Lemma nth_upd_same {A} (l : list A) i x d : i < length l -> nth i (upd_list l i x) d = x.
Proof.
  revert i. induction l as [|a l IH]; intros [|i] Hi; cbn [length] in *; try lia.
  - reflexivity.
  - rewrite upd_list_cons. cbn [nth]. apply IH. lia.
Qed.

Lemma nth_upd_other {A} (l : list A) i j x d : i < length l -> j <> i -> nth j (upd_list l i x) d = nth j l d.
Proof.
  revert i j. induction l as [|a l IH]; intros [|i] [|j] Hi Hj; cbn [length] in *; try lia; try reflexivity.
  rewrite upd_list_cons. cbn [nth]. apply IH; lia.
Qed.

Lemma nth_app_new {A} (l : list A) x d : nth (length l) (l ++ [x]) d = x.
Proof. rewrite app_nth2 by lia. rewrite Nat.sub_diag. reflexivity. Qed.

Lemma NoDup_map_inj {A B} (f : A -> B) l : NoDup (map f l) -> NoDup l.
Proof.
  induction l as [|a l IH]; cbn; intros H; [constructor|].
  inversion H as [|? ? Hn Hd]; subst. constructor; [|auto].
  intros Hin. apply Hn. apply in_map. exact Hin.
Qed.

Lemma NoDup_bounded_length (l : list nat) n : NoDup l -> Forall (fun a => a < n) l -> length l <= n.
Proof.
  intros Hnd Hf. rewrite <- (seq_length n 0). apply NoDup_incl_length; [exact Hnd|].
  intros a Ha. rewrite Forall_forall in Hf. apply in_seq. specialize (Hf a Ha). lia.
Qed.

Lemma NoDup_app_single {A} (l : list A) x : NoDup l /\ ~ In x l -> NoDup (l ++ [x]).
Proof.
  intros [Hn Hx]. induction l as [|a l IH]; cbn; [constructor; [intros []|constructor]|].
  inversion Hn as [|? ? Ha Hn']; subst. constructor.
  - intros Hin. apply in_app_or in Hin as [Hin|[->|[]]]; [contradiction|]. apply Hx. left. reflexivity.
  - apply IH; [exact Hn'|]. intros Hin. apply Hx. right. exact Hin.
Qed.

Lemma NoDup_app_l {A} (a b : list A) : NoDup (a ++ b) -> NoDup a.
Proof.
  induction a as [|x a IH]; cbn; intros H; [constructor|]. inversion H as [|? ? Hx Hn]; subst.
  constructor; [|auto]. intros Hin. apply Hx. apply in_or_app. left. exact Hin.
Qed.
Lemma NoDup_app_r {A} (a b : list A) : NoDup (a ++ b) -> NoDup b.
Proof. induction a as [|x a IH]; cbn; intros H; [exact H|]. inversion H; subst. auto. Qed.
Lemma NoDup_app_disj {A} (a b : list A) x : NoDup (a ++ b) -> In x a -> In x b -> False.
Proof.
  induction a as [|y a IH]; cbn; intros H Ha Hb; [contradiction|]. inversion H as [|? ? Hy Hn]; subst.
  destruct Ha as [->|Ha]; [apply Hy; apply in_or_app; right; exact Hb|]. eapply IH; eassumption.
Qed.

(* ====================================================================== *)
(* Layer 0b: shared-memory accessors under updates                        *)
(* ====================================================================== *)

Definition dcell := mkCell 0 0 None.
Definition cellh (hp : list cell) (a : nat) : cell := nth a hp dcell.
Lemma cell_at_cellh s a : cell_at s a = cellh (heap s) a.
Proof. reflexivity. Qed.

Lemma cell_at_set_cell_same s a c : a < length (heap s) -> cell_at (set_cell s a c) a = c.
Proof. intros H. unfold cell_at, set_cell. cbn. apply nth_upd_same. exact H. Qed.
Lemma cell_at_set_cell_other s a c b : a < length (heap s) -> b <> a -> cell_at (set_cell s a c) b = cell_at s b.
Proof. intros H Hn. unfold cell_at, set_cell. cbn. apply nth_upd_other; assumption. Qed.
Lemma bin_at_set_bin_same s i h : i < length (bins s) -> bin_at (set_bin s i h) i = h.
Proof. intros H. unfold bin_at, set_bin. cbn. apply nth_upd_same. exact H. Qed.
Lemma bin_at_set_bin_other s i h j : i < length (bins s) -> j <> i -> bin_at (set_bin s i h) j = bin_at s j.
Proof. intros H Hn. unfold bin_at, set_bin. cbn. apply nth_upd_other; assumption. Qed.
Lemma lock_at_set_lock_same s a o : a < length (locks s) -> lock_at (set_lock s a o) a = o.
Proof. intros H. unfold lock_at, set_lock. cbn. apply nth_upd_same. exact H. Qed.
Lemma lock_at_set_lock_other s a o b : a < length (locks s) -> b <> a -> lock_at (set_lock s a o) b = lock_at s b.
Proof. intros H Hn. unfold lock_at, set_lock. cbn. apply nth_upd_other; assumption. Qed.

Lemma lock_at_lt s a t : lock_at s a = Some t -> a < length (locks s).
Proof.
  unfold lock_at. intros H. destruct (Nat.lt_ge_cases a (length (locks s))) as [Hl|Hl]; [exact Hl|].
  rewrite nth_overflow in H by exact Hl. discriminate.
Qed.
Lemma bin_at_lt s i h : bin_at s i = Some h -> i < length (bins s).
Proof.
  unfold bin_at. intros H. destruct (Nat.lt_ge_cases i (length (bins s))) as [Hl|Hl]; [exact Hl|].
  rewrite nth_overflow in H by exact Hl. discriminate.
Qed.

Lemma cell_at_alloc_old s k v a : a < length (heap s) -> cell_at (fst (alloc s k v)) a = cell_at s a.
Proof. intros H. unfold cell_at, alloc. cbn. apply app_nth1. exact H. Qed.
Lemma cell_at_alloc_new s k v : cell_at (fst (alloc s k v)) (length (heap s)) = mkCell k v None.
Proof. unfold cell_at, alloc. cbn. apply nth_app_new. Qed.
Lemma lock_at_alloc s k v a : length (locks s) = length (heap s) -> lock_at (fst (alloc s k v)) a = lock_at s a.
Proof.
  intros HL. unfold lock_at, alloc. cbn.
  destruct (Nat.lt_ge_cases a (length (locks s))) as [Hl|Hl].
  - apply app_nth1. exact Hl.
  - rewrite (nth_overflow (locks s)) by exact Hl.
    destruct (Nat.eq_dec a (length (locks s))) as [->|Hn].
    + apply nth_app_new.
    + apply nth_overflow. rewrite app_length. cbn. lia.
Qed.

(* ====================================================================== *)
(* Layer 1: path segments                                                  *)
(* ====================================================================== *)

Inductive pseg (hp : list cell) : option nat -> list nat -> option nat -> Prop :=
| pseg_nil p : pseg hp p [] p
| pseg_cons a l q : pseg hp (cnext (cellh hp a)) l q -> pseg hp (Some a) (a :: l) q.

Lemma pseg_app hp p l1 m l2 q : pseg hp p l1 m -> pseg hp m l2 q -> pseg hp p (l1 ++ l2) q.
Proof. induction 1 as [|a l m' H IH]; cbn; intros H2; [exact H2|]. constructor. apply IH. exact H2. Qed.

Lemma pseg_app_inv hp l1 : forall p l2 q, pseg hp p (l1 ++ l2) q -> exists m, pseg hp p l1 m /\ pseg hp m l2 q.
Proof.
  induction l1 as [|a l1 IH]; cbn; intros p l2 q H.
  - exists p. split; [constructor|exact H].
  - inversion H as [|a' l' q' H']; subst. destruct (IH _ _ _ H') as (m & Ha & Hb).
    exists m. split; [constructor; exact Ha|exact Hb].
Qed.

Lemma pseg_cons_inv hp p a l q : pseg hp p (a :: l) q -> p = Some a /\ pseg hp (cnext (cellh hp a)) l q.
Proof. intros H. inversion H; subst. auto. Qed.

Lemma pseg_det hp p l : forall l', pseg hp p l None -> pseg hp p l' None -> l = l'.
Proof.
  revert p. induction l as [|a l IH]; intros p l' H1 H2.
  - inversion H1; subst. inversion H2; subst; reflexivity.
  - apply pseg_cons_inv in H1 as [-> H1]. inversion H2 as [|a' l2 q' H2']; subst.
    f_equal. eapply IH; eassumption.
Qed.

Lemma pseg_agree hp hp' p l q :
  (forall a, In a l -> cnext (cellh hp' a) = cnext (cellh hp a)) -> pseg hp p l q -> pseg hp' p l q.
Proof.
  intros Hag H. induction H as [|a l q H IH]; [constructor|].
  constructor. rewrite Hag by (left; reflexivity). apply IH. intros b Hb. apply Hag. right. exact Hb.
Qed.

Lemma pseg_mid hp p pre a l2 : pseg hp p (pre ++ a :: l2) None -> pseg hp (cnext (cellh hp a)) l2 None.
Proof.
  intros H. apply pseg_app_inv in H as (m & _ & H). apply pseg_cons_inv in H as [_ H]. exact H.
Qed.

Lemma pseg_next_some hp q l : pseg hp (Some q) l None -> exists l', l = q :: l'.
Proof. intros H. inversion H; subst. eauto. Qed.
Lemma pseg_next_none hp l : pseg hp None l None -> l = [].
Proof. intros H. inversion H; subst. reflexivity. Qed.

(* ====================================================================== *)
(* Layer 1: the shared-memory invariant                                    *)
(* ====================================================================== *)
Section Inv.
Variable khash : N -> N.
Variable nbins : nat.
Hypothesis nbins_pos : 0 < nbins.
Notation bini := (bini khash nbins).
Notation get_thr := BinProto.get_thr.
Notation step := (step khash nbins).
Notation run := (run khash nbins).

Lemma bini_lt k : bini k < nbins.
Proof.
  unfold BinProto.bini. pose proof (N.mod_upper_bound (khash k) (N.of_nat nbins)) as H. lia.
Qed.

Definition keyat (s : shared) (a : nat) : N := ckey (cell_at s a).

(* l is the live list of bin i *)
Definition bin_ok (s : shared) (i : nat) (l : list nat) : Prop :=
  pseg (heap s) (bin_at s i) l None /\
  Forall (fun a => a < length (heap s) /\ bini (keyat s a) = i) l /\
  NoDup (map (keyat s) l).

(* next pointers go to strictly larger, allocated addresses *)
Definition ptr_inc (s : shared) : Prop :=
  forall a q, a < length (heap s) -> cnext (cell_at s a) = Some q -> a < q < length (heap s).

Definition sh_inv (s : shared) : Prop :=
  length (bins s) = nbins /\ length (locks s) = length (heap s) /\ ptr_inc s /\
  forall i, i < nbins -> exists l, bin_ok s i l.

Lemma bin_ok_det s i l l' : bin_ok s i l -> bin_ok s i l' -> l = l'.
Proof. intros (H & _) (H' & _). eapply pseg_det; eassumption. Qed.

Lemma bin_ok_nodup s i l : bin_ok s i l -> NoDup l.
Proof. intros (_ & _ & H). eapply NoDup_map_inj. exact H. Qed.

Lemma bin_ok_in s i l a : bin_ok s i l -> In a l -> a < length (heap s) /\ bini (keyat s a) = i.
Proof. intros (_ & H & _) Ha. rewrite Forall_forall in H. auto. Qed.

(* a write performed on behalf of bin i: other bins, and cells hashing to other bins, are untouched *)
Definition frame (s s' : shared) (i : nat) : Prop :=
  (forall j, j <> i -> bin_at s' j = bin_at s j) /\
  (forall a, a < length (heap s) -> bini (keyat s a) <> i -> cell_at s' a = cell_at s a) /\
  (forall a, a < length (heap s) -> keyat s' a = keyat s a) /\
  length (heap s) <= length (heap s').

Lemma frame_bin_ok s s' i j l : frame s s' i -> j <> i -> bin_ok s j l -> bin_ok s' j l.
Proof.
  intros (Fb & Fc & Fk & Fl) Hj (Hp & Hf & Hn). rewrite Forall_forall in Hf.
  assert (Hcell : forall a, In a l -> cell_at s' a = cell_at s a).
  { intros a Ha. destruct (Hf a Ha) as [Hlt Hb]. apply Fc; [exact Hlt|]. rewrite Hb. exact Hj. }
  split; [|split].
  - rewrite Fb by exact Hj. eapply pseg_agree; [|exact Hp].
    intros a Ha. rewrite <- !cell_at_cellh. rewrite Hcell by exact Ha. reflexivity.
  - apply Forall_forall. intros a Ha. destruct (Hf a Ha) as [Hlt Hb]. split; [lia|].
    unfold keyat. rewrite Hcell by exact Ha. exact Hb.
  - erewrite map_ext_in; [exact Hn|]. intros a Ha. unfold keyat. rewrite Hcell by exact Ha. reflexivity.
Qed.

Lemma sh_inv_frame s s' i :
  sh_inv s -> frame s s' i -> length (bins s') = nbins -> length (locks s') = length (heap s') ->
  ptr_inc s' -> (exists l, bin_ok s' i l) -> sh_inv s'.
Proof.
  intros (Hb & Hl & Hp & Hbins) Hfr Hb' Hl' Hp' Hi. split; [exact Hb'|]. split; [exact Hl'|]. split; [exact Hp'|].
  intros j Hj. destruct (Nat.eq_dec j i) as [->|Hne]; [exact Hi|].
  destruct (Hbins j Hj) as (l & Hok). exists l. eapply frame_bin_ok; eassumption.
Qed.

(* ---------- per-thread invariants ---------- *)
Definition pred_of (pre : list nat) (pred : option nat) : Prop :=
  match pred with None => pre = [] | Some p => exists pre', pre = pre' ++ [p] end.

(* thread t holds the lock of the current head h of bin (bini k), has walked over `pre` (no node of
   which has key k) and is at node p *)
Definition walking (s : shared) (t : nat) (k : N) (h : nat) (pre : list nat) (p : nat) : Prop :=
  lock_at s h = Some t /\ bin_at s (bini k) = Some h /\
  (exists l2, pseg (heap s) (Some h) (pre ++ p :: l2) None) /\
  Forall (fun a => keyat s a <> k) pre.

Definition pc_inv (s : shared) (t : nat) (p : pc) : Prop :=
  match p with
  | PStart _ | GWalk _ _ | PutCas _ _ _ | PDone => True
  | PutFast k v h => h < length (heap s) /\ keyat s h = k
  | PutLock _ _ _ h | RmLock _ h | CpLock _ _ h => h < length (heap s)
  | PutReval _ _ _ h | RmReval _ h | CpReval _ _ h | PutUnlock h _ _ => lock_at s h = Some t
  | PutWalk k _ _ h p => exists pre, walking s t k h pre p
  | RmWalk k h pred e | CpWalk k _ h pred e => exists pre, walking s t k h pre e /\ pred_of pre pred
  | RmFound k h pred e nxt | CpFound k _ h pred e nxt =>
      exists pre, walking s t k h pre e /\ pred_of pre pred /\ keyat s e = k /\ cnext (cell_at s e) = nxt
  | RmUnlink k h pred e nxt ev | CpApply k h pred e nxt ev _ =>
      exists pre, walking s t k h pre e /\ pred_of pre pred /\ keyat s e = k /\ cnext (cell_at s e) = nxt
                  /\ cval (cell_at s e) = ev
  end.

(* the mutex a thread holds, according to its pc *)
Definition held (p : pc) : option nat :=
  match p with
  | PutReval _ _ _ h | RmReval _ h | CpReval _ _ h | PutUnlock h _ _
  | PutWalk _ _ _ h _ | RmWalk _ h _ _ | CpWalk _ _ h _ _ | RmFound _ h _ _ _ | CpFound _ _ h _ _ _
  | RmUnlink _ h _ _ _ _ | CpApply _ h _ _ _ _ _ => Some h
  | _ => None
  end.

Definition put_op (k : N) (v : Z) (no_repl : bool) : opn := if no_repl then OTryInsert k v else OInsert k v.

(* the pc belongs to the operation recorded in `cur` *)
Definition pc_cur (p : pc) (o : opn) : Prop :=
  match p with
  | PStart o' => o = o'
  | GWalk k _ => o = OGet k
  | PutCas k v nr | PutLock k v nr _ | PutReval k v nr _ | PutWalk k v nr _ _ => o = put_op k v nr
  | PutFast k v _ => o = OTryInsert k v
  | PutUnlock _ _ (Some o') => o = o'
  | PutUnlock _ _ None => True
  | RmLock k _ | RmReval k _ | RmWalk k _ _ _ | RmFound k _ _ _ _ | RmUnlink k _ _ _ _ _ => o = ORemove k
  | CpLock k f _ | CpReval k f _ | CpWalk k f _ _ _ | CpFound k f _ _ _ _ => o = OCompute k f
  | CpApply k _ _ _ _ seen nv => exists f, o = OCompute k f /\ nv = f seen
  | PDone => False
  end.

Definition thr_cur (th : thread) : Prop :=
  match cur th with Some o => pc_cur (at_ th) o | None => at_ th = PDone end.

Definition binv (c : cfg) : Prop :=
  sh_inv (sh c) /\
  (forall t, pc_inv (sh c) t (at_ (get_thr c t)) /\ thr_cur (get_thr c t)) /\
  (forall a t, lock_at (sh c) a = Some t -> held (at_ (get_thr c t)) = Some a).

Lemma held_lock c t h : binv c -> held (at_ (get_thr c t)) = Some h -> lock_at (sh c) h = Some t.
Proof.
  intros (_ & Ht & _) Hh. destruct (Ht t) as [Hpc _].
  destruct (at_ (get_thr c t)); cbn in Hh; try discriminate; injection Hh as ->; cbn in Hpc;
    try exact Hpc; try (destruct Hpc as (pre & Hw & _); exact (proj1 Hw)); try (destruct Hpc as (pre & Hw); exact (proj1 Hw)).
Qed.

(* ---------- stability of a thread's invariant under other threads' writes ---------- *)
Definition same_bin (s s' : shared) (i : nat) : Prop :=
  bin_at s' i = bin_at s i /\ forall l a, bin_ok s i l -> In a l -> cell_at s' a = cell_at s a.

Lemma frame_same_bin s s' i j : frame s s' i -> j <> i -> same_bin s s' j.
Proof.
  intros (Fb & Fc & _) Hj. split; [apply Fb; exact Hj|].
  intros l a Hok Ha. destruct (bin_ok_in _ _ _ _ Hok Ha) as [Hlt Hb]. apply Fc; [exact Hlt|]. rewrite Hb. exact Hj.
Qed.

Lemma walking_list s t k h pre p : sh_inv s -> walking s t k h pre p -> exists l2, bin_ok s (bini k) (pre ++ p :: l2).
Proof.
  intros (_ & _ & _ & Hbins) (Hl & Hb & (l2 & Hp) & Hf).
  destruct (Hbins (bini k) (bini_lt k)) as (l & Hok). exists l2.
  assert (l = pre ++ p :: l2) as <-; [|exact Hok].
  destruct Hok as (Hp' & _). rewrite Hb in Hp'. eapply pseg_det; eassumption.
Qed.

Lemma walking_stable s s' t k h pre p :
  sh_inv s -> walking s t k h pre p -> lock_at s' h = Some t -> same_bin s s' (bini k) ->
  walking s' t k h pre p /\ forall a, In a (pre ++ [p]) -> cell_at s' a = cell_at s a.
Proof.
  intros Hinv Hw Hl' (Sb & Sc). destruct (walking_list _ _ _ _ _ _ Hinv Hw) as (l2 & Hok).
  destruct Hw as (Hl & Hb & _ & Hf).
  assert (Hc : forall a, In a (pre ++ p :: l2) -> cell_at s' a = cell_at s a) by (intros a Ha; eapply Sc; eassumption).
  split.
  - split; [exact Hl'|]. split; [rewrite Sb; exact Hb|]. split.
    + exists l2. destruct Hok as (Hp & _). rewrite Hb in Hp. eapply pseg_agree; [|exact Hp].
      intros a Ha. rewrite <- !cell_at_cellh, Hc by exact Ha. reflexivity.
    + rewrite Forall_forall in *. intros a Ha. unfold keyat. rewrite Hc; [apply Hf; exact Ha|].
      apply in_or_app. left. exact Ha.
  - intros a Ha. apply Hc. apply in_app_or in Ha as [Ha|[->|[]]]; apply in_or_app; [left; exact Ha|right; left; reflexivity].
Qed.

Lemma pc_inv_stable s s' t p :
  sh_inv s ->
  (forall a, lock_at s a = Some t -> lock_at s' a = Some t) ->
  (forall k h, bin_at s (bini k) = Some h -> lock_at s h = Some t -> same_bin s s' (bini k)) ->
  length (heap s) <= length (heap s') ->
  (forall a, a < length (heap s) -> keyat s' a = keyat s a) ->
  pc_inv s t p -> pc_inv s' t p.
Proof.
  intros Hinv HL HB Hlen Hkey Hp.
  assert (HW : forall k h pre e, walking s t k h pre e ->
            walking s' t k h pre e /\ forall a, In a (pre ++ [e]) -> cell_at s' a = cell_at s a).
  { intros k h pre e Hw. eapply walking_stable; [exact Hinv|exact Hw| |].
    - apply HL. exact (proj1 Hw).
    - destruct Hw as (Hl & Hb & _). eapply HB; eassumption. }
  assert (HE : forall pre e, (forall a, In a (pre ++ [e]) -> cell_at s' a = cell_at s a) -> cell_at s' e = cell_at s e).
  { intros pre e H. apply H. apply in_or_app. right. left. reflexivity. }
  destruct p; cbn in *; try exact I; try (apply HL; exact Hp); try lia.
  - destruct Hp as [Hlt Hk]. split; [lia|]. rewrite Hkey by exact Hlt. exact Hk.
  - destruct Hp as (pre & Hw). exists pre. apply (HW _ _ _ _ Hw).
  - destruct Hp as (pre & Hw & Hpr). exists pre. split; [apply (HW _ _ _ _ Hw)|exact Hpr].
  - destruct Hp as (pre & Hw & Hpr & Hk & Hn). exists pre. destruct (HW _ _ _ _ Hw) as [Hw' Hc].
    unfold keyat. rewrite (HE _ _ Hc). auto.
  - destruct Hp as (pre & Hw & Hpr & Hk & Hn & Hv). exists pre. destruct (HW _ _ _ _ Hw) as [Hw' Hc].
    unfold keyat. rewrite (HE _ _ Hc). auto.
  - destruct Hp as (pre & Hw & Hpr). exists pre. split; [apply (HW _ _ _ _ Hw)|exact Hpr].
  - destruct Hp as (pre & Hw & Hpr & Hk & Hn). exists pre. destruct (HW _ _ _ _ Hw) as [Hw' Hc].
    unfold keyat. rewrite (HE _ _ Hc). auto.
  - destruct Hp as (pre & Hw & Hpr & Hk & Hn & Hv). exists pre. destruct (HW _ _ _ _ Hw) as [Hw' Hc].
    unfold keyat. rewrite (HE _ _ Hc). auto.
Qed.

(* ---------- the five kinds of writes ---------- *)
Definition alloc_sh (s : shared) (k : N) (v : Z) : shared :=
  mkSh (heap s ++ [mkCell k v None]) (bins s) (locks s ++ [None]).
Lemma alloc_eq s k v : alloc s k v = (alloc_sh s k v, length (heap s)).
Proof. reflexivity. Qed.
Lemma cell_alloc_old s k v a : a < length (heap s) -> cell_at (alloc_sh s k v) a = cell_at s a.
Proof. apply cell_at_alloc_old. Qed.
Lemma cell_alloc_new s k v : cell_at (alloc_sh s k v) (length (heap s)) = mkCell k v None.
Proof. apply cell_at_alloc_new. Qed.
Lemma lock_alloc s k v a : length (locks s) = length (heap s) -> lock_at (alloc_sh s k v) a = lock_at s a.
Proof. apply lock_at_alloc. Qed.
Lemma heap_alloc_len s k v : length (heap (alloc_sh s k v)) = S (length (heap s)).
Proof. cbn. rewrite app_length. cbn. lia. Qed.
Lemma locks_alloc_len s k v : length (locks (alloc_sh s k v)) = S (length (locks s)).
Proof. cbn. rewrite app_length. cbn. lia. Qed.

(* (1) swap the value of an allocated node *)
Definition swap_sh (s : shared) (p : nat) (v : Z) : shared :=
  set_cell s p (mkCell (ckey (cell_at s p)) v (cnext (cell_at s p))).

Lemma swap_cell s p v a : p < length (heap s) ->
  cell_at (swap_sh s p v) a = if Nat.eqb a p then mkCell (keyat s p) v (cnext (cell_at s p)) else cell_at s a.
Proof.
  intros Hp. unfold swap_sh. destruct (Nat.eqb_spec a p) as [->|Hn].
  - rewrite cell_at_set_cell_same by exact Hp. reflexivity.
  - apply cell_at_set_cell_other; assumption.
Qed.
Lemma swap_key s p v a : p < length (heap s) -> keyat (swap_sh s p v) a = keyat s a.
Proof. intros Hp. unfold keyat at 1. rewrite swap_cell by exact Hp. destruct (Nat.eqb_spec a p) as [->|]; reflexivity. Qed.
Lemma swap_next s p v a : p < length (heap s) -> cnext (cell_at (swap_sh s p v) a) = cnext (cell_at s a).
Proof. intros Hp. rewrite swap_cell by exact Hp. destruct (Nat.eqb_spec a p) as [->|]; reflexivity. Qed.
Lemma swap_len s p v : p < length (heap s) -> length (heap (swap_sh s p v)) = length (heap s).
Proof. intros Hp. unfold swap_sh, set_cell. cbn. apply upd_list_length. exact Hp. Qed.

Lemma swap_bin_ok s p v j l : p < length (heap s) -> bin_ok s j l -> bin_ok (swap_sh s p v) j l.
Proof.
  intros Hp (Hs & Hf & Hn). split; [|split].
  - change (bin_at (swap_sh s p v) j) with (bin_at s j). eapply pseg_agree; [|exact Hs].
    intros a _. rewrite <- !cell_at_cellh. apply swap_next. exact Hp.
  - rewrite swap_len by exact Hp. eapply Forall_impl; [|exact Hf]. cbn. intros a [Ha Hb].
    rewrite swap_key by exact Hp. auto.
  - erewrite map_ext; [exact Hn|]. intros a. apply swap_key. exact Hp.
Qed.

Lemma swap_sh_inv s p v : p < length (heap s) -> sh_inv s -> sh_inv (swap_sh s p v).
Proof.
  intros Hp (Hb & Hl & Hi & Hbins). split; [exact Hb|]. split; [|split].
  - rewrite swap_len by exact Hp. exact Hl.
  - intros a q Ha Hq. rewrite swap_len in * by exact Hp. rewrite swap_next in Hq by exact Hp. auto.
  - intros i Hi'. destruct (Hbins i Hi') as (l & Hok). exists l. apply swap_bin_ok; assumption.
Qed.

Lemma swap_frame s p v : p < length (heap s) -> frame s (swap_sh s p v) (bini (keyat s p)).
Proof.
  intros Hp. split; [reflexivity|]. split; [|split].
  - intros a Ha Hb. rewrite swap_cell by exact Hp. destruct (Nat.eqb_spec a p) as [->|]; [contradiction|reflexivity].
  - intros a _. apply swap_key. exact Hp.
  - rewrite swap_len by exact Hp. lia.
Qed.

(* (2) append a fresh node after the tail p *)
Definition append_sh (s : shared) (p : nat) (k : N) (v : Z) : shared :=
  set_cell (alloc_sh s k v) p (mkCell (ckey (cell_at s p)) (cval (cell_at s p)) (Some (length (heap s)))).

Lemma append_cell s p k v a : p < length (heap s) ->
  cell_at (append_sh s p k v) a =
    if Nat.eqb a p then mkCell (keyat s p) (cval (cell_at s p)) (Some (length (heap s)))
    else if Nat.eqb a (length (heap s)) then mkCell k v None else cell_at s a.
Proof.
  intros Hp. unfold append_sh. pose proof (heap_alloc_len s k v) as HL.
  destruct (Nat.eqb_spec a p) as [->|Hn].
  - rewrite cell_at_set_cell_same by lia. reflexivity.
  - rewrite cell_at_set_cell_other by (try lia; exact Hn).
    destruct (Nat.eqb_spec a (length (heap s))) as [->|Hn2]; [apply cell_alloc_new|].
    unfold cell_at, alloc_sh. cbn. destruct (Nat.lt_ge_cases a (length (heap s))) as [Hlt|Hge].
    + apply app_nth1. exact Hlt.
    + rewrite !nth_overflow; [reflexivity|lia|rewrite app_length; cbn; lia].
Qed.
Lemma append_len s p k v : p < length (heap s) -> length (heap (append_sh s p k v)) = S (length (heap s)).
Proof.
  intros Hp. unfold append_sh, set_cell. cbn [heap]. rewrite upd_list_length; [apply heap_alloc_len|].
  rewrite heap_alloc_len. lia.
Qed.
Lemma append_key s p k v a : p < length (heap s) -> a < length (heap s) -> keyat (append_sh s p k v) a = keyat s a.
Proof.
  intros Hp Ha. unfold keyat at 1. rewrite append_cell by exact Hp.
  destruct (Nat.eqb_spec a p) as [->|]; [reflexivity|]. destruct (Nat.eqb_spec a (length (heap s))); [lia|reflexivity].
Qed.

Lemma append_frame s p k v : p < length (heap s) -> frame s (append_sh s p k v) (bini (keyat s p)).
Proof.
  intros Hp. split; [reflexivity|]. split; [|split].
  - intros a Ha Hb. rewrite append_cell by exact Hp. destruct (Nat.eqb_spec a p) as [->|]; [contradiction|].
    destruct (Nat.eqb_spec a (length (heap s))); [lia|reflexivity].
  - intros a Ha. apply append_key; assumption.
  - rewrite append_len by exact Hp. lia.
Qed.

Lemma append_ptr_inc s p k v : p < length (heap s) -> ptr_inc s -> ptr_inc (append_sh s p k v).
Proof.
  intros Hp Hi a q Ha Hq. rewrite append_len in * by exact Hp. rewrite append_cell in Hq by exact Hp.
  destruct (Nat.eqb_spec a p) as [->|Hn]; cbn in Hq.
  - injection Hq as <-. lia.
  - destruct (Nat.eqb_spec a (length (heap s))) as [->|Hn2]; cbn in Hq; [discriminate|].
    assert (a < length (heap s)) as Ha' by lia. specialize (Hi a q Ha' Hq). lia.
Qed.

Lemma append_bin_ok s l p k v :
  bin_ok s (bini k) (l ++ [p]) -> Forall (fun a => keyat s a <> k) (l ++ [p]) ->
  bin_ok (append_sh s p k v) (bini k) ((l ++ [p]) ++ [length (heap s)]).
Proof.
  intros Hok Hk. pose proof (bin_ok_nodup _ _ _ Hok) as Hnd.
  assert (Hp : p < length (heap s)). { eapply bin_ok_in; [exact Hok|]. apply in_or_app. right. left. reflexivity. }
  destruct Hok as (Hs & Hf & Hn).
  assert (Hold : forall a, In a l -> cell_at (append_sh s p k v) a = cell_at s a).
  { intros a Ha. rewrite append_cell by exact Hp.
    destruct (Nat.eqb_spec a p) as [->|Hne].
    - exfalso. apply NoDup_remove_2 in Hnd. rewrite app_nil_r in Hnd. contradiction.
    - rewrite Forall_forall in Hf. assert (a < length (heap s)) by (apply Hf; apply in_or_app; left; exact Ha).
      destruct (Nat.eqb_spec a (length (heap s))); [lia|reflexivity]. }
  split; [|split].
  - change (bin_at (append_sh s p k v) (bini k)) with (bin_at s (bini k)).
    apply pseg_app_inv in Hs as (m & H1 & H2). apply pseg_cons_inv in H2 as [-> H2].
    eapply pseg_app; [eapply pseg_app|].
    + eapply pseg_agree; [|exact H1]. intros a Ha. rewrite <- !cell_at_cellh, Hold by exact Ha. reflexivity.
    + constructor. rewrite <- cell_at_cellh, append_cell, Nat.eqb_refl by exact Hp. cbn. constructor.
    + constructor. rewrite <- cell_at_cellh, append_cell by exact Hp.
      destruct (Nat.eqb_spec (length (heap s)) p); [lia|]. rewrite Nat.eqb_refl. cbn. constructor.
  - rewrite append_len by exact Hp. apply Forall_app. split.
    + eapply Forall_impl; [|exact Hf]. cbn. intros a [Ha Hb]. rewrite append_key by assumption. split; [lia|exact Hb].
    + constructor; [|constructor]. split; [lia|]. unfold keyat. rewrite append_cell by exact Hp.
      destruct (Nat.eqb_spec (length (heap s)) p); [lia|]. rewrite Nat.eqb_refl. reflexivity.
  - rewrite map_app. cbn [map].
    assert (Hk1 : keyat (append_sh s p k v) (length (heap s)) = k).
    { unfold keyat. rewrite append_cell by exact Hp. destruct (Nat.eqb_spec (length (heap s)) p); [lia|].
      rewrite Nat.eqb_refl. reflexivity. }
    assert (Hm : map (keyat (append_sh s p k v)) (l ++ [p]) = map (keyat s) (l ++ [p])).
    { apply map_ext_in. intros a Ha. apply append_key; [exact Hp|]. rewrite Forall_forall in Hf. apply Hf. exact Ha. }
    rewrite Hm, Hk1. apply NoDup_app_single. split; [exact Hn|].
    intros Hin. apply in_map_iff in Hin as (a & Hka & Ha). rewrite Forall_forall in Hk. exact (Hk a Ha Hka).
Qed.

(* (3) unlink the head of bin i *)
Lemma unlink_head_bin_ok s i e l2 :
  i < length (bins s) -> bin_ok s i (e :: l2) -> bin_ok (set_bin s i (cnext (cell_at s e))) i l2.
Proof.
  intros Hi (Hs & Hf & Hn). split; [|split].
  - rewrite bin_at_set_bin_same by exact Hi. apply pseg_cons_inv in Hs as [_ Hs]. exact Hs.
  - inversion Hf; subst. assumption.
  - cbn in Hn. inversion Hn; subst. assumption.
Qed.
Lemma set_bin_frame s i o : i < length (bins s) -> frame s (set_bin s i o) i.
Proof.
  intros Hi. split; [|split; [|split]].
  - intros j Hj. apply bin_at_set_bin_other; assumption.
  - reflexivity.
  - reflexivity.
  - cbn. lia.
Qed.

(* (4) unlink e by redirecting its predecessor pr *)
Definition redirect_sh (s : shared) (pr : nat) (nxt : option nat) : shared :=
  set_cell s pr (mkCell (ckey (cell_at s pr)) (cval (cell_at s pr)) nxt).

Lemma redirect_cell s pr nxt a : pr < length (heap s) ->
  cell_at (redirect_sh s pr nxt) a =
    if Nat.eqb a pr then mkCell (keyat s pr) (cval (cell_at s pr)) nxt else cell_at s a.
Proof.
  intros Hp. unfold redirect_sh. destruct (Nat.eqb_spec a pr) as [->|Hn].
  - rewrite cell_at_set_cell_same by exact Hp. reflexivity.
  - apply cell_at_set_cell_other; assumption.
Qed.
Lemma redirect_key s pr nxt a : pr < length (heap s) -> keyat (redirect_sh s pr nxt) a = keyat s a.
Proof. intros Hp. unfold keyat at 1. rewrite redirect_cell by exact Hp. destruct (Nat.eqb_spec a pr) as [->|]; reflexivity. Qed.
Lemma redirect_len s pr nxt : pr < length (heap s) -> length (heap (redirect_sh s pr nxt)) = length (heap s).
Proof. intros Hp. unfold redirect_sh, set_cell. cbn. apply upd_list_length. exact Hp. Qed.
Lemma redirect_frame s pr nxt : pr < length (heap s) -> frame s (redirect_sh s pr nxt) (bini (keyat s pr)).
Proof.
  intros Hp. split; [reflexivity|]. split; [|split].
  - intros a Ha Hb. rewrite redirect_cell by exact Hp. destruct (Nat.eqb_spec a pr) as [->|]; [contradiction|reflexivity].
  - intros a _. apply redirect_key. exact Hp.
  - rewrite redirect_len by exact Hp. lia.
Qed.

Lemma unlink_pred_bin_ok s i pre pr e l2 :
  bin_ok s i (pre ++ pr :: e :: l2) ->
  bin_ok (redirect_sh s pr (cnext (cell_at s e))) i (pre ++ pr :: l2).
Proof.
  intros Hok. pose proof (bin_ok_nodup _ _ _ Hok) as Hnd.
  assert (Hp : pr < length (heap s)). { eapply bin_ok_in; [exact Hok|]. apply in_or_app. right. left. reflexivity. }
  destruct Hok as (Hs & Hf & Hn).
  set (s' := redirect_sh s pr (cnext (cell_at s e))).
  assert (Hold : forall a, a <> pr -> cell_at s' a = cell_at s a).
  { intros a Ha. unfold s'. rewrite redirect_cell by exact Hp. destruct (Nat.eqb_spec a pr); [contradiction|reflexivity]. }
  assert (Hpre : ~ In pr pre). { apply NoDup_remove_2 in Hnd. intros Hin. apply Hnd. apply in_or_app. left. exact Hin. }
  assert (Hl2 : ~ In pr l2). { apply NoDup_remove_2 in Hnd. intros Hin. apply Hnd. apply in_or_app. right. right. exact Hin. }
  split; [|split].
  - change (bin_at s' i) with (bin_at s i).
    apply pseg_app_inv in Hs as (m & H1 & H2). apply pseg_cons_inv in H2 as [-> H2].
    apply pseg_cons_inv in H2 as [_ H2].
    eapply pseg_app.
    + eapply pseg_agree; [|exact H1]. intros a Ha. rewrite <- !cell_at_cellh, Hold; [reflexivity|]. intros ->. contradiction.
    + assert (Hpr : cnext (cell_at s' pr) = cnext (cell_at s e)).
      { unfold s'. rewrite redirect_cell, Nat.eqb_refl by exact Hp. reflexivity. }
      constructor. rewrite <- cell_at_cellh, Hpr.
      eapply pseg_agree; [|exact H2]. intros a Ha. rewrite <- !cell_at_cellh.
      rewrite Hold; [reflexivity|]. intros ->. contradiction.
  - unfold s'. rewrite redirect_len by exact Hp. rewrite Forall_forall in *. intros a Ha.
    rewrite redirect_key by exact Hp. apply Hf. apply in_app_or in Ha as [Ha|[->|Ha]]; apply in_or_app; auto.
    + right. left. reflexivity.
    + right. right. right. exact Ha.
  - erewrite map_ext; [|intros a; apply redirect_key; exact Hp].
    change (pre ++ pr :: e :: l2) with (pre ++ [pr] ++ e :: l2) in Hn. rewrite app_assoc, map_app in Hn. cbn [map] in Hn.
    apply NoDup_remove_1 in Hn. rewrite <- map_app, <- app_assoc in Hn. exact Hn.
Qed.

Lemma unlink_pred_ptr_inc s i pre pr e l2 :
  ptr_inc s -> bin_ok s i (pre ++ pr :: e :: l2) -> ptr_inc (redirect_sh s pr (cnext (cell_at s e))).
Proof.
  intros Hi Hok.
  assert (Hp : pr < length (heap s)). { eapply bin_ok_in; [exact Hok|]. apply in_or_app. right. left. reflexivity. }
  assert (He : e < length (heap s)). { eapply bin_ok_in; [exact Hok|]. apply in_or_app. right. right. left. reflexivity. }
  assert (Hpe : cnext (cell_at s pr) = Some e).
  { destruct Hok as (Hs & _). apply pseg_app_inv in Hs as (m & _ & H2). apply pseg_cons_inv in H2 as [_ H2].
    apply pseg_cons_inv in H2 as [H2 _]. exact H2. }
  intros a q Ha Hq. rewrite redirect_len in * by exact Hp. rewrite redirect_cell in Hq by exact Hp.
  destruct (Nat.eqb_spec a pr) as [->|Hn]; cbn in Hq; [|auto].
  pose proof (Hi _ _ Hp Hpe). pose proof (Hi _ _ He Hq). lia.
Qed.

(* (5) CAS a fresh node into the empty bin i *)
Definition cas_sh (s : shared) (i : nat) (k : N) (v : Z) : shared :=
  set_bin (alloc_sh s k v) i (Some (length (heap s))).

Lemma cas_cell_old s i k v a : a < length (heap s) -> cell_at (cas_sh s i k v) a = cell_at s a.
Proof. intros Ha. unfold cas_sh. change (cell_at (set_bin ?x _ _) a) with (cell_at x a). apply cell_alloc_old. exact Ha. Qed.
Lemma cas_cell_new s i k v : cell_at (cas_sh s i k v) (length (heap s)) = mkCell k v None.
Proof. unfold cas_sh. change (cell_at (set_bin ?x _ _) ?a) with (cell_at x a). apply cell_alloc_new. Qed.
Lemma cas_len s i k v : length (heap (cas_sh s i k v)) = S (length (heap s)).
Proof. unfold cas_sh. cbn [heap set_bin]. apply heap_alloc_len. Qed.
Lemma cas_frame s i k v : i < length (bins s) -> frame s (cas_sh s i k v) i.
Proof.
  intros Hi. split; [|split; [|split]].
  - intros j Hj. unfold cas_sh. rewrite bin_at_set_bin_other by assumption. reflexivity.
  - intros a Ha _. apply cas_cell_old. exact Ha.
  - intros a Ha. unfold keyat. rewrite cas_cell_old by exact Ha. reflexivity.
  - rewrite cas_len. lia.
Qed.
Lemma cas_bin_ok s k v : bini k < length (bins s) -> bin_ok (cas_sh s (bini k) k v) (bini k) [length (heap s)].
Proof.
  intros Hi. split; [|split].
  - unfold cas_sh at 2. rewrite bin_at_set_bin_same by exact Hi. constructor.
    rewrite <- cell_at_cellh, cas_cell_new. cbn. constructor.
  - constructor; [|constructor]. rewrite cas_len. split; [lia|]. unfold keyat. rewrite cas_cell_new. reflexivity.
  - cbn. constructor; [intros []|constructor].
Qed.
Lemma cas_ptr_inc s i k v : ptr_inc s -> ptr_inc (cas_sh s i k v).
Proof.
  intros Hi a q Ha Hq. rewrite cas_len in *. destruct (Nat.eq_dec a (length (heap s))) as [->|Hn].
  - rewrite cas_cell_new in Hq. discriminate.
  - assert (Ha' : a < length (heap s)) by lia. rewrite cas_cell_old in Hq by exact Ha'. specialize (Hi _ _ Ha' Hq). lia.
Qed.
