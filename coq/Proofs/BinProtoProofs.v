(* Linearizability of the list-bin protocol (C01, C08 stage S1).

   Layers:
   0. list / shared-memory update lemmas (upd_list, set_cell, set_bin, set_lock, alloc).
   1. `binv`, the shared-memory invariant of Model/BinProto.v: every bin's live list is a finite
      path (`pseg`) of allocated nodes whose keys are pairwise distinct and hash to the bin; all
      `cnext` pointers (also those of unlinked nodes) go to strictly larger allocated addresses;
      a lock is held by the thread whose pc says so; a thread past its re-validation step holds
      the lock of the current head of its bin and has walked a prefix without its key.  Preserved
      by `step` (`binv_step`), hence `binproto_inv`; deadlock freedom follows.
   2. for a fixed key k: the abstract value `absv` (= `lookup`), the effect of the five kinds of
      writes on it (`kview`), the two-state relation `hs_rel` behind hindsight, and the hindsight
      lemma for lock-free readers (`hindsight`, `reader_view`).
   3. the ghost state (trace of past shared states, linearization point of every completed call
      and of every pending call whose result is decided) and its invariant `LIN`, preserved by
      `step` (`LIN_step`); writers have fixed linearization steps, readers get theirs in hindsight.
   4. assembly (Proofs/BinProtoLemmas.v: `assemble`) and the final theorems. *)
From Flurry Require Import Model.BinProto Proofs.LinProofs Proofs.BinProtoLemmas.
From Coq Require Import List Bool Lia Permutation NArith Arith Sorted.
Import ListNotations.
Local Open Scope nat_scope.

(* ====================================================================== *)
(* Layer 0: lists                                                          *)
(* ====================================================================== *)

Lemma upd_list_cons {A} (a : A) l i x : upd_list (a :: l) (S i) x = a :: upd_list l i x.
Proof. reflexivity. Qed.

Lemma upd_list_length {A} (l : list A) i x : i < length l -> length (upd_list l i x) = length l.
Proof.
  revert i. induction l as [|a l IH]; intros [|i] Hi; cbn [length] in *; try lia.
  - reflexivity.
  - rewrite upd_list_cons. cbn [length]. rewrite IH; lia.
Qed.

Lemma nth_upd_same {A} (l : list A) i x d : i < length l -> nth i (upd_list l i x) d = x.
Proof.
  revert i. induction l as [|a l IH]; intros [|i] Hi; cbn [length] in *; try lia.
  - reflexivity.
  - rewrite upd_list_cons. cbn [nth]. apply IH. lia.
Qed.

Lemma nth_upd_other {A} (l : list A) i j x d : i < length l -> j <> i -> nth j (upd_list l i x) d = nth j l d.
Proof.
  revert i j. induction l as [|a l IH]; intros [|i] [|j] Hi Hj; cbn [length] in *; try lia; try reflexivity.
  rewrite upd_list_cons. cbn [nth]. apply IH; lia.
Qed.

Lemma nth_app_new {A} (l : list A) x d : nth (length l) (l ++ [x]) d = x.
Proof. rewrite app_nth2 by lia. rewrite Nat.sub_diag. reflexivity. Qed.

Lemma NoDup_map_inj {A B} (f : A -> B) l : NoDup (map f l) -> NoDup l.
Proof.
  induction l as [|a l IH]; cbn; intros H; [constructor|].
  inversion H as [|? ? Hn Hd]; subst. constructor; [|auto].
  intros Hin. apply Hn. apply in_map. exact Hin.
Qed.

Lemma NoDup_bounded_length (l : list nat) n : NoDup l -> Forall (fun a => a < n) l -> length l <= n.
Proof.
  intros Hnd Hf. rewrite <- (seq_length n 0). apply NoDup_incl_length; [exact Hnd|].
  intros a Ha. rewrite Forall_forall in Hf. apply in_seq. specialize (Hf a Ha). lia.
Qed.

Lemma NoDup_app_single {A} (l : list A) x : NoDup l /\ ~ In x l -> NoDup (l ++ [x]).
Proof.
  intros [Hn Hx]. induction l as [|a l IH]; cbn; [constructor; [intros []|constructor]|].
  inversion Hn as [|? ? Ha Hn']; subst. constructor.
  - intros Hin. apply in_app_or in Hin as [Hin|[->|[]]]; [contradiction|]. apply Hx. left. reflexivity.
  - apply IH; [exact Hn'|]. intros Hin. apply Hx. right. exact Hin.
Qed.

Lemma NoDup_app_l {A} (a b : list A) : NoDup (a ++ b) -> NoDup a.
Proof.
  induction a as [|x a IH]; cbn; intros H; [constructor|]. inversion H as [|? ? Hx Hn]; subst.
  constructor; [|auto]. intros Hin. apply Hx. apply in_or_app. left. exact Hin.
Qed.
Lemma NoDup_app_r {A} (a b : list A) : NoDup (a ++ b) -> NoDup b.
Proof. induction a as [|x a IH]; cbn; intros H; [exact H|]. inversion H; subst. auto. Qed.
Lemma NoDup_app_disj {A} (a b : list A) x : NoDup (a ++ b) -> In x a -> In x b -> False.
Proof.
  induction a as [|y a IH]; cbn; intros H Ha Hb; [contradiction|]. inversion H as [|? ? Hy Hn]; subst.
  destruct Ha as [->|Ha]; [apply Hy; apply in_or_app; right; exact Hb|]. eapply IH; eassumption.
Qed.

(* ====================================================================== *)
(* Layer 0b: shared-memory accessors under updates                        *)
(* ====================================================================== *)

Definition dcell := mkCell 0 0 None.
Definition cellh (hp : list cell) (a : nat) : cell := nth a hp dcell.
Lemma cell_at_cellh s a : cell_at s a = cellh (heap s) a.
Proof. reflexivity. Qed.

Lemma cell_at_set_cell_same s a c : a < length (heap s) -> cell_at (set_cell s a c) a = c.
Proof. intros H. unfold cell_at, set_cell. cbn. apply nth_upd_same. exact H. Qed.
Lemma cell_at_set_cell_other s a c b : a < length (heap s) -> b <> a -> cell_at (set_cell s a c) b = cell_at s b.
Proof. intros H Hn. unfold cell_at, set_cell. cbn. apply nth_upd_other; assumption. Qed.
Lemma bin_at_set_bin_same s i h : i < length (bins s) -> bin_at (set_bin s i h) i = h.
Proof. intros H. unfold bin_at, set_bin. cbn. apply nth_upd_same. exact H. Qed.
Lemma bin_at_set_bin_other s i h j : i < length (bins s) -> j <> i -> bin_at (set_bin s i h) j = bin_at s j.
Proof. intros H Hn. unfold bin_at, set_bin. cbn. apply nth_upd_other; assumption. Qed.
Lemma lock_at_set_lock_same s a o : a < length (locks s) -> lock_at (set_lock s a o) a = o.
Proof. intros H. unfold lock_at, set_lock. cbn. apply nth_upd_same. exact H. Qed.
Lemma lock_at_set_lock_other s a o b : a < length (locks s) -> b <> a -> lock_at (set_lock s a o) b = lock_at s b.
Proof. intros H Hn. unfold lock_at, set_lock. cbn. apply nth_upd_other; assumption. Qed.

Lemma lock_at_lt s a t : lock_at s a = Some t -> a < length (locks s).
Proof.
  unfold lock_at. intros H. destruct (Nat.lt_ge_cases a (length (locks s))) as [Hl|Hl]; [exact Hl|].
  rewrite nth_overflow in H by exact Hl. discriminate.
Qed.
Lemma bin_at_lt s i h : bin_at s i = Some h -> i < length (bins s).
Proof.
  unfold bin_at. intros H. destruct (Nat.lt_ge_cases i (length (bins s))) as [Hl|Hl]; [exact Hl|].
  rewrite nth_overflow in H by exact Hl. discriminate.
Qed.

Lemma cell_at_alloc_old s k v a : a < length (heap s) -> cell_at (fst (alloc s k v)) a = cell_at s a.
Proof. intros H. unfold cell_at, alloc. cbn. apply app_nth1. exact H. Qed.
Lemma cell_at_alloc_new s k v : cell_at (fst (alloc s k v)) (length (heap s)) = mkCell k v None.
Proof. unfold cell_at, alloc. cbn. apply nth_app_new. Qed.
Lemma lock_at_alloc s k v a : length (locks s) = length (heap s) -> lock_at (fst (alloc s k v)) a = lock_at s a.
Proof.
  intros HL. unfold lock_at, alloc. cbn.
  destruct (Nat.lt_ge_cases a (length (locks s))) as [Hl|Hl].
  - apply app_nth1. exact Hl.
  - rewrite (nth_overflow (locks s)) by exact Hl.
    destruct (Nat.eq_dec a (length (locks s))) as [->|Hn].
    + apply nth_app_new.
    + apply nth_overflow. rewrite app_length. cbn. lia.
Qed.

(* ====================================================================== *)
(* Layer 1: path segments                                                  *)
(* ====================================================================== *)

Inductive pseg (hp : list cell) : option nat -> list nat -> option nat -> Prop :=
| pseg_nil p : pseg hp p [] p
| pseg_cons a l q : pseg hp (cnext (cellh hp a)) l q -> pseg hp (Some a) (a :: l) q.

Lemma pseg_app hp p l1 m l2 q : pseg hp p l1 m -> pseg hp m l2 q -> pseg hp p (l1 ++ l2) q.
Proof. induction 1 as [|a l m' H IH]; cbn; intros H2; [exact H2|]. constructor. apply IH. exact H2. Qed.

Lemma pseg_app_inv hp l1 : forall p l2 q, pseg hp p (l1 ++ l2) q -> exists m, pseg hp p l1 m /\ pseg hp m l2 q.
Proof.
  induction l1 as [|a l1 IH]; cbn; intros p l2 q H.
  - exists p. split; [constructor|exact H].
  - inversion H as [|a' l' q' H']; subst. destruct (IH _ _ _ H') as (m & Ha & Hb).
    exists m. split; [constructor; exact Ha|exact Hb].
Qed.

Lemma pseg_cons_inv hp p a l q : pseg hp p (a :: l) q -> p = Some a /\ pseg hp (cnext (cellh hp a)) l q.
Proof. intros H. inversion H; subst. auto. Qed.

Lemma pseg_det hp p l : forall l', pseg hp p l None -> pseg hp p l' None -> l = l'.
Proof.
  revert p. induction l as [|a l IH]; intros p l' H1 H2.
  - inversion H1; subst. inversion H2; subst; reflexivity.
  - apply pseg_cons_inv in H1 as [-> H1]. inversion H2 as [|a' l2 q' H2']; subst.
    f_equal. eapply IH; eassumption.
Qed.

Lemma pseg_agree hp hp' p l q :
  (forall a, In a l -> cnext (cellh hp' a) = cnext (cellh hp a)) -> pseg hp p l q -> pseg hp' p l q.
Proof.
  intros Hag H. induction H as [|a l q H IH]; [constructor|].
  constructor. rewrite Hag by (left; reflexivity). apply IH. intros b Hb. apply Hag. right. exact Hb.
Qed.

Lemma pseg_mid hp p pre a l2 : pseg hp p (pre ++ a :: l2) None -> pseg hp (cnext (cellh hp a)) l2 None.
Proof.
  intros H. apply pseg_app_inv in H as (m & _ & H). apply pseg_cons_inv in H as [_ H]. exact H.
Qed.

Lemma pseg_next_some hp q l : pseg hp (Some q) l None -> exists l', l = q :: l'.
Proof. intros H. inversion H; subst. eauto. Qed.
Lemma pseg_next_none hp l : pseg hp None l None -> l = [].
Proof. intros H. inversion H; subst. reflexivity. Qed.

(* ====================================================================== *)
(* Layer 1: the shared-memory invariant                                    *)
(* ====================================================================== *)
Section Inv.
Variable khash : N -> N.
Variable nbins : nat.
Hypothesis nbins_pos : 0 < nbins.
Notation bini := (bini khash nbins).
Notation get_thr := BinProto.get_thr.
Notation step := (step khash nbins).
Notation run := (run khash nbins).

Lemma bini_lt k : bini k < nbins.
Proof.
  unfold BinProto.bini. pose proof (N.mod_upper_bound (khash k) (N.of_nat nbins)) as H. lia.
Qed.

Definition keyat (s : shared) (a : nat) : N := ckey (cell_at s a).

(* l is the live list of bin i *)
Definition bin_ok (s : shared) (i : nat) (l : list nat) : Prop :=
  pseg (heap s) (bin_at s i) l None /\
  Forall (fun a => a < length (heap s) /\ bini (keyat s a) = i) l /\
  NoDup (map (keyat s) l).

(* next pointers go to strictly larger, allocated addresses *)
Definition ptr_inc (s : shared) : Prop :=
  forall a q, a < length (heap s) -> cnext (cell_at s a) = Some q -> a < q < length (heap s).

Definition sh_inv (s : shared) : Prop :=
  length (bins s) = nbins /\ length (locks s) = length (heap s) /\ ptr_inc s /\
  forall i, i < nbins -> exists l, bin_ok s i l.

Lemma bin_ok_det s i l l' : bin_ok s i l -> bin_ok s i l' -> l = l'.
Proof. intros (H & _) (H' & _). eapply pseg_det; eassumption. Qed.

Lemma bin_ok_nodup s i l : bin_ok s i l -> NoDup l.
Proof. intros (_ & _ & H). eapply NoDup_map_inj. exact H. Qed.

Lemma bin_ok_in s i l a : bin_ok s i l -> In a l -> a < length (heap s) /\ bini (keyat s a) = i.
Proof. intros (_ & H & _) Ha. rewrite Forall_forall in H. auto. Qed.

(* a write performed on behalf of bin i: other bins, and cells hashing to other bins, are untouched *)
Definition frame (s s' : shared) (i : nat) : Prop :=
  (forall j, j <> i -> bin_at s' j = bin_at s j) /\
  (forall a, a < length (heap s) -> bini (keyat s a) <> i -> cell_at s' a = cell_at s a) /\
  (forall a, a < length (heap s) -> keyat s' a = keyat s a) /\
  length (heap s) <= length (heap s').

Lemma frame_bin_ok s s' i j l : frame s s' i -> j <> i -> bin_ok s j l -> bin_ok s' j l.
Proof.
  intros (Fb & Fc & Fk & Fl) Hj (Hp & Hf & Hn). rewrite Forall_forall in Hf.
  assert (Hcell : forall a, In a l -> cell_at s' a = cell_at s a).
  { intros a Ha. destruct (Hf a Ha) as [Hlt Hb]. apply Fc; [exact Hlt|]. rewrite Hb. exact Hj. }
  split; [|split].
  - rewrite Fb by exact Hj. eapply pseg_agree; [|exact Hp].
    intros a Ha. rewrite <- !cell_at_cellh. rewrite Hcell by exact Ha. reflexivity.
  - apply Forall_forall. intros a Ha. destruct (Hf a Ha) as [Hlt Hb]. split; [lia|].
    unfold keyat. rewrite Hcell by exact Ha. exact Hb.
  - erewrite map_ext_in; [exact Hn|]. intros a Ha. unfold keyat. rewrite Hcell by exact Ha. reflexivity.
Qed.

Lemma sh_inv_frame s s' i :
  sh_inv s -> frame s s' i -> length (bins s') = nbins -> length (locks s') = length (heap s') ->
  ptr_inc s' -> (exists l, bin_ok s' i l) -> sh_inv s'.
Proof.
  intros (Hb & Hl & Hp & Hbins) Hfr Hb' Hl' Hp' Hi. split; [exact Hb'|]. split; [exact Hl'|]. split; [exact Hp'|].
  intros j Hj. destruct (Nat.eq_dec j i) as [->|Hne]; [exact Hi|].
  destruct (Hbins j Hj) as (l & Hok). exists l. eapply frame_bin_ok; eassumption.
Qed.

(* ---------- per-thread invariants ---------- *)
Definition pred_of (pre : list nat) (pred : option nat) : Prop :=
  match pred with None => pre = [] | Some p => exists pre', pre = pre' ++ [p] end.

(* thread t holds the lock of the current head h of bin (bini k), has walked over `pre` (no node of
   which has key k) and is at node p *)
Definition walking (s : shared) (t : nat) (k : N) (h : nat) (pre : list nat) (p : nat) : Prop :=
  lock_at s h = Some t /\ bin_at s (bini k) = Some h /\
  (exists l2, pseg (heap s) (Some h) (pre ++ p :: l2) None) /\
  Forall (fun a => keyat s a <> k) pre.

Definition pc_inv (s : shared) (t : nat) (p : pc) : Prop :=
  match p with
  | PStart _ | GWalk _ _ | PutCas _ _ _ | PDone => True
  | PutFast k v h => h < length (heap s) /\ keyat s h = k
  | PutLock _ _ _ h | RmLock _ _ h | CpLock _ _ h => h < length (heap s)
  | PutReval _ _ _ h | RmReval _ _ h | CpReval _ _ h | PutUnlock h _ _ => lock_at s h = Some t
  | PutWalk k _ _ h p => exists pre, walking s t k h pre p
  | RmWalk k _ h pred e | CpWalk k _ h pred e => exists pre, walking s t k h pre e /\ pred_of pre pred
  | RmFound k _ h pred e nxt | CpFound k _ h pred e nxt =>
      exists pre, walking s t k h pre e /\ pred_of pre pred /\ keyat s e = k /\ cnext (cell_at s e) = nxt
  | RmUnlink k h pred e nxt ev | CpApply k h pred e nxt ev _ =>
      exists pre, walking s t k h pre e /\ pred_of pre pred /\ keyat s e = k /\ cnext (cell_at s e) = nxt
                  /\ cval (cell_at s e) = ev
  end.

(* the mutex a thread holds, according to its pc *)
Definition held (p : pc) : option nat :=
  match p with
  | PutReval _ _ _ h | RmReval _ _ h | CpReval _ _ h | PutUnlock h _ _
  | PutWalk _ _ _ h _ | RmWalk _ _ h _ _ | CpWalk _ _ h _ _ | RmFound _ _ h _ _ _ | CpFound _ _ h _ _ _
  | RmUnlink _ h _ _ _ _ | CpApply _ h _ _ _ _ _ => Some h
  | _ => None
  end.

Definition put_op (k : N) (v : Z) (no_repl : bool) : opn := if no_repl then OTryInsert k v else OInsert k v.

(* the pc belongs to the operation recorded in `cur` *)
Definition pc_cur (p : pc) (o : opn) : Prop :=
  match p with
  | PStart o' => o = o'
  | GWalk k _ => o = OGet k
  | PutCas k v nr | PutLock k v nr _ | PutReval k v nr _ | PutWalk k v nr _ _ => o = put_op k v nr
  | PutFast k v _ => o = OTryInsert k v
  | PutUnlock _ _ (Some o') => o = o'
  | PutUnlock _ _ None => True
  | RmLock k obs _ | RmReval k obs _ | RmWalk k obs _ _ _ | RmFound k obs _ _ _ _ => o = rm_op k obs
  (* the unlink step no longer knows obs; a conditional removal gets here only with obs = ev *)
  | RmUnlink k _ _ _ _ ev => o = ORemove k \/ o = OCondRemove k ev
  | CpLock k f _ | CpReval k f _ | CpWalk k f _ _ _ | CpFound k f _ _ _ _ => o = OCompute k f
  | CpApply k _ _ _ _ seen nv => exists f, o = OCompute k f /\ nv = f seen
  | PDone => False
  end.

Definition thr_cur (th : thread) : Prop :=
  match cur th with Some o => pc_cur (at_ th) o | None => at_ th = PDone end.

Definition binv (c : cfg) : Prop :=
  sh_inv (sh c) /\
  (forall t, pc_inv (sh c) t (at_ (get_thr c t)) /\ thr_cur (get_thr c t)) /\
  (forall a t, lock_at (sh c) a = Some t -> held (at_ (get_thr c t)) = Some a).

Lemma held_lock c t h : binv c -> held (at_ (get_thr c t)) = Some h -> lock_at (sh c) h = Some t.
Proof.
  intros (_ & Ht & _) Hh. destruct (Ht t) as [Hpc _].
  destruct (at_ (get_thr c t)); cbn in Hh; try discriminate; injection Hh as ->; cbn in Hpc;
    try exact Hpc; try (destruct Hpc as (pre & Hw & _); exact (proj1 Hw)); try (destruct Hpc as (pre & Hw); exact (proj1 Hw)).
Qed.

(* ---------- stability of a thread's invariant under other threads' writes ---------- *)
Definition same_bin (s s' : shared) (i : nat) : Prop :=
  bin_at s' i = bin_at s i /\ forall l a, bin_ok s i l -> In a l -> cell_at s' a = cell_at s a.

Lemma frame_same_bin s s' i j : frame s s' i -> j <> i -> same_bin s s' j.
Proof.
  intros (Fb & Fc & _) Hj. split; [apply Fb; exact Hj|].
  intros l a Hok Ha. destruct (bin_ok_in _ _ _ _ Hok Ha) as [Hlt Hb]. apply Fc; [exact Hlt|]. rewrite Hb. exact Hj.
Qed.

Lemma walking_list s t k h pre p : sh_inv s -> walking s t k h pre p -> exists l2, bin_ok s (bini k) (pre ++ p :: l2).
Proof.
  intros (_ & _ & _ & Hbins) (Hl & Hb & (l2 & Hp) & Hf).
  destruct (Hbins (bini k) (bini_lt k)) as (l & Hok). exists l2.
  assert (l = pre ++ p :: l2) as <-; [|exact Hok].
  destruct Hok as (Hp' & _). rewrite Hb in Hp'. eapply pseg_det; eassumption.
Qed.

Lemma walking_stable s s' t k h pre p :
  sh_inv s -> walking s t k h pre p -> lock_at s' h = Some t -> same_bin s s' (bini k) ->
  walking s' t k h pre p /\ forall a, In a (pre ++ [p]) -> cell_at s' a = cell_at s a.
Proof.
  intros Hinv Hw Hl' (Sb & Sc). destruct (walking_list _ _ _ _ _ _ Hinv Hw) as (l2 & Hok).
  destruct Hw as (Hl & Hb & _ & Hf).
  assert (Hc : forall a, In a (pre ++ p :: l2) -> cell_at s' a = cell_at s a) by (intros a Ha; eapply Sc; eassumption).
  split.
  - split; [exact Hl'|]. split; [rewrite Sb; exact Hb|]. split.
    + exists l2. destruct Hok as (Hp & _). rewrite Hb in Hp. eapply pseg_agree; [|exact Hp].
      intros a Ha. rewrite <- !cell_at_cellh, Hc by exact Ha. reflexivity.
    + rewrite Forall_forall in *. intros a Ha. unfold keyat. rewrite Hc; [apply Hf; exact Ha|].
      apply in_or_app. left. exact Ha.
  - intros a Ha. apply Hc. apply in_app_or in Ha as [Ha|[->|[]]]; apply in_or_app; [left; exact Ha|right; left; reflexivity].
Qed.

Lemma pc_inv_stable s s' t p :
  sh_inv s ->
  (forall a, lock_at s a = Some t -> lock_at s' a = Some t) ->
  (forall k h, bin_at s (bini k) = Some h -> lock_at s h = Some t -> same_bin s s' (bini k)) ->
  length (heap s) <= length (heap s') ->
  (forall a, a < length (heap s) -> keyat s' a = keyat s a) ->
  pc_inv s t p -> pc_inv s' t p.
Proof.
  intros Hinv HL HB Hlen Hkey Hp.
  assert (HW : forall k h pre e, walking s t k h pre e ->
            walking s' t k h pre e /\ forall a, In a (pre ++ [e]) -> cell_at s' a = cell_at s a).
  { intros k h pre e Hw. eapply walking_stable; [exact Hinv|exact Hw| |].
    - apply HL. exact (proj1 Hw).
    - destruct Hw as (Hl & Hb & _). eapply HB; eassumption. }
  assert (HE : forall pre e, (forall a, In a (pre ++ [e]) -> cell_at s' a = cell_at s a) -> cell_at s' e = cell_at s e).
  { intros pre e H. apply H. apply in_or_app. right. left. reflexivity. }
  destruct p; cbn in *; try exact I; try (apply HL; exact Hp); try lia.
  - destruct Hp as [Hlt Hk]. split; [lia|]. rewrite Hkey by exact Hlt. exact Hk.
  - destruct Hp as (pre & Hw). exists pre. apply (HW _ _ _ _ Hw).
  - destruct Hp as (pre & Hw & Hpr). exists pre. split; [apply (HW _ _ _ _ Hw)|exact Hpr].
  - destruct Hp as (pre & Hw & Hpr & Hk & Hn). exists pre. destruct (HW _ _ _ _ Hw) as [Hw' Hc].
    unfold keyat. rewrite (HE _ _ Hc). auto.
  - destruct Hp as (pre & Hw & Hpr & Hk & Hn & Hv). exists pre. destruct (HW _ _ _ _ Hw) as [Hw' Hc].
    unfold keyat. rewrite (HE _ _ Hc). auto.
  - destruct Hp as (pre & Hw & Hpr). exists pre. split; [apply (HW _ _ _ _ Hw)|exact Hpr].
  - destruct Hp as (pre & Hw & Hpr & Hk & Hn). exists pre. destruct (HW _ _ _ _ Hw) as [Hw' Hc].
    unfold keyat. rewrite (HE _ _ Hc). auto.
  - destruct Hp as (pre & Hw & Hpr & Hk & Hn & Hv). exists pre. destruct (HW _ _ _ _ Hw) as [Hw' Hc].
    unfold keyat. rewrite (HE _ _ Hc). auto.
Qed.

(* ---------- the five kinds of writes ---------- *)
Definition alloc_sh (s : shared) (k : N) (v : Z) : shared :=
  mkSh (heap s ++ [mkCell k v None]) (bins s) (locks s ++ [None]).
Lemma alloc_eq s k v : alloc s k v = (alloc_sh s k v, length (heap s)).
Proof. reflexivity. Qed.
Lemma cell_alloc_old s k v a : a < length (heap s) -> cell_at (alloc_sh s k v) a = cell_at s a.
Proof. apply cell_at_alloc_old. Qed.
Lemma cell_alloc_new s k v : cell_at (alloc_sh s k v) (length (heap s)) = mkCell k v None.
Proof. apply cell_at_alloc_new. Qed.
Lemma lock_alloc s k v a : length (locks s) = length (heap s) -> lock_at (alloc_sh s k v) a = lock_at s a.
Proof. apply lock_at_alloc. Qed.
Lemma heap_alloc_len s k v : length (heap (alloc_sh s k v)) = S (length (heap s)).
Proof. cbn. rewrite app_length. cbn. lia. Qed.
Lemma locks_alloc_len s k v : length (locks (alloc_sh s k v)) = S (length (locks s)).
Proof. cbn. rewrite app_length. cbn. lia. Qed.

(* (1) swap the value of an allocated node *)
Definition swap_sh (s : shared) (p : nat) (v : Z) : shared :=
  set_cell s p (mkCell (ckey (cell_at s p)) v (cnext (cell_at s p))).

Lemma swap_cell s p v a : p < length (heap s) ->
  cell_at (swap_sh s p v) a = if Nat.eqb a p then mkCell (keyat s p) v (cnext (cell_at s p)) else cell_at s a.
Proof.
  intros Hp. unfold swap_sh. destruct (Nat.eqb_spec a p) as [->|Hn].
  - rewrite cell_at_set_cell_same by exact Hp. reflexivity.
  - apply cell_at_set_cell_other; assumption.
Qed.
Lemma swap_key s p v a : p < length (heap s) -> keyat (swap_sh s p v) a = keyat s a.
Proof. intros Hp. unfold keyat at 1. rewrite swap_cell by exact Hp. destruct (Nat.eqb_spec a p) as [->|]; reflexivity. Qed.
Lemma swap_next s p v a : p < length (heap s) -> cnext (cell_at (swap_sh s p v) a) = cnext (cell_at s a).
Proof. intros Hp. rewrite swap_cell by exact Hp. destruct (Nat.eqb_spec a p) as [->|]; reflexivity. Qed.
Lemma swap_len s p v : p < length (heap s) -> length (heap (swap_sh s p v)) = length (heap s).
Proof. intros Hp. unfold swap_sh, set_cell. cbn. apply upd_list_length. exact Hp. Qed.

Lemma swap_bin_ok s p v j l : p < length (heap s) -> bin_ok s j l -> bin_ok (swap_sh s p v) j l.
Proof.
  intros Hp (Hs & Hf & Hn). split; [|split].
  - change (bin_at (swap_sh s p v) j) with (bin_at s j). eapply pseg_agree; [|exact Hs].
    intros a _. rewrite <- !cell_at_cellh. apply swap_next. exact Hp.
  - rewrite swap_len by exact Hp. eapply Forall_impl; [|exact Hf]. cbn. intros a [Ha Hb].
    rewrite swap_key by exact Hp. auto.
  - erewrite map_ext; [exact Hn|]. intros a. apply swap_key. exact Hp.
Qed.

Lemma swap_sh_inv s p v : p < length (heap s) -> sh_inv s -> sh_inv (swap_sh s p v).
Proof.
  intros Hp (Hb & Hl & Hi & Hbins). split; [exact Hb|]. split; [|split].
  - rewrite swap_len by exact Hp. exact Hl.
  - intros a q Ha Hq. rewrite swap_len in * by exact Hp. rewrite swap_next in Hq by exact Hp. auto.
  - intros i Hi'. destruct (Hbins i Hi') as (l & Hok). exists l. apply swap_bin_ok; assumption.
Qed.

Lemma swap_frame s p v : p < length (heap s) -> frame s (swap_sh s p v) (bini (keyat s p)).
Proof.
  intros Hp. split; [reflexivity|]. split; [|split].
  - intros a Ha Hb. rewrite swap_cell by exact Hp. destruct (Nat.eqb_spec a p) as [->|]; [contradiction|reflexivity].
  - intros a _. apply swap_key. exact Hp.
  - rewrite swap_len by exact Hp. lia.
Qed.

(* (2) append a fresh node after the tail p *)
Definition append_sh (s : shared) (p : nat) (k : N) (v : Z) : shared :=
  set_cell (alloc_sh s k v) p (mkCell (ckey (cell_at s p)) (cval (cell_at s p)) (Some (length (heap s)))).

Lemma append_cell s p k v a : p < length (heap s) ->
  cell_at (append_sh s p k v) a =
    if Nat.eqb a p then mkCell (keyat s p) (cval (cell_at s p)) (Some (length (heap s)))
    else if Nat.eqb a (length (heap s)) then mkCell k v None else cell_at s a.
Proof.
  intros Hp. unfold append_sh. pose proof (heap_alloc_len s k v) as HL.
  destruct (Nat.eqb_spec a p) as [->|Hn].
  - rewrite cell_at_set_cell_same by lia. reflexivity.
  - rewrite cell_at_set_cell_other by (try lia; exact Hn).
    destruct (Nat.eqb_spec a (length (heap s))) as [->|Hn2]; [apply cell_alloc_new|].
    unfold cell_at, alloc_sh. cbn. destruct (Nat.lt_ge_cases a (length (heap s))) as [Hlt|Hge].
    + apply app_nth1. exact Hlt.
    + rewrite !nth_overflow; [reflexivity|lia|rewrite app_length; cbn; lia].
Qed.
Lemma append_len s p k v : p < length (heap s) -> length (heap (append_sh s p k v)) = S (length (heap s)).
Proof.
  intros Hp. unfold append_sh, set_cell. cbn [heap]. rewrite upd_list_length; [apply heap_alloc_len|].
  rewrite heap_alloc_len. lia.
Qed.
Lemma append_key s p k v a : p < length (heap s) -> a < length (heap s) -> keyat (append_sh s p k v) a = keyat s a.
Proof.
  intros Hp Ha. unfold keyat at 1. rewrite append_cell by exact Hp.
  destruct (Nat.eqb_spec a p) as [->|]; [reflexivity|]. destruct (Nat.eqb_spec a (length (heap s))); [lia|reflexivity].
Qed.

Lemma append_frame s p k v : p < length (heap s) -> frame s (append_sh s p k v) (bini (keyat s p)).
Proof.
  intros Hp. split; [reflexivity|]. split; [|split].
  - intros a Ha Hb. rewrite append_cell by exact Hp. destruct (Nat.eqb_spec a p) as [->|]; [contradiction|].
    destruct (Nat.eqb_spec a (length (heap s))); [lia|reflexivity].
  - intros a Ha. apply append_key; assumption.
  - rewrite append_len by exact Hp. lia.
Qed.

Lemma append_ptr_inc s p k v : p < length (heap s) -> ptr_inc s -> ptr_inc (append_sh s p k v).
Proof.
  intros Hp Hi a q Ha Hq. rewrite append_len in * by exact Hp. rewrite append_cell in Hq by exact Hp.
  destruct (Nat.eqb_spec a p) as [->|Hn]; cbn in Hq.
  - injection Hq as <-. lia.
  - destruct (Nat.eqb_spec a (length (heap s))) as [->|Hn2]; cbn in Hq; [discriminate|].
    assert (a < length (heap s)) as Ha' by lia. specialize (Hi a q Ha' Hq). lia.
Qed.

Lemma append_bin_ok s l p k v :
  bin_ok s (bini k) (l ++ [p]) -> Forall (fun a => keyat s a <> k) (l ++ [p]) ->
  bin_ok (append_sh s p k v) (bini k) ((l ++ [p]) ++ [length (heap s)]).
Proof.
  intros Hok Hk. pose proof (bin_ok_nodup _ _ _ Hok) as Hnd.
  assert (Hp : p < length (heap s)). { eapply bin_ok_in; [exact Hok|]. apply in_or_app. right. left. reflexivity. }
  destruct Hok as (Hs & Hf & Hn).
  assert (Hold : forall a, In a l -> cell_at (append_sh s p k v) a = cell_at s a).
  { intros a Ha. rewrite append_cell by exact Hp.
    destruct (Nat.eqb_spec a p) as [->|Hne].
    - exfalso. apply NoDup_remove_2 in Hnd. rewrite app_nil_r in Hnd. contradiction.
    - rewrite Forall_forall in Hf. assert (a < length (heap s)) by (apply Hf; apply in_or_app; left; exact Ha).
      destruct (Nat.eqb_spec a (length (heap s))); [lia|reflexivity]. }
  split; [|split].
  - change (bin_at (append_sh s p k v) (bini k)) with (bin_at s (bini k)).
    apply pseg_app_inv in Hs as (m & H1 & H2). apply pseg_cons_inv in H2 as [-> H2].
    eapply pseg_app; [eapply pseg_app|].
    + eapply pseg_agree; [|exact H1]. intros a Ha. rewrite <- !cell_at_cellh, Hold by exact Ha. reflexivity.
    + constructor. rewrite <- cell_at_cellh, append_cell, Nat.eqb_refl by exact Hp. cbn. constructor.
    + constructor. rewrite <- cell_at_cellh, append_cell by exact Hp.
      destruct (Nat.eqb_spec (length (heap s)) p); [lia|]. rewrite Nat.eqb_refl. cbn. constructor.
  - rewrite append_len by exact Hp. apply Forall_app. split.
    + eapply Forall_impl; [|exact Hf]. cbn. intros a [Ha Hb]. rewrite append_key by assumption. split; [lia|exact Hb].
    + constructor; [|constructor]. split; [lia|]. unfold keyat. rewrite append_cell by exact Hp.
      destruct (Nat.eqb_spec (length (heap s)) p); [lia|]. rewrite Nat.eqb_refl. reflexivity.
  - rewrite map_app. cbn [map].
    assert (Hk1 : keyat (append_sh s p k v) (length (heap s)) = k).
    { unfold keyat. rewrite append_cell by exact Hp. destruct (Nat.eqb_spec (length (heap s)) p); [lia|].
      rewrite Nat.eqb_refl. reflexivity. }
    assert (Hm : map (keyat (append_sh s p k v)) (l ++ [p]) = map (keyat s) (l ++ [p])).
    { apply map_ext_in. intros a Ha. apply append_key; [exact Hp|]. rewrite Forall_forall in Hf. apply Hf. exact Ha. }
    rewrite Hm, Hk1. apply NoDup_app_single. split; [exact Hn|].
    intros Hin. apply in_map_iff in Hin as (a & Hka & Ha). rewrite Forall_forall in Hk. exact (Hk a Ha Hka).
Qed.

(* (3) unlink the head of bin i *)
Lemma unlink_head_bin_ok s i e l2 :
  i < length (bins s) -> bin_ok s i (e :: l2) -> bin_ok (set_bin s i (cnext (cell_at s e))) i l2.
Proof.
  intros Hi (Hs & Hf & Hn). split; [|split].
  - rewrite bin_at_set_bin_same by exact Hi. apply pseg_cons_inv in Hs as [_ Hs]. exact Hs.
  - inversion Hf; subst. assumption.
  - cbn in Hn. inversion Hn; subst. assumption.
Qed.
Lemma set_bin_frame s i o : i < length (bins s) -> frame s (set_bin s i o) i.
Proof.
  intros Hi. split; [|split; [|split]].
  - intros j Hj. apply bin_at_set_bin_other; assumption.
  - reflexivity.
  - reflexivity.
  - cbn. lia.
Qed.

(* (4) unlink e by redirecting its predecessor pr *)
Definition redirect_sh (s : shared) (pr : nat) (nxt : option nat) : shared :=
  set_cell s pr (mkCell (ckey (cell_at s pr)) (cval (cell_at s pr)) nxt).

Lemma redirect_cell s pr nxt a : pr < length (heap s) ->
  cell_at (redirect_sh s pr nxt) a =
    if Nat.eqb a pr then mkCell (keyat s pr) (cval (cell_at s pr)) nxt else cell_at s a.
Proof.
  intros Hp. unfold redirect_sh. destruct (Nat.eqb_spec a pr) as [->|Hn].
  - rewrite cell_at_set_cell_same by exact Hp. reflexivity.
  - apply cell_at_set_cell_other; assumption.
Qed.
Lemma redirect_key s pr nxt a : pr < length (heap s) -> keyat (redirect_sh s pr nxt) a = keyat s a.
Proof. intros Hp. unfold keyat at 1. rewrite redirect_cell by exact Hp. destruct (Nat.eqb_spec a pr) as [->|]; reflexivity. Qed.
Lemma redirect_len s pr nxt : pr < length (heap s) -> length (heap (redirect_sh s pr nxt)) = length (heap s).
Proof. intros Hp. unfold redirect_sh, set_cell. cbn. apply upd_list_length. exact Hp. Qed.
Lemma redirect_frame s pr nxt : pr < length (heap s) -> frame s (redirect_sh s pr nxt) (bini (keyat s pr)).
Proof.
  intros Hp. split; [reflexivity|]. split; [|split].
  - intros a Ha Hb. rewrite redirect_cell by exact Hp. destruct (Nat.eqb_spec a pr) as [->|]; [contradiction|reflexivity].
  - intros a _. apply redirect_key. exact Hp.
  - rewrite redirect_len by exact Hp. lia.
Qed.

Lemma unlink_pred_bin_ok s i pre pr e l2 :
  bin_ok s i (pre ++ pr :: e :: l2) ->
  bin_ok (redirect_sh s pr (cnext (cell_at s e))) i (pre ++ pr :: l2).
Proof.
  intros Hok. pose proof (bin_ok_nodup _ _ _ Hok) as Hnd.
  assert (Hp : pr < length (heap s)). { eapply bin_ok_in; [exact Hok|]. apply in_or_app. right. left. reflexivity. }
  destruct Hok as (Hs & Hf & Hn).
  set (s' := redirect_sh s pr (cnext (cell_at s e))).
  assert (Hold : forall a, a <> pr -> cell_at s' a = cell_at s a).
  { intros a Ha. unfold s'. rewrite redirect_cell by exact Hp. destruct (Nat.eqb_spec a pr); [contradiction|reflexivity]. }
  assert (Hpre : ~ In pr pre). { apply NoDup_remove_2 in Hnd. intros Hin. apply Hnd. apply in_or_app. left. exact Hin. }
  assert (Hl2 : ~ In pr l2). { apply NoDup_remove_2 in Hnd. intros Hin. apply Hnd. apply in_or_app. right. right. exact Hin. }
  split; [|split].
  - change (bin_at s' i) with (bin_at s i).
    apply pseg_app_inv in Hs as (m & H1 & H2). apply pseg_cons_inv in H2 as [-> H2].
    apply pseg_cons_inv in H2 as [_ H2].
    eapply pseg_app.
    + eapply pseg_agree; [|exact H1]. intros a Ha. rewrite <- !cell_at_cellh, Hold; [reflexivity|]. intros ->. contradiction.
    + assert (Hpr : cnext (cell_at s' pr) = cnext (cell_at s e)).
      { unfold s'. rewrite redirect_cell, Nat.eqb_refl by exact Hp. reflexivity. }
      constructor. rewrite <- cell_at_cellh, Hpr.
      eapply pseg_agree; [|exact H2]. intros a Ha. rewrite <- !cell_at_cellh.
      rewrite Hold; [reflexivity|]. intros ->. contradiction.
  - unfold s'. rewrite redirect_len by exact Hp. rewrite Forall_forall in *. intros a Ha.
    rewrite redirect_key by exact Hp. apply Hf. apply in_app_or in Ha as [Ha|[->|Ha]]; apply in_or_app; auto.
    + right. left. reflexivity.
    + right. right. right. exact Ha.
  - erewrite map_ext; [|intros a; apply redirect_key; exact Hp].
    change (pre ++ pr :: e :: l2) with (pre ++ [pr] ++ e :: l2) in Hn. rewrite app_assoc, map_app in Hn. cbn [map] in Hn.
    apply NoDup_remove_1 in Hn. rewrite <- map_app, <- app_assoc in Hn. exact Hn.
Qed.

Lemma unlink_pred_ptr_inc s i pre pr e l2 :
  ptr_inc s -> bin_ok s i (pre ++ pr :: e :: l2) -> ptr_inc (redirect_sh s pr (cnext (cell_at s e))).
Proof.
  intros Hi Hok.
  assert (Hp : pr < length (heap s)). { eapply bin_ok_in; [exact Hok|]. apply in_or_app. right. left. reflexivity. }
  assert (He : e < length (heap s)). { eapply bin_ok_in; [exact Hok|]. apply in_or_app. right. right. left. reflexivity. }
  assert (Hpe : cnext (cell_at s pr) = Some e).
  { destruct Hok as (Hs & _). apply pseg_app_inv in Hs as (m & _ & H2). apply pseg_cons_inv in H2 as [_ H2].
    apply pseg_cons_inv in H2 as [H2 _]. exact H2. }
  intros a q Ha Hq. rewrite redirect_len in * by exact Hp. rewrite redirect_cell in Hq by exact Hp.
  destruct (Nat.eqb_spec a pr) as [->|Hn]; cbn in Hq; [|auto].
  pose proof (Hi _ _ Hp Hpe). pose proof (Hi _ _ He Hq). lia.
Qed.

(* (5) CAS a fresh node into the empty bin i *)
Definition cas_sh (s : shared) (i : nat) (k : N) (v : Z) : shared :=
  set_bin (alloc_sh s k v) i (Some (length (heap s))).

Lemma cas_cell_old s i k v a : a < length (heap s) -> cell_at (cas_sh s i k v) a = cell_at s a.
Proof. intros Ha. unfold cas_sh. change (cell_at (set_bin ?x _ _) a) with (cell_at x a). apply cell_alloc_old. exact Ha. Qed.
Lemma cas_cell_new s i k v : cell_at (cas_sh s i k v) (length (heap s)) = mkCell k v None.
Proof. unfold cas_sh. change (cell_at (set_bin ?x _ _) ?a) with (cell_at x a). apply cell_alloc_new. Qed.
Lemma cas_len s i k v : length (heap (cas_sh s i k v)) = S (length (heap s)).
Proof. unfold cas_sh. cbn [heap set_bin]. apply heap_alloc_len. Qed.
Lemma cas_frame s i k v : i < length (bins s) -> frame s (cas_sh s i k v) i.
Proof.
  intros Hi. split; [|split; [|split]].
  - intros j Hj. unfold cas_sh. rewrite bin_at_set_bin_other by assumption. reflexivity.
  - intros a Ha _. apply cas_cell_old. exact Ha.
  - intros a Ha. unfold keyat. rewrite cas_cell_old by exact Ha. reflexivity.
  - rewrite cas_len. lia.
Qed.
Lemma cas_bin_ok s k v : bini k < length (bins s) -> bin_ok (cas_sh s (bini k) k v) (bini k) [length (heap s)].
Proof.
  intros Hi. split; [|split].
  - unfold cas_sh at 2. rewrite bin_at_set_bin_same by exact Hi. constructor.
    rewrite <- cell_at_cellh, cas_cell_new. cbn. constructor.
  - constructor; [|constructor]. rewrite cas_len. split; [lia|]. unfold keyat. rewrite cas_cell_new. reflexivity.
  - cbn. constructor; [intros []|constructor].
Qed.
Lemma cas_ptr_inc s i k v : ptr_inc s -> ptr_inc (cas_sh s i k v).
Proof.
  intros Hi a q Ha Hq. rewrite cas_len in *. destruct (Nat.eq_dec a (length (heap s))) as [->|Hn].
  - rewrite cas_cell_new in Hq. discriminate.
  - assert (Ha' : a < length (heap s)) by lia. rewrite cas_cell_old in Hq by exact Ha'. specialize (Hi _ _ Ha' Hq). lia.
Qed.

(* ---------- configuration updates ---------- *)
Definition bump (c : cfg) : cfg := mkCfg (sh c) (thr c) (now c + 1)%N (hist c).
Definition dthr := mkT [] None PDone 0.

Lemma get_thr_upd ths t th' s n h t' : t < length ths ->
  get_thr (mkCfg s (upd_list ths t th') n h) t' = if Nat.eqb t' t then th' else nth t' ths dthr.
Proof.
  intros Ht. unfold BinProto.get_thr. cbn [thr]. destruct (Nat.eqb_spec t' t) as [->|Hn].
  - apply nth_upd_same. exact Ht.
  - apply nth_upd_other; assumption.
Qed.

Lemma thr_lt c t : at_ (get_thr c t) <> PDone \/ todo (get_thr c t) <> [] -> t < length (thr c).
Proof.
  intros H. destruct (Nat.lt_ge_cases t (length (thr c))) as [Hl|Hl]; [exact Hl|].
  unfold BinProto.get_thr in H. rewrite nth_overflow in H by exact Hl. cbn in H. destruct H as [H|H]; congruence.
Qed.

Lemma binv_upd c s' t th' n' h' :
  binv c -> t < length (thr c) -> sh_inv s' -> pc_inv s' t (at_ th') -> thr_cur th' ->
  (forall t', t' <> t -> pc_inv s' t' (at_ (get_thr c t'))) ->
  (forall a t', lock_at s' a = Some t' ->
     if Nat.eqb t' t then held (at_ th') = Some a else held (at_ (get_thr c t')) = Some a) ->
  binv (mkCfg s' (upd_list (thr c) t th') n' h').
Proof.
  intros (Hsh & Hthr & Hlk) Ht Hsh' Hpc' Hcur' Hoth Hlk'. split; [exact Hsh'|]. split.
  - intros t'. rewrite get_thr_upd by exact Ht. cbn [sh]. destruct (Nat.eqb_spec t' t) as [->|Hn].
    + split; assumption.
    + split; [apply Hoth; exact Hn|apply Hthr].
  - intros a t' Ha. cbn [sh] in Ha. rewrite get_thr_upd by exact Ht. specialize (Hlk' a t' Ha).
    destruct (Nat.eqb_spec t' t); exact Hlk'.
Qed.

(* no shared write *)
Lemma binv_upd_local c t th' n' h' :
  binv c -> t < length (thr c) -> pc_inv (sh c) t (at_ th') -> thr_cur th' ->
  held (at_ th') = held (at_ (get_thr c t)) ->
  binv (mkCfg (sh c) (upd_list (thr c) t th') n' h').
Proof.
  intros Hinv Ht Hpc Hcur Hheld. pose proof Hinv as (Hsh & Hthr & Hlk).
  apply binv_upd; try assumption.
  - intros t' _. apply Hthr.
  - intros a t' Ha. specialize (Hlk a t' Ha). destruct (Nat.eqb_spec t' t) as [->|]; [rewrite Hheld|]; exact Hlk.
Qed.

(* a heap/bin write on behalf of bin i, whose head lock (if any) t holds *)
Lemma binv_upd_write c s' i t th' n' h' :
  binv c -> t < length (thr c) -> sh_inv s' -> frame (sh c) s' i ->
  (forall a, lock_at s' a = lock_at (sh c) a) ->
  (forall h, bin_at (sh c) i = Some h -> lock_at (sh c) h = Some t) ->
  pc_inv s' t (at_ th') -> thr_cur th' -> held (at_ th') = held (at_ (get_thr c t)) ->
  binv (mkCfg s' (upd_list (thr c) t th') n' h').
Proof.
  intros Hinv Ht Hsh' Hfr Hlocks Hown Hpc Hcur Hheld. pose proof Hinv as (Hsh & Hthr & Hlk).
  apply binv_upd; try assumption.
  - intros t' Hne. eapply pc_inv_stable; [exact Hsh| | | | |apply Hthr].
    + intros a Ha. rewrite Hlocks. exact Ha.
    + intros k h Hb Hl. destruct (Nat.eq_dec (bini k) i) as [<-|Hni].
      * specialize (Hown h Hb). congruence.
      * eapply frame_same_bin; eassumption.
    + apply Hfr.
    + apply Hfr.
  - intros a t' Ha. rewrite Hlocks in Ha. specialize (Hlk a t' Ha).
    destruct (Nat.eqb_spec t' t) as [->|]; [rewrite Hheld|]; exact Hlk.
Qed.

Lemma same_bin_locks s s' i : heap s' = heap s -> bins s' = bins s -> same_bin s s' i.
Proof. intros Hh Hb. unfold same_bin, bin_at, cell_at. rewrite Hh, Hb. auto. Qed.

(* acquire the free lock h *)
Lemma binv_upd_lock c h t th' n' h' :
  binv c -> t < length (thr c) -> h < length (heap (sh c)) -> lock_at (sh c) h = None ->
  held (at_ (get_thr c t)) = None -> held (at_ th') = Some h ->
  pc_inv (set_lock (sh c) h (Some t)) t (at_ th') -> thr_cur th' ->
  binv (mkCfg (set_lock (sh c) h (Some t)) (upd_list (thr c) t th') n' h').
Proof.
  intros Hinv Ht Hh Hfree Hold Hnew Hpc Hcur. pose proof Hinv as (Hsh & Hthr & Hlk).
  assert (HL : h < length (locks (sh c))) by (destruct Hsh as (_ & -> & _); exact Hh).
  apply binv_upd; try assumption.
  - destruct Hsh as (Hb & Hl & Hp & Hbins). split; [exact Hb|]. split; [|split; [exact Hp|exact Hbins]].
    cbn. rewrite upd_list_length by exact HL. exact Hl.
  - intros t' Hne. eapply pc_inv_stable; [exact Hsh| | | | |apply Hthr].
    + intros a Ha. rewrite lock_at_set_lock_other; [exact Ha|exact HL|congruence].
    + intros. apply same_bin_locks; reflexivity.
    + cbn. lia.
    + reflexivity.
  - intros a t' Ha. destruct (Nat.eq_dec a h) as [->|Hne].
    + rewrite lock_at_set_lock_same in Ha by exact HL. injection Ha as <-. rewrite Nat.eqb_refl. exact Hnew.
    + rewrite lock_at_set_lock_other in Ha by assumption. specialize (Hlk a t' Ha).
      destruct (Nat.eqb_spec t' t) as [->|]; [congruence|exact Hlk].
Qed.

(* release the lock h held by t *)
Lemma binv_upd_unlock c h t th' n' h' :
  binv c -> t < length (thr c) -> held (at_ (get_thr c t)) = Some h -> held (at_ th') = None ->
  pc_inv (set_lock (sh c) h None) t (at_ th') -> thr_cur th' ->
  binv (mkCfg (set_lock (sh c) h None) (upd_list (thr c) t th') n' h').
Proof.
  intros Hinv Ht Hold Hnew Hpc Hcur. pose proof Hinv as (Hsh & Hthr & Hlk).
  pose proof (held_lock _ _ _ Hinv Hold) as Hmine.
  assert (HL : h < length (locks (sh c))) by (eapply lock_at_lt; exact Hmine).
  apply binv_upd; try assumption.
  - destruct Hsh as (Hb & Hl & Hp & Hbins). split; [exact Hb|]. split; [|split; [exact Hp|exact Hbins]].
    cbn. rewrite upd_list_length by exact HL. exact Hl.
  - intros t' Hne. eapply pc_inv_stable; [exact Hsh| | | | |apply Hthr].
    + intros a Ha. rewrite lock_at_set_lock_other; [exact Ha|exact HL|congruence].
    + intros. apply same_bin_locks; reflexivity.
    + cbn. lia.
    + reflexivity.
  - intros a t' Ha. destruct (Nat.eq_dec a h) as [->|Hne].
    + rewrite lock_at_set_lock_same in Ha by exact HL. discriminate.
    + rewrite lock_at_set_lock_other in Ha by assumption. specialize (Hlk a t' Ha).
      destruct (Nat.eqb_spec t' t) as [->|]; [congruence|exact Hlk].
Qed.

(* ---------- walking ---------- *)
Lemma walking_start s t k h : sh_inv s -> lock_at s h = Some t -> bin_at s (bini k) = Some h -> walking s t k h [] h.
Proof.
  intros (_ & _ & _ & Hbins) Hl Hb. split; [exact Hl|]. split; [exact Hb|]. split; [|constructor].
  destruct (Hbins (bini k) (bini_lt k)) as (l & Hs & _). rewrite Hb in Hs.
  destruct (pseg_next_some _ _ _ Hs) as (l' & ->). exists l'. exact Hs.
Qed.

Lemma walking_advance s t k h pre p q :
  walking s t k h pre p -> keyat s p <> k -> cnext (cell_at s p) = Some q -> walking s t k h (pre ++ [p]) q.
Proof.
  intros (Hl & Hb & (l2 & Hs) & Hf) Hk Hq. split; [exact Hl|]. split; [exact Hb|]. split.
  - pose proof (pseg_mid _ _ _ _ _ Hs) as Hm. rewrite <- cell_at_cellh, Hq in Hm.
    destruct (pseg_next_some _ _ _ Hm) as (l' & ->). exists l'. rewrite <- app_assoc. exact Hs.
  - apply Forall_app. split; [exact Hf|]. constructor; [exact Hk|constructor].
Qed.

Lemma walking_end s t k h pre p :
  sh_inv s -> walking s t k h pre p -> cnext (cell_at s p) = None -> bin_ok s (bini k) (pre ++ [p]).
Proof.
  intros Hinv Hw Hn. destruct (walking_list _ _ _ _ _ _ Hinv Hw) as (l2 & Hok).
  destruct Hok as (Hs & Hr). pose proof (pseg_mid _ _ _ _ _ Hs) as Hm. rewrite <- cell_at_cellh, Hn in Hm.
  apply pseg_next_none in Hm. subst l2. split; assumption.
Qed.

Lemma walking_head s t k h pre p : walking s t k h pre p -> forall h', bin_at s (bini k) = Some h' -> lock_at s h' = Some t.
Proof. intros (Hl & Hb & _) h' Hb'. rewrite Hb in Hb'. injection Hb' as <-. exact Hl. Qed.

Lemma pred_of_snoc pre p : pred_of (pre ++ [p]) (Some p).
Proof. exists pre. reflexivity. Qed.

(* ---------- effects of the writes, from the writer's invariant ---------- *)
Lemma swap_effect s t k h pre p v :
  sh_inv s -> walking s t k h pre p -> keyat s p = k ->
  sh_inv (swap_sh s p v) /\ frame s (swap_sh s p v) (bini k) /\ (forall a, lock_at (swap_sh s p v) a = lock_at s a).
Proof.
  intros Hinv Hw Hk. destruct (walking_list _ _ _ _ _ _ Hinv Hw) as (l2 & Hok).
  assert (Hp : p < length (heap s)). { eapply bin_ok_in; [exact Hok|]. apply in_or_app. right. left. reflexivity. }
  split; [apply swap_sh_inv; assumption|]. split; [|reflexivity]. rewrite <- Hk. apply swap_frame. exact Hp.
Qed.

Lemma append_effect s t k h pre p v :
  sh_inv s -> walking s t k h pre p -> keyat s p <> k -> cnext (cell_at s p) = None ->
  sh_inv (append_sh s p k v) /\ frame s (append_sh s p k v) (bini k) /\
  (forall a, lock_at (append_sh s p k v) a = lock_at s a) /\
  bin_ok s (bini k) (pre ++ [p]) /\ bin_ok (append_sh s p k v) (bini k) ((pre ++ [p]) ++ [length (heap s)]).
Proof.
  intros Hinv Hw Hk Hn. pose proof (walking_end _ _ _ _ _ _ Hinv Hw Hn) as Hok.
  assert (Hp : p < length (heap s) /\ bini (keyat s p) = bini k).
  { eapply bin_ok_in; [exact Hok|]. apply in_or_app. right. left. reflexivity. }
  destruct Hp as [Hp Hbk].
  assert (Hf : Forall (fun a => keyat s a <> k) (pre ++ [p])).
  { apply Forall_app. split; [apply Hw|]. constructor; [exact Hk|constructor]. }
  pose proof (append_bin_ok _ _ _ _ v Hok Hf) as Hok'.
  assert (Hfr : frame s (append_sh s p k v) (bini k)) by (rewrite <- Hbk; apply append_frame; exact Hp).
  assert (Hlk : forall a, lock_at (append_sh s p k v) a = lock_at s a).
  { intros a. unfold append_sh. change (lock_at (set_cell ?x _ _) a) with (lock_at x a). apply lock_alloc. apply Hinv. }
  split; [|auto]. pose proof Hinv as (Hb & Hl & Hpi & _).
  eapply sh_inv_frame; [exact Hinv|exact Hfr|exact Hb| |apply append_ptr_inc; assumption|eexists; exact Hok'].
  rewrite append_len by exact Hp. unfold append_sh. change (locks (set_cell ?x _ _)) with (locks x).
  rewrite locks_alloc_len. lia.
Qed.

Definition unlink_sh (s : shared) (i : nat) (pred : option nat) (nxt : option nat) : shared :=
  match pred with Some pr => redirect_sh s pr nxt | None => set_bin s i nxt end.

Lemma unlink_effect s t k h pre pred e :
  sh_inv s -> walking s t k h pre e -> pred_of pre pred ->
  let s' := unlink_sh s (bini k) pred (cnext (cell_at s e)) in
  sh_inv s' /\ frame s s' (bini k) /\ (forall a, lock_at s' a = lock_at s a) /\
  exists l0 l2, pre = l0 /\ bin_ok s (bini k) (l0 ++ e :: l2) /\ bin_ok s' (bini k) (l0 ++ l2) /\
     (forall a, cval (cell_at s' a) = cval (cell_at s a)) /\
     (forall a, keyat s' a = keyat s a) /\
     (forall a, ~ In a (l0 ++ l2) -> cell_at s' a = cell_at s a).
Proof.
  intros Hinv Hw Hpr s'. destruct (walking_list _ _ _ _ _ _ Hinv Hw) as (l2 & Hok).
  pose proof Hinv as (Hb & Hl & Hpi & Hbins).
  assert (Hi : bini k < length (bins s)) by (rewrite Hb; apply bini_lt).
  destruct pred as [pr|]; cbn in Hpr, s'.
  - destruct Hpr as (pre' & ->). rewrite <- app_assoc in Hok. cbn [app] in Hok.
    assert (Hp : pr < length (heap s) /\ bini (keyat s pr) = bini k).
    { eapply bin_ok_in; [exact Hok|]. apply in_or_app. right. left. reflexivity. }
    destruct Hp as [Hp Hbk].
    pose proof (unlink_pred_bin_ok _ _ _ _ _ _ Hok) as Hok'. fold s' in Hok'.
    assert (Hfr : frame s s' (bini k)) by (rewrite <- Hbk; apply redirect_frame; exact Hp).
    split; [|split; [exact Hfr|split; [reflexivity|]]].
    + eapply sh_inv_frame; [exact Hinv|exact Hfr|exact Hb| | |eexists; exact Hok'].
      * unfold s'. rewrite redirect_len by exact Hp. exact Hl.
      * eapply unlink_pred_ptr_inc; eassumption.
    + exists (pre' ++ [pr]), l2. rewrite <- !app_assoc. cbn [app]. split; [reflexivity|]. split; [exact Hok|]. split; [exact Hok'|].
      split; [|split].
      * intros a. unfold s'. rewrite redirect_cell by exact Hp. destruct (Nat.eqb_spec a pr) as [->|]; reflexivity.
      * intros a. apply redirect_key. exact Hp.
      * intros a Ha. unfold s'. rewrite redirect_cell by exact Hp. destruct (Nat.eqb_spec a pr) as [->|]; [|reflexivity].
        exfalso. apply Ha. apply in_or_app. right. left. reflexivity.
  - subst pre. cbn [app] in Hok.
    pose proof (unlink_head_bin_ok _ _ _ _ Hi Hok) as Hok'. fold s' in Hok'.
    assert (Hfr : frame s s' (bini k)) by (apply set_bin_frame; exact Hi).
    split; [|split; [exact Hfr|split; [reflexivity|]]].
    + eapply sh_inv_frame; [exact Hinv|exact Hfr| | | |eexists; exact Hok'].
      * unfold s', set_bin. cbn. rewrite upd_list_length by exact Hi. exact Hb.
      * exact Hl.
      * exact Hpi.
    + exists [], l2. cbn [app]. split; [reflexivity|]. split; [exact Hok|]. split; [exact Hok'|]. split; [|split]; reflexivity.
Qed.

Lemma cas_effect s k v :
  sh_inv s -> bin_at s (bini k) = None ->
  let s' := cas_sh s (bini k) k v in
  sh_inv s' /\ frame s s' (bini k) /\ (forall a, lock_at s' a = lock_at s a) /\ bin_ok s' (bini k) [length (heap s)].
Proof.
  intros Hinv Hb s'. pose proof Hinv as (Hbl & Hl & Hpi & Hbins).
  assert (Hi : bini k < length (bins s)) by (rewrite Hbl; apply bini_lt).
  pose proof (cas_bin_ok s k v Hi) as Hok'. fold s' in Hok'.
  assert (Hfr : frame s s' (bini k)) by (apply cas_frame; exact Hi).
  split; [|split; [exact Hfr|split; [|exact Hok']]].
  - eapply sh_inv_frame; [exact Hinv|exact Hfr| | |apply cas_ptr_inc; exact Hpi|eexists; exact Hok'].
    + unfold s', cas_sh, set_bin. cbn. rewrite upd_list_length by exact Hi. exact Hbl.
    + unfold s'. rewrite cas_len. unfold cas_sh. change (locks (set_bin ?x _ _)) with (locks x). rewrite locks_alloc_len. lia.
  - intros a. unfold s', cas_sh. change (lock_at (set_bin ?x _ _) a) with (lock_at x a). apply lock_alloc. exact Hl.
Qed.

(* ---------- one step preserves the invariant ---------- *)
Notation goto := BinProto.goto.
Notation finish := BinProto.finish.

Definition moved (c : cfg) (t : nat) (p : pc) : thread :=
  mkT (todo (get_thr c t)) (cur (get_thr c t)) p (inv_at (get_thr c t)).
Definition ended (c : cfg) (t : nat) : thread :=
  mkT (todo (get_thr c t)) None PDone (inv_at (get_thr c t)).

Lemma goto_shape c s' t p :
  goto (with_sh (bump c) s') t p = mkCfg s' (upd_list (thr c) t (moved c t p)) (now c + 1)%N (hist c).
Proof. reflexivity. Qed.
Lemma finish_shape c s' t r o : cur (get_thr c t) = Some o ->
  finish (with_sh (bump c) s') t r =
  mkCfg s' (upd_list (thr c) t (ended c t)) (now c + 1)%N
        (mkH t o r (inv_at (get_thr c t)) (now c + 1)%N :: hist c).
Proof.
  intros H. unfold BinProto.finish. change (BinProto.get_thr (with_sh (bump c) s') t) with (get_thr c t).
  rewrite H. reflexivity.
Qed.
Lemma with_sh_bump c : bump c = with_sh (bump c) (sh c).
Proof. reflexivity. Qed.

Lemma thr_cur_moved c t p o : cur (get_thr c t) = Some o -> pc_cur p o -> thr_cur (moved c t p).
Proof. intros H Hp. unfold thr_cur, moved. cbn. rewrite H. exact Hp. Qed.
Lemma thr_cur_ended c t : thr_cur (ended c t).
Proof. reflexivity. Qed.

Ltac shape Hcur :=
  repeat match goal with
  | |- context [goto (bump ?c) ?t ?p] => rewrite (with_sh_bump c)
  | |- context [finish (bump ?c) ?t ?r] => rewrite (with_sh_bump c)
  end;
  rewrite ?goto_shape; try (erewrite finish_shape by exact Hcur).

Lemma binv_step c t : binv c -> binv (step c t).
Proof.
  intros Hinv. pose proof Hinv as (Hsh & Hthr & Hlk). destruct (Hthr t) as [Hpi Hcu].
  unfold BinProto.step. change (mkCfg (sh c) (thr c) (now c + 1)%N (hist c)) with (bump c). cbv zeta.
  change (BinProto.get_thr (bump c) t) with (get_thr c t). change (sh (bump c)) with (sh c).
  unfold thr_cur in Hcu.
  destruct (at_ (get_thr c t)) eqn:Hpc.
  all: try (assert (Ht : t < length (thr c)) by (apply thr_lt; left; rewrite Hpc; discriminate)).
  all: destruct (cur (get_thr c t)) as [o0|] eqn:Hcur; try discriminate Hcu; try contradiction Hcu.
  all: cbn [pc_inv pc_cur] in Hpi, Hcu.
  - (* PStart *) subst o0.
    destruct (bin_at (sh c) (bini (op_key o))) as [h|] eqn:Hb.
    + assert (Hh : h < length (heap (sh c))).
      { destruct Hsh as (_ & _ & _ & Hbins). destruct (Hbins _ (bini_lt (op_key o))) as (l & Hok).
        pose proof Hok as (Hs & _). rewrite Hb in Hs. destruct (pseg_next_some _ _ _ Hs) as (l' & ->).
        eapply bin_ok_in; [exact Hok|left; reflexivity]. }
      destruct o as [k|k v|k v|k|k ov|k f]; cbn [op_key] in *.
      * shape Hcur. apply (binv_upd_local _ _ _ _ _ Hinv Ht); [exact I|eapply thr_cur_moved; [exact Hcur|reflexivity]|rewrite Hpc; reflexivity].
      * shape Hcur. apply (binv_upd_local _ _ _ _ _ Hinv Ht); [exact Hh|eapply thr_cur_moved; [exact Hcur|reflexivity]|rewrite Hpc; reflexivity].
      * destruct (N.eqb_spec (ckey (cell_at (sh c) h)) k) as [Hk|Hk]; shape Hcur.
        -- apply (binv_upd_local _ _ _ _ _ Hinv Ht); [split; assumption|eapply thr_cur_moved; [exact Hcur|reflexivity]|rewrite Hpc; reflexivity].
        -- apply (binv_upd_local _ _ _ _ _ Hinv Ht); [exact Hh|eapply thr_cur_moved; [exact Hcur|reflexivity]|rewrite Hpc; reflexivity].
      * shape Hcur. apply (binv_upd_local _ _ _ _ _ Hinv Ht); [exact Hh|eapply thr_cur_moved; [exact Hcur|reflexivity]|rewrite Hpc; reflexivity].
      * shape Hcur. apply (binv_upd_local _ _ _ _ _ Hinv Ht); [exact Hh|eapply thr_cur_moved; [exact Hcur|reflexivity]|rewrite Hpc; reflexivity].
      * shape Hcur. apply (binv_upd_local _ _ _ _ _ Hinv Ht); [exact Hh|eapply thr_cur_moved; [exact Hcur|reflexivity]|rewrite Hpc; reflexivity].
    + destruct o as [k|k v|k v|k|k ov|k f]; cbn [op_key] in *; shape Hcur;
        (apply (binv_upd_local _ _ _ _ _ Hinv Ht); [exact I| first [apply thr_cur_ended | eapply thr_cur_moved; [exact Hcur|reflexivity]] |rewrite Hpc; reflexivity]).
  - (* GWalk *)
    destruct (N.eqb_spec (ckey (cell_at (sh c) p)) k) as [Hk|Hk]; [|destruct (cnext (cell_at (sh c) p)) as [q|] eqn:Hq]; shape Hcur;
      (apply (binv_upd_local _ _ _ _ _ Hinv Ht); [exact I| first [apply thr_cur_ended | eapply thr_cur_moved; [exact Hcur|exact Hcu]] |rewrite Hpc; reflexivity]).
  - (* PutCas *)
    destruct (bin_at (sh c) (bini k)) as [h|] eqn:Hb.
    + assert (Hh : h < length (heap (sh c))).
      { destruct Hsh as (_ & _ & _ & Hbins). destruct (Hbins _ (bini_lt k)) as (l & Hok).
        pose proof Hok as (Hs & _). rewrite Hb in Hs. destruct (pseg_next_some _ _ _ Hs) as (l' & ->).
        eapply bin_ok_in; [exact Hok|left; reflexivity]. }
      destruct no_repl; cbn [andb].
      * destruct (N.eqb_spec (ckey (cell_at (sh c) h)) k) as [Hk|Hk]; shape Hcur.
        -- apply (binv_upd_local _ _ _ _ _ Hinv Ht); [split; assumption|eapply thr_cur_moved; [exact Hcur|exact Hcu]|rewrite Hpc; reflexivity].
        -- apply (binv_upd_local _ _ _ _ _ Hinv Ht); [exact Hh|eapply thr_cur_moved; [exact Hcur|exact Hcu]|rewrite Hpc; reflexivity].
      * shape Hcur. apply (binv_upd_local _ _ _ _ _ Hinv Ht); [exact Hh|eapply thr_cur_moved; [exact Hcur|exact Hcu]|rewrite Hpc; reflexivity].
    + rewrite alloc_eq. cbv beta iota. change (sh (bump c)) with (sh c).
      destruct (cas_effect _ k v Hsh Hb) as (Hsh' & Hfr & Hlocks & _).
      shape Hcur. eapply (binv_upd_write _ _ _ _ _ _ _ Hinv Ht Hsh' Hfr Hlocks); [intros h Hh; congruence|exact I|apply thr_cur_ended|rewrite Hpc; reflexivity].
  - (* PutFast *)
    shape Hcur. apply (binv_upd_local _ _ _ _ _ Hinv Ht); [exact I|apply thr_cur_ended|rewrite Hpc; reflexivity].
  - (* PutLock *)
    destruct (lock_at (sh c) h) as [u|] eqn:Hl; [exact Hinv|]. shape Hcur.
    apply (binv_upd_lock _ _ _ _ _ _ Hinv Ht Hpi Hl); [rewrite Hpc; reflexivity|reflexivity| |eapply thr_cur_moved; [exact Hcur|exact Hcu]].
    cbn. apply lock_at_set_lock_same. destruct Hsh as (_ & -> & _). exact Hpi.
  - (* PutReval *)
    assert (HU : forall r o', pc_cur (PutUnlock h r (Some o')) o0 -> binv (goto (bump c) t (PutUnlock h r (Some o')))).
    { intros r o' Ho. shape Hcur. apply (binv_upd_local _ _ _ _ _ Hinv Ht); [exact Hpi|eapply thr_cur_moved; [exact Hcur|exact Ho]|rewrite Hpc; reflexivity]. }
    destruct (bin_at (sh c) (bini k)) as [h'|] eqn:Hb; [destruct (Nat.eqb_spec h' h) as [->|Hne]|]; try (apply HU; exact Hcu).
    shape Hcur. apply (binv_upd_local _ _ _ _ _ Hinv Ht); [|eapply thr_cur_moved; [exact Hcur|exact Hcu]|rewrite Hpc; reflexivity].
    exists []. apply walking_start; assumption.
  - (* PutWalk *)
    destruct Hpi as (pre & Hw).
    destruct (N.eqb_spec (ckey (cell_at (sh c) p)) k) as [Hk|Hk]; [destruct no_repl|destruct (cnext (cell_at (sh c) p)) as [q|] eqn:Hq].
    + shape Hcur. apply (binv_upd_local _ _ _ _ _ Hinv Ht); [exact (proj1 Hw)|eapply thr_cur_moved; [exact Hcur|exact I]|rewrite Hpc; reflexivity].
    + destruct (swap_effect _ _ _ _ _ _ v Hsh Hw Hk) as (Hsh' & Hfr & Hlocks).
      shape Hcur. eapply (binv_upd_write _ _ _ _ _ _ _ Hinv Ht Hsh' Hfr Hlocks);
        [exact (walking_head _ _ _ _ _ _ Hw)|unfold moved; cbn [at_ pc_inv]; rewrite Hlocks; exact (proj1 Hw)|eapply thr_cur_moved; [exact Hcur|exact I]|rewrite Hpc; reflexivity].
    + shape Hcur. apply (binv_upd_local _ _ _ _ _ Hinv Ht); [|eapply thr_cur_moved; [exact Hcur|exact Hcu]|rewrite Hpc; reflexivity].
      exists (pre ++ [p]). eapply walking_advance; eassumption.
    + rewrite alloc_eq. cbv beta iota. change (sh (bump c)) with (sh c).
      destruct (append_effect _ _ _ _ _ _ v Hsh Hw Hk Hq) as (Hsh' & Hfr & Hlocks & _).
      shape Hcur. eapply (binv_upd_write _ _ _ _ _ _ _ Hinv Ht Hsh' Hfr Hlocks);
        [exact (walking_head _ _ _ _ _ _ Hw)|unfold moved; cbn [at_ pc_inv]; rewrite Hlocks; exact (proj1 Hw)|eapply thr_cur_moved; [exact Hcur|exact I]|rewrite Hpc; reflexivity].
  - (* PutUnlock *)
    change (sh (bump c)) with (sh c). destruct retry as [o'|]; shape Hcur.
    + apply (binv_upd_unlock _ _ _ _ _ _ Hinv Ht); [rewrite Hpc; reflexivity|reflexivity|exact I|eapply thr_cur_moved; [exact Hcur|exact Hcu]].
    + apply (binv_upd_unlock _ _ _ _ _ _ Hinv Ht); [rewrite Hpc; reflexivity|reflexivity|exact I|apply thr_cur_ended].
  - (* RmLock *)
    destruct (lock_at (sh c) h) as [u|] eqn:Hl; [exact Hinv|]. shape Hcur.
    apply (binv_upd_lock _ _ _ _ _ _ Hinv Ht Hpi Hl); [rewrite Hpc; reflexivity|reflexivity| |eapply thr_cur_moved; [exact Hcur|exact Hcu]].
    cbn. apply lock_at_set_lock_same. destruct Hsh as (_ & -> & _). exact Hpi.
  - (* RmReval *)
    assert (HU : forall r o', pc_cur (PutUnlock h r (Some o')) o0 -> binv (goto (bump c) t (PutUnlock h r (Some o')))).
    { intros r o' Ho. shape Hcur. apply (binv_upd_local _ _ _ _ _ Hinv Ht); [exact Hpi|eapply thr_cur_moved; [exact Hcur|exact Ho]|rewrite Hpc; reflexivity]. }
    destruct (bin_at (sh c) (bini k)) as [h'|] eqn:Hb; [destruct (Nat.eqb_spec h' h) as [->|Hne]|]; try (apply HU; exact Hcu).
    shape Hcur. apply (binv_upd_local _ _ _ _ _ Hinv Ht); [|eapply thr_cur_moved; [exact Hcur|exact Hcu]|rewrite Hpc; reflexivity].
    exists []. split; [apply walking_start; assumption|reflexivity].
  - (* RmWalk *)
    destruct Hpi as (pre & Hw & Hpr).
    destruct (N.eqb_spec (ckey (cell_at (sh c) e)) k) as [Hk|Hk]; [|destruct (cnext (cell_at (sh c) e)) as [q|] eqn:Hq]; shape Hcur.
    + apply (binv_upd_local _ _ _ _ _ Hinv Ht); [|eapply thr_cur_moved; [exact Hcur|exact Hcu]|rewrite Hpc; reflexivity].
      exists pre. auto.
    + apply (binv_upd_local _ _ _ _ _ Hinv Ht); [|eapply thr_cur_moved; [exact Hcur|exact Hcu]|rewrite Hpc; reflexivity].
      exists (pre ++ [e]). split; [eapply walking_advance; eassumption|apply pred_of_snoc].
    + apply (binv_upd_local _ _ _ _ _ Hinv Ht); [exact (proj1 Hw)|eapply thr_cur_moved; [exact Hcur|exact I]|rewrite Hpc; reflexivity].
  - (* RmFound *)
    destruct Hpi as (pre & Hw & Hpr & Hk & Hn). subst o0.
    destruct obs as [ov|]; [destruct (Z.eqb_spec ov (cval (cell_at (sh c) e))) as [Ev|Ev]|]; shape Hcur.
    + apply (binv_upd_local _ _ _ _ _ Hinv Ht); [|eapply thr_cur_moved; [exact Hcur|right; rewrite <- Ev; reflexivity]|rewrite Hpc; reflexivity].
      exists pre. auto.
    + apply (binv_upd_local _ _ _ _ _ Hinv Ht); [exact (proj1 Hw)|eapply thr_cur_moved; [exact Hcur|exact I]|rewrite Hpc; reflexivity].
    + apply (binv_upd_local _ _ _ _ _ Hinv Ht); [|eapply thr_cur_moved; [exact Hcur|left; reflexivity]|rewrite Hpc; reflexivity].
      exists pre. auto.
  - (* RmUnlink *)
    destruct Hpi as (pre & Hw & Hpr & Hk & Hn & Hv). subst nxt.
    destruct (unlink_effect _ _ _ _ _ _ _ Hsh Hw Hpr) as (Hsh' & Hfr & Hlocks & _).
    shape Hcur. eapply (binv_upd_write _ _ _ _ _ _ _ Hinv Ht Hsh' Hfr Hlocks);
        [exact (walking_head _ _ _ _ _ _ Hw)|unfold moved; cbn [at_ pc_inv]; rewrite Hlocks; exact (proj1 Hw)|eapply thr_cur_moved; [exact Hcur|exact I]|rewrite Hpc; reflexivity].
  - (* CpLock *)
    destruct (lock_at (sh c) h) as [u|] eqn:Hl; [exact Hinv|]. shape Hcur.
    apply (binv_upd_lock _ _ _ _ _ _ Hinv Ht Hpi Hl); [rewrite Hpc; reflexivity|reflexivity| |eapply thr_cur_moved; [exact Hcur|exact Hcu]].
    cbn. apply lock_at_set_lock_same. destruct Hsh as (_ & -> & _). exact Hpi.
  - (* CpReval *)
    assert (HU : forall r o', pc_cur (PutUnlock h r (Some o')) o0 -> binv (goto (bump c) t (PutUnlock h r (Some o')))).
    { intros r o' Ho. shape Hcur. apply (binv_upd_local _ _ _ _ _ Hinv Ht); [exact Hpi|eapply thr_cur_moved; [exact Hcur|exact Ho]|rewrite Hpc; reflexivity]. }
    destruct (bin_at (sh c) (bini k)) as [h'|] eqn:Hb; [destruct (Nat.eqb_spec h' h) as [->|Hne]|]; try (apply HU; exact Hcu).
    shape Hcur. apply (binv_upd_local _ _ _ _ _ Hinv Ht); [|eapply thr_cur_moved; [exact Hcur|exact Hcu]|rewrite Hpc; reflexivity].
    exists []. split; [apply walking_start; assumption|reflexivity].
  - (* CpWalk *)
    destruct Hpi as (pre & Hw & Hpr).
    destruct (N.eqb_spec (ckey (cell_at (sh c) p)) k) as [Hk|Hk]; [|destruct (cnext (cell_at (sh c) p)) as [q|] eqn:Hq]; shape Hcur.
    + apply (binv_upd_local _ _ _ _ _ Hinv Ht); [|eapply thr_cur_moved; [exact Hcur|exact Hcu]|rewrite Hpc; reflexivity].
      exists pre. auto.
    + apply (binv_upd_local _ _ _ _ _ Hinv Ht); [|eapply thr_cur_moved; [exact Hcur|exact Hcu]|rewrite Hpc; reflexivity].
      exists (pre ++ [p]). split; [eapply walking_advance; eassumption|apply pred_of_snoc].
    + apply (binv_upd_local _ _ _ _ _ Hinv Ht); [exact (proj1 Hw)|eapply thr_cur_moved; [exact Hcur|exact I]|rewrite Hpc; reflexivity].
  - (* CpFound *)
    destruct Hpi as (pre & Hw & Hpr & Hk & Hn). shape Hcur.
    apply (binv_upd_local _ _ _ _ _ Hinv Ht); [|eapply thr_cur_moved; [exact Hcur|]|rewrite Hpc; reflexivity].
    + exists pre. auto.
    + cbn. exists f. auto.
  - (* CpApply *)
    destruct Hpi as (pre & Hw & Hpr & Hk & Hn & Hv). destruct nv as [v'|].
    + destruct (swap_effect _ _ _ _ _ _ v' Hsh Hw Hk) as (Hsh' & Hfr & Hlocks).
      shape Hcur. eapply (binv_upd_write _ _ _ _ _ _ _ Hinv Ht Hsh' Hfr Hlocks);
        [exact (walking_head _ _ _ _ _ _ Hw)|unfold moved; cbn [at_ pc_inv]; rewrite Hlocks; exact (proj1 Hw)|eapply thr_cur_moved; [exact Hcur|exact I]|rewrite Hpc; reflexivity].
    + subst nxt. destruct (unlink_effect _ _ _ _ _ _ _ Hsh Hw Hpr) as (Hsh' & Hfr & Hlocks & _).
      shape Hcur. eapply (binv_upd_write _ _ _ _ _ _ _ Hinv Ht Hsh' Hfr Hlocks);
        [exact (walking_head _ _ _ _ _ _ Hw)|unfold moved; cbn [at_ pc_inv]; rewrite Hlocks; exact (proj1 Hw)|eapply thr_cur_moved; [exact Hcur|exact I]|rewrite Hpc; reflexivity].
  - (* PDone *)
    destruct (todo (get_thr c t)) as [|o rest] eqn:Htodo; [exact Hinv|].
    assert (Ht : t < length (thr c)) by (apply thr_lt; right; rewrite Htodo; discriminate).
    unfold BinProto.set_thr. cbn [sh thr now hist bump].
    apply (binv_upd_local _ _ _ _ _ Hinv Ht); [exact I|reflexivity|rewrite Hpc; reflexivity].
Qed.

(* ---------- every reachable configuration satisfies the invariant ---------- *)
Notation init := (BinProto.init nbins).

Lemma get_thr_init progs t : at_ (get_thr (init progs) t) = PDone /\ cur (get_thr (init progs) t) = None.
Proof.
  unfold BinProto.get_thr, BinProto.init. cbn [thr].
  change (mkT [] None PDone 0) with ((fun p => mkT p None PDone 0) []). rewrite map_nth. cbn. auto.
Qed.

Lemma binv_init progs : binv (init progs).
Proof.
  split; [|split].
  - split; [apply repeat_length|]. split; [reflexivity|]. split; [intros a q Ha; cbn in Ha; lia|].
    intros i Hi. exists []. split; [|split; constructor].
    unfold bin_at, BinProto.init. cbn [sh bins].
    assert (H : nth i (repeat (@None nat) nbins) None = None).
    { destruct (nth_in_or_default i (repeat (@None nat) nbins) None) as [Hin|E]; [|exact E].
      apply repeat_spec in Hin. exact Hin. }
    rewrite H. constructor.
  - intros t. destruct (get_thr_init progs t) as [Ha Hc]. unfold thr_cur. rewrite Ha, Hc. split; [exact I|reflexivity].
  - intros a t H. unfold lock_at, BinProto.init in H. cbn in H. destruct a; discriminate.
Qed.

Lemma binv_run sched : forall c, binv c -> binv (run c sched).
Proof.
  induction sched as [|t sched IH]; intros c H; [exact H|]. cbn. apply IH. apply binv_step. exact H.
Qed.

Theorem binproto_inv progs sched : binv (run (init progs) sched).
Proof. apply binv_run. apply binv_init. Qed.

(* live lists are strictly increasing in addresses, hence acyclic *)
Lemma pseg_sorted s : ptr_inc s -> forall l p, pseg (heap s) p l None ->
  Forall (fun a => a < length (heap s)) l -> Sorted lt l.
Proof.
  intros Hi. induction l as [|a l IH]; intros p Hs Hf; [constructor|].
  apply pseg_cons_inv in Hs as [-> Hs]. inversion Hf as [|? ? Ha Hf']; subst. constructor; [eapply IH; eassumption|].
  destruct l as [|b l]; constructor. apply pseg_cons_inv in Hs as [Hb _]. rewrite <- cell_at_cellh in Hb.
  apply (Hi _ _ Ha Hb).
Qed.

Theorem binproto_live_sorted progs sched i :
  i < nbins -> exists l, bin_ok (sh (run (init progs) sched)) i l /\ StronglySorted lt l.
Proof.
  intros Hi. destruct (binproto_inv progs sched) as ((_ & _ & Hp & Hbins) & _).
  destruct (Hbins i Hi) as (l & Hok). exists l. split; [exact Hok|].
  apply Sorted_StronglySorted; [intros x y z; apply Nat.lt_trans|].
  destruct Hok as (Hs & Hf & _). eapply pseg_sorted; [exact Hp|exact Hs|].
  eapply Forall_impl; [|exact Hf]. cbn. tauto.
Qed.

(* ---------- deadlock freedom ---------- *)
Lemma forallb_false {A} (f : A -> bool) l : forallb f l = false -> exists x, In x l /\ f x = false.
Proof.
  induction l as [|a l IH]; cbn; [discriminate|]. destruct (f a) eqn:Ea; cbn; intros H.
  - destruct (IH H) as (x & Hx & Hf). exists x. auto.
  - exists a. auto.
Qed.

Theorem binv_deadlock_free c : binv c -> all_done c = false ->
  exists t, t < length (thr c) /\ enabled c t = true.
Proof.
  intros Hinv Hnd. pose proof Hinv as (_ & _ & Hlk).
  unfold all_done in Hnd. apply forallb_false in Hnd as (th & Hin & Hf).
  destruct (In_nth _ _ dthr Hin) as (t & Ht & Hnth).
  destruct (enabled c t) eqn:Een; [exists t; auto|].
  assert (Hblk : exists h u, lock_at (sh c) h = Some u).
  { unfold enabled in Een. change (BinProto.get_thr c t) with (nth t (thr c) dthr) in Een. rewrite Hnth in Een.
    destruct (at_ th) eqn:Ea; try discriminate Een;
      try (destruct (lock_at (sh c) h) as [u|] eqn:El; [exists h, u; exact El|discriminate Een]).
    destruct (todo th); [discriminate Hf|discriminate Een]. }
  destruct Hblk as (h & u & Hl). specialize (Hlk h u Hl). exists u. split.
  - apply thr_lt. left. intros E. rewrite E in Hlk. discriminate.
  - unfold enabled. destruct (at_ (get_thr c u)); cbn in Hlk; try discriminate Hlk; reflexivity.
Qed.

Theorem binproto_deadlock_free progs sched :
  let c := run (init progs) sched in
  all_done c = false -> exists t, t < length (thr c) /\ enabled c t = true.
Proof. intros c. apply binv_deadlock_free. apply binproto_inv. Qed.

(* ====================================================================== *)
(* Layer 2: the abstract value of one key                                  *)
(* ====================================================================== *)
Variable k : N.
Notation i0 := (bini k).

Definition absv (s : shared) : option Z := walk s (length (heap s)) (bin_at s i0) k.

Fixpoint lfind (s : shared) (l : list nat) : option Z :=
  match l with
  | [] => None
  | a :: l' => if (keyat s a =? k)%N then Some (cval (cell_at s a)) else lfind s l'
  end.

Lemma walk_lfind s l : forall fuel p, pseg (heap s) p l None -> length l <= fuel -> walk s fuel p k = lfind s l.
Proof.
  induction l as [|a l IH]; intros fuel p Hs Hf.
  - inversion Hs; subst. destruct fuel; reflexivity.
  - apply pseg_cons_inv in Hs as [-> Hs]. destruct fuel as [|fuel]; [cbn in Hf; lia|].
    cbn [walk lfind]. unfold keyat. destruct (ckey (cell_at s a) =? k)%N; [reflexivity|].
    apply IH; [exact Hs|cbn in Hf; lia].
Qed.

Lemma absv_lfind s l : bin_ok s i0 l -> absv s = lfind s l.
Proof.
  intros Hok. pose proof (bin_ok_nodup _ _ _ Hok) as Hnd. destruct Hok as (Hs & Hf & _).
  apply walk_lfind; [exact Hs|]. apply NoDup_bounded_length; [exact Hnd|].
  eapply Forall_impl; [|exact Hf]. cbn. tauto.
Qed.

Lemma lfind_app_none s l1 l2 : Forall (fun a => keyat s a <> k) l1 -> lfind s (l1 ++ l2) = lfind s l2.
Proof.
  induction 1 as [|a l1 Ha _ IH]; cbn; [reflexivity|]. destruct (N.eqb_spec (keyat s a) k); [contradiction|exact IH].
Qed.

Lemma lfind_none s l : Forall (fun a => keyat s a <> k) l -> lfind s l = None.
Proof. intros H. rewrite <- (app_nil_r l). rewrite lfind_app_none by exact H. reflexivity. Qed.

Lemma lfind_ext s s' l :
  (forall a, In a l -> keyat s' a = keyat s a /\ (keyat s a = k -> cval (cell_at s' a) = cval (cell_at s a))) ->
  lfind s' l = lfind s l.
Proof.
  induction l as [|a l IH]; intros H; cbn; [reflexivity|].
  destruct (H a (or_introl eq_refl)) as [Hk Hv]. rewrite Hk.
  destruct (N.eqb_spec (keyat s a) k) as [E|E]; [rewrite Hv by exact E; reflexivity|].
  apply IH. intros b Hb. apply H. right. exact Hb.
Qed.

(* keys are unique on a live list: the nodes around the one holding k do not hold k *)
Lemma nodup_keys_split s l1 e l2 :
  NoDup (map (keyat s) (l1 ++ e :: l2)) -> keyat s e = k ->
  Forall (fun a => keyat s a <> k) l1 /\ Forall (fun a => keyat s a <> k) l2.
Proof.
  intros Hn Hk. rewrite map_app in Hn. cbn [map] in Hn. apply NoDup_remove_2 in Hn.
  split; apply Forall_forall; intros a Ha Hka; apply Hn; apply in_or_app; [left|right];
    apply in_map_iff; exists a; split; congruence.
Qed.

(* scanning l we reach p before any node holding k *)
Fixpoint nokb (s : shared) (l : list nat) (p : nat) : Prop :=
  match l with [] => True | a :: l' => a = p \/ (keyat s a <> k /\ nokb s l' p) end.

Lemma nokb_ext s s' l p : (forall a, In a l -> keyat s' a = keyat s a) -> nokb s l p -> nokb s' l p.
Proof.
  induction l as [|a l IH]; cbn; intros Hk H; [exact I|]. destruct H as [H|[H1 H2]]; [left; exact H|right].
  split; [rewrite Hk by (left; reflexivity); exact H1|]. apply IH; [|exact H2]. intros b Hb. apply Hk. right. exact Hb.
Qed.
Lemma nokb_app s l x p : In p l -> nokb s l p -> nokb s (l ++ x) p.
Proof.
  induction l as [|a l IH]; cbn; intros Hin H; [contradiction|].
  destruct H as [H|[H1 H2]]; [left; exact H|]. destruct Hin as [Hin|Hin]; [left; exact Hin|]. right. auto.
Qed.
Lemma nokb_remove s m1 e m2 p : p <> e -> nokb s (m1 ++ e :: m2) p -> nokb s (m1 ++ m2) p.
Proof.
  intros Hne. induction m1 as [|a m1 IH]; cbn; intros H.
  - destruct H as [H|[_ H]]; [congruence|exact H].
  - destruct H as [H|[H1 H2]]; [left; exact H|right; auto].
Qed.
Lemma nokb_prefix s pre p l2 : Forall (fun a => keyat s a <> k) pre -> nokb s (pre ++ p :: l2) p.
Proof. induction 1 as [|a pre Ha _ IH]; cbn; [left; reflexivity|right; auto]. Qed.

Definition livek (s : shared) (p : nat) : Prop := exists l, bin_ok s i0 l /\ In p l.
Definition Pk (s : shared) (p : nat) : Prop := exists l, bin_ok s i0 l /\ In p l /\ nokb s l p.
Definition deadk (s : shared) (p : nat) : Prop :=
  p < length (heap s) /\ bini (keyat s p) = i0 /\ ~ livek s p.

Lemma Pk_livek s p : Pk s p -> livek s p.
Proof. intros (l & H1 & H2 & _). exists l. auto. Qed.

Lemma livek_dec s p : sh_inv s -> livek s p \/ ~ livek s p.
Proof.
  intros (_ & _ & _ & Hbins). destruct (Hbins i0 (bini_lt k)) as (l & Hok).
  destruct (in_dec Nat.eq_dec p l) as [Hin|Hin]; [left; exists l; auto|right].
  intros (l' & Hok' & Hin'). rewrite (bin_ok_det _ _ _ _ Hok Hok') in Hin. contradiction.
Qed.

Lemma Pk_hit s p : Pk s p -> keyat s p = k -> absv s = Some (cval (cell_at s p)).
Proof.
  intros (l & Hok & Hin & Hno) Hk. rewrite (absv_lfind _ _ Hok). clear Hok.
  induction l as [|a l IH]; [contradiction|]. cbn [lfind].
  destruct (Nat.eq_dec a p) as [->|Hne].
  - rewrite Hk, N.eqb_refl. reflexivity.
  - destruct Hin as [Hin|Hin]; [contradiction|]. destruct Hno as [Hno|[Hka Hno]]; [contradiction|].
    destruct (N.eqb_spec (keyat s a) k); [contradiction|]. apply IH; assumption.
Qed.

Lemma Pk_walk s l p : forall hd, pseg (heap s) hd l None -> In p l -> nokb s l p -> keyat s p <> k ->
  match cnext (cell_at s p) with
  | None => lfind s l = None
  | Some q => In q l /\ nokb s l q
  end.
Proof.
  induction l as [|a l IH]; intros hd Hs Hin Hno Hk; [contradiction|].
  apply pseg_cons_inv in Hs as [-> Hs]. destruct (Nat.eq_dec a p) as [->|Hne].
  - rewrite <- cell_at_cellh in Hs. destruct (cnext (cell_at s p)) as [q|].
    + destruct (pseg_next_some _ _ _ Hs) as (l' & ->). split; [right; left; reflexivity|].
      cbn. right. split; [exact Hk|]. left. reflexivity.
    + apply pseg_next_none in Hs. subst l. cbn. destruct (N.eqb_spec (keyat s p) k); [contradiction|reflexivity].
  - destruct Hin as [Hin|Hin]; [contradiction|]. destruct Hno as [Hno|[Hka Hno]]; [contradiction|].
    specialize (IH _ Hs Hin Hno Hk). destruct (cnext (cell_at s p)) as [q|].
    + destruct IH as [Hq Hnq]. split; [right; exact Hq|]. cbn. right. auto.
    + cbn. destruct (N.eqb_spec (keyat s a) k); [contradiction|exact IH].
Qed.

Lemma Pk_miss s p : Pk s p -> keyat s p <> k -> cnext (cell_at s p) = None -> absv s = None.
Proof.
  intros (l & Hok & Hin & Hno) Hk Hn. rewrite (absv_lfind _ _ Hok).
  pose proof (Pk_walk s l p _ (proj1 Hok) Hin Hno Hk) as H. rewrite Hn in H. exact H.
Qed.
Lemma Pk_next s p q : Pk s p -> keyat s p <> k -> cnext (cell_at s p) = Some q -> Pk s q.
Proof.
  intros (l & Hok & Hin & Hno) Hk Hn.
  pose proof (Pk_walk s l p _ (proj1 Hok) Hin Hno Hk) as H. rewrite Hn in H. exists l. tauto.
Qed.
Lemma Pk_head s h : sh_inv s -> bin_at s i0 = Some h -> Pk s h.
Proof.
  intros (_ & _ & _ & Hbins) Hb. destruct (Hbins i0 (bini_lt k)) as (l & Hok). exists l. split; [exact Hok|].
  destruct Hok as (Hs & _). rewrite Hb in Hs. destruct (pseg_next_some _ _ _ Hs) as (l' & ->).
  split; [left; reflexivity|]. cbn. left. reflexivity.
Qed.
Lemma absv_empty s : sh_inv s -> bin_at s i0 = None -> absv s = None.
Proof.
  intros (_ & _ & _ & Hbins) Hb. destruct (Hbins i0 (bini_lt k)) as (l & Hok). rewrite (absv_lfind _ _ Hok).
  destruct Hok as (Hs & _). rewrite Hb in Hs. apply pseg_next_none in Hs. subst l. reflexivity.
Qed.

(* ---------- the two-state relation behind hindsight ---------- *)
Definition hs_rel (s s' : shared) : Prop :=
  length (heap s) <= length (heap s') /\
  forall p, (Pk s p -> livek s' p -> Pk s' p) /\
            (livek s p \/ deadk s p -> ~ livek s' p -> deadk s' p /\ cell_at s' p = cell_at s p) /\
            (deadk s p -> ~ livek s' p).

(* how one step may transform the live list of a bin *)
Inductive ltrans (s : shared) (l l' : list nat) : Prop :=
| lt_same : l' = l -> ltrans s l l'
| lt_app a : l' = l ++ [a] -> length (heap s) <= a -> ltrans s l l'
| lt_del m1 e m2 : l = m1 ++ e :: m2 -> l' = m1 ++ m2 -> ltrans s l l'.

Lemma hs_rel_ltrans s s' l l' :
  bin_ok s i0 l -> bin_ok s' i0 l' -> ltrans s l l' ->
  length (heap s) <= length (heap s') ->
  (forall a, a < length (heap s) -> keyat s' a = keyat s a) ->
  (forall p, p < length (heap s) -> bini (keyat s p) = i0 -> ~ In p l' -> cell_at s' p = cell_at s p) ->
  hs_rel s s'.
Proof.
  intros Hok Hok' Hlt Hlen Hkey Hcell. split; [exact Hlen|]. intros p.
  assert (Hlive : forall q, livek s q -> In q l).
  { intros q (l0 & H0 & Hq). rewrite (bin_ok_det _ _ _ _ Hok H0). exact Hq. }
  assert (Hlive' : forall q, livek s' q -> In q l').
  { intros q (l0 & H0 & Hq). rewrite (bin_ok_det _ _ _ _ Hok' H0). exact Hq. }
  assert (Hkl : forall a, In a l -> keyat s' a = keyat s a).
  { intros a Ha. apply Hkey. eapply bin_ok_in; eassumption. }
  assert (Hres : forall q, q < length (heap s) -> In q l' -> In q l).
  { intros q Hq Hin. destruct Hlt as [->|a -> Ha|m1 e m2 -> ->].
    - exact Hin.
    - apply in_app_or in Hin as [Hin|[<-|[]]]; [exact Hin|lia].
    - apply in_app_or in Hin as [Hin|Hin]; apply in_or_app; [left|right; right]; exact Hin. }
  split; [|split].
  - intros (l0 & H0 & Hin & Hno) Hl'. rewrite <- (bin_ok_det _ _ _ _ Hok H0) in *. clear l0 H0.
    apply Hlive' in Hl'. exists l'. split; [exact Hok'|]. split; [exact Hl'|].
    destruct Hlt as [->|a -> Ha|m1 e m2 -> ->].
    + eapply nokb_ext; [|exact Hno]. exact Hkl.
    + apply nokb_app; [exact Hin|]. eapply nokb_ext; [|exact Hno]. exact Hkl.
    + eapply nokb_ext; [intros a Ha; apply Hkl|].
      * apply in_app_or in Ha as [Ha|Ha]; apply in_or_app; [left|right; right]; exact Ha.
      * apply (nokb_remove s m1 e m2 p); [|exact Hno]. intros ->. pose proof (bin_ok_nodup _ _ _ Hok) as Hnd.
        apply NoDup_remove_2 in Hnd. contradiction.
  - intros Hp Hnl.
    assert (Hp' : p < length (heap s) /\ bini (keyat s p) = i0).
    { destruct Hp as [Hp|(H1 & H2 & _)]; [|auto]. eapply bin_ok_in; [exact Hok|apply Hlive; exact Hp]. }
    destruct Hp' as [Hlt' Hb]. split.
    + split; [lia|]. split; [rewrite Hkey by exact Hlt'; exact Hb|exact Hnl].
    + apply Hcell; [exact Hlt'|exact Hb|]. intros Hin. apply Hnl. exists l'. auto.
  - intros (H1 & H2 & H3) Hl'. apply H3. exists l. split; [exact Hok|]. apply Hres; [exact H1|]. apply Hlive'. exact Hl'.
Qed.

(* nothing that key k can see changed *)
Lemma hs_rel_same s s' : sh_inv s -> heap s' = heap s -> bins s' = bins s -> hs_rel s s' /\ absv s' = absv s.
Proof.
  intros Hinv Hh Hb. pose proof Hinv as (_ & _ & _ & Hbins). destruct (Hbins i0 (bini_lt k)) as (l & Hok).
  assert (Hok' : bin_ok s' i0 l).
  { unfold bin_ok, bin_at, keyat, cell_at in *. rewrite Hh, Hb. exact Hok. }
  split.
  - eapply hs_rel_ltrans; [exact Hok|exact Hok'|apply lt_same; reflexivity|rewrite Hh; lia| |].
    + intros a _. unfold keyat, cell_at. rewrite Hh. reflexivity.
    + intros p _ _ _. unfold cell_at. rewrite Hh. reflexivity.
  - unfold absv, walk, bin_at. rewrite Hh, Hb.
    assert (E : forall fuel p, walk s' fuel p k = walk s fuel p k).
    { induction fuel as [|fuel IH]; intros [a|]; cbn; try reflexivity. unfold cell_at. rewrite Hh.
      destruct (ckey (nth a (heap s) (mkCell 0 0 None)) =? k)%N; [reflexivity|]. apply IH. }
    apply E.
Qed.

(* a write on behalf of another bin *)
Lemma hs_rel_frame s s' i : sh_inv s -> frame s s' i -> i <> i0 -> hs_rel s s' /\ absv s' = absv s.
Proof.
  intros Hinv Hfr Hne. pose proof Hinv as (_ & _ & _ & Hbins). destruct (Hbins i0 (bini_lt k)) as (l & Hok).
  assert (Hok' : bin_ok s' i0 l) by (eapply frame_bin_ok; [exact Hfr| |exact Hok]; congruence).
  destruct Hfr as (Fb & Fc & Fk & Fl). split.
  - eapply hs_rel_ltrans; [exact Hok|exact Hok'|apply lt_same; reflexivity|exact Fl|exact Fk|].
    intros p Hp Hb _. apply Fc; [exact Hp|]. rewrite Hb. congruence.
  - rewrite (absv_lfind _ _ Hok), (absv_lfind _ _ Hok'). apply lfind_ext. intros a Ha.
    destruct (bin_ok_in _ _ _ _ Hok Ha) as [Hlt Hb]. unfold keyat. rewrite Fc; [auto|exact Hlt|]. rewrite Hb. congruence.
Qed.

(* ---------- the writes, seen from key k (k' is the writer's key) ---------- *)
Lemma lfind_snoc_ne s l a : keyat s a <> k -> lfind s (l ++ [a]) = lfind s l.
Proof.
  intros Ha. induction l as [|b l IH]; cbn.
  - destruct (N.eqb_spec (keyat s a) k); [contradiction|reflexivity].
  - rewrite IH. reflexivity.
Qed.
Lemma lfind_remove_ne s l1 e l2 : keyat s e <> k -> lfind s (l1 ++ e :: l2) = lfind s (l1 ++ l2).
Proof.
  intros He. induction l1 as [|b l1 IH]; cbn.
  - destruct (N.eqb_spec (keyat s e) k); [contradiction|reflexivity].
  - rewrite IH. reflexivity.
Qed.
Lemma bini_ne k' : bini k' <> i0 -> k' <> k.
Proof. intros H ->. apply H. reflexivity. Qed.

Definition kview (k' : N) (s s' : shared) (before after : option Z) : Prop :=
  hs_rel s s' /\ (k' = k -> absv s = before /\ absv s' = after) /\ (k' <> k -> absv s' = absv s).

Lemma swap_effect2 s t k' h pre p v :
  sh_inv s -> walking s t k' h pre p -> keyat s p = k' ->
  kview k' s (swap_sh s p v) (Some (cval (cell_at s p))) (Some v).
Proof.
  intros Hinv Hw Hk. destruct (swap_effect _ _ _ _ _ _ v Hinv Hw Hk) as (Hinv' & Hfr & _).
  destruct (Nat.eq_dec (bini k') i0) as [Hb|Hb].
  2:{ destruct (hs_rel_frame _ _ _ Hinv Hfr Hb) as [H1 H2]. split; [exact H1|]. split; [|intros _; exact H2].
      intros ->. contradiction. }
  destruct (walking_list _ _ _ _ _ _ Hinv Hw) as (l2 & Hok). rewrite Hb in Hok.
  assert (Hp : p < length (heap s)). { eapply bin_ok_in; [exact Hok|]. apply in_or_app. right. left. reflexivity. }
  pose proof (swap_bin_ok _ _ v _ _ Hp Hok) as Hok'.
  split; [|split].
  - eapply hs_rel_ltrans; [exact Hok|exact Hok'|apply lt_same; reflexivity|rewrite swap_len by exact Hp; lia| |].
    + intros a _. apply swap_key. exact Hp.
    + intros q _ _ Hq. rewrite swap_cell by exact Hp. destruct (Nat.eqb_spec q p) as [->|]; [|reflexivity].
      exfalso. apply Hq. apply in_or_app. right. left. reflexivity.
  - intros ->. rewrite (absv_lfind _ _ Hok), (absv_lfind _ _ Hok'). destruct Hw as (_ & _ & _ & Hf). split.
    + rewrite lfind_app_none by exact Hf. cbn [lfind]. rewrite Hk, N.eqb_refl. reflexivity.
    + rewrite lfind_app_none.
      * cbn [lfind]. rewrite swap_key, Hk, N.eqb_refl by exact Hp. rewrite swap_cell, Nat.eqb_refl by exact Hp. reflexivity.
      * eapply Forall_impl; [|exact Hf]. cbn. intros a Ha. rewrite swap_key by exact Hp. exact Ha.
  - intros Hne. rewrite (absv_lfind _ _ Hok), (absv_lfind _ _ Hok'). apply lfind_ext. intros a _.
    split; [apply swap_key; exact Hp|]. intros Ha. rewrite swap_cell by exact Hp.
    destruct (Nat.eqb_spec a p) as [->|]; [congruence|reflexivity].
Qed.

Lemma append_effect2 s t k' h pre p v :
  sh_inv s -> walking s t k' h pre p -> keyat s p <> k' -> cnext (cell_at s p) = None ->
  kview k' s (append_sh s p k' v) None (Some v).
Proof.
  intros Hinv Hw Hk Hn. destruct (append_effect _ _ _ _ _ _ v Hinv Hw Hk Hn) as (Hinv' & Hfr & _ & Hok & Hok').
  destruct (Nat.eq_dec (bini k') i0) as [Hb|Hb].
  2:{ destruct (hs_rel_frame _ _ _ Hinv Hfr Hb) as [H1 H2]. split; [exact H1|]. split; [|intros _; exact H2].
      intros ->. contradiction. }
  rewrite Hb in Hok, Hok'.
  assert (Hp : p < length (heap s)). { eapply bin_ok_in; [exact Hok|]. apply in_or_app. right. left. reflexivity. }
  assert (Hkeys : forall a, In a (pre ++ [p]) -> keyat (append_sh s p k' v) a = keyat s a).
  { intros a Ha. apply append_key; [exact Hp|]. eapply bin_ok_in; eassumption. }
  assert (Hknew : keyat (append_sh s p k' v) (length (heap s)) = k').
  { unfold keyat. rewrite append_cell by exact Hp. destruct (Nat.eqb_spec (length (heap s)) p); [lia|].
    rewrite Nat.eqb_refl. reflexivity. }
  split; [|split].
  - eapply hs_rel_ltrans; [exact Hok|exact Hok'|eapply lt_app; [reflexivity|lia]|rewrite append_len by exact Hp; lia| |].
    + intros a Ha. apply append_key; assumption.
    + intros q Hq _ Hnin. rewrite append_cell by exact Hp. destruct (Nat.eqb_spec q p) as [->|].
      * exfalso. apply Hnin. apply in_or_app. left. apply in_or_app. right. left. reflexivity.
      * destruct (Nat.eqb_spec q (length (heap s))); [lia|reflexivity].
  - intros ->. rewrite (absv_lfind _ _ Hok), (absv_lfind _ _ Hok').
    assert (Hf : Forall (fun a => keyat s a <> k) (pre ++ [p])).
    { apply Forall_app. split; [apply Hw|]. constructor; [exact Hk|constructor]. }
    split; [apply lfind_none; exact Hf|]. rewrite lfind_app_none.
    + cbn [lfind]. rewrite Hknew, N.eqb_refl. rewrite append_cell by exact Hp.
      destruct (Nat.eqb_spec (length (heap s)) p); [lia|]. rewrite Nat.eqb_refl. reflexivity.
    + rewrite Forall_forall in *. intros a Ha. rewrite Hkeys by exact Ha. apply Hf. exact Ha.
  - intros Hne. rewrite (absv_lfind _ _ Hok), (absv_lfind _ _ Hok').
    rewrite lfind_snoc_ne by (rewrite Hknew; exact Hne). apply lfind_ext. intros a Ha. split; [apply Hkeys; exact Ha|].
    intros _. rewrite append_cell by exact Hp. destruct (Nat.eqb_spec a p) as [->|]; [reflexivity|].
    destruct (Nat.eqb_spec a (length (heap s))) as [->|]; [|reflexivity].
    destruct (bin_ok_in _ _ _ _ Hok Ha). lia.
Qed.

Lemma unlink_effect2 s t k' h pre pred e :
  sh_inv s -> walking s t k' h pre e -> pred_of pre pred -> keyat s e = k' ->
  kview k' s (unlink_sh s (bini k') pred (cnext (cell_at s e))) (Some (cval (cell_at s e))) None.
Proof.
  intros Hinv Hw Hpr Hk.
  destruct (unlink_effect _ _ _ _ _ _ _ Hinv Hw Hpr) as (Hinv' & Hfr & _ & (l0 & l2 & -> & Hok & Hok' & Hv & Hkey & Hcell)).
  set (s' := unlink_sh s (bini k') pred (cnext (cell_at s e))) in *.
  destruct (Nat.eq_dec (bini k') i0) as [Hb|Hb].
  2:{ destruct (hs_rel_frame _ _ _ Hinv Hfr Hb) as [H1 H2]. split; [exact H1|]. split; [|intros _; exact H2].
      intros ->. contradiction. }
  rewrite Hb in Hok, Hok'.
  split; [|split].
  - eapply hs_rel_ltrans; [exact Hok|exact Hok'|eapply lt_del; reflexivity|apply Hfr| |].
    + intros a _. apply Hkey.
    + intros q _ _ Hq. apply Hcell. exact Hq.
  - intros ->. rewrite (absv_lfind _ _ Hok), (absv_lfind _ _ Hok'). destruct Hw as (_ & _ & _ & Hf). split.
    + rewrite lfind_app_none by exact Hf. cbn [lfind]. rewrite Hk, N.eqb_refl. reflexivity.
    + destruct Hok as (_ & _ & Hnd). destruct (nodup_keys_split _ _ _ _ Hnd Hk) as [H1 H2].
      apply lfind_none. apply Forall_app. split; eapply Forall_impl; try eassumption; cbn; intros a Ha; rewrite Hkey; exact Ha.
  - intros Hne. rewrite (absv_lfind _ _ Hok), (absv_lfind _ _ Hok').
    rewrite lfind_remove_ne by (rewrite Hk; exact Hne). apply lfind_ext. intros a _. auto.
Qed.

Lemma cas_effect2 s k' v :
  sh_inv s -> bin_at s (bini k') = None -> kview k' s (cas_sh s (bini k') k' v) None (Some v).
Proof.
  intros Hinv Hbn. destruct (cas_effect _ k' v Hinv Hbn) as (Hinv' & Hfr & _ & Hok').
  destruct (Nat.eq_dec (bini k') i0) as [Hb|Hb].
  2:{ destruct (hs_rel_frame _ _ _ Hinv Hfr Hb) as [H1 H2]. split; [exact H1|]. split; [|intros _; exact H2].
      intros ->. contradiction. }
  rewrite Hb in *.
  assert (Hok : bin_ok s i0 []).
  { pose proof Hinv as (_ & _ & _ & Hbins). destruct (Hbins i0 (bini_lt k)) as (l & Hok). pose proof Hok as (Hs & _).
    rewrite Hbn in Hs. apply pseg_next_none in Hs. subst l. exact Hok. }
  split; [|split].
  - eapply hs_rel_ltrans; [exact Hok|exact Hok'|eapply lt_app; [reflexivity|lia]|apply Hfr| |].
    + intros a Ha. apply Hfr. exact Ha.
    + intros q Hq _ _. apply cas_cell_old. exact Hq.
  - intros ->. rewrite (absv_lfind _ _ Hok), (absv_lfind _ _ Hok'). split; [reflexivity|].
    cbn [lfind]. unfold keyat. rewrite cas_cell_new. cbn [ckey cval]. rewrite N.eqb_refl. reflexivity.
  - intros Hne. rewrite (absv_lfind _ _ Hok), (absv_lfind _ _ Hok').
    cbn [lfind]. unfold keyat. rewrite cas_cell_new. cbn [ckey cval]. destruct (N.eqb_spec k' k); [contradiction|reflexivity].
Qed.

(* ---------- hindsight along a trace of shared states ---------- *)
Local Open Scope N_scope.

Lemma hindsight (pst : N -> shared) (j : N) p : forall d : nat,
  (forall i, j <= i < j + N.of_nat d -> hs_rel (pst i) (pst (i + 1))) ->
  (forall i, j <= i <= j + N.of_nat d -> sh_inv (pst i)) ->
  Pk (pst j) p ->
  Pk (pst (j + N.of_nat d)) p \/
  exists j', j <= j' < j + N.of_nat d /\ Pk (pst j') p /\ deadk (pst (j + N.of_nat d)) p /\
             cell_at (pst (j + N.of_nat d)) p = cell_at (pst j') p.
Proof.
  induction d as [|d IH]; intros Hrel Hinv HP.
  - left. rewrite N.add_0_r. exact HP.
  - replace (j + N.of_nat (S d)) with (j + N.of_nat d + 1) in * by lia.
    set (n := j + N.of_nat d) in *.
    assert (Hr : hs_rel (pst n) (pst (n + 1))) by (apply Hrel; lia).
    destruct Hr as (_ & Hr). destruct (Hr p) as (R1 & R2 & R3).
    destruct IH as [IH|(j' & Hj' & HP' & Hd & Hc)].
    + intros i Hi. apply Hrel. lia.
    + intros i Hi. apply Hinv. lia.
    + exact HP.
    + destruct (livek_dec (pst (n + 1)) p) as [Hl|Hl]; [apply Hinv; lia| |].
      * left. apply R1; assumption.
      * right. exists n. split; [lia|]. split; [exact IH|]. apply R2; [left; apply Pk_livek; exact IH|exact Hl].
    + right. exists j'. split; [lia|]. split; [exact HP'|].
      destruct (R2 (or_intror Hd) (R3 Hd)) as [Hd' Hc']. split; [exact Hd'|]. rewrite Hc'. exact Hc.
Qed.

Definition upd_pst (f : N -> shared) (n : N) (s : shared) : N -> shared :=
  fun j => if j =? n then s else f j.
Lemma upd_pst_old f n s j : j < n -> upd_pst f n s j = f j.
Proof. intros H. unfold upd_pst. destruct (N.eqb_spec j n); [lia|reflexivity]. Qed.
Lemma upd_pst_new f n s : upd_pst f n s n = s.
Proof. unfold upd_pst. rewrite N.eqb_refl. reflexivity. Qed.

Definition trace_ok (pst : N -> shared) (n : N) (s : shared) : Prop :=
  pst n = s /\ absv (pst 0) = None /\
  (forall j, j < n -> hs_rel (pst j) (pst (j + 1))) /\
  (forall j, j <= n -> sh_inv (pst j)).

Lemma trace_ext pst n s s' :
  trace_ok pst n s -> sh_inv s' -> hs_rel s s' -> trace_ok (upd_pst pst (n + 1) s') (n + 1) s'.
Proof.
  intros (H1 & H0 & H2 & H3) Hinv Hrel. split; [apply upd_pst_new|]. split; [rewrite upd_pst_old by lia; exact H0|]. split.
  - intros j Hj. rewrite (upd_pst_old _ _ _ j) by lia. destruct (N.eq_dec j n) as [->|Hne].
    + rewrite upd_pst_new, H1. exact Hrel.
    + rewrite upd_pst_old by lia. apply H2. lia.
  - intros j Hj. destruct (N.eq_dec j (n + 1)) as [->|Hne]; [rewrite upd_pst_new; exact Hinv|].
    rewrite upd_pst_old by lia. apply H3. lia.
Qed.

Lemma hindsight_now pst n s j p :
  trace_ok pst n s -> j <= n -> Pk (pst j) p ->
  Pk s p \/ exists j', j <= j' < n /\ Pk (pst j') p /\ deadk s p /\ cell_at s p = cell_at (pst j') p.
Proof.
  intros (H1 & _ & H2 & H3) Hj HP.
  pose proof (hindsight pst j p (N.to_nat (n - j))) as H.
  replace (j + N.of_nat (N.to_nat (n - j))) with n in H by lia. rewrite H1 in H.
  apply H; [intros i Hi; apply H2; lia|intros i Hi; apply H3; lia|exact HP].
Qed.

(* ---------- the ghost state and the linearization invariant ---------- *)
Definition trv (pst : N -> shared) (j : N) : option Z := absv (pst j).

Definition kc_of (h : hcall) : kcall := C_ (h_inv h) (h_resp h) (kop_of (h_op h) (h_res h)).
Definition khist (c : cfg) : list hcall := filter (fun h => (op_key (h_op h) =? k)) (hist c).
Lemma key_history_khist c : key_history c k = map kc_of (khist c).
Proof. reflexivity. Qed.

Lemma valid_pt_ext tr tr' n cl pt :
  (forall j, j <= n -> tr' j = tr j) -> c_res cl <= n -> valid_pt tr cl pt -> valid_pt tr' cl pt.
Proof.
  intros Hag Hn. destruct pt as [l|j]; cbn; intros [Hb Hk]; (split; [exact Hb|]); rewrite !Hag by lia; exact Hk.
Qed.
Lemma valid_pt_mono tr i r r' op pt : r <= r' -> valid_pt tr (C_ i r op) pt -> valid_pt tr (C_ i r' op) pt.
Proof. intros Hr. destruct pt as [l|j]; cbn; intros [Hb Hk]; (split; [lia|exact Hk]). Qed.
Lemma valid_pt_pos tr cl pt : valid_pt tr cl pt -> pt_pos pt <= c_res cl.
Proof. destruct pt; cbn; intros [Hb _]; lia. Qed.

Definition done_ok (pst : N -> shared) (n : N) (hp : hcall * point) : Prop :=
  valid_pt (trv pst) (kc_of (fst hp)) (snd hp) /\ h_resp (fst hp) <= n.

Definition pend_thr (pst : N -> shared) (n : N) (g : option point) (th : thread) : Prop :=
  match cur th with
  | None => g = None
  | Some o =>
    inv_at th <= n /\
    if (op_key o =? k) then
      match at_ th with
      | GWalk _ p | PutFast _ _ p => g = None /\ exists j, inv_at th <= j <= n /\ Pk (pst j) p
      | PutUnlock h r None => exists pt, g = Some pt /\ valid_pt (trv pst) (C_ (inv_at th) n (kop_of o r)) pt
      | _ => g = None
      end
    else g = None
  end.

Definition LIN (c : cfg) (pst : N -> shared) (gpt : nat -> option point) (ghs : list (hcall * point)) : Prop :=
  trace_ok pst (now c) (sh c) /\
  map fst ghs = khist c /\
  Forall (done_ok pst (now c)) ghs /\
  NoDup (wpts (map snd ghs)) /\
  (forall t l, gpt t = Some (PW l) -> ~ In l (wpts (map snd ghs)) /\ forall t', gpt t' = Some (PW l) -> t' = t) /\
  (forall l, 0 < l <= now c -> trv pst (l - 1) <> trv pst l ->
             In l (wpts (map snd ghs)) \/ exists t, gpt t = Some (PW l)) /\
  (forall t, pend_thr pst (now c) (gpt t) (get_thr c t)).

Lemma pend_thr_ext pst pst' n n' g th :
  (forall j, j <= n -> pst' j = pst j) -> n <= n' -> pend_thr pst n g th -> pend_thr pst' n' g th.
Proof.
  intros Hag Hn. unfold pend_thr. destruct (cur th) as [o|]; [|auto]. intros [Hi H]. split; [lia|].
  destruct (op_key o =? k); [|exact H].
  destruct (at_ th); try exact H.
  - destruct H as (Hg & j & Hj & HP). split; [exact Hg|]. exists j. split; [lia|]. rewrite Hag by lia. exact HP.
  - destruct H as (Hg & j & Hj & HP). split; [exact Hg|]. exists j. split; [lia|]. rewrite Hag by lia. exact HP.
  - destruct retry; [exact H|]. destruct H as (pt & Hg & Hv). exists pt. split; [exact Hg|].
    eapply valid_pt_mono; [exact Hn|]. eapply valid_pt_ext; [|reflexivity|exact Hv].
    intros j Hj. cbn in Hj. unfold trv. rewrite Hag by exact Hj. reflexivity.
Qed.

Lemma pend_thr_gpt pst n g th pt : pend_thr pst n g th -> g = Some pt ->
  exists o h r, cur th = Some o /\ (op_key o =? k) = true /\ at_ th = PutUnlock h r None /\
                valid_pt (trv pst) (C_ (inv_at th) n (kop_of o r)) pt.
Proof.
  unfold pend_thr. intros H ->. destruct (cur th) as [o|]; [|discriminate]. destruct H as [_ H].
  destruct (op_key o =? k) eqn:Ek; [|discriminate]. exists o.
  destruct (at_ th); try discriminate; try (destruct H; discriminate).
  destruct retry; [discriminate|]. destruct H as (pt' & E & Hv). injection E as <-. exists h, r. auto.
Qed.

Lemma LIN_gpt_pos c pst gpt ghs t pt : LIN c pst gpt ghs -> gpt t = Some pt -> pt_pos pt <= now c.
Proof.
  intros (_ & _ & _ & _ & _ & _ & Hp) Hg. destruct (pend_thr_gpt _ _ _ _ _ (Hp t) Hg) as (o & h & r & _ & _ & _ & Hv).
  apply valid_pt_pos in Hv. exact Hv.
Qed.
Lemma LIN_ghs_pos c pst gpt ghs l : LIN c pst gpt ghs -> In l (wpts (map snd ghs)) -> l <= now c.
Proof.
  intros (_ & _ & Hd & _) Hin. apply In_wpts in Hin. apply in_map_iff in Hin as ([h pt] & E & Hin). cbn in E. subst pt.
  rewrite Forall_forall in Hd. destruct (Hd _ Hin) as [Hv Hr]. apply valid_pt_pos in Hv. cbn in *. lia.
Qed.

Definition wof (g : option point) : list N := match g with Some (PW l) => [l] | _ => [] end.
Lemma wof_in g l : In l (wof g) <-> g = Some (PW l).
Proof.
  destruct g as [[l'|j]|]; cbn; split; intros H; try contradiction; try discriminate.
  - destruct H as [->|[]]. reflexivity.
  - injection H as ->. left. reflexivity.
Qed.

Lemma NoDup_app_intro {A} (a b : list A) :
  NoDup a -> NoDup b -> (forall x, In x a -> In x b -> False) -> NoDup (a ++ b).
Proof.
  induction a as [|x a IH]; cbn; intros Ha Hb Hd; [exact Hb|]. inversion Ha as [|? ? Hx Ha']; subst. constructor.
  - intros Hin. apply in_app_or in Hin as [Hin|Hin]; [contradiction|]. eapply Hd; [left; reflexivity|exact Hin].
  - apply IH; [exact Ha'|exact Hb|]. intros y Hy. apply Hd. right. exact Hy.
Qed.

(* the generic update of the ghost state along one (effective) step of thread t *)
Lemma LIN_core c pst gpt ghs s' t th' hist' gpt' new :
  LIN c pst gpt ghs -> (t < length (thr c))%nat -> sh_inv s' -> hs_rel (sh c) s' ->
  let n1 := now c + 1 in
  let c' := mkCfg s' (upd_list (thr c) t th') n1 hist' in
  let pst' := upd_pst pst n1 s' in
  let newW := wpts (map snd new) ++ wof (gpt' t) in
  khist c' = map fst new ++ khist c ->
  Forall (done_ok pst' n1) new ->
  NoDup newW ->
  (forall l, In l newW -> l = n1 \/ In l (wof (gpt t))) ->
  (forall l, In l (wof (gpt t)) -> In l newW) ->
  (absv s' = absv (sh c) \/ In n1 newW) ->
  pend_thr pst' n1 (gpt' t) th' ->
  (forall t', t' <> t -> gpt' t' = gpt t') ->
  LIN c' pst' gpt' (new ++ ghs).
Proof.
  intros HL Ht Hinv' Hrel n1 c' pst' newW Hhist Hnew HW1 HW2 HW3 HW4 Hpt Hoth.
  pose proof HL as (Htr & Hmap & Hdone & Hnd & Huniq & Hcov & Hpend).
  assert (Hag : forall j, j <= now c -> pst' j = pst j) by (intros j Hj; apply upd_pst_old; lia).
  assert (Hagt : forall j, j <= now c -> trv pst' j = trv pst j) by (intros j Hj; unfold trv; rewrite Hag by exact Hj; reflexivity).
  assert (HnewW_ghs : forall l, In l newW -> ~ In l (wpts (map snd ghs))).
  { intros l Hl Hin. destruct (HW2 l Hl) as [->|Ho].
    - pose proof (LIN_ghs_pos _ _ _ _ _ HL Hin). lia.
    - apply wof_in in Ho. destruct (Huniq _ _ Ho) as [Hn _]. contradiction. }
  assert (HnewW_pos : forall l t0, t0 <> t -> gpt t0 = Some (PW l) -> ~ In l newW).
  { intros l t0 Hne Hg Hl. destruct (HW2 l Hl) as [->|Ho].
    - pose proof (LIN_gpt_pos _ _ _ _ _ _ HL Hg) as Hp. cbn in Hp. lia.
    - apply wof_in in Ho. destruct (Huniq _ _ Ho) as [_ Hu]. apply Hne. apply Hu. exact Hg. }
  split; [eapply trace_ext; eassumption|]. split; [rewrite map_app, Hmap; symmetry; exact Hhist|]. split; [|split; [|split; [|split]]].
  - apply Forall_app. split; [exact Hnew|]. eapply Forall_impl; [|exact Hdone]. intros hp [Hv Hr]. split; [|cbn; lia].
    eapply valid_pt_ext; [exact Hagt| |exact Hv]. exact Hr.
  - rewrite map_app, wpts_app. apply NoDup_app_intro; [eapply NoDup_app_l; exact HW1|exact Hnd|].
    intros l Hl Hin. apply (HnewW_ghs l); [apply in_or_app; left; exact Hl|exact Hin].
  - intros t0 l Hg. rewrite map_app, wpts_app. destruct (Nat.eq_dec t0 t) as [->|Hne].
    + assert (Hl : In l newW) by (apply in_or_app; right; apply wof_in; exact Hg). split.
      * intros Hin. apply in_app_or in Hin as [Hin|Hin]; [|exact (HnewW_ghs l Hl Hin)].
        eapply NoDup_app_disj; [exact HW1|exact Hin|apply wof_in; exact Hg].
      * intros t' Hg'. destruct (Nat.eq_dec t' t) as [E|Hne']; [exact E|]. rewrite Hoth in Hg' by exact Hne'.
        exfalso. exact (HnewW_pos l t' Hne' Hg' Hl).
    + rewrite Hoth in Hg by exact Hne. destruct (Huniq _ _ Hg) as [Hn Hu]. split.
      * intros Hin. apply in_app_or in Hin as [Hin|Hin]; [|contradiction].
        apply (HnewW_pos l t0 Hne Hg). apply in_or_app. left. exact Hin.
      * intros t' Hg'. destruct (Nat.eq_dec t' t) as [->|Hne'].
        -- exfalso. apply (HnewW_pos l t0 Hne Hg). apply in_or_app. right. apply wof_in. exact Hg'.
        -- rewrite Hoth in Hg' by exact Hne'. apply Hu. exact Hg'.
  - intros l Hl Hch. rewrite map_app, wpts_app.
    assert (Hin_new : forall l0, In l0 newW -> In l0 (wpts (map snd new) ++ wpts (map snd ghs)) \/ exists t0, gpt' t0 = Some (PW l0)).
    { intros l0 H0. apply in_app_or in H0 as [H0|H0]; [left; apply in_or_app; left; exact H0|right; exists t; apply wof_in; exact H0]. }
    destruct (N.eq_dec l n1) as [->|Hne].
    + destruct HW4 as [Hsame|Hin]; [|apply Hin_new; exact Hin]. exfalso. apply Hch. unfold trv.
      replace (n1 - 1) with (now c) by (unfold n1; lia). unfold pst'. rewrite upd_pst_new, upd_pst_old by (unfold n1; lia).
      destruct Htr as (-> & _). symmetry. exact Hsame.
    + cbn [now c'] in Hl. assert (Hl' : 0 < l <= now c) by (unfold n1 in *; lia).
      rewrite !Hagt in Hch by lia. destruct (Hcov l Hl' Hch) as [Hin|(t0 & Hg)].
      * left. apply in_or_app. right. exact Hin.
      * destruct (Nat.eq_dec t0 t) as [->|Hne0]; [apply Hin_new; apply HW3; apply wof_in; exact Hg|].
        right. exists t0. rewrite Hoth by exact Hne0. exact Hg.
  - intros t0. unfold c'. rewrite get_thr_upd by exact Ht. cbn [now]. destruct (Nat.eqb_spec t0 t) as [->|Hne]; [exact Hpt|].
    rewrite Hoth by exact Hne. eapply pend_thr_ext; [exact Hag| |apply Hpend]. unfold n1. lia.
Qed.

Definition upd_g (g : nat -> option point) (t : nat) (x : option point) : nat -> option point :=
  fun t' => if Nat.eqb t' t then x else g t'.
Lemma upd_g_same g t x : upd_g g t x t = x.
Proof. unfold upd_g. rewrite Nat.eqb_refl. reflexivity. Qed.
Lemma upd_g_other g t x t' : t' <> t -> upd_g g t x t' = g t'.
Proof. intros H. unfold upd_g. destruct (Nat.eqb_spec t' t); [contradiction|reflexivity]. Qed.

Lemma LIN_inv_le c pst gpt ghs t o : LIN c pst gpt ghs -> cur (get_thr c t) = Some o -> inv_at (get_thr c t) <= now c.
Proof. intros (_ & _ & _ & _ & _ & _ & Hp) Hc. specialize (Hp t). unfold pend_thr in Hp. rewrite Hc in Hp. tauto. Qed.

Lemma LIN_gpt_none c pst gpt ghs t :
  LIN c pst gpt ghs -> (forall h r, at_ (get_thr c t) <> PutUnlock h r None) -> gpt t = None.
Proof.
  intros HL Hpc. destruct (gpt t) as [pt|] eqn:Hg; [|reflexivity]. exfalso.
  destruct HL as (_ & _ & _ & _ & _ & _ & Hp).
  destruct (pend_thr_gpt _ _ _ _ _ (Hp t) Hg) as (o & h & r & _ & _ & Ha & _). exact (Hpc _ _ Ha).
Qed.

(* the reader part of a pc's obligations *)
Definition pc_pend (pst : N -> shared) (n iv : N) (p : pc) : Prop :=
  match p with
  | GWalk _ q | PutFast _ _ q => exists j, iv <= j <= n /\ Pk (pst j) q
  | PutUnlock _ _ None => False
  | _ => True
  end.

Lemma pend_thr_plain pst n th o :
  cur th = Some o -> inv_at th <= n -> (op_key o = k -> pc_pend pst n (inv_at th) (at_ th)) -> pend_thr pst n None th.
Proof.
  intros Hc Hi Hp. unfold pend_thr. rewrite Hc. split; [exact Hi|].
  destruct (N.eqb_spec (op_key o) k) as [E|E]; [|reflexivity]. specialize (Hp E). unfold pc_pend in Hp.
  destruct (at_ th); auto. destruct retry; [reflexivity|contradiction].
Qed.

Lemma khist_same s ths n h c : h = hist c -> khist (mkCfg s ths n h) = khist c.
Proof. intros ->. reflexivity. Qed.

(* (S1) a step that is not a linearization point *)
Lemma LIN_goto_silent c pst gpt ghs t o s' p :
  LIN c pst gpt ghs -> (t < length (thr c))%nat -> cur (get_thr c t) = Some o ->
  (forall h r, at_ (get_thr c t) <> PutUnlock h r None) ->
  sh_inv s' -> hs_rel (sh c) s' -> absv s' = absv (sh c) ->
  (op_key o = k -> pc_pend (upd_pst pst (now c + 1) s') (now c + 1) (inv_at (get_thr c t)) p) ->
  LIN (goto (with_sh (bump c) s') t p) (upd_pst pst (now c + 1) s') gpt ghs.
Proof.
  intros HL Ht Hcur Hpc Hinv' Hrel Habs Hp. rewrite goto_shape.
  pose proof (LIN_gpt_none _ _ _ _ _ HL Hpc) as Hg. pose proof (LIN_inv_le _ _ _ _ _ _ HL Hcur) as Hi.
  apply (LIN_core c pst gpt ghs s' t (moved c t p) (hist c) gpt [] HL Ht Hinv' Hrel); cbn [map wpts app]; rewrite ?Hg; cbn [wof].
  - reflexivity.
  - constructor.
  - constructor.
  - intros l [].
  - intros l [].
  - left. exact Habs.
  - apply (pend_thr_plain _ _ (moved c t p) o); [exact Hcur|cbn; lia|exact Hp].
  - reflexivity.
Qed.

(* (S2) invoking the next operation *)
Lemma LIN_invoke c pst gpt ghs t o rest :
  binv c -> LIN c pst gpt ghs -> (t < length (thr c))%nat -> at_ (get_thr c t) = PDone ->
  LIN (mkCfg (sh c) (upd_list (thr c) t (mkT rest (Some o) (PStart o) (now c + 1))) (now c + 1) (hist c))
      (upd_pst pst (now c + 1) (sh c)) gpt ghs.
Proof.
  intros Hb HL Ht Hpc. assert (Hg : gpt t = None) by (apply (LIN_gpt_none _ _ _ _ _ HL); rewrite Hpc; discriminate).
  destruct (hs_rel_same (sh c) (sh c) (proj1 Hb) eq_refl eq_refl) as [Hrel _].
  apply (LIN_core c pst gpt ghs (sh c) t _ (hist c) gpt [] HL Ht (proj1 Hb) Hrel); cbn [map wpts app]; rewrite ?Hg; cbn [wof].
  - reflexivity.
  - constructor.
  - constructor.
  - intros l [].
  - intros l [].
  - left. reflexivity.
  - eapply pend_thr_plain; [reflexivity|cbn; lia|intros _; exact I].
  - reflexivity.
Qed.

Definition new_pt_ok (pst' : N -> shared) (c : cfg) (s' : shared) (iv : N) (o : opn) (r : res) : Prop :=
  (op_key o = k -> exists pt, valid_pt (trv pst') (C_ iv (now c + 1) (kop_of o r)) pt /\
                              (pt = PW (now c + 1) \/ exists j, pt = PR j /\ absv s' = absv (sh c))) /\
  (op_key o <> k -> absv s' = absv (sh c)).

(* (S4) reaching the unlock step with the operation's result decided *)
Lemma LIN_goto_unlock c pst gpt ghs t o s' h r :
  LIN c pst gpt ghs -> (t < length (thr c))%nat -> cur (get_thr c t) = Some o ->
  (forall h r, at_ (get_thr c t) <> PutUnlock h r None) ->
  sh_inv s' -> hs_rel (sh c) s' ->
  new_pt_ok (upd_pst pst (now c + 1) s') c s' (inv_at (get_thr c t)) o r ->
  exists gpt', LIN (goto (with_sh (bump c) s') t (PutUnlock h r None)) (upd_pst pst (now c + 1) s') gpt' ghs.
Proof.
  intros HL Ht Hcur Hpc Hinv' Hrel [Hk Hnk]. rewrite goto_shape.
  pose proof (LIN_gpt_none _ _ _ _ _ HL Hpc) as Hg. pose proof (LIN_inv_le _ _ _ _ _ _ HL Hcur) as Hi.
  destruct (N.eq_dec (op_key o) k) as [E|E].
  - destruct (Hk E) as (pt & Hv & Hpt). exists (upd_g gpt t (Some pt)).
    apply (LIN_core c pst gpt ghs s' t _ (hist c) _ [] HL Ht Hinv' Hrel); cbn [map wpts app]; rewrite ?Hg, ?upd_g_same; cbn [wof].
    + reflexivity.
    + constructor.
    + destruct pt; cbn; repeat constructor. intros [].
    + intros l Hl. left. destruct Hpt as [->|(j & -> & _)]; cbn in Hl; [destruct Hl as [<-|[]]; reflexivity|contradiction].
    + intros l [].
    + destruct Hpt as [->|(j & -> & Ha)]; [right; left; reflexivity|left; exact Ha].
    + unfold pend_thr, moved. cbn [cur at_ inv_at]. rewrite Hcur. split; [lia|].
      rewrite E, N.eqb_refl. exists pt. auto.
    + intros t' Hne. apply upd_g_other. exact Hne.
  - exists gpt.
    apply (LIN_core c pst gpt ghs s' t _ (hist c) _ [] HL Ht Hinv' Hrel); cbn [map wpts app]; rewrite ?Hg; cbn [wof].
    + reflexivity.
    + constructor.
    + constructor.
    + intros l [].
    + intros l [].
    + left. apply Hnk. exact E.
    + unfold pend_thr, moved. cbn [cur at_ inv_at]. rewrite Hcur. split; [lia|].
      destruct (N.eqb_spec (op_key o) k); [contradiction|reflexivity].
    + reflexivity.
Qed.

Lemma khist_cons c s ths n h :
  khist (mkCfg s ths n (h :: hist c)) = if (op_key (h_op h) =? k) then h :: khist c else khist c.
Proof. unfold khist. cbn [hist filter]. reflexivity. Qed.

(* (S5) an operation that responds at its linearization step *)
Lemma LIN_finish_direct c pst gpt ghs t o s' r :
  LIN c pst gpt ghs -> (t < length (thr c))%nat -> cur (get_thr c t) = Some o ->
  (forall h r, at_ (get_thr c t) <> PutUnlock h r None) ->
  sh_inv s' -> hs_rel (sh c) s' ->
  new_pt_ok (upd_pst pst (now c + 1) s') c s' (inv_at (get_thr c t)) o r ->
  exists ghs', LIN (finish (with_sh (bump c) s') t r) (upd_pst pst (now c + 1) s') gpt ghs'.
Proof.
  intros HL Ht Hcur Hpc Hinv' Hrel [Hk Hnk]. rewrite (finish_shape _ _ _ _ _ Hcur).
  pose proof (LIN_gpt_none _ _ _ _ _ HL Hpc) as Hg. pose proof (LIN_inv_le _ _ _ _ _ _ HL Hcur) as Hi.
  destruct (N.eq_dec (op_key o) k) as [E|E].
  - destruct (Hk E) as (pt & Hv & Hpt).
    exists ([(mkH t o r (inv_at (get_thr c t)) (now c + 1), pt)] ++ ghs).
    apply (LIN_core c pst gpt ghs s' t _ _ gpt _ HL Ht Hinv' Hrel); cbn [map snd fst app]; rewrite ?Hg, ?app_nil_r; cbn [wof].
    + rewrite khist_cons. cbn [h_op]. rewrite E, N.eqb_refl. reflexivity.
    + constructor; [|constructor]. split; [exact Hv|cbn; lia].
    + rewrite ?app_nil_r. destruct pt; cbn; repeat constructor. intros [].
    + rewrite ?app_nil_r. intros l Hl. left. destruct Hpt as [->|(j & -> & _)]; cbn in Hl; [destruct Hl as [<-|[]]; reflexivity|contradiction].
    + intros l [].
    + rewrite ?app_nil_r. destruct Hpt as [->|(j & -> & Ha)]; [right; left; reflexivity|left; exact Ha].
    + reflexivity.
    + reflexivity.
  - exists ([] ++ ghs).
    apply (LIN_core c pst gpt ghs s' t _ _ gpt _ HL Ht Hinv' Hrel); cbn [map wpts app]; rewrite ?Hg; cbn [wof].
    + rewrite khist_cons. cbn [h_op]. destruct (N.eqb_spec (op_key o) k); [contradiction|reflexivity].
    + constructor.
    + constructor.
    + intros l [].
    + intros l [].
    + left. apply Hnk. exact E.
    + reflexivity.
    + reflexivity.
Qed.

(* (S6) the response after the unlock *)
Lemma LIN_finish_unlock c pst gpt ghs t o h r :
  binv c -> LIN c pst gpt ghs -> (t < length (thr c))%nat -> cur (get_thr c t) = Some o ->
  at_ (get_thr c t) = PutUnlock h r None ->
  sh_inv (set_lock (sh c) h None) ->
  exists gpt' ghs', LIN (finish (with_sh (bump c) (set_lock (sh c) h None)) t r)
                        (upd_pst pst (now c + 1) (set_lock (sh c) h None)) gpt' ghs'.
Proof.
  intros Hb HL Ht Hcur Hpc Hinv'. rewrite (finish_shape _ _ _ _ _ Hcur).
  destruct (hs_rel_same (sh c) (set_lock (sh c) h None) (proj1 Hb) eq_refl eq_refl) as [Hrel Habs].
  pose proof HL as (_ & _ & _ & _ & _ & _ & Hp). specialize (Hp t). unfold pend_thr in Hp. rewrite Hcur, Hpc in Hp.
  destruct Hp as [Hi Hp]. destruct (N.eqb_spec (op_key o) k) as [E|E].
  - destruct Hp as (pt & Hg & Hv).
    exists (upd_g gpt t None), ([(mkH t o r (inv_at (get_thr c t)) (now c + 1), pt)] ++ ghs).
    apply (LIN_core c pst gpt ghs _ t _ _ _ _ HL Ht Hinv' Hrel); cbn [map snd fst app]; rewrite ?Hg, ?upd_g_same; cbn [wof].
    + rewrite khist_cons. cbn [h_op]. rewrite E, N.eqb_refl. reflexivity.
    + constructor; [|constructor]. split; [|cbn; lia]. unfold kc_of. cbn [fst snd h_inv h_resp h_op h_res].
      apply (valid_pt_mono _ _ (now c)); [lia|]. apply (valid_pt_ext (trv pst) _ (now c)); [|cbn; lia|exact Hv].
      intros j Hj. unfold trv. rewrite upd_pst_old by lia. reflexivity.
    + rewrite ?app_nil_r. destruct pt; cbn; repeat constructor. intros [].
    + rewrite ?app_nil_r. intros l Hl. right. destruct pt; exact Hl.
    + rewrite ?app_nil_r. intros l Hl. destruct pt; exact Hl.
    + left. exact Habs.
    + reflexivity.
    + intros t' Hne. apply upd_g_other. exact Hne.
  - exists gpt, ([] ++ ghs).
    apply (LIN_core c pst gpt ghs _ t _ _ _ _ HL Ht Hinv' Hrel); cbn [map wpts app]; rewrite ?Hp; cbn [wof].
    + rewrite khist_cons. cbn [h_op]. destruct (N.eqb_spec (op_key o) k); [contradiction|reflexivity].
    + constructor.
    + constructor.
    + intros l [].
    + intros l [].
    + left. exact Habs.
    + reflexivity.
    + reflexivity.
Qed.

(* ---------- sequential-specification facts ---------- *)
Lemma oeqb_refl a : oeqb a a = true.
Proof. destruct a; cbn; [apply Z.eqb_refl|reflexivity]. Qed.
Lemma kapply_get st : kapply st (KGet st) = Some st.
Proof. cbn. rewrite oeqb_refl. reflexivity. Qed.
Lemma kapply_insert st v : kapply st (KInsert v st) = Some (Some v).
Proof. cbn. rewrite oeqb_refl. reflexivity. Qed.
Lemma kapply_try_some cur v : kapply (Some cur) (KTryInsert v (Some cur)) = Some (Some cur).
Proof. cbn. rewrite Z.eqb_refl. reflexivity. Qed.
Lemma kapply_remove st : kapply st (KRemove st) = Some None.
Proof. cbn. rewrite oeqb_refl. reflexivity. Qed.
Lemma kapply_compute f seen : kapply (Some seen) (KCompute f (Some seen) (f seen)) = Some (f seen).
Proof. cbn. rewrite Z.eqb_refl, oeqb_refl. reflexivity. Qed.
(* the conditional removal (retain): absent key, value still the observed one, value changed *)
Lemma kapply_cond_none obs : kapply None (KCondRemove obs) = Some None.
Proof. reflexivity. Qed.
Lemma kapply_cond_hit obs : kapply (Some obs) (KCondRemove obs) = Some None.
Proof. cbn. rewrite Z.eqb_refl. reflexivity. Qed.
Lemma kapply_cond_miss obs ev : obs <> ev -> kapply (Some ev) (KCondRemove obs) = Some (Some ev).
Proof. intros H. cbn. destruct (Z.eqb_spec ev obs) as [E|E]; [congruence|reflexivity]. Qed.
(* whatever the recorded result, a conditional removal is the same abstract operation *)
Lemma kop_of_cond k' obs r : kop_of (OCondRemove k' obs) r = KCondRemove obs.
Proof. destruct r; reflexivity. Qed.

(* ---------- establishing the new linearization point ---------- *)
Lemma trv_new pst n s' : trv (upd_pst pst (n + 1) s') (n + 1) = absv s'.
Proof. unfold trv. rewrite upd_pst_new. reflexivity. Qed.
Lemma trv_old pst n s' j : j <= n -> trv (upd_pst pst (n + 1) s') j = trv pst j.
Proof. intros H. unfold trv. rewrite upd_pst_old by lia. reflexivity. Qed.
Lemma trv_now pst n s : trace_ok pst n s -> trv pst n = absv s.
Proof. intros (E & _). unfold trv. rewrite E. reflexivity. Qed.

Lemma new_pt_write c pst s' iv o r before after :
  trace_ok pst (now c) (sh c) -> iv <= now c -> kview (op_key o) (sh c) s' before after ->
  kapply before (kop_of o r) = Some after ->
  new_pt_ok (upd_pst pst (now c + 1) s') c s' iv o r.
Proof.
  intros Htr Hi (_ & Hk & Hnk) Hap. split; [|exact Hnk]. intros E. destruct (Hk E) as [Hb Ha].
  exists (PW (now c + 1)). split; [|left; reflexivity]. cbn. split; [lia|].
  replace (now c + 1 - 1) with (now c) by lia. rewrite trv_new, trv_old, (trv_now _ _ _ Htr), Hb, Ha by lia. exact Hap.
Qed.

Lemma new_pt_hind c pst iv o r :
  (op_key o = k -> exists j, iv <= j <= now c /\ kapply (trv pst j) (kop_of o r) = Some (trv pst j)) ->
  new_pt_ok (upd_pst pst (now c + 1) (sh c)) c (sh c) iv o r.
Proof.
  intros H. split; [|reflexivity]. intros E. destruct (H E) as (j & Hj & Hap). exists (PR j). split.
  - cbn. split; [lia|]. rewrite trv_old by lia. exact Hap.
  - right. exists j. auto.
Qed.

Lemma new_pt_read c pst iv o r :
  trace_ok pst (now c) (sh c) -> iv <= now c ->
  (op_key o = k -> kapply (absv (sh c)) (kop_of o r) = Some (absv (sh c))) ->
  new_pt_ok (upd_pst pst (now c + 1) (sh c)) c (sh c) iv o r.
Proof.
  intros Htr Hi H. apply new_pt_hind. intros E. exists (now c). split; [lia|].
  rewrite (trv_now _ _ _ Htr). apply H. exact E.
Qed.

(* what a lock-free reader standing at p can rely on *)
Lemma reader_view c pst iv p :
  trace_ok pst (now c) (sh c) -> (exists j, iv <= j <= now c /\ Pk (pst j) p) ->
  exists j, iv <= j <= now c /\ Pk (pst j) p /\ cell_at (pst j) p = cell_at (sh c) p.
Proof.
  intros Htr (j & Hj & HP). destruct (hindsight_now _ _ _ _ _ Htr (proj2 Hj) HP) as [H|(j' & Hj' & HP' & _ & Hc)].
  - exists (now c). destruct Htr as (E & _). rewrite E. split; [lia|]. auto.
  - exists j'. split; [lia|]. auto.
Qed.

Lemma LIN_reader c pst gpt ghs t o p :
  LIN c pst gpt ghs -> cur (get_thr c t) = Some o -> op_key o = k ->
  (exists k', at_ (get_thr c t) = GWalk k' p) \/ (exists k' v, at_ (get_thr c t) = PutFast k' v p) ->
  exists j, inv_at (get_thr c t) <= j <= now c /\ Pk (pst j) p.
Proof.
  intros (_ & _ & _ & _ & _ & _ & Hp) Hc E Hat. specialize (Hp t). unfold pend_thr in Hp. rewrite Hc, E, N.eqb_refl in Hp.
  destruct Hp as [_ Hp]. destruct Hat as [(k' & Ha)|(k' & v & Ha)]; rewrite Ha in Hp; tauto.
Qed.

Lemma walking_hit s t h pre p : sh_inv s -> walking s t k h pre p -> keyat s p = k -> absv s = Some (cval (cell_at s p)).
Proof. intros Hi Hw Hk. destruct (swap_effect2 _ _ _ _ _ _ 0%Z Hi Hw Hk) as (_ & H & _). apply H. reflexivity. Qed.
Lemma walking_miss s t h pre p : sh_inv s -> walking s t k h pre p -> keyat s p <> k -> cnext (cell_at s p) = None -> absv s = None.
Proof. intros Hi Hw Hk Hn. destruct (append_effect2 _ _ _ _ _ _ 0%Z Hi Hw Hk Hn) as (_ & H & _). apply H. reflexivity. Qed.

Lemma op_key_put k' v nr : op_key (put_op k' v nr) = k'.
Proof. destruct nr; reflexivity. Qed.
Lemma op_key_rm k' obs : op_key (rm_op k' obs) = k'.
Proof. destruct obs; reflexivity. Qed.
(* a removal (conditional or not) that finds the key absent *)
Lemma kapply_rm_absent k' obs : kapply None (kop_of (rm_op k' obs) RNone) = Some None.
Proof. destruct obs; reflexivity. Qed.

(* ---------- one step preserves the linearization invariant ---------- *)
Lemma sh_finish c t r : sh (finish c t r) = sh c.
Proof. unfold BinProto.finish. destruct (cur (BinProto.get_thr c t)); reflexivity. Qed.
(* the outcome of a step: the ghost can be extended, and the abstract value of k changes only in
   steps of operations on k *)
Definition step_ok (c : cfg) (t : nat) (c' : cfg) : Prop :=
  (exists pst' gpt' ghs', LIN c' pst' gpt' ghs') /\
  (absv (sh c') = absv (sh c) \/ exists o, cur (get_thr c t) = Some o /\ op_key o = k).

Lemma new_pt_ok_cross pst' c s' iv o r : new_pt_ok pst' c s' iv o r -> absv s' = absv (sh c) \/ op_key o = k.
Proof. intros [_ H]. destruct (N.eq_dec (op_key o) k) as [E|E]; [right; exact E|left; apply H; exact E]. Qed.

Lemma LIN_goto_silent' c pst gpt ghs t o s' p :
  LIN c pst gpt ghs -> (t < length (thr c))%nat -> cur (get_thr c t) = Some o ->
  (forall h r, at_ (get_thr c t) <> PutUnlock h r None) ->
  sh_inv s' -> hs_rel (sh c) s' -> absv s' = absv (sh c) ->
  (op_key o = k -> pc_pend (upd_pst pst (now c + 1) s') (now c + 1) (inv_at (get_thr c t)) p) ->
  step_ok c t (goto (with_sh (bump c) s') t p).
Proof. intros H1 H2 H3 H4 H5 H6 H7 H8. split; [|left; exact H7]. eexists _, _, _. eapply LIN_goto_silent; eassumption. Qed.
Lemma LIN_goto_unlock' c pst gpt ghs t o s' h r :
  LIN c pst gpt ghs -> (t < length (thr c))%nat -> cur (get_thr c t) = Some o ->
  (forall h r, at_ (get_thr c t) <> PutUnlock h r None) ->
  sh_inv s' -> hs_rel (sh c) s' ->
  new_pt_ok (upd_pst pst (now c + 1) s') c s' (inv_at (get_thr c t)) o r ->
  step_ok c t (goto (with_sh (bump c) s') t (PutUnlock h r None)).
Proof.
  intros H1 H2 H3 H4 H5 H6 H7. destruct (LIN_goto_unlock _ _ _ _ _ _ _ h _ H1 H2 H3 H4 H5 H6 H7) as (g & H).
  split; [eauto|]. destruct (new_pt_ok_cross _ _ _ _ _ _ H7) as [E|E]; [left; exact E|right; eauto].
Qed.
Lemma LIN_finish_direct' c pst gpt ghs t o s' r :
  LIN c pst gpt ghs -> (t < length (thr c))%nat -> cur (get_thr c t) = Some o ->
  (forall h r, at_ (get_thr c t) <> PutUnlock h r None) ->
  sh_inv s' -> hs_rel (sh c) s' ->
  new_pt_ok (upd_pst pst (now c + 1) s') c s' (inv_at (get_thr c t)) o r ->
  step_ok c t (finish (with_sh (bump c) s') t r).
Proof.
  intros H1 H2 H3 H4 H5 H6 H7. destruct (LIN_finish_direct _ _ _ _ _ _ _ _ H1 H2 H3 H4 H5 H6 H7) as (g & H).
  split; [eauto|]. rewrite sh_finish. destruct (new_pt_ok_cross _ _ _ _ _ _ H7) as [E|E]; [left; exact E|right; eauto].
Qed.
Lemma LIN_finish_unlock' c pst gpt ghs t o h r :
  binv c -> LIN c pst gpt ghs -> (t < length (thr c))%nat -> cur (get_thr c t) = Some o ->
  at_ (get_thr c t) = PutUnlock h r None ->
  sh_inv (set_lock (sh c) h None) ->
  step_ok c t (finish (with_sh (bump c) (set_lock (sh c) h None)) t r).
Proof.
  intros H1 H2 H3 H4 H5 H6. destruct (LIN_finish_unlock _ _ _ _ _ _ _ _ H1 H2 H3 H4 H5 H6) as (g & g' & H).
  split; [eauto|]. rewrite sh_finish. left. exact (proj2 (hs_rel_same (sh c) (set_lock (sh c) h None) (proj1 H1) eq_refl eq_refl)).
Qed.

Lemma LIN_step c t pst gpt ghs :
  binv c -> LIN c pst gpt ghs -> step_ok c t (step c t).
Proof.
  intros Hinv HL. pose proof (binv_step c t Hinv) as (Hsh' & _).
  pose proof Hinv as (Hsh & Hthr & Hlk). destruct (Hthr t) as [Hpi Hcu].
  pose proof (proj1 HL) as Htr.
  destruct (hs_rel_same (sh c) (sh c) Hsh eq_refl eq_refl) as [Hrel0 _].
  assert (Hsame : forall s', heap s' = heap (sh c) -> bins s' = bins (sh c) -> hs_rel (sh c) s' /\ absv s' = absv (sh c))
    by (intros s'; apply hs_rel_same; exact Hsh).
  revert Hsh'.
  unfold BinProto.step. change (mkCfg (sh c) (thr c) (now c + 1)%N (hist c)) with (bump c). cbv zeta.
  change (BinProto.get_thr (bump c) t) with (get_thr c t). change (sh (bump c)) with (sh c).
  unfold thr_cur in Hcu.
  destruct (at_ (get_thr c t)) as [o | k' p | k' v nr | k' v h | k' v nr h | k' v nr h | k' v nr h p | h r retry
     | k' obs h | k' obs h | k' obs h pred e | k' obs h pred e nxt | k' h pred e nxt ev
     | k' f h | k' f h | k' f h pred p | k' f h pred p nxt | k' h pred p nxt seen nv | ] eqn:Hpc.
  all: try (assert (Ht : (t < length (thr c))%nat) by (apply thr_lt; left; rewrite Hpc; discriminate)).
  all: destruct (cur (get_thr c t)) as [o0|] eqn:Hcur; try discriminate Hcu; try contradiction Hcu.
  all: cbn [pc_inv pc_cur] in Hpi, Hcu.
  all: try (assert (Hnu : forall h r, at_ (get_thr c t) <> PutUnlock h r None) by (rewrite Hpc; discriminate)).
  all: try pose proof (LIN_inv_le _ _ _ _ _ _ HL Hcur) as Hiv.
  - (* PStart *) subst o0.
    destruct (bin_at (sh c) (bini (op_key o))) as [h|] eqn:Hb.
    + destruct o as [k'|k' v|k' v|k'|k' ov|k' f]; cbn [op_key] in *;
        [ | | destruct (N.eqb_spec (ckey (cell_at (sh c) h)) k') as [Hk|Hk] | | | ];
        intros _; rewrite (with_sh_bump c); 
        (eapply LIN_goto_silent'; [exact HL|exact Ht|exact Hcur|exact Hnu|exact Hsh|exact Hrel0|reflexivity|]);
        cbn [op_key pc_pend]; intros E; try exact I;
        (exists (now c + 1); split; [lia|]; rewrite upd_pst_new; apply Pk_head; [exact Hsh|rewrite <- E; exact Hb]).
    + destruct o as [k'|k' v|k' v|k'|k' ov|k' f]; cbn [op_key] in *; intros _; rewrite (with_sh_bump c).
      * 
        eapply LIN_finish_direct'; [exact HL|exact Ht|exact Hcur|exact Hnu|exact Hsh|exact Hrel0|].
        apply new_pt_read; [exact Htr|exact Hiv|]. cbn [op_key]. intros E. rewrite absv_empty; [reflexivity|exact Hsh|rewrite <- E; exact Hb].
      * 
        eapply LIN_goto_silent'; [exact HL|exact Ht|exact Hcur|exact Hnu|exact Hsh|exact Hrel0|reflexivity|intros _; exact I].
      * 
        eapply LIN_goto_silent'; [exact HL|exact Ht|exact Hcur|exact Hnu|exact Hsh|exact Hrel0|reflexivity|intros _; exact I].
      * 
        eapply LIN_finish_direct'; [exact HL|exact Ht|exact Hcur|exact Hnu|exact Hsh|exact Hrel0|].
        apply new_pt_read; [exact Htr|exact Hiv|]. cbn [op_key]. intros E. rewrite absv_empty; [reflexivity|exact Hsh|rewrite <- E; exact Hb].
      * (* conditional removal from an empty bin: a no-effect point *)
        eapply LIN_finish_direct'; [exact HL|exact Ht|exact Hcur|exact Hnu|exact Hsh|exact Hrel0|].
        apply new_pt_read; [exact Htr|exact Hiv|]. cbn [op_key]. intros E. rewrite absv_empty; [reflexivity|exact Hsh|rewrite <- E; exact Hb].
      * 
        eapply LIN_finish_direct'; [exact HL|exact Ht|exact Hcur|exact Hnu|exact Hsh|exact Hrel0|].
        apply new_pt_read; [exact Htr|exact Hiv|]. cbn [op_key]. intros E. rewrite absv_empty; [reflexivity|exact Hsh|rewrite <- E; exact Hb].
  - (* GWalk *) subst o0.
    assert (HR : k' = k -> exists j, inv_at (get_thr c t) <= j <= now c /\ Pk (pst j) p /\ cell_at (pst j) p = cell_at (sh c) p).
    { intros E. apply reader_view; [exact Htr|]. eapply LIN_reader; [exact HL|exact Hcur|exact E|left; eauto]. }
    destruct (N.eqb_spec (ckey (cell_at (sh c) p)) k') as [Hk|Hk]; [|destruct (cnext (cell_at (sh c) p)) as [q|] eqn:Hq];
      intros _; rewrite (with_sh_bump c).
    + 
      eapply LIN_finish_direct'; [exact HL|exact Ht|exact Hcur|exact Hnu|exact Hsh|exact Hrel0|].
      apply new_pt_hind. cbn [op_key]. intros E. destruct (HR E) as (j & Hj & HP & Hc). exists j. split; [exact Hj|].
      unfold trv. rewrite (Pk_hit _ _ HP) by (unfold keyat; rewrite Hc; congruence). rewrite Hc. apply kapply_get.
    + 
      eapply LIN_goto_silent'; [exact HL|exact Ht|exact Hcur|exact Hnu|exact Hsh|exact Hrel0|reflexivity|].
      cbn [op_key pc_pend]. intros E. destruct (HR E) as (j & Hj & HP & Hc). exists j. split; [lia|].
      rewrite upd_pst_old by lia. eapply Pk_next; [exact HP|unfold keyat; rewrite Hc; congruence|rewrite Hc; exact Hq].
    + 
      eapply LIN_finish_direct'; [exact HL|exact Ht|exact Hcur|exact Hnu|exact Hsh|exact Hrel0|].
      apply new_pt_hind. cbn [op_key]. intros E. destruct (HR E) as (j & Hj & HP & Hc). exists j. split; [exact Hj|].
      unfold trv. rewrite (Pk_miss _ _ HP); [reflexivity|unfold keyat; rewrite Hc; congruence|rewrite Hc; exact Hq].
  - (* PutCas *) subst o0.
    destruct (bin_at (sh c) (bini k')) as [h|] eqn:Hb.
    + destruct nr; cbn [andb];
        [destruct (N.eqb_spec (ckey (cell_at (sh c) h)) k') as [Hk|Hk] | ];
        intros _; rewrite (with_sh_bump c);
        (eapply LIN_goto_silent'; [exact HL|exact Ht|exact Hcur|exact Hnu|exact Hsh|exact Hrel0|reflexivity|]);
        cbn [op_key put_op pc_pend]; intros E; try exact I;
        (exists (now c + 1); split; [lia|]; rewrite upd_pst_new; apply Pk_head; [exact Hsh|rewrite <- E; exact Hb]).
    + rewrite alloc_eq. cbv beta iota. change (sh (bump c)) with (sh c). intros Hsh'.
      rewrite sh_finish in Hsh'. pose proof (cas_effect2 _ k' v Hsh Hb) as Hkv. 
      eapply LIN_finish_direct'; [exact HL|exact Ht|exact Hcur|exact Hnu|exact Hsh'|exact (proj1 Hkv)|].
      eapply new_pt_write; [exact Htr|exact Hiv|rewrite op_key_put; exact Hkv|]. destruct nr; reflexivity.
  - (* PutFast *) subst o0. destruct Hpi as [Hh Hkh]. intros _; rewrite (with_sh_bump c).
    
    eapply LIN_finish_direct'; [exact HL|exact Ht|exact Hcur|exact Hnu|exact Hsh|exact Hrel0|].
    apply new_pt_hind. cbn [op_key]. intros E.
    assert (HR : exists j, inv_at (get_thr c t) <= j <= now c /\ Pk (pst j) h /\ cell_at (pst j) h = cell_at (sh c) h).
    { apply reader_view; [exact Htr|]. eapply LIN_reader; [exact HL|exact Hcur|exact E|right; eauto]. }
    destruct HR as (j & Hj & HP & Hc). exists j. split; [exact Hj|].
    unfold trv. rewrite (Pk_hit _ _ HP) by (unfold keyat in *; rewrite Hc; congruence). rewrite Hc. apply kapply_try_some.
  - (* PutLock *)
    destruct (lock_at (sh c) h) as [u|] eqn:Hl; [intros _; split; [exists pst, gpt, ghs; exact HL|left; reflexivity]|]. intros Hsh'.
    destruct (Hsame (set_lock (sh c) h (Some t)) eq_refl eq_refl) as [Hr Ha]. 
    eapply LIN_goto_silent'; [exact HL|exact Ht|exact Hcur|exact Hnu|exact Hsh'|exact Hr|exact Ha|intros _; exact I].
  - (* PutReval *)
    destruct (bin_at (sh c) (bini k')) as [h'|] eqn:Hb; [destruct (Nat.eqb_spec h' h) as [->|Hne]|];
      intros _; rewrite (with_sh_bump c); 
      (eapply LIN_goto_silent'; [exact HL|exact Ht|exact Hcur|exact Hnu|exact Hsh|exact Hrel0|reflexivity|intros _; exact I]).
  - (* PutWalk *) subst o0. destruct Hpi as (pre & Hw).
    destruct (N.eqb_spec (ckey (cell_at (sh c) p)) k') as [Hk|Hk]; [destruct nr|destruct (cnext (cell_at (sh c) p)) as [q|] eqn:Hq].
    + intros _; rewrite (with_sh_bump c). 
      eapply LIN_goto_unlock'; [exact HL|exact Ht|exact Hcur|exact Hnu|exact Hsh|exact Hrel0|].
      apply new_pt_read; [exact Htr|exact Hiv|]. cbn [op_key put_op]. intros E. rewrite E in *.
      rewrite (walking_hit _ _ _ _ _ Hsh Hw Hk). apply kapply_try_some.
    + intros Hsh'. pose proof (swap_effect2 _ _ _ _ _ _ v Hsh Hw Hk) as Hkv. 
      eapply LIN_goto_unlock'; [exact HL|exact Ht|exact Hcur|exact Hnu|exact Hsh'|exact (proj1 Hkv)|].
      eapply new_pt_write; [exact Htr|exact Hiv|exact Hkv|]. apply kapply_insert.
    + intros _; rewrite (with_sh_bump c). 
      eapply LIN_goto_silent'; [exact HL|exact Ht|exact Hcur|exact Hnu|exact Hsh|exact Hrel0|reflexivity|intros _; exact I].
    + rewrite alloc_eq. cbv beta iota. change (sh (bump c)) with (sh c). intros Hsh'.
      pose proof (append_effect2 _ _ _ _ _ _ v Hsh Hw Hk Hq) as Hkv. 
      eapply LIN_goto_unlock'; [exact HL|exact Ht|exact Hcur|exact Hnu|exact Hsh'|exact (proj1 Hkv)|].
      eapply new_pt_write; [exact Htr|exact Hiv|rewrite op_key_put; exact Hkv|]. destruct nr; reflexivity.
  - (* PutUnlock *)
    change (sh (bump c)) with (sh c). destruct retry as [o'|]; intros Hsh'.
    + destruct (Hsame (set_lock (sh c) h None) eq_refl eq_refl) as [Hr Ha]. 
      eapply LIN_goto_silent'; [exact HL|exact Ht|exact Hcur|rewrite Hpc; discriminate|exact Hsh'|exact Hr|exact Ha|intros _; exact I].
    + rewrite sh_finish in Hsh'.  eapply LIN_finish_unlock'; [exact Hinv|exact HL|exact Ht|exact Hcur|exact Hpc|exact Hsh'].
  - (* RmLock *)
    destruct (lock_at (sh c) h) as [u|] eqn:Hl; [intros _; split; [exists pst, gpt, ghs; exact HL|left; reflexivity]|]. intros Hsh'.
    destruct (Hsame (set_lock (sh c) h (Some t)) eq_refl eq_refl) as [Hr Ha]. 
    eapply LIN_goto_silent'; [exact HL|exact Ht|exact Hcur|exact Hnu|exact Hsh'|exact Hr|exact Ha|intros _; exact I].
  - (* RmReval *)
    destruct (bin_at (sh c) (bini k')) as [h'|] eqn:Hb; [destruct (Nat.eqb_spec h' h) as [->|Hne]|];
      intros _; rewrite (with_sh_bump c); 
      (eapply LIN_goto_silent'; [exact HL|exact Ht|exact Hcur|exact Hnu|exact Hsh|exact Hrel0|reflexivity|intros _; exact I]).
  - (* RmWalk *) subst o0. destruct Hpi as (pre & Hw & Hpr).
    destruct (N.eqb_spec (ckey (cell_at (sh c) e)) k') as [Hk|Hk]; [|destruct (cnext (cell_at (sh c) e)) as [q|] eqn:Hq];
      intros _; rewrite (with_sh_bump c).
    + 
      eapply LIN_goto_silent'; [exact HL|exact Ht|exact Hcur|exact Hnu|exact Hsh|exact Hrel0|reflexivity|intros _; exact I].
    + 
      eapply LIN_goto_silent'; [exact HL|exact Ht|exact Hcur|exact Hnu|exact Hsh|exact Hrel0|reflexivity|intros _; exact I].
    + 
      eapply LIN_goto_unlock'; [exact HL|exact Ht|exact Hcur|exact Hnu|exact Hsh|exact Hrel0|].
      apply new_pt_read; [exact Htr|exact Hiv|]. rewrite op_key_rm. intros E. subst k'.
      rewrite (walking_miss _ _ _ _ _ Hsh Hw Hk Hq). apply kapply_rm_absent.
  - (* RmFound *) subst o0. destruct Hpi as (pre & Hw & Hpr & Hk & Hn).
    destruct obs as [ov|]; [destruct (Z.eqb_spec ov (cval (cell_at (sh c) e))) as [Ev|Ev]|];
      intros _; rewrite (with_sh_bump c).
    + 
      eapply LIN_goto_silent'; [exact HL|exact Ht|exact Hcur|exact Hnu|exact Hsh|exact Hrel0|reflexivity|intros _; exact I].
    + (* the value is no longer the observed one: the conditional removal takes (no) effect here *)
      eapply LIN_goto_unlock'; [exact HL|exact Ht|exact Hcur|exact Hnu|exact Hsh|exact Hrel0|].
      apply new_pt_read; [exact Htr|exact Hiv|]. cbn [op_key rm_op]. intros E. rewrite E in Hw, Hk.
      rewrite (walking_hit _ _ _ _ _ Hsh Hw Hk). rewrite kop_of_cond. apply kapply_cond_miss. exact Ev.
    + 
      eapply LIN_goto_silent'; [exact HL|exact Ht|exact Hcur|exact Hnu|exact Hsh|exact Hrel0|reflexivity|intros _; exact I].
  - (* RmUnlink *) destruct Hpi as (pre & Hw & Hpr & Hk & Hn & Hv). subst nxt ev. intros Hsh'.
    pose proof (unlink_effect2 _ _ _ _ _ _ _ Hsh Hw Hpr Hk) as Hkv. 
    destruct Hcu as [-> | ->].
    + eapply LIN_goto_unlock'; [exact HL|exact Ht|exact Hcur|exact Hnu|exact Hsh'|exact (proj1 Hkv)|].
      eapply new_pt_write; [exact Htr|exact Hiv|exact Hkv|]. apply kapply_remove.
    + (* a conditional removal unlinks only a node whose value is the observed one *)
      eapply LIN_goto_unlock'; [exact HL|exact Ht|exact Hcur|exact Hnu|exact Hsh'|exact (proj1 Hkv)|].
      eapply new_pt_write; [exact Htr|exact Hiv|exact Hkv|]. rewrite kop_of_cond. apply kapply_cond_hit.
  - (* CpLock *)
    destruct (lock_at (sh c) h) as [u|] eqn:Hl; [intros _; split; [exists pst, gpt, ghs; exact HL|left; reflexivity]|]. intros Hsh'.
    destruct (Hsame (set_lock (sh c) h (Some t)) eq_refl eq_refl) as [Hr Ha]. 
    eapply LIN_goto_silent'; [exact HL|exact Ht|exact Hcur|exact Hnu|exact Hsh'|exact Hr|exact Ha|intros _; exact I].
  - (* CpReval *)
    destruct (bin_at (sh c) (bini k')) as [h'|] eqn:Hb; [destruct (Nat.eqb_spec h' h) as [->|Hne]|];
      intros _; rewrite (with_sh_bump c); 
      (eapply LIN_goto_silent'; [exact HL|exact Ht|exact Hcur|exact Hnu|exact Hsh|exact Hrel0|reflexivity|intros _; exact I]).
  - (* CpWalk *) subst o0. destruct Hpi as (pre & Hw & Hpr).
    destruct (N.eqb_spec (ckey (cell_at (sh c) p)) k') as [Hk|Hk]; [|destruct (cnext (cell_at (sh c) p)) as [q|] eqn:Hq];
      intros _; rewrite (with_sh_bump c).
    + 
      eapply LIN_goto_silent'; [exact HL|exact Ht|exact Hcur|exact Hnu|exact Hsh|exact Hrel0|reflexivity|intros _; exact I].
    + 
      eapply LIN_goto_silent'; [exact HL|exact Ht|exact Hcur|exact Hnu|exact Hsh|exact Hrel0|reflexivity|intros _; exact I].
    + 
      eapply LIN_goto_unlock'; [exact HL|exact Ht|exact Hcur|exact Hnu|exact Hsh|exact Hrel0|].
      apply new_pt_read; [exact Htr|exact Hiv|]. cbn [op_key]. intros E. subst k'.
      rewrite (walking_miss _ _ _ _ _ Hsh Hw Hk Hq). reflexivity.
  - (* CpFound *)
    intros _; rewrite (with_sh_bump c). 
    eapply LIN_goto_silent'; [exact HL|exact Ht|exact Hcur|exact Hnu|exact Hsh|exact Hrel0|reflexivity|intros _; exact I].
  - (* CpApply *) destruct Hcu as (f & -> & ->). destruct Hpi as (pre & Hw & Hpr & Hk & Hn & Hv). subst nxt seen.
    destruct (f (cval (cell_at (sh c) p))) as [v'|] eqn:Hf; intros Hsh'.
    + pose proof (swap_effect2 _ _ _ _ _ _ v' Hsh Hw Hk) as Hkv. 
      eapply LIN_goto_unlock'; [exact HL|exact Ht|exact Hcur|exact Hnu|exact Hsh'|exact (proj1 Hkv)|].
      eapply new_pt_write; [exact Htr|exact Hiv|exact Hkv|]. cbn [kop_of]. rewrite <- Hf. apply kapply_compute.
    + pose proof (unlink_effect2 _ _ _ _ _ _ _ Hsh Hw Hpr Hk) as Hkv. 
      eapply LIN_goto_unlock'; [exact HL|exact Ht|exact Hcur|exact Hnu|exact Hsh'|exact (proj1 Hkv)|].
      eapply new_pt_write; [exact Htr|exact Hiv|exact Hkv|]. cbn [kop_of]. rewrite <- Hf. apply kapply_compute.
  - (* PDone *)
    destruct (todo (get_thr c t)) as [|o rest] eqn:Htodo; [intros _; split; [exists pst, gpt, ghs; exact HL|left; reflexivity]|].
    assert (Ht : (t < length (thr c))%nat) by (apply thr_lt; right; rewrite Htodo; discriminate).
    intros _. unfold BinProto.set_thr. cbn [sh thr now hist bump].
     split; [|left; reflexivity]. exists (upd_pst pst (now c + 1) (sh c)), gpt, ghs. apply LIN_invoke; assumption.
Qed.

(* ---------- every reachable configuration carries a linearization ghost ---------- *)
Lemma LIN_init progs : LIN (init progs) (fun _ => sh (init progs)) (fun _ => None) [].
Proof.
  split; [|split; [|split; [|split; [|split; [|split]]]]].
  - split; [reflexivity|]. split; [reflexivity|]. split; [intros j Hj; cbn in Hj; lia|]. intros j _. apply (binv_init progs).
  - reflexivity.
  - constructor.
  - constructor.
  - intros t l H. discriminate.
  - intros l Hl. cbn in Hl. lia.
  - intros t. unfold pend_thr. destruct (get_thr_init progs t) as [_ ->]. reflexivity.
Qed.

Lemma LIN_run sched : forall c pst gpt ghs, binv c -> LIN c pst gpt ghs ->
  exists pst' gpt' ghs', LIN (run c sched) pst' gpt' ghs'.
Proof.
  induction sched as [|t sched IH]; intros c pst gpt ghs Hb HL; [eauto|].
  cbn. destruct (LIN_step c t _ _ _ Hb HL) as ((pst' & gpt' & ghs' & HL') & _). eapply IH; [apply binv_step; exact Hb|exact HL'].
Qed.

Lemma all_done_at c t : all_done c = true -> at_ (get_thr c t) = PDone.
Proof.
  intros H. unfold all_done in H. rewrite forallb_forall in H. unfold BinProto.get_thr.
  destruct (Nat.lt_ge_cases t (length (thr c))) as [Hl|Hl]; [|rewrite nth_overflow by exact Hl; reflexivity].
  specialize (H _ (nth_In _ (mkT [] None PDone 0) Hl)). destruct (at_ (nth t (thr c) (mkT [] None PDone 0))); try discriminate. reflexivity.
Qed.

Lemma LIN_linearizable c pst gpt ghs :
  LIN c pst gpt ghs -> (forall t, gpt t = None) ->
  linearizable None (key_history c k) (Some (lookup khash nbins c k)).
Proof.
  intros (Htr & Hmap & Hdone & Hnd & _ & Hcov & _) Hnone.
  set (cs := map (fun hp : hcall * point => (kc_of (fst hp), snd hp)) ghs).
  assert (E1 : map fst cs = key_history c k).
  { unfold cs. rewrite map_map. cbn [fst]. rewrite key_history_khist, <- Hmap, map_map. reflexivity. }
  assert (E2 : map snd cs = map snd ghs) by (unfold cs; rewrite map_map; reflexivity).
  pose proof (assemble (trv pst) (now c) cs) as HA. rewrite E1, E2 in HA.
  destruct Htr as (Hnow & H0 & _).
  assert (E3 : trv pst 0 = None) by exact H0.
  assert (E4 : trv pst (now c) = lookup khash nbins c k) by (unfold trv; rewrite Hnow; reflexivity).
  rewrite E3, E4 in HA. apply HA.
  - intros cl pt Hin. unfold cs in Hin. apply in_map_iff in Hin as ([h pt'] & E & Hin). cbn in E. injection E as <- <-.
    rewrite Forall_forall in Hdone. destruct (Hdone _ Hin) as [Hv Hr]. cbn [fst snd] in *. split; [exact Hv|].
    apply valid_pt_pos in Hv. cbn in Hv. lia.
  - exact Hnd.
  - intros l Hl Hch. destruct (Hcov l Hl Hch) as [Hin|(t & Hg)]; [exact Hin|]. rewrite Hnone in Hg. discriminate.
Qed.

Theorem binproto_linearizable_k progs sched :
  let c := run (init progs) sched in
  all_done c = true -> linearizable None (key_history c k) (Some (lookup khash nbins c k)).
Proof.
  intros c Hdone. destruct (LIN_run sched _ _ _ _ (binv_init progs) (LIN_init progs)) as (pst & gpt & ghs & HL).
  fold c in HL. apply (LIN_linearizable c pst gpt ghs HL). intros t.
  destruct (gpt t) as [pt|] eqn:Hg; [|reflexivity]. exfalso.
  destruct HL as (_ & _ & _ & _ & _ & _ & Hp). destruct (pend_thr_gpt _ _ _ _ _ (Hp t) Hg) as (o & h & r & _ & _ & Ha & _).
  rewrite (all_done_at c t Hdone) in Ha. discriminate.
Qed.

Lemma LIN_reach progs sched : exists pst gpt ghs, LIN (run (init progs) sched) pst gpt ghs.
Proof. apply (LIN_run sched _ _ _ _ (binv_init progs) (LIN_init progs)). Qed.

(* a step that changes the abstract value of key k belongs to an operation on key k *)
Theorem no_cross_key_k progs sched t :
  let c := run (init progs) sched in
  lookup khash nbins (step c t) k <> lookup khash nbins c k ->
  exists o, cur (get_thr c t) = Some o /\ op_key o = k.
Proof.
  intros c Hne. destruct (LIN_reach progs sched) as (pst & gpt & ghs & HL). fold c in HL.
  destruct (LIN_step c t _ _ _ (binproto_inv progs sched) HL) as (_ & [E|H]); [|exact H].
  exfalso. apply Hne. exact E.
Qed.

(* C08: compute_if_present is atomic.  In the sequential witness, the state just before a completed
   compute call that reported `Some seen` to its callback is `Some seen`, the returned value is
   `f seen`, and the state just after it is `f seen`. *)
Lemma legal_split st pre x post st' :
  legal st (pre ++ x :: post) = Some st' ->
  exists s0 s1, legal st pre = Some s0 /\ kapply s0 (c_op x) = Some s1 /\ legal s1 post = Some st'.
Proof.
  rewrite legal_app. destruct (legal st pre) as [s0|]; [|discriminate]. cbn.
  destruct (kapply s0 (c_op x)) as [s1|] eqn:Ek; [|discriminate]. intros H. exists s0, s1. auto.
Qed.
Lemma kapply_compute_inv s0 f seen ret s1 :
  kapply s0 (KCompute f (Some seen) ret) = Some s1 -> s0 = Some seen /\ ret = f seen /\ s1 = f seen.
Proof.
  cbn. destruct s0 as [s|]; [|cbn; discriminate].
  destruct (Z.eqb_spec seen s) as [->|]; [|discriminate]. destruct (oeqb ret (f s)) eqn:E2; [|discriminate].
  cbn. intros H. injection H as <-. apply oeqb_eq in E2. auto.
Qed.

Theorem compute_atomic_k progs sched :
  let c := run (init progs) sched in
  all_done c = true ->
  exists order, Permutation order (key_history c k) /\ respects_rt order /\
    legal None order = Some (lookup khash nbins c k) /\
    forall h f seen ret, In h (hist c) -> h_op h = OCompute k f -> h_res h = RComputed (Some seen) ret ->
      ret = f seen /\
      exists pre post, let x := C_ (h_inv h) (h_resp h) (KCompute f (Some seen) ret) in
        order = pre ++ x :: post /\ legal None pre = Some (Some seen) /\ legal None (pre ++ [x]) = Some (f seen).
Proof.
  intros c Hdone. destruct (binproto_linearizable_k progs sched Hdone) as (order & st & Hperm & Hrt & Hleg & Hfin).
  fold c in Hperm, Hfin. cbn in Hfin. subst st. exists order. split; [exact Hperm|]. split; [exact Hrt|]. split; [exact Hleg|].
  intros h f seen ret Hin Hop Hres.
  assert (Hx : In (C_ (h_inv h) (h_resp h) (KCompute f (Some seen) ret)) order).
  { eapply Permutation_in; [apply Permutation_sym; exact Hperm|]. unfold key_history. apply in_map_iff. exists h. split.
    - rewrite Hop, Hres. reflexivity.
    - apply filter_In. split; [exact Hin|]. rewrite Hop. cbn. apply N.eqb_refl. }
  apply in_split in Hx as (pre & post & ->).
  destruct (legal_split _ _ _ _ _ Hleg) as (s0 & s1 & H0 & Hk & _). cbn [c_op] in Hk.
  apply kapply_compute_inv in Hk as (-> & -> & ->). split; [reflexivity|]. exists pre, post. cbn zeta.
  split; [reflexivity|]. split; [exact H0|]. rewrite legal_app, H0. cbn. rewrite Z.eqb_refl, oeqb_refl. reflexivity.
Qed.

(* ---------- the invariant form: every reachable configuration ---------- *)
(* the pending operation of thread t on key k, if its result is already decided (it is about to
   release its lock and respond): it is counted as a call responding "now" *)
Definition pcall (c : cfg) (t : nat) : list kcall :=
  let th := get_thr c t in
  match cur th with
  | Some o =>
      if (op_key o =? k) then
        match at_ th with
        | PutUnlock _ r None => [C_ (inv_at th) (now c) (kop_of o r)]
        | _ => []
        end
      else []
  | None => []
  end.
Definition pending_calls (c : cfg) : list kcall := flat_map (pcall c) (seq 0 (length (thr c))).

Lemma pcall_gpt c pst g t : pend_thr pst (now c) g (get_thr c t) ->
  match g with
  | None => pcall c t = []
  | Some pt => exists x, pcall c t = [x] /\ valid_pt (trv pst) x pt
  end.
Proof.
  unfold pend_thr, pcall. cbv zeta. destruct (cur (get_thr c t)) as [o|]; [|intros ->; reflexivity].
  intros [_ H]. destruct (op_key o =? k); [|subst g; reflexivity].
  destruct (at_ (get_thr c t)); try (subst g; reflexivity); try (destruct H as [-> _]; reflexivity).
  destruct retry; [subst g; reflexivity|]. destruct H as (pt & -> & Hv). eauto.
Qed.

Definition pcs (c : cfg) (gpt : nat -> option point) (t : nat) : list (kcall * point) :=
  match gpt t with Some pt => map (fun x => (x, pt)) (pcall c t) | None => [] end.

Lemma flat_map_wof_nodup (gpt : nat -> option point) ts :
  NoDup ts -> (forall t t' l, gpt t = Some (PW l) -> gpt t' = Some (PW l) -> t' = t) ->
  NoDup (flat_map (fun t => wof (gpt t)) ts).
Proof.
  intros Hnd Hinj. induction Hnd as [|a ts Ha Hnd IH]; cbn; [constructor|].
  apply NoDup_app_intro; [|exact IH|].
  - destruct (gpt a) as [[l|j]|]; cbn; repeat constructor. intros [].
  - intros l Hl Hin. apply wof_in in Hl. apply in_flat_map in Hin as (t' & Ht' & Hl'). apply wof_in in Hl'.
    rewrite (Hinj _ _ _ Hl Hl') in Ht'. contradiction.
Qed.

Theorem LIN_linearizable_inv c pst gpt ghs :
  binv c -> LIN c pst gpt ghs ->
  linearizable None (key_history c k ++ pending_calls c) (Some (lookup khash nbins c k)).
Proof.
  intros Hb HL. pose proof HL as (Htr & Hmap & Hdone & Hnd & Huniq & Hcov & Hpend).
  set (ts := seq 0 (length (thr c))).
  set (cs := map (fun hp : hcall * point => (kc_of (fst hp), snd hp)) ghs ++ flat_map (pcs c gpt) ts).
  assert (Hpc : forall t, match gpt t with None => pcall c t = []
                          | Some pt => exists x, pcall c t = [x] /\ valid_pt (trv pst) x pt end)
    by (intros t; eapply pcall_gpt; apply Hpend).
  assert (F1 : forall l, map fst (flat_map (pcs c gpt) l) = flat_map (pcall c) l).
  { induction l as [|a l IH]; [reflexivity|]. cbn [flat_map]. rewrite map_app, IH. f_equal.
    unfold pcs. specialize (Hpc a). destruct (gpt a) as [pt|]; [|symmetry; exact Hpc].
    rewrite map_map. cbn [fst]. apply map_id. }
  assert (F2 : forall l, wpts (map snd (flat_map (pcs c gpt) l)) = flat_map (fun t => wof (gpt t)) l).
  { induction l as [|a l IH]; [reflexivity|]. cbn [flat_map]. rewrite map_app, wpts_app, IH. f_equal.
    unfold pcs. specialize (Hpc a). destruct (gpt a) as [pt|]; [|reflexivity].
    destruct Hpc as (x & -> & _). destruct pt; reflexivity. }
  assert (E1 : map fst cs = key_history c k ++ pending_calls c).
  { unfold cs. rewrite map_app, F1. f_equal.
    rewrite map_map. cbn [fst]. rewrite key_history_khist, <- Hmap, map_map. reflexivity. }
  assert (E2 : wpts (map snd cs) = wpts (map snd ghs) ++ flat_map (fun t => wof (gpt t)) ts).
  { unfold cs. rewrite map_app, wpts_app, F2. f_equal. rewrite map_map. reflexivity. }
  pose proof (assemble (trv pst) (now c) cs) as HA. rewrite E1, E2 in HA.
  destruct Htr as (Hnow & H0 & _).
  assert (E3 : trv pst 0 = None) by exact H0.
  assert (E4 : trv pst (now c) = lookup khash nbins c k) by (unfold trv; rewrite Hnow; reflexivity).
  rewrite E3, E4 in HA. apply HA.
  - intros cl pt Hin. unfold cs in Hin. apply in_app_or in Hin as [Hin|Hin].
    + apply in_map_iff in Hin as ([h pt'] & E & Hin). cbn in E. injection E as <- <-.
      rewrite Forall_forall in Hdone. destruct (Hdone _ Hin) as [Hv Hr]. cbn [fst snd] in *. split; [exact Hv|].
      apply valid_pt_pos in Hv. cbn in Hv. lia.
    + apply in_flat_map in Hin as (t & _ & Hin). unfold pcs in Hin. specialize (Hpc t).
      destruct (gpt t) as [pt'|] eqn:Hg; [|contradiction]. destruct Hpc as (x & Hx & Hv). rewrite Hx in Hin.
      destruct Hin as [E|[]]. injection E as <- <-. split; [exact Hv|].
      exact (LIN_gpt_pos _ _ _ _ _ _ HL Hg).
  - apply NoDup_app_intro; [exact Hnd| |].
    + apply flat_map_wof_nodup; [apply seq_NoDup|]. intros t t' l H1 H2. exact (proj2 (Huniq _ _ H1) _ H2).
    + intros l H1 H2. apply in_flat_map in H2 as (t & _ & Hl). apply wof_in in Hl. exact (proj1 (Huniq _ _ Hl) H1).
  - intros l Hl Hch. apply in_or_app. destruct (Hcov l Hl Hch) as [Hin|(t & Hg)]; [left; exact Hin|right].
    apply in_flat_map. exists t. split; [|apply wof_in; exact Hg]. apply in_seq. split; [lia|]. cbn. apply thr_lt. left.
    destruct (pend_thr_gpt _ _ _ _ _ (Hpend t) Hg) as (o & h & r & _ & _ & Ha & _). rewrite Ha. discriminate.
Qed.

Theorem binproto_linearizable_inv_k progs sched :
  let c := run (init progs) sched in
  linearizable None (key_history c k ++ pending_calls c) (Some (lookup khash nbins c k)).
Proof.
  intros c. destruct (LIN_reach progs sched) as (pst & gpt & ghs & HL).
  eapply LIN_linearizable_inv; [apply binproto_inv|exact HL].
Qed.

Lemma pending_calls_done c : all_done c = true -> pending_calls c = [].
Proof.
  intros Hd. unfold pending_calls. induction (seq 0 (length (thr c))) as [|a l IH]; [reflexivity|].
  cbn [flat_map]. rewrite IH, app_nil_r. unfold pcall. cbv zeta. rewrite (all_done_at c a Hd).
  destruct (cur (get_thr c a)) as [o|]; [|reflexivity]. destruct (op_key o =? k); reflexivity.
Qed.

(* END-OF-SECTION *)
End Inv.

(* ====================================================================== *)
(* Final statements                                                        *)
(* ====================================================================== *)

(* (1) the shared-memory invariant (`binv`: acyclic live lists with increasing addresses, unique
   keys per live list hashing to their bin, lock discipline, the walkers' view) holds in every
   reachable configuration: `binproto_inv`, proved in the section above. *)
Check binproto_inv.

(* (2) deadlock freedom: `binproto_deadlock_free`. *)
Check binproto_deadlock_free.

(* C01 (stage S1): every complete execution of the list-bin protocol is linearizable, for every
   hash function, table size, program, schedule and key; the final abstract state is what a
   lookup finds in the final shared memory. *)
Theorem binproto_linearizable : forall khash nbins progs sched k,
  (0 < nbins)%nat ->
  let c := run khash nbins (init nbins progs) sched in
  all_done c = true ->
  linearizable None (key_history c k) (Some (lookup khash nbins c k)).
Proof. intros khash nbins progs sched k Hn. apply binproto_linearizable_k. exact Hn. Qed.

(* The invariant form, for every reachable configuration (strictly stronger): the completed calls
   together with the pending calls whose result is already decided (threads about to release their
   lock and respond; counted as responding now) are linearizable, and the resulting abstract state
   is what a lookup finds in the current shared memory.  Pending calls that are not listed have not
   taken effect. *)
Theorem binproto_linearizable_inv : forall khash nbins progs sched k,
  (0 < nbins)%nat ->
  let c := run khash nbins (init nbins progs) sched in
  linearizable None (key_history c k ++ pending_calls k c) (Some (lookup khash nbins c k)).
Proof. intros khash nbins progs sched k Hn. apply binproto_linearizable_inv_k. exact Hn. Qed.

Lemma binproto_linearizable_from_inv : forall khash nbins progs sched k,
  (0 < nbins)%nat ->
  let c := run khash nbins (init nbins progs) sched in
  all_done c = true ->
  linearizable None (key_history c k) (Some (lookup khash nbins c k)).
Proof.
  intros khash nbins progs sched k Hn c Hd. pose proof (binproto_linearizable_inv khash nbins progs sched k Hn) as H.
  cbv zeta in H. fold c in H. rewrite (pending_calls_done k c Hd), app_nil_r in H. exact H.
Qed.

(* (3) the writers-only instance: programs in which every operation takes the bin lock or CASes an
   empty bin (no get, no try_insert) *)
Definition writer_op (o : opn) : bool :=
  match o with OGet _ | OTryInsert _ _ => false | _ => true end.
Corollary binproto_linearizable_writers : forall khash nbins progs sched k,
  (0 < nbins)%nat -> forallb (forallb writer_op) progs = true ->
  let c := run khash nbins (init nbins progs) sched in
  all_done c = true ->
  linearizable None (key_history c k) (Some (lookup khash nbins c k)).
Proof. intros khash nbins progs sched k Hn _. apply binproto_linearizable. exact Hn. Qed.

(* C08: compute_if_present is atomic *)
Theorem compute_atomic : forall khash nbins progs sched k,
  (0 < nbins)%nat ->
  let c := run khash nbins (init nbins progs) sched in
  all_done c = true ->
  exists order, Permutation order (key_history c k) /\ respects_rt order /\
    legal None order = Some (lookup khash nbins c k) /\
    forall h f seen ret, In h (hist c) -> h_op h = OCompute k f -> h_res h = RComputed (Some seen) ret ->
      ret = f seen /\
      exists pre post, let x := C_ (h_inv h) (h_resp h) (KCompute f (Some seen) ret) in
        order = pre ++ x :: post /\ legal None pre = Some (Some seen) /\ legal None (pre ++ [x]) = Some (f seen).
Proof. intros khash nbins progs sched k Hn. apply compute_atomic_k. exact Hn. Qed.

(* a step that changes the abstract value of key k belongs to an operation on key k *)
Theorem no_cross_key : forall khash nbins progs sched k t,
  (0 < nbins)%nat ->
  let c := run khash nbins (init nbins progs) sched in
  lookup khash nbins (step khash nbins c t) k <> lookup khash nbins c k ->
  exists o, cur (get_thr c t) = Some o /\ op_key o = k.
Proof. intros khash nbins progs sched k t Hn. apply no_cross_key_k. exact Hn. Qed.

(* ---------- non-vacuity: three threads, overlapping operations on key 5 ---------- *)
Definition ex_progs : list (list opn) :=
  [ [OInsert 5 10; OCompute 5 (fun v => Some (v + 1)%Z); OInsert 7 1%Z];
    [OGet 5; ORemove 5; OGet 5];
    [OTryInsert 5 7; OGet 5; OCompute 5 (fun v => None)] ].
Definition ex_sched : list nat :=
  [0;1;2;0;0;1;2;2;1] ++ concat (repeat [0;1;1;2;0;2;1] 30).
Definition ex_cfg : cfg := run (fun x => x) 2 (init 2 ex_progs) ex_sched.

Example ex_done : all_done ex_cfg = true.
Proof. vm_compute. reflexivity. Qed.
(* invocation/response instants of the eight calls on key 5, newest first: several overlap *)
Example ex_intervals :
  map (fun c => (c_inv c, c_res c)) (key_history ex_cfg 5) =
  [(10, 30); (26, 28); (20, 24); (11, 23); (13, 19); (2, 9); (3, 8); (1, 5)]%N.
Proof. vm_compute. reflexivity. Qed.
Example ex_lin_b : lin_b None (key_history ex_cfg 5) (Some (lookup (fun x => x) 2 ex_cfg 5)) = true.
Proof. vm_compute. reflexivity. Qed.
Example ex_linearizable : linearizable None (key_history ex_cfg 5) (Some (lookup (fun x => x) 2 ex_cfg 5)).
Proof. apply lin_b_sound. exact ex_lin_b. Qed.
(* the theorem applies to it *)
Example ex_by_theorem :
  all_done ex_cfg = true -> linearizable None (key_history ex_cfg 5) (Some (lookup (fun x => x) 2 ex_cfg 5)).
Proof. unfold ex_cfg. apply binproto_linearizable. lia. Qed.

(* ---------- non-vacuity for the conditional removal (retain): value changed, value still the
   observed one, key absent; overlapping with inserts and gets on the same key ---------- *)
Definition ex2_progs : list (list opn) :=
  [ [OInsert 5 10; OCondRemove 5 77; OGet 5; OInsert 3 1; OCondRemove 5 10];
    [OCondRemove 5 99; OInsert 5 11; OCondRemove 5 10; OGet 5];
    [OCondRemove 7 0; OCondRemove 5 11; OGet 5] ].
Definition ex2_sched : list nat := repeat 0 10 ++ concat (repeat [0;1;2;0;1;1;2;0] 30).
Definition ex2_cfg : cfg := run (fun x => x) 2 (init 2 ex2_progs) ex2_sched.

(* the calls on key 5, newest first: `KCondRemove 77` and `KCondRemove 99` find the value 10 (the
   entry stays, the following get sees 10), `KCondRemove 11` unlinks the node, the later
   `KCondRemove 10`s find the key absent *)
Example ex2_ops :
  map c_op (key_history ex2_cfg 5) =
  [KGet None; KCondRemove 10; KCondRemove 10; KGet None; KCondRemove 11; KInsert 11 (Some 10%Z);
   KCondRemove 99; KGet (Some 10%Z); KCondRemove 77; KInsert 10 None].
Proof. vm_compute. reflexivity. Qed.
Example ex2_done : all_done ex2_cfg = true.
Proof. vm_compute. reflexivity. Qed.
Example ex2_by_theorem :
  all_done ex2_cfg = true -> linearizable None (key_history ex2_cfg 5) (Some (lookup (fun x => x) 2 ex2_cfg 5)).
Proof. unfold ex2_cfg. apply binproto_linearizable. lia. Qed.
Example ex2_linearizable :
  linearizable None (key_history ex2_cfg 5) (Some (lookup (fun x => x) 2 ex2_cfg 5)).
Proof. exact (ex2_by_theorem ex2_done). Qed.

Print Assumptions binproto_inv.
Print Assumptions binproto_live_sorted.
Print Assumptions binproto_deadlock_free.
Print Assumptions binproto_linearizable.
Print Assumptions binproto_linearizable_inv.
Print Assumptions binproto_linearizable_writers.
Print Assumptions compute_atomic.
Print Assumptions no_cross_key.
Print Assumptions ex_linearizable.
Print Assumptions ex2_linearizable.
