(* Linearizability of the list-bin protocol (C01, C08 stage S1). *)
From Flurry Require Import Model.BinProto Proofs.LinProofs.
