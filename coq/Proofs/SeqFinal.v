(* The sequential refinement with its tree-bin hypotheses discharged by Proofs/RBProofs.v. *)
From Flurry Require Import Model.Spec Proofs.SeqProofs Proofs.RBProofs.
From Coq Require Import List ZArith.
Open Scope Z_scope.

Lemma hyp_find : forall b h k, tb_b b = true -> t_find (troot b) h k = lb_find (tord b) h k.
Proof. exact t_find_lb_find. Qed.
Lemma hyp_new : forall l, l <> nil -> nodup_keys l = true ->
  (forall a b, In a l -> In b l -> nk a = nk b -> nh a = nh b) -> tb_b (tb_new l) = true.
Proof. intros l Hne Hnd Hh. apply tb_new_ok; assumption. Qed.
Lemma hyp_put : forall b e, tb_b b = true -> lb_find (tord b) (nh e) (nk e) = None ->
  (forall a, In a (tord b) -> nk a <> nk e) -> tb_b (tb_put b e) = true.
Proof. intros b e Hb _ Hk. apply tb_put_ok; assumption. Qed.
Lemma hyp_set : forall b h k v, tb_b b = true -> tb_b (tb_set b h k v) = true.
Proof. exact tb_set_ok. Qed.
Lemma hyp_remove : forall b h k b', tb_b b = true -> lb_find (tord b) h k <> None ->
  tb_remove b h k = (b', false) -> tb_b b' = true.
Proof. intros b h k b' Hb _ Hr. eapply tb_remove_ok; eassumption. Qed.

Section Final.
Variable khash : N -> N.
Variable remap : N -> N -> Z -> option Z.
Variable keep : N -> N -> Z -> bool.

Definition step_refines_final :=
  step_refines khash remap keep hyp_find hyp_new hyp_put hyp_set hyp_remove.
Definition run_refines_final :=
  run_refines khash remap keep hyp_find hyp_new hyp_put hyp_set hyp_remove.
Definition nodes_lists_abs_final := nodes_lists_abs khash hyp_find.
Definition with_capacity_wf_final := with_capacity_wf khash hyp_find.
Definition table_never_shrinks_final :=
  table_never_shrinks khash remap keep hyp_find hyp_new hyp_put hyp_set hyp_remove.
Definition removal_never_grows_final :=
  removal_never_grows khash remap keep hyp_find hyp_new hyp_remove.
Definition growth_only_when_due_final :=
  growth_only_when_due khash remap keep hyp_find hyp_new hyp_remove.
Definition compute_callback_before_write_final :=
  compute_callback_before_write khash remap hyp_find.
Definition reachable_wf_sized_final :=
  reachable_wf_sized khash remap keep hyp_find hyp_new hyp_put hyp_set hyp_remove.
End Final.
