(* C09 over the regenerated API table. *)
From Coq Require Import List String Bool.
From Flurry Require Import Model.Api.
Import ListNotations.

Lemma all_entry_points_ok_true : all_entry_points_ok = true.
Proof. vm_compute. reflexivity. Qed.

Lemma every_guard_entry_ok :
  forall r, In r api -> guard_entry r = true -> row_ok 6 r = true.
Proof.
  intros r Hr _. pose proof all_entry_points_ok_true as H.
  unfold all_entry_points_ok in H. rewrite forallb_forall in H. exact (H r Hr).
Qed.

(* non-vacuity: the table has guard-taking entry points, and row_ok is not trivially true on them *)
Lemma guard_entries_exist : 40 <= List.length (filter guard_entry api).
Proof. vm_compute. repeat constructor. Qed.

(* a checked leaf is what makes a row pass: a guard parameter with no check and no uses fails *)
Example unchecked_guard_fails :
  guard_ok 6 {| g_name := "guard"; g_check_first := false; g_uses := [] |} = false.
Proof. reflexivity. Qed.
Example direct_use_fails :
  guard_ok 6 {| g_name := "guard"; g_check_first := false;
                g_uses := [UArg "?" "self.table" "load"] |} = false.
Proof. reflexivity. Qed.
