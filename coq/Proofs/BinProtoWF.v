(* Corollaries of the inductive invariant of Model/BinProto.v (Proofs/BinProtoProofs.v), stated
   on the executable observers of Model/BinConf.v: at EVERY reachable configuration (any schedule,
   operations in flight, locks held, unlinks half done) every bin's chain holds pairwise distinct
   keys, each in the bin its hash selects, and a lookup of k finds exactly what the chain of k's
   bin holds for k.  Iterating the bins and looking keys up agree at every instant, not only at
   quiescence. *)
From Flurry Require Import Model.BinProto Model.BinConf Proofs.BinProtoLemmas Proofs.BinProtoProofs.
From Coq Require Import List Bool Lia NArith ZArith Arith.
Import ListNotations.
Local Open Scope nat_scope.

Fixpoint assoc_kv (k : N) (l : list (N * Z)) : option Z :=
  match l with [] => None | (k', v) :: l' => if (k' =? k)%N then Some v else assoc_kv k l' end.

(* the (key, value) pair stored at an address *)
Definition kv_at (s : shared) (a : nat) : N * Z := (ckey (cell_at s a), cval (cell_at s a)).

(* the executable chain is the image of the live address list *)
Lemma chain_pseg s l : forall fuel p,
  pseg (heap s) p l None -> length l <= fuel -> chain s fuel p = map (kv_at s) l.
Proof.
  induction l as [|a l IH]; intros fuel p Hs Hf.
  - inversion Hs; subst. destruct fuel; reflexivity.
  - apply pseg_cons_inv in Hs as [-> Hs]. destruct fuel as [|fuel]; [cbn in Hf; lia|].
    cbn [chain map]. unfold kv_at at 1. f_equal.
    apply IH; [rewrite cell_at_cellh; exact Hs|cbn in Hf; lia].
Qed.

Lemma bin_ok_length khash nbins s i l : bin_ok khash nbins s i l -> length l <= length (heap s).
Proof.
  intros Hok. pose proof (bin_ok_nodup _ _ _ _ _ Hok) as Hnd. destruct Hok as (_ & Hf & _).
  apply NoDup_bounded_length; [exact Hnd|].
  eapply Forall_impl; [|exact Hf]. cbn. tauto.
Qed.

Lemma chain_of_bin_ok khash nbins c i l :
  bin_ok khash nbins (sh c) i l -> chain_of c i = map (kv_at (sh c)) l.
Proof.
  intros Hok. pose proof (bin_ok_length _ _ _ _ _ Hok) as Hlen. destruct Hok as (Hs & _).
  unfold chain_of. apply chain_pseg; [exact Hs|lia].
Qed.

Lemma map_fst_kv_at s l : map fst (map (kv_at s) l) = map (keyat s) l.
Proof. rewrite map_map. reflexivity. Qed.

Lemma assoc_kv_lfind k s l : assoc_kv k (map (kv_at s) l) = lfind k s l.
Proof.
  induction l as [|a l IH]; [reflexivity|].
  cbn [map assoc_kv lfind]. unfold kv_at at 1. unfold keyat.
  destruct (ckey (cell_at s a) =? k)%N; [reflexivity|exact IH].
Qed.

Theorem bins_well_formed_at_every_instant : forall khash nbins progs sched i,
  (0 < nbins)%nat -> (i < nbins)%nat ->
  let c := run khash nbins (init nbins progs) sched in
  NoDup (map fst (chain_of c i)) /\
  Forall (fun kv => bini khash nbins (fst kv) = i) (chain_of c i).
Proof.
  intros khash nbins progs sched i Hpos Hi c.
  pose proof (binproto_inv khash nbins Hpos progs sched) as Hinv.
  change (binv khash nbins c) in Hinv. clearbody c.
  destruct Hinv as ((_ & _ & _ & Hbins) & _).
  destruct (Hbins i Hi) as (l & Hok).
  rewrite (chain_of_bin_ok _ _ _ _ _ Hok). split.
  - rewrite map_fst_kv_at. destruct Hok as (_ & _ & Hnd). exact Hnd.
  - apply Forall_forall. intros kv Hin. apply in_map_iff in Hin as (a & <- & Ha).
    destruct (bin_ok_in _ _ _ _ _ _ Hok Ha) as [_ Hb]. exact Hb.
Qed.

Theorem lookup_agrees_with_chain_at_every_instant : forall khash nbins progs sched k,
  (0 < nbins)%nat ->
  let c := run khash nbins (init nbins progs) sched in
  lookup khash nbins c k = assoc_kv k (chain_of c (bini khash nbins k)).
Proof.
  intros khash nbins progs sched k Hpos c.
  pose proof (binproto_inv khash nbins Hpos progs sched) as Hinv.
  change (binv khash nbins c) in Hinv. clearbody c.
  destruct Hinv as ((_ & _ & _ & Hbins) & _).
  destruct (Hbins _ (bini_lt khash nbins Hpos k)) as (l & Hok).
  rewrite (chain_of_bin_ok _ _ _ _ _ Hok), assoc_kv_lfind.
  unfold lookup. pose proof (bin_ok_length _ _ _ _ _ Hok) as Hlen. destruct Hok as (Hs & _).
  apply (walk_lfind nbins Hpos); [exact Hs|exact Hlen].
Qed.

(* ---------- non-vacuity: a removal in progress ---------- *)
(* Two bins, identity hash.  Thread 0 inserts keys 2, 4, 6 (all in bin 0); thread 1 removes 4.
   After 7 steps of thread 1 it holds the head's lock and is about to unlink (the chain still has
   three entries); one step later the node is unlinked but the lock is still held. *)
Definition ex_progs : list (list opn) :=
  [[OInsert 2 20; OInsert 4 40; OInsert 6 60]; [ORemove 4]].
Definition ex_before : cfg := run (fun k => k) 2 (init 2 ex_progs) (repeat 0 16 ++ repeat 1 7).
Definition ex_after : cfg := run (fun k => k) 2 (init 2 ex_progs) (repeat 0 16 ++ repeat 1 8).

Example removal_in_progress :
  (* about to unlink: three entries, lock held, the lookup still finds 4 *)
  at_ (get_thr ex_before 1) = RmUnlink 4 0 (Some 0) 1 (Some 2) 40 /\
  lock_at (sh ex_before) 0 = Some 1 /\
  chain_of ex_before 0 = [(2%N, 20%Z); (4%N, 40%Z); (6%N, 60%Z)] /\
  chain_of ex_before 1 = [] /\
  lookup (fun k => k) 2 ex_before 4 = Some 40%Z /\
  assoc_kv 4 (chain_of ex_before (bini (fun k => k) 2 4)) = Some 40%Z /\
  (* unlinked, not yet unlocked nor returned: two entries, the lookup no longer finds 4 *)
  at_ (get_thr ex_after 1) = PutUnlock 0 (RVal 40) None /\
  lock_at (sh ex_after) 0 = Some 1 /\
  hist ex_after = hist ex_before /\
  chain_of ex_after 0 = [(2%N, 20%Z); (6%N, 60%Z)] /\
  lookup (fun k => k) 2 ex_after 4 = None /\
  assoc_kv 4 (chain_of ex_after (bini (fun k => k) 2 4)) = None /\
  lookup (fun k => k) 2 ex_after 6 = Some 60%Z /\
  assoc_kv 6 (chain_of ex_after (bini (fun k => k) 2 6)) = Some 60%Z.
Proof. vm_compute. repeat split. Qed.

Print Assumptions bins_well_formed_at_every_instant.
Print Assumptions lookup_agrees_with_chain_at_every_instant.
Print Assumptions removal_in_progress.
