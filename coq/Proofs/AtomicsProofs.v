From Flurry Require Import Model.HB.
From Coq Require Import List String Bool NArith.
Import ListNotations.
Open Scope string_scope.

Lemma reads_reach_no_blocking_true : reads_reach_no_blocking = true.
Proof. vm_compute. reflexivity. Qed.
Lemma read_entries_present_true : read_entries_present = true.
Proof. vm_compute. reflexivity. Qed.
Lemma writers_do_lock_true : writers_do_lock = true.
Proof. vm_compute. reflexivity. Qed.
Lemma all_sites_ok_true : all_sites_ok = true.
Proof. vm_compute. reflexivity. Qed.
Lemma tree_lock_edges_ok_true : tree_lock_edges_ok = true.
Proof. vm_compute. reflexivity. Qed.
Lemma bin_edges_ok_true : bin_edges_ok = true.
Proof. vm_compute. reflexivity. Qed.

Lemma every_site_ok : forall s, In s sites -> site_ok s = true.
Proof.
  intros s Hs. pose proof all_sites_ok_true as H. unfold all_sites_ok in H.
  rewrite forallb_forall in H. exact (H s Hs).
Qed.

(* site_ok is not trivially true: a relaxed publishing store outside the exemptions fails *)
Example relaxed_store_bin_rejected :
  site_ok {| s_file := "raw/mod.rs"; s_ty := "Table"; s_fn := "store_bin"; s_line := 1%N; s_field := "bins";
             s_method := "store"; s_ords := [Relaxed] |} = false.
Proof. reflexivity. Qed.
Example relaxed_first_store_rejected :
  site_ok {| s_file := "node.rs"; s_ty := "TreeBin"; s_fn := "find_or_put_tree_val"; s_line := 1%N; s_field := "first";
             s_method := "store"; s_ords := [Relaxed] |} = false.
Proof. reflexivity. Qed.

Section HB.
Variable event : Type.
Variable po rf : event -> event -> Prop.
Variable ord_of : event -> ord.
Variable unlock_lock : event -> event -> Prop.
Notation hb := (hb event po rf ord_of unlock_lock).
Notation sw := (sw event rf ord_of unlock_lock).
Notation hop := (hop event po rf ord_of unlock_lock).
Notation path := (path event po rf ord_of unlock_lock).

Lemma hop_hb a b : hop a b -> hb a b.
Proof.
  intros [a' p q b' Hap Hsw Hqb].
  assert (H1 : hb p q) by (apply hb_sw; exact Hsw).
  destruct Hap as [->|Hap]; destruct Hqb as [->|Hqb].
  - exact H1.
  - eapply hb_trans; [exact H1 | apply hb_po; exact Hqb].
  - eapply hb_trans; [apply hb_po; exact Hap | exact H1].
  - eapply hb_trans; [apply hb_po; exact Hap|]. eapply hb_trans; [exact H1 | apply hb_po; exact Hqb].
Qed.

(* initialisation happens-before the final access along any publication path *)
Theorem path_hb a b : path a b -> hb a b.
Proof.
  induction 1 as [a b H | a b c H _ IH].
  - apply hop_hb. exact H.
  - eapply hb_trans; [apply hop_hb; exact H | exact IH].
Qed.

(* the basic case: init; release-store of the pointer; acquire-load reading it; dereference *)
Corollary publication_hb init store load access :
  po init store -> rf store load ->
  ge_release (ord_of store) = true -> ge_acquire (ord_of load) = true ->
  po load access -> hb init access.
Proof.
  intros H1 H2 H3 H4 H5. apply path_hb. apply path_one.
  eapply hop_intro; [right; exact H1 | apply sw_ra; eassumption | right; exact H5].
Qed.
End HB.
