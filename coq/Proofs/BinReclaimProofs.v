(* The two reclamation disciplines of Model/BinReclaim.v, proved of the list-bin protocol model
   Model/BinProto.v for every schedule:
     unlinked_once                         a cell is unlinked at most once;
     unlinked_never_reachable_again        once unlinked, a cell is on no chain ever again;
     held_cells_unlinked_after_invocation  every cell a call holds was still linked when the call
                                           was invoked (if unlinked at all, then strictly later).
   Method: an inductive invariant `RI c L` of the configuration together with the unlink log
   accumulated so far, preserved by one `step` (`RI_step`), on top of `binv` of
   Proofs/BinProtoProofs.v.  One case analysis of `step` (`step_summary`) abstracts a step into
   its effect on the chains (`eff`) and on the stepping thread's held cells (`thread_ok`). *)
From Flurry Require Import Model.BinProto Model.BinReclaim Proofs.BinProtoLemmas Proofs.BinProtoProofs.
From Coq Require Import List Bool Lia NArith ZArith Arith.
Import ListNotations.
Local Open Scope nat_scope.

(* ---------- pure helpers ---------- *)
Lemma cnext_valid s q p : cnext (cell_at s q) = Some p -> q < length (heap s).
Proof.
  unfold cell_at. intros H. destruct (Nat.lt_ge_cases q (length (heap s))) as [Hl|Hl]; [exact Hl|].
  rewrite nth_overflow in H by exact Hl. discriminate.
Qed.

Lemma pseg_in_next hp : forall l p, pseg hp p l None ->
  forall q e, In q l -> cnext (cellh hp q) = Some e -> In e l.
Proof.
  induction l as [|a l IH]; intros p H q e Hq Hn; [contradiction|].
  apply pseg_cons_inv in H as [-> H]. destruct Hq as [->|Hq].
  - rewrite Hn in H. destruct (pseg_next_some _ _ _ H) as (l' & ->). right. left. reflexivity.
  - right. eapply IH; eassumption.
Qed.

Lemma chain_addrs_pseg s l : forall fuel p,
  pseg (heap s) p l None -> length l <= fuel -> chain_addrs s fuel p = l.
Proof.
  induction l as [|a l IH]; intros fuel p Hs Hf.
  - inversion Hs; subst. destruct fuel; reflexivity.
  - apply pseg_cons_inv in Hs as [-> Hs]. destruct fuel as [|fuel]; [cbn in Hf; lia|].
    cbn [chain_addrs]. f_equal. apply IH; [rewrite cell_at_cellh; exact Hs|cbn in Hf; lia].
Qed.

Lemma in_app_mid {A} (a : A) l0 e l2 : In a (l0 ++ e :: l2) -> a <> e -> In a (l0 ++ l2).
Proof.
  intros H Hne. apply in_app_or in H as [H|[H|H]]; [apply in_or_app; left; exact H|congruence|
    apply in_or_app; right; exact H].
Qed.
Lemma in_mid_app {A} (a : A) l0 e l2 : In a (l0 ++ l2) -> In a (l0 ++ e :: l2).
Proof.
  intros H. apply in_app_or in H as [H|H]; apply in_or_app; [left; exact H|right; right; exact H].
Qed.

Section Reclaim.
Variable khash : N -> N.
Variable nbins : nat.
Hypothesis nbins_pos : 0 < nbins.
Notation bini := (bini khash nbins).
Notation step := (step khash nbins).
Notation run := (run khash nbins).
Notation bin_ok := (bin_ok khash nbins).
Notation sh_inv := (sh_inv khash nbins).
Notation frame := (frame khash nbins).
Notation binv := (binv khash nbins).
Notation walking := (walking khash nbins).
Notation pc_inv := (pc_inv khash nbins).
Notation ulog := (unlink_log khash nbins).
Notation goto := BinProto.goto.
Notation finish := BinProto.finish.

(* ---------- being on a chain ---------- *)
Definition onchain (s : shared) (a : nat) : Prop := exists i l, i < nbins /\ bin_ok s i l /\ In a l.

Lemma onchain_frame s s' i0 l l' :
  sh_inv s -> i0 < nbins -> frame s s' i0 -> bin_ok s i0 l -> bin_ok s' i0 l' ->
  forall a, onchain s' a <-> (In a l' \/ (onchain s a /\ ~ In a l)).
Proof.
  intros Hinv Hi Hfr Hok Hok' a. split.
  - intros (i & l1 & Hi1 & Hok1 & Ha). destruct (Nat.eq_dec i i0) as [->|Hne].
    + left. rewrite (bin_ok_det _ _ _ _ _ _ Hok' Hok1). exact Ha.
    + right. destruct Hinv as (_ & _ & _ & Hbins). destruct (Hbins i Hi1) as (l2 & Hok2).
      pose proof (frame_bin_ok _ _ nbins_pos _ _ _ _ _ Hfr Hne Hok2) as Hok2'.
      assert (l1 = l2) by (eapply bin_ok_det; eassumption). subst l1.
      split; [exists i, l2; auto|]. intros Hin.
      destruct (bin_ok_in _ _ _ _ _ _ Hok2 Ha) as [_ E1].
      destruct (bin_ok_in _ _ _ _ _ _ Hok Hin) as [_ E2]. congruence.
  - intros [Ha|[(i & l1 & Hi1 & Hok1 & Ha) Hn]].
    + exists i0, l'. auto.
    + destruct (Nat.eq_dec i i0) as [->|Hne].
      * exfalso. apply Hn. rewrite (bin_ok_det _ _ _ _ _ _ Hok Hok1). exact Ha.
      * exists i, l1. split; [exact Hi1|]. split; [|exact Ha]. eapply frame_bin_ok; eassumption.
Qed.

Lemma head_onchain s i a : sh_inv s -> i < nbins -> bin_at s i = Some a -> onchain s a.
Proof.
  intros (_ & _ & _ & Hbins) Hi Hb. destruct (Hbins i Hi) as (l & Hok).
  pose proof Hok as (Hs & _). rewrite Hb in Hs. destruct (pseg_next_some _ _ _ Hs) as (l' & ->).
  exists i, (a :: l'). split; [exact Hi|]. split; [exact Hok|left; reflexivity].
Qed.

(* ---------- the effect of one step on the chains ---------- *)
Definition eff (s s' : shared) (tgt : option nat) : Prop :=
  (* no structural change: local steps, locks, value swaps *)
  (tgt = None /\ length (heap s') = length (heap s) /\
   (forall a, cnext (cell_at s' a) = cnext (cell_at s a)) /\
   (forall i l, bin_ok s i l -> bin_ok s' i l))
  \/
  (* a fresh cell is allocated and linked at the end of a chain *)
  (tgt = None /\ length (heap s') = S (length (heap s)) /\
   exists i l, i < nbins /\ frame s s' i /\ bin_ok s i l /\ bin_ok s' i (l ++ [length (heap s)]) /\
     (forall a p, cnext (cell_at s' a) = Some p -> cnext (cell_at s a) = Some p \/ p = length (heap s)))
  \/
  (* cell e is unlinked; it keeps its next pointer *)
  (exists e, tgt = Some e /\ length (heap s') = length (heap s) /\
   exists i l0 l2, i < nbins /\ frame s s' i /\ bin_ok s i (l0 ++ e :: l2) /\ bin_ok s' i (l0 ++ l2) /\
     (forall a p, cnext (cell_at s' a) = Some p ->
        cnext (cell_at s a) = Some p \/ (cnext (cell_at s a) = Some e /\ cnext (cell_at s e) = Some p))).

Lemma eff_same s s' : heap s' = heap s -> bins s' = bins s -> eff s s' None.
Proof.
  intros Hh Hb. left. split; [reflexivity|]. split; [rewrite Hh; reflexivity|]. split.
  - intros a. unfold cell_at. rewrite Hh. reflexivity.
  - intros i l H. unfold BinProtoProofs.bin_ok, bin_at, keyat, cell_at in *. rewrite Hh, Hb. exact H.
Qed.

Lemma eff_swap s t k h pre p v : sh_inv s -> walking s t k h pre p -> eff s (swap_sh s p v) None.
Proof.
  intros Hinv Hw. destruct (walking_list _ _ nbins_pos _ _ _ _ _ _ Hinv Hw) as (l2 & Hok).
  assert (Hp : p < length (heap s)).
  { eapply bin_ok_in; [exact Hok|]. apply in_or_app. right. left. reflexivity. }
  left. split; [reflexivity|]. split; [apply swap_len; exact Hp|]. split.
  - intros a. apply swap_next. exact Hp.
  - intros i l H. apply swap_bin_ok; assumption.
Qed.

Lemma eff_append s t k h pre p v :
  sh_inv s -> walking s t k h pre p -> keyat s p <> k -> cnext (cell_at s p) = None ->
  eff s (append_sh s p k v) None.
Proof.
  intros Hinv Hw Hk Hn.
  destruct (append_effect _ _ nbins_pos _ _ _ _ _ _ v Hinv Hw Hk Hn) as (_ & Hfr & _ & Hok & Hok').
  assert (Hp : p < length (heap s)).
  { eapply bin_ok_in; [exact Hok|]. apply in_or_app. right. left. reflexivity. }
  right. left. split; [reflexivity|]. split; [apply (append_len _ nbins_pos); exact Hp|].
  exists (bini k), (pre ++ [p]). split; [apply bini_lt; exact nbins_pos|].
  split; [exact Hfr|]. split; [exact Hok|]. split; [exact Hok'|].
  intros a q Hq. rewrite (append_cell _ nbins_pos) in Hq by exact Hp.
  destruct (Nat.eqb_spec a p) as [->|Hne]; cbn in Hq.
  - right. congruence.
  - destruct (Nat.eqb_spec a (length (heap s))); cbn in Hq; [discriminate|]. left. exact Hq.
Qed.

Lemma eff_cas s k v :
  sh_inv s -> bin_at s (bini k) = None -> eff s (cas_sh s (bini k) k v) None.
Proof.
  intros Hinv Hb. destruct (cas_effect _ _ nbins_pos _ k v Hinv Hb) as (_ & Hfr & _ & Hok').
  assert (Hok : bin_ok s (bini k) []).
  { destruct Hinv as (_ & _ & _ & Hbins).
    destruct (Hbins (bini k) (bini_lt _ _ nbins_pos k)) as (l & Hok).
    pose proof Hok as (Hs & _). rewrite Hb in Hs. apply pseg_next_none in Hs. subst l. exact Hok. }
  right. left. split; [reflexivity|]. split; [apply (cas_len _ nbins_pos)|].
  exists (bini k), []. split; [apply bini_lt; exact nbins_pos|].
  split; [exact Hfr|]. split; [exact Hok|]. split; [exact Hok'|].
  intros a q Hq. pose proof (cnext_valid _ _ _ Hq) as Ha. rewrite (cas_len _ nbins_pos) in Ha.
  destruct (Nat.eq_dec a (length (heap s))) as [->|Hne].
  - rewrite cas_cell_new in Hq. discriminate.
  - rewrite cas_cell_old in Hq by lia. left. exact Hq.
Qed.

Lemma eff_unlink s t k h pre pred e :
  sh_inv s -> walking s t k h pre e -> pred_of pre pred ->
  eff s (unlink_sh s (bini k) pred (cnext (cell_at s e))) (Some e).
Proof.
  intros Hinv Hw Hpr.
  destruct (unlink_effect _ _ nbins_pos _ _ _ _ _ _ _ Hinv Hw Hpr)
    as (_ & Hfr & _ & l0 & l2 & -> & Hok & Hok' & _).
  right. right. exists e. split; [reflexivity|].
  assert (Hcells : length (heap (unlink_sh s (bini k) pred (cnext (cell_at s e)))) = length (heap s) /\
    forall a p, cnext (cell_at (unlink_sh s (bini k) pred (cnext (cell_at s e))) a) = Some p ->
      cnext (cell_at s a) = Some p \/ (cnext (cell_at s a) = Some e /\ cnext (cell_at s e) = Some p)).
  { destruct pred as [pr|]; cbn [unlink_sh].
    - destruct Hpr as (pre' & ->). rewrite <- app_assoc in Hok. cbn [app] in Hok.
      assert (Hp : pr < length (heap s)).
      { eapply bin_ok_in; [exact Hok|]. apply in_or_app. right. left. reflexivity. }
      assert (Hpe : cnext (cell_at s pr) = Some e).
      { destruct Hok as (Hs & _). apply pseg_app_inv in Hs as (m & _ & H2).
        apply pseg_cons_inv in H2 as [_ H2]. apply pseg_cons_inv in H2 as [H2 _]. exact H2. }
      split; [apply redirect_len; exact Hp|].
      intros a p Ha. rewrite redirect_cell in Ha by exact Hp.
      destruct (Nat.eqb_spec a pr) as [->|Hne]; cbn in Ha; [right; auto|left; exact Ha].
    - split; [reflexivity|]. intros a p Ha. left. exact Ha. }
  destruct Hcells as [Hlen Hnx]. split; [exact Hlen|].
  exists (bini k), l0, l2. split; [apply bini_lt; exact nbins_pos|]. auto.
Qed.

(* ---------- the invariant ---------- *)
(* shared part: the log against the chains *)
Definition SI (s : shared) (n : N) (L : list (nat * N)) : Prop :=
  NoDup (map fst L) /\
  (forall a u, In (a, u) L -> a < length (heap s) /\ (u <= n)%N) /\
  (* a logged cell is on no chain *)
  (forall a u, In (a, u) L -> ~ onchain s a) /\
  (* every allocated cell is logged or on a chain *)
  (forall a, a < length (heap s) -> (exists u, In (a, u) L) \/ onchain s a) /\
  (* a cell pointing to a logged cell was itself logged strictly earlier *)
  (forall q p up, cnext (cell_at s q) = Some p -> In (p, up) L -> exists uq, In (q, uq) L /\ (uq < up)%N).

(* thread part: the reader invariant *)
Definition TI (c : cfg) (L : list (nat * N)) : Prop :=
  (forall t, (inv_at (get_thr c t) <= now c)%N) /\
  (forall t a u, In a (held_cells (at_ (get_thr c t))) -> In (a, u) L -> (inv_at (get_thr c t) < u)%N).

Definition RI (c : cfg) (L : list (nat * N)) : Prop := binv c /\ SI (sh c) (now c) L /\ TI c L.

Definition entry (tgt : option nat) (n : N) : list (nat * N) :=
  match tgt with Some a => [(a, n)] | None => [] end.

Lemma SI_step s s' n L tgt :
  sh_inv s -> SI s n L -> eff s s' tgt -> SI s' (n + 1)%N (L ++ entry tgt (n + 1)%N).
Proof.
  intros Hinv (Hnd & Hbd & Hoff & Hcov & Hnx) He.
  pose proof Hinv as (_ & _ & Hpi & Hbins).
  destruct He as [(-> & Hlen & Hn & Hb)|[(-> & Hlen & i & l & Hi & Hfr & Hok & Hok' & Hn)|
                  (e & -> & Hlen & i & l0 & l2 & Hi & Hfr & Hok & Hok' & Hn)]]; cbn [entry].
  - (* no structural change *)
    rewrite app_nil_r.
    assert (Hoc : forall a, onchain s' a <-> onchain s a).
    { intros a. split; intros (j & l1 & Hj & Hok1 & Ha).
      - destruct (Hbins j Hj) as (l2 & Hok2).
        rewrite (bin_ok_det _ _ _ _ _ _ Hok1 (Hb _ _ Hok2)) in Ha. exists j, l2. auto.
      - exists j, l1. auto. }
    split; [exact Hnd|]. split; [|split; [|split]].
    + intros a u H. rewrite Hlen. destruct (Hbd a u H). split; [assumption|lia].
    + intros a u H Hc. apply (Hoff a u H). apply Hoc. exact Hc.
    + intros a Ha. rewrite Hlen in Ha. destruct (Hcov a Ha) as [H|H]; [left; exact H|right; apply Hoc; exact H].
    + intros q p up Hq. rewrite Hn in Hq. apply Hnx. exact Hq.
  - (* fresh cell linked *)
    rewrite app_nil_r.
    pose proof (onchain_frame _ _ _ _ _ Hinv Hi Hfr Hok Hok') as Hoc.
    split; [exact Hnd|]. split; [|split; [|split]].
    + intros a u H. rewrite Hlen. destruct (Hbd a u H). split; lia.
    + intros a u H Hc. apply Hoc in Hc as [Hc|[Hc _]]; [|exact (Hoff a u H Hc)].
      apply in_app_or in Hc as [Hc|[<-|[]]].
      * apply (Hoff a u H). exists i, l. auto.
      * destruct (Hbd _ u H). lia.
    + intros a Ha. rewrite Hlen in Ha. destruct (Nat.eq_dec a (length (heap s))) as [->|Hne].
      * right. apply Hoc. left. apply in_or_app. right. left. reflexivity.
      * assert (Ha' : a < length (heap s)) by lia.
        destruct (Hcov a Ha') as [H|H]; [left; exact H|right]. apply Hoc.
        destruct (in_dec Nat.eq_dec a l) as [Hin|Hnin]; [left; apply in_or_app; left; exact Hin|right; auto].
    + intros q p up Hq Hp. destruct (Hn q p Hq) as [Hq'| ->]; [eapply Hnx; eassumption|].
      destruct (Hbd _ up Hp). lia.
  - (* unlink of e *)
    pose proof (onchain_frame _ _ _ _ _ Hinv Hi Hfr Hok Hok') as Hoc.
    assert (Hech : onchain s e).
    { exists i, (l0 ++ e :: l2). split; [exact Hi|]. split; [exact Hok|]. apply in_or_app. right. left. reflexivity. }
    assert (HeL : forall u, ~ In (e, u) L) by (intros u H; exact (Hoff e u H Hech)).
    assert (Hndl : ~ In e (l0 ++ l2)) by (apply NoDup_remove_2; eapply bin_ok_nodup; exact Hok).
    assert (Hev : e < length (heap s)).
    { eapply bin_ok_in; [exact Hok|]. apply in_or_app. right. left. reflexivity. }
    assert (HinL : forall a u, In (a, u) (L ++ [(e, (n + 1)%N)]) -> In (a, u) L \/ (a = e /\ u = (n + 1)%N)).
    { intros a u H. apply in_app_or in H as [H|[H|[]]]; [left; exact H|right]. injection H as <- <-. auto. }
    split; [|split; [|split; [|split]]].
    + rewrite map_app. cbn [map fst]. apply NoDup_app_single. split; [exact Hnd|].
      intros Hin. apply in_map_iff in Hin as ([a u] & E & Hin). cbn in E. subst a. exact (HeL u Hin).
    + intros a u H. rewrite Hlen. destruct (HinL a u H) as [H'|[-> ->]].
      * destruct (Hbd a u H'). split; [assumption|lia].
      * split; [exact Hev|lia].
    + intros a u H Hc. apply Hoc in Hc. destruct (HinL a u H) as [H'|[-> ->]].
      * apply (Hoff a u H'). destruct Hc as [Hc|[Hc _]]; [|exact Hc].
        exists i, (l0 ++ e :: l2). split; [exact Hi|]. split; [exact Hok|]. apply in_mid_app. exact Hc.
      * destruct Hc as [Hc|[_ Hc]]; [exact (Hndl Hc)|]. apply Hc. apply in_or_app. right. left. reflexivity.
    + intros a Ha. rewrite Hlen in Ha. destruct (Hcov a Ha) as [(u & H)|H].
      * left. exists u. apply in_or_app. left. exact H.
      * destruct (Nat.eq_dec a e) as [->|Hne].
        -- left. exists (n + 1)%N. apply in_or_app. right. left. reflexivity.
        -- right. apply Hoc. destruct (in_dec Nat.eq_dec a (l0 ++ e :: l2)) as [Hin|Hnin].
           ++ left. eapply in_app_mid; eassumption.
           ++ right. auto.
    + intros q p up Hq Hp. destruct (Hn q p Hq) as [Hq'|[Hqe Hep]].
      * destruct (HinL p up Hp) as [Hp'|[-> ->]].
        -- destruct (Hnx q p up Hq' Hp') as (uq & H1 & H2). exists uq. split; [apply in_or_app; left; exact H1|exact H2].
        -- (* q pointed to e before and still does: q must have been logged already *)
           pose proof (cnext_valid _ _ _ Hq') as Hqv.
           destruct (Hcov q Hqv) as [(uq & H)|(j & lj & Hj & Hokj & Hqj)].
           ++ exists uq. split; [apply in_or_app; left; exact H|]. destruct (Hbd q uq H). lia.
           ++ exfalso.
              assert (Hej : In e lj).
              { destruct Hokj as (Hs & _). eapply pseg_in_next; [exact Hs|exact Hqj|]. rewrite <- cell_at_cellh. exact Hq'. }
              assert (j = i).
              { destruct (bin_ok_in _ _ _ _ _ _ Hokj Hej) as [_ E1].
                assert (Hel : In e (l0 ++ e :: l2)) by (apply in_or_app; right; left; reflexivity).
                destruct (bin_ok_in _ _ _ _ _ _ Hok Hel) as [_ E2].
                congruence. }
              subst j. rewrite (bin_ok_det _ _ _ _ _ _ Hokj Hok) in Hqj.
              assert (Hne : q <> e) by (pose proof (Hpi _ _ Hqv Hq'); lia).
              pose proof (in_app_mid _ _ _ _ Hqj Hne) as Hq2.
              apply Hndl. destruct Hok' as (Hs' & _). eapply pseg_in_next; [exact Hs'|exact Hq2|].
              rewrite <- cell_at_cellh. exact Hq.
      * exfalso. destruct (HinL p up Hp) as [Hp'|[-> ->]].
        -- destruct (Hnx e p up Hep Hp') as (ue & H1 & _). exact (HeL ue H1).
        -- pose proof (Hpi _ _ Hev Hep). lia.
Qed.

(* ---------- the effect of one step on the stepping thread ---------- *)
(* where a newly held cell comes from: already held, the successor of a held cell, or a bin head *)
Definition src (c : cfg) (t : nat) (a : nat) : Prop :=
  In a (held_cells (at_ (get_thr c t))) \/
  (exists q, In q (held_cells (at_ (get_thr c t))) /\ cnext (cell_at (sh c) q) = Some a) \/
  (exists i, i < nbins /\ bin_at (sh c) i = Some a).

Definition thread_ok (c : cfg) (t : nat) (th' : thread) : Prop :=
  (inv_at th' = inv_at (get_thr c t) \/ (inv_at th' = (now c + 1)%N /\ held_cells (at_ th') = [])) /\
  forall a, In a (held_cells (at_ th')) -> src c t a.

Definition summary (c : cfg) (t : nat) (c' : cfg) : Prop :=
  (c' = c /\ unlink_target c t = None) \/
  exists s' th' h', c' = mkCfg s' (upd_list (thr c) t th') (now c + 1)%N h' /\ t < length (thr c) /\
    eff (sh c) s' (unlink_target c t) /\ thread_ok c t th'.

Lemma TI_step c L t th' s' h' L' :
  sh_inv (sh c) -> SI (sh c) (now c) L -> TI c L -> t < length (thr c) -> thread_ok c t th' ->
  (forall a u, In (a, u) L' -> In (a, u) L \/ u = (now c + 1)%N) ->
  TI (mkCfg s' (upd_list (thr c) t th') (now c + 1)%N h') L'.
Proof.
  intros Hinv (_ & _ & Hoff & _ & Hnx) (Hle & Hheld) Ht (Hiv & Hsrc) HL'. split.
  - intros t0. cbn [now]. rewrite get_thr_upd by exact Ht. destruct (Nat.eqb_spec t0 t) as [->|Hne].
    + destruct Hiv as [E|[E _]]; rewrite E; [specialize (Hle t)|]; lia.
    + change (nth t0 (thr c) dthr) with (get_thr c t0). specialize (Hle t0). lia.
  - intros t0 a u. rewrite get_thr_upd by exact Ht. destruct (Nat.eqb_spec t0 t) as [->|Hne].
    + intros Ha Hu. destruct Hiv as [E|[_ E]]; [|rewrite E in Ha; contradiction]. rewrite E.
      destruct (HL' a u Hu) as [HinL| ->]; [|specialize (Hle t); lia].
      destruct (Hsrc a Ha) as [Hold|[(q & Hq & Hn)|(i & Hi & Hb)]].
      * eapply Hheld; eassumption.
      * destruct (Hnx q a u Hn HinL) as (uq & Hquq & Hlt). pose proof (Hheld t q uq Hq Hquq). lia.
      * exfalso. apply (Hoff a u HinL). eapply head_onchain; eassumption.
    + change (nth t0 (thr c) dthr) with (get_thr c t0). intros Ha Hu.
      destruct (HL' a u Hu) as [HinL| ->]; [eapply Hheld; eassumption|specialize (Hle t0); lia].
Qed.

Lemma thread_ok_moved c t p : (forall a, In a (held_cells p) -> src c t a) -> thread_ok c t (moved c t p).
Proof. intros H. split; [left; reflexivity|exact H]. Qed.
Lemma thread_ok_ended c t : thread_ok c t (ended c t).
Proof. split; [left; reflexivity|intros a []]. Qed.

Ltac shape Hcur :=
  repeat match goal with
  | |- context [goto (bump ?c) ?t ?p] => rewrite (with_sh_bump c)
  | |- context [finish (bump ?c) ?t ?r] => rewrite (with_sh_bump c)
  end;
  rewrite ?goto_shape; try (erewrite finish_shape by exact Hcur).

(* a newly held cell: old / successor of an old one / a bin head *)
Ltac solve_src Hpc :=
  unfold src; rewrite Hpc;
  first [ left; simpl; tauto
        | right; left; eexists; split; [|eassumption]; simpl; tauto
        | right; right; eexists; split; [|eassumption]; apply bini_lt; exact nbins_pos ].
Ltac held_cases Hpc :=
  let a := fresh "a" in let Ha := fresh "Ha" in
  intros a Ha; simpl in Ha;
  repeat (destruct Ha as [Ha|Ha]; [subst a|]); try contradiction; solve_src Hpc.
Ltac mv Hpc := apply thread_ok_moved; held_cases Hpc.
(* the step result has been put in shape: no write to heap or bins *)
Ltac local_step Ht Hpc tac :=
  right; eexists _, _, _; split; [reflexivity|]; split; [exact Ht|]; split;
  [apply eff_same; reflexivity|tac].

Lemma step_summary c t : binv c -> summary c t (step c t).
Proof.
  intros Hinv. pose proof Hinv as (Hsh & Hthr & Hlk). destruct (Hthr t) as [Hpi Hcu].
  unfold summary, unlink_target.
  unfold BinProto.step. change (mkCfg (sh c) (thr c) (now c + 1)%N (hist c)) with (bump c). cbv zeta.
  change (BinProto.get_thr (bump c) t) with (get_thr c t). change (sh (bump c)) with (sh c).
  unfold thr_cur in Hcu.
  destruct (at_ (get_thr c t)) eqn:Hpc.
  all: try (assert (Ht : t < length (thr c)) by (apply thr_lt; left; rewrite Hpc; discriminate)).
  all: destruct (cur (get_thr c t)) as [o0|] eqn:Hcur; try discriminate Hcu; try contradiction Hcu.
  all: cbn [BinProtoProofs.pc_inv pc_cur] in Hpi, Hcu.
  - (* PStart *)
    destruct (bin_at (sh c) (bini (op_key o))) as [h|] eqn:Hb.
    + destruct o as [k|k v|k v|k|k ov|k f]; cbn [op_key] in *;
        try (destruct (N.eqb_spec (ckey (cell_at (sh c) h)) k) as [Hk|Hk]); shape Hcur;
        local_step Ht Hpc ltac:(mv Hpc).
    + destruct o as [k|k v|k v|k|k ov|k f]; cbn [op_key] in *; shape Hcur;
        local_step Ht Hpc ltac:(first [apply thread_ok_ended|mv Hpc]).
  - (* GWalk *)
    destruct (N.eqb_spec (ckey (cell_at (sh c) p)) k) as [Hk|Hk];
      [|destruct (cnext (cell_at (sh c) p)) as [q|] eqn:Hq]; shape Hcur;
      local_step Ht Hpc ltac:(first [apply thread_ok_ended|mv Hpc]).
  - (* PutCas *)
    destruct (bin_at (sh c) (bini k)) as [h|] eqn:Hb.
    + destruct no_repl; cbn [andb];
        try (destruct (N.eqb_spec (ckey (cell_at (sh c) h)) k) as [Hk|Hk]); shape Hcur;
        local_step Ht Hpc ltac:(mv Hpc).
    + rewrite alloc_eq. cbv beta iota. change (sh (bump c)) with (sh c). shape Hcur.
      right. eexists _, _, _. split; [reflexivity|]. split; [exact Ht|]. split; [|apply thread_ok_ended].
      apply (eff_cas _ k v Hsh Hb).
  - (* PutFast *)
    shape Hcur. local_step Ht Hpc ltac:(apply thread_ok_ended).
  - (* PutLock *)
    destruct (lock_at (sh c) h) as [u|] eqn:Hl; [left; auto|]. shape Hcur.
    local_step Ht Hpc ltac:(mv Hpc).
  - (* PutReval *)
    destruct (bin_at (sh c) (bini k)) as [h'|] eqn:Hb; [destruct (Nat.eqb_spec h' h) as [->|Hne]|];
      shape Hcur; local_step Ht Hpc ltac:(mv Hpc).
  - (* PutWalk *)
    destruct Hpi as (pre & Hw).
    destruct (N.eqb_spec (ckey (cell_at (sh c) p)) k) as [Hk|Hk];
      [destruct no_repl|destruct (cnext (cell_at (sh c) p)) as [q|] eqn:Hq].
    + shape Hcur. local_step Ht Hpc ltac:(mv Hpc).
    + shape Hcur. right. eexists _, _, _. split; [reflexivity|]. split; [exact Ht|]. split; [|mv Hpc].
      apply (eff_swap _ _ _ _ _ _ v Hsh Hw).
    + shape Hcur. local_step Ht Hpc ltac:(mv Hpc).
    + rewrite alloc_eq. cbv beta iota. change (sh (bump c)) with (sh c). shape Hcur.
      right. eexists _, _, _. split; [reflexivity|]. split; [exact Ht|]. split; [|mv Hpc].
      apply (eff_append _ _ _ _ _ _ v Hsh Hw Hk Hq).
  - (* PutUnlock *)
    change (sh (bump c)) with (sh c). destruct retry as [o'|]; shape Hcur;
      local_step Ht Hpc ltac:(first [apply thread_ok_ended|mv Hpc]).
  - (* RmLock *)
    destruct (lock_at (sh c) h) as [u|] eqn:Hl; [left; auto|]. shape Hcur.
    local_step Ht Hpc ltac:(mv Hpc).
  - (* RmReval *)
    destruct (bin_at (sh c) (bini k)) as [h'|] eqn:Hb; [destruct (Nat.eqb_spec h' h) as [->|Hne]|];
      shape Hcur; local_step Ht Hpc ltac:(mv Hpc).
  - (* RmWalk *)
    destruct (cnext (cell_at (sh c) e)) as [q|] eqn:Hq; destruct pred as [pr|];
      (destruct (N.eqb_spec (ckey (cell_at (sh c) e)) k) as [Hk|Hk]); shape Hcur;
      local_step Ht Hpc ltac:(mv Hpc).
  - (* RmFound *)
    destruct pred as [pr|]; destruct nxt as [nx|];
      (destruct obs as [ov|]; [destruct (Z.eqb_spec ov (cval (cell_at (sh c) e))) as [Ev|Ev]|]); shape Hcur;
      local_step Ht Hpc ltac:(mv Hpc).
  - (* RmUnlink *)
    destruct Hpi as (pre & Hw & Hpr & Hk & Hn & Hv). subst nxt. shape Hcur.
    right. eexists _, _, _. split; [reflexivity|]. split; [exact Ht|]. split; [|mv Hpc].
    apply (eff_unlink _ _ _ _ _ _ _ Hsh Hw Hpr).
  - (* CpLock *)
    destruct (lock_at (sh c) h) as [u|] eqn:Hl; [left; auto|]. shape Hcur.
    local_step Ht Hpc ltac:(mv Hpc).
  - (* CpReval *)
    destruct (bin_at (sh c) (bini k)) as [h'|] eqn:Hb; [destruct (Nat.eqb_spec h' h) as [->|Hne]|];
      shape Hcur; local_step Ht Hpc ltac:(mv Hpc).
  - (* CpWalk *)
    destruct (cnext (cell_at (sh c) p)) as [q|] eqn:Hq; destruct pred as [pr|];
      (destruct (N.eqb_spec (ckey (cell_at (sh c) p)) k) as [Hk|Hk]); shape Hcur;
      local_step Ht Hpc ltac:(mv Hpc).
  - (* CpFound *)
    destruct pred as [pr|]; destruct nxt as [nx|]; shape Hcur; local_step Ht Hpc ltac:(mv Hpc).
  - (* CpApply *)
    destruct Hpi as (pre & Hw & Hpr & Hk & Hn & Hv). destruct nv as [v'|].
    + shape Hcur. right. eexists _, _, _. split; [reflexivity|]. split; [exact Ht|]. split; [|mv Hpc].
      apply (eff_swap _ _ _ _ _ _ v' Hsh Hw).
    + subst nxt. shape Hcur.
      right. eexists _, _, _. split; [reflexivity|]. split; [exact Ht|]. split; [|mv Hpc].
      apply (eff_unlink _ _ _ _ _ _ _ Hsh Hw Hpr).
  - (* PDone *)
    destruct (todo (get_thr c t)) as [|o rest] eqn:Htodo; [left; auto|].
    assert (Ht : t < length (thr c)) by (apply thr_lt; right; rewrite Htodo; discriminate).
    unfold BinProto.set_thr. cbn [sh thr now hist bump].
    right. eexists _, _, _. split; [reflexivity|]. split; [exact Ht|]. split; [apply eff_same; reflexivity|].
    split; [right; split; reflexivity|intros a []].
Qed.

(* ---------- preservation ---------- *)
Lemma RI_step c t L : RI c L -> RI (step c t) (L ++ entry (unlink_target c t) (now (step c t))).
Proof.
  intros (Hb & HS & HT). pose proof (binv_step _ _ nbins_pos c t Hb) as Hb'.
  destruct (step_summary c t Hb) as [[Ec Et]|(s' & th' & h' & Ec & Ht & Heff & Hth)].
  - rewrite Ec, Et. cbn [entry]. rewrite app_nil_r. split; [exact Hb|]. split; assumption.
  - rewrite Ec in *. cbn [now sh]. pose proof Hb as (Hsh & _). split; [exact Hb'|]. split.
    + apply SI_step with (s := sh c); assumption.
    + apply TI_step with (L := L); try assumption.
      intros a u H. apply in_app_or in H as [H|H]; [left; exact H|right].
      destruct (unlink_target c t); cbn [entry] in H; [|contradiction].
      destruct H as [H|[]]. injection H as _ <-. reflexivity.
Qed.

Lemma RI_run sched : forall c L, RI c L -> RI (run c sched) (L ++ ulog c sched).
Proof.
  induction sched as [|t sched IH]; intros c L H; cbn [unlink_log].
  - rewrite app_nil_r. exact H.
  - change (run c (t :: sched)) with (run (step c t) sched).
    pose proof (IH _ _ (RI_step c t L H)) as H'. rewrite <- app_assoc in H'.
    destruct (unlink_target c t); cbn [entry app] in H'; exact H'.
Qed.

Lemma RI_init progs : RI (init nbins progs) [].
Proof.
  split; [apply binv_init; exact nbins_pos|]. split.
  - split; [constructor|]. split; [intros a u []|]. split; [intros a u []|]. split.
    + intros a Ha. cbn in Ha. lia.
    + intros q p up _ [].
  - split.
    + intros t. unfold get_thr, init. cbn [thr now].
      change (mkT [] None PDone 0) with ((fun p => mkT p None PDone 0) []). rewrite map_nth. cbn. lia.
    + intros t a u Ha. destruct (get_thr_init nbins progs t) as [E _]. rewrite E in Ha. destruct Ha.
Qed.

Lemma RI_reach progs sched : RI (run (init nbins progs) sched) (ulog (init nbins progs) sched).
Proof. exact (RI_run sched _ _ (RI_init progs)). Qed.

Lemma ulog_app s1 : forall c s2, ulog c (s1 ++ s2) = ulog c s1 ++ ulog (run c s1) s2.
Proof.
  induction s1 as [|t s1 IH]; intros c s2; [reflexivity|].
  cbn [app unlink_log]. change (run c (t :: s1)) with (run (step c t) s1).
  rewrite IH. destruct (unlink_target c t); reflexivity.
Qed.

Lemma reachable_onchain c a : sh_inv (sh c) -> reachable nbins c a = true -> onchain (sh c) a.
Proof.
  intros Hinv H. unfold reachable in H. apply existsb_exists in H as (b & Hb & H).
  apply in_seq in Hb. apply existsb_exists in H as (x & Hx & E). apply Nat.eqb_eq in E. subst x.
  pose proof Hinv as (_ & _ & _ & Hbins). assert (Hlt : b < nbins) by lia.
  destruct (Hbins b Hlt) as (l & Hok). exists b, l. split; [exact Hlt|]. split; [exact Hok|].
  pose proof (bin_ok_nodup _ _ _ _ _ Hok) as Hnd. destruct Hok as (Hs & Hf & _).
  rewrite (chain_addrs_pseg _ l) in Hx; [exact Hx|exact Hs|].
  assert (length l <= length (heap (sh c))); [|lia].
  apply NoDup_bounded_length; [exact Hnd|]. eapply Forall_impl; [|exact Hf]. cbn. tauto.
Qed.

End Reclaim.

(* ====================================================================== *)
(* The theorems                                                            *)
(* ====================================================================== *)
Theorem unlinked_once : forall khash nbins progs sched,
  (0 < nbins)%nat ->
  NoDup (map fst (unlink_log khash nbins (init nbins progs) sched)).
Proof.
  intros khash nbins progs sched Hn.
  destruct (RI_reach khash nbins Hn progs sched) as (_ & (H & _) & _). exact H.
Qed.

Theorem unlinked_never_reachable_again : forall khash nbins progs sched1 sched2 a u,
  (0 < nbins)%nat ->
  In (a, u) (unlink_log khash nbins (init nbins progs) sched1) ->
  reachable nbins (run khash nbins (init nbins progs) (sched1 ++ sched2)) a = false.
Proof.
  intros khash nbins progs sched1 sched2 a u Hn Hin.
  destruct (RI_reach khash nbins Hn progs (sched1 ++ sched2)) as ((Hsh & _) & (_ & _ & Hoff & _) & _).
  destruct (reachable nbins (run khash nbins (init nbins progs) (sched1 ++ sched2)) a) eqn:E; [exfalso|reflexivity].
  apply (Hoff a u).
  - rewrite ulog_app. apply in_or_app. left. exact Hin.
  - eapply reachable_onchain; eassumption.
Qed.

Theorem held_cells_unlinked_after_invocation : forall khash nbins progs sched t a u,
  (0 < nbins)%nat ->
  let c := run khash nbins (init nbins progs) sched in
  In a (held_cells (at_ (get_thr c t))) ->
  In (a, u) (unlink_log khash nbins (init nbins progs) sched) ->
  (inv_at (get_thr c t) < u)%N.
Proof.
  intros khash nbins progs sched t a u Hn c Ha Hu.
  destruct (RI_reach khash nbins Hn progs sched) as (_ & _ & (_ & Hheld)).
  eapply Hheld; eassumption.
Qed.

(* ====================================================================== *)
(* Non-vacuity: a reader standing on a cell at the moment it is unlinked    *)
(* ====================================================================== *)
(* one bin; thread 0 inserts keys 1, 2, 3 (cells 0, 1, 2) and then removes key 2 (the middle cell 1);
   thread 1 is a lock-free get(3) that has walked to cell 1 before the removal starts *)
Definition ex_progs : list (list opn) :=
  [[OInsert 1 10; OInsert 2 20; OInsert 3 30; ORemove 2]; [OGet 3]].
Definition ex_sched : list nat := repeat 0 16 ++ repeat 1 3 ++ repeat 0 8.
Definition ex_cfg : cfg := run (fun k => k) 1 (init 1 ex_progs) ex_sched.

Example reader_on_unlinked_cell :
  unlink_log (fun k => k) 1 (init 1 ex_progs) ex_sched = [(1, 27%N)] /\
  at_ (get_thr ex_cfg 1) = GWalk 3 1 /\
  held_cells (at_ (get_thr ex_cfg 1)) = [1] /\
  inv_at (get_thr ex_cfg 1) = 17%N /\
  (inv_at (get_thr ex_cfg 1) < 27)%N /\
  reachable 1 ex_cfg 1 = false /\
  (* before the removal's last step the cell was reachable *)
  reachable 1 (run (fun k => k) 1 (init 1 ex_progs) (repeat 0 16 ++ repeat 1 3 ++ repeat 0 7)) 1 = true /\
  (* the reader goes on through the unlinked cell's frozen next pointer and finds key 3 *)
  hd_error (hist (run (fun k => k) 1 ex_cfg [1; 1])) = Some (mkH 1 (OGet 3) (RVal 30) 17 29).
Proof. vm_compute. repeat split. Qed.

Print Assumptions unlinked_once.
Print Assumptions unlinked_never_reachable_again.
Print Assumptions held_cells_unlinked_after_invocation.
