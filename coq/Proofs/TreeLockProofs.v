(* The tree-bin read-write lock (C11): mutual exclusion, no lost wake-up, deadlock freedom. *)
From Flurry Require Import Model.TreeLock.
