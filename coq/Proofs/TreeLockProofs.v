(* The tree-bin read-write lock (C11): mutual exclusion, no lost wake-up, deadlock freedom. *)
From Flurry Require Import Model.TreeLock.
From Coq Require Import Lia List ZArith Bool Arith.
Import ListNotations.
Open Scope Z_scope.

(* ------------------------------------------------------------------------------------ *)
(* 1. Bit-level facts about lock_state values of the form 4*r + 2*w + x                  *)
(* ------------------------------------------------------------------------------------ *)

Lemma bits_decomp r w x :
  0 <= r -> (w = 0 \/ w = 1) -> (x = 0 \/ x = 1) ->
  Z.land (4 * r + 2 * w + x) 3 = 2 * w + x /\
  Z.land (4 * r + 2 * w + x) (-3) = 4 * r + x /\
  Z.land (4 * r + 2 * w + x) 2 = 2 * w /\
  Z.lor (4 * r + 2 * w + x) 2 = 4 * r + 2 + x.
Proof.
  intros Hr [-> | ->] [-> | ->]; destruct r as [|p|p]; try lia; cbn; repeat split; reflexivity.
Qed.

Lemma hww_spec r w x :
  0 <= r -> (w = 0 \/ w = 1) -> (x = 0 \/ x = 1) ->
  has_writer_or_waiter (4 * r + 2 * w + x) = negb (2 * w + x =? 0).
Proof.
  intros Hr Hw Hx. unfold has_writer_or_waiter, WAITER, WRITER.
  change (Z.lor 2 1) with 3. destruct (bits_decomp r w x Hr Hw Hx) as (-> & _). reflexivity.
Qed.

Lemma owb_spec r w x :
  0 <= r -> (w = 0 \/ w = 1) -> (x = 0 \/ x = 1) ->
  only_waiter_bit (4 * r + 2 * w + x) = (4 * r + x =? 0).
Proof.
  intros Hr Hw Hx. unfold only_waiter_bit, WAITER.
  change (Z.lnot 2) with (-3). destruct (bits_decomp r w x Hr Hw Hx) as (_ & -> & _). reflexivity.
Qed.

Lemma wbc_spec r w x :
  0 <= r -> (w = 0 \/ w = 1) -> (x = 0 \/ x = 1) ->
  waiter_bit_clear (4 * r + 2 * w + x) = (2 * w =? 0).
Proof.
  intros Hr Hw Hx. unfold waiter_bit_clear, WAITER.
  destruct (bits_decomp r w x Hr Hw Hx) as (_ & _ & -> & _). reflexivity.
Qed.

Lemma lor_waiter_spec r w x :
  0 <= r -> (w = 0 \/ w = 1) -> (x = 0 \/ x = 1) ->
  Z.lor (4 * r + 2 * w + x) WAITER = 4 * r + 2 + x.
Proof.
  intros Hr Hw Hx. unfold WAITER.
  destruct (bits_decomp r w x Hr Hw Hx) as (_ & _ & _ & ->). reflexivity.
Qed.

Lemma reader_waiter_val : Z.lor READER WAITER = 6.
Proof. reflexivity. Qed.

(* the Prop-level readings asked for in the design *)
Lemma hww_iff r w x :
  0 <= r -> (w = 0 \/ w = 1) -> (x = 0 \/ x = 1) ->
  has_writer_or_waiter (4 * r + 2 * w + x) = true <-> (w = 1 \/ x = 1).
Proof.
  intros Hr Hw Hx. rewrite hww_spec by assumption.
  rewrite negb_true_iff, Z.eqb_neq. lia.
Qed.

Lemma owb_iff r w x :
  0 <= r -> (w = 0 \/ w = 1) -> (x = 0 \/ x = 1) ->
  only_waiter_bit (4 * r + 2 * w + x) = true <-> (r = 0 /\ x = 0).
Proof.
  intros Hr Hw Hx. rewrite owb_spec by assumption. rewrite Z.eqb_eq. lia.
Qed.

Lemma wbc_iff r w x :
  0 <= r -> (w = 0 \/ w = 1) -> (x = 0 \/ x = 1) ->
  waiter_bit_clear (4 * r + 2 * w + x) = true <-> w = 0.
Proof.
  intros Hr Hw Hx. rewrite wbc_spec by assumption. rewrite Z.eqb_eq. lia.
Qed.

Lemma last_reader_iff r w x :
  0 <= r -> (w = 0 \/ w = 1) -> (x = 0 \/ x = 1) ->
  (4 * r + 2 * w + x =? Z.lor READER WAITER) = true <-> (r = 1 /\ w = 1 /\ x = 0).
Proof.
  intros Hr Hw Hx. rewrite reader_waiter_val, Z.eqb_eq. lia.
Qed.

(* ------------------------------------------------------------------------------------ *)
(* 2. Lists: replacing one element, sums/counts over it, the thread table                *)
(* ------------------------------------------------------------------------------------ *)

Definition setnth {A} (i : nat) (x : A) (l : list A) : list A :=
  firstn i l ++ x :: skipn (S i) l.

Fixpoint sumf {A} (f : A -> nat) (l : list A) : nat :=
  match l with [] => 0%nat | a :: l' => (f a + sumf f l')%nat end.

Lemma setnth_cons {A} (a x : A) i l : setnth (S i) x (a :: l) = a :: setnth i x l.
Proof. reflexivity. Qed.

Lemma length_setnth {A} i (x : A) l : (i < length l)%nat -> length (setnth i x l) = length l.
Proof.
  revert i; induction l as [|a l IH]; intros i Hi; simpl in Hi; [lia|].
  destruct i as [|i]; [reflexivity|].
  rewrite setnth_cons. simpl. rewrite IH by lia. reflexivity.
Qed.

Lemma nth_setnth_same {A} i (x d : A) l : (i < length l)%nat -> nth i (setnth i x l) d = x.
Proof.
  revert i; induction l as [|a l IH]; intros i Hi; simpl in Hi; [lia|].
  destruct i as [|i]; [reflexivity|].
  rewrite setnth_cons. simpl. apply IH. lia.
Qed.

Lemma nth_setnth_other {A} i j (x d : A) l :
  (i < length l)%nat -> i <> j -> nth j (setnth i x l) d = nth j l d.
Proof.
  revert i j; induction l as [|a l IH]; intros i j Hi Hij; simpl in Hi; [lia|].
  destruct i as [|i].
  - destruct j as [|j]; [congruence|]. reflexivity.
  - rewrite setnth_cons. destruct j as [|j]; [reflexivity|]. simpl. apply IH; lia.
Qed.

Lemma sumf_setnth {A} (f : A -> nat) i x d l :
  (i < length l)%nat ->
  (sumf f (setnth i x l) + f (nth i l d) = sumf f l + f x)%nat.
Proof.
  revert i; induction l as [|a l IH]; intros i Hi; simpl in Hi; [lia|].
  destruct i as [|i].
  - unfold setnth. simpl. lia.
  - rewrite setnth_cons. simpl. specialize (IH i ltac:(lia)). lia.
Qed.

Lemma Forall_setnth {A} (P : A -> Prop) i x l :
  Forall P l -> P x -> Forall P (setnth i x l).
Proof.
  intros Hl Hx. revert i. induction Hl as [|a l Ha Hl IH]; intros i.
  - unfold setnth. destruct i; simpl; constructor; auto.
  - destruct i as [|i].
    + unfold setnth. simpl. constructor; auto.
    + rewrite setnth_cons. constructor; auto.
Qed.

(* the two thread-table lemmas *)
Lemma upd_thr c t p : thr (upd c t p) = setnth t p (thr c).
Proof. reflexivity. Qed.

Lemma get_thr_upd_same c t p :
  (t < length (thr c))%nat -> get_thr (upd c t p) t = p.
Proof. intros Ht. unfold get_thr. rewrite upd_thr. apply nth_setnth_same. exact Ht. Qed.

Lemma get_thr_upd_other c t t' p :
  (t < length (thr c))%nat -> t <> t' -> get_thr (upd c t p) t' = get_thr c t'.
Proof. intros Ht Hne. unfold get_thr. rewrite upd_thr. apply nth_setnth_other; assumption. Qed.

(* configurations whose thread table is "writer :: readers" *)
Definition mk (l : Z) (w : option nat) (tk : list bool) (wp : wpc) (rs : list rpc) : cfg :=
  mkC l w tk (W wp :: map R rs).

Lemma get_thr_mk_0 l w tk wp rs : get_thr (mk l w tk wp rs) 0 = W wp.
Proof. reflexivity. Qed.

Lemma get_thr_mk_S l w tk wp rs i : get_thr (mk l w tk wp rs) (S i) = R (nth i rs RDone).
Proof. unfold get_thr, mk. simpl. apply (map_nth R). Qed.

Lemma upd_mk_0 l w tk wp rs p : upd (mk l w tk wp rs) 0 (W p) = mk l w tk p rs.
Proof. reflexivity. Qed.

Lemma map_setnth {A B} (f : A -> B) i x l : map f (setnth i x l) = setnth i (f x) (map f l).
Proof.
  unfold setnth. rewrite map_app, firstn_map, skipn_map. reflexivity.
Qed.

Lemma upd_mk_S l w tk wp rs i p :
  upd (mk l w tk wp rs) (S i) (R p) = mk l w tk wp (setnth i p rs).
Proof.
  unfold upd, mk. cbn [ls waiter tokens thr]. f_equal.
  change (firstn (S i) (W wp :: map R rs) ++ R p :: skipn (S (S i)) (W wp :: map R rs))
    with (W wp :: setnth i (R p) (map R rs)).
  rewrite map_setnth. reflexivity.
Qed.

Lemma set_ls_mk l w tk wp rs v : set_ls (mk l w tk wp rs) v = mk v w tk wp rs.
Proof. reflexivity. Qed.
Lemma set_waiter_mk l w tk wp rs v : set_waiter (mk l w tk wp rs) v = mk l v tk wp rs.
Proof. reflexivity. Qed.
Lemma set_token_mk l w tk wp rs t b :
  set_token (mk l w tk wp rs) t b = mk l w (setnth t b tk) wp rs.
Proof. reflexivity. Qed.
Lemma token_mk l w tk wp rs t : token (mk l w tk wp rs) t = nth t tk false.
Proof. reflexivity. Qed.
Lemma ls_mk l w tk wp rs : ls (mk l w tk wp rs) = l.
Proof. reflexivity. Qed.
Lemma nth0_setnth0 (b : bool) tk : nth 0 (setnth 0 b tk) false = b.
Proof. reflexivity. Qed.

(* ------------------------------------------------------------------------------------ *)
(* 3. The invariant                                                                      *)
(* ------------------------------------------------------------------------------------ *)

Definition inside (p : rpc) : nat := match p with RInside | RExit => 1 | _ => 0 end.
Definition waking (p : rpc) : nat := match p with RLoadWaiter | RUnpark _ => 1 | _ => 0 end.
Definition nin (rs : list rpc) : nat := sumf inside rs.
Definition nwake (rs : list rpc) : nat := sumf waking rs.

(* WRITER bit: from the successful CAS to WRITER until the store of 0 *)
Definition xbit (wp : wpc) : Z :=
  match wp with WClearWaiter _ | WHeld _ | WUnlock _ => 1 | _ => 0 end.
(* WAITER bit: from the successful WCasWaiter until the successful WCasWriter *)
Definition wbit (wp : wpc) : Z :=
  match wp with
  | WSetWaiter _ | WLoad _ true | WCasWriter _ true _ | WPark _ => 1
  | _ => 0
  end.
(* the waiter handle: from the swap-in (WSetWaiter) until the swap-out (WClearWaiter) *)
Definition wtr (wp : wpc) : option nat :=
  match wp with
  | WLoad _ true | WCasWriter _ true _ | WPark _ | WClearWaiter _ => Some 0%nat
  | _ => None
  end.
(* what the writer knows about the value it loaded *)
Definition wok (wp : wpc) : Prop :=
  match wp with
  | WCasWriter _ _ s => only_waiter_bit s = true
  | WCasWaiter _ waiting s => waiting = false /\ waiter_bit_clear s = true
  | _ => True
  end.
(* what a reader knows *)
Definition rok (p : rpc) : Prop :=
  match p with
  | RCas _ s => has_writer_or_waiter s = false
  | RUnpark w => w = 0%nat
  | _ => True
  end.
(* L3: a parked writer without a token has a wake-up on its way *)
Definition wpark (wp : wpc) (tok0 : bool) (rs : list rpc) : Prop :=
  match wp with
  | WPark _ => tok0 = true \/ (0 < nin rs + nwake rs)%nat
  | _ => True
  end.

Definition InvC (l : Z) (w : option nat) (tok0 : bool) (wp : wpc) (rs : list rpc) : Prop :=
  l = 4 * Z.of_nat (nin rs) + 2 * wbit wp + xbit wp /\
  w = wtr wp /\
  wok wp /\
  Forall rok rs /\
  (xbit wp = 1 -> nin rs = 0%nat) /\
  wpark wp tok0 rs.

Definition Inv (c : cfg) : Prop :=
  exists wp rs, thr c = W wp :: map R rs /\
                InvC (ls c) (waiter c) (token c 0) wp rs.

Lemma wbit_01 wp : wbit wp = 0 \/ wbit wp = 1.
Proof. destruct wp as [| | ? [|] | ? [|] ? | | | | | | |]; simpl; auto. Qed.
Lemma xbit_01 wp : xbit wp = 0 \/ xbit wp = 1.
Proof. destruct wp; simpl; auto. Qed.

Lemma Inv_init rounds readers : Inv (init rounds readers).
Proof.
  exists (WIdle rounds), (map RLoad readers). split.
  - unfold init. cbn [thr]. rewrite map_map. reflexivity.
  - unfold InvC. cbn [ls waiter init wbit xbit wtr wok wpark].
    assert (Hn : nin (map RLoad readers) = 0%nat).
    { unfold nin. induction readers as [|e es IH]; simpl; auto. }
    rewrite Hn. repeat split; auto; try lia.
    apply Forall_forall. intros p Hp. apply in_map_iff in Hp. destruct Hp as (e & <- & _). exact I.
Qed.

(* boolean tests to propositions *)
Ltac b2p :=
  repeat match goal with
  | H : (_ =? _) = true |- _ => apply Z.eqb_eq in H
  | H : (_ =? _) = false |- _ => apply Z.eqb_neq in H
  | H : negb _ = true |- _ => apply negb_true_iff in H
  | H : negb _ = false |- _ => apply negb_false_iff in H
  | H : true = _ |- _ => symmetry in H
  | H : false = _ |- _ => symmetry in H
  end.

Lemma reader_upd rs i p' :
  (i < length rs)%nat ->
  (nin (setnth i p' rs) + inside (nth i rs RDone) = nin rs + inside p')%nat /\
  (nwake (setnth i p' rs) + waking (nth i rs RDone) = nwake rs + waking p')%nat /\
  (Forall rok rs -> rok p' -> Forall rok (setnth i p' rs)) /\
  (Forall rok rs -> rok (nth i rs RDone)).
Proof.
  intros Hi. repeat split.
  - apply sumf_setnth. exact Hi.
  - apply sumf_setnth. exact Hi.
  - intros; apply Forall_setnth; assumption.
  - intros HF. rewrite Forall_forall in HF. apply HF. apply nth_In. exact Hi.
Qed.

Ltac splits := repeat match goal with |- _ /\ _ => split end.

Ltac fin :=
  rewrite ?set_ls_mk, ?set_waiter_mk, ?set_token_mk, ?upd_mk_0, ?upd_mk_S;
  eexists _, _; split; [reflexivity|];
  rewrite ?token_mk, ?nth0_setnth0; cbn [ls waiter mk];
  unfold InvC; cbn [wbit xbit wtr wok wpark] in *; splits.

Lemma step_mk_inv l w tk wp rs t :
  InvC l w (nth 0 tk false) wp rs ->
  Inv (step (mk l w tk wp rs) t).
Proof.
  intros (Hl & Hw & Hok & Hrs & Hx & Hpk).
  pose proof (wbit_01 wp) as Hw01. pose proof (xbit_01 wp) as Hx01.
  assert (Hn0 : 0 <= Z.of_nat (nin rs)) by lia.
  pose proof (hww_spec _ _ _ Hn0 Hw01 Hx01) as Hhww.
  pose proof (owb_spec _ _ _ Hn0 Hw01 Hx01) as Howb.
  pose proof (wbc_spec _ _ _ Hn0 Hw01 Hx01) as Hwbc.
  pose proof (lor_waiter_spec _ _ _ Hn0 Hw01 Hx01) as Hlor.
  rewrite <- Hl in Hhww, Howb, Hwbc, Hlor. clear Hw01 Hx01.
  destruct t as [|i].
  - unfold step. rewrite get_thr_mk_0.
    destruct wp as [[|r]|r|r [|]|r [|] s|r|r wt s|r|r|r|r|].
    all: cbv beta zeta; rewrite ?ls_mk, ?token_mk.
    all: cbn [wok] in Hok; try match goal with H : _ = false /\ _ |- _ => destruct H as [-> Hok] end.
    all: repeat match goal with
         | |- context[if ?b then _ else _] => let E := fresh "E" in destruct b eqn:E
         end.
    all: fin.
    all: b2p; try subst s.
    all: rewrite ?Hhww, ?Howb, ?Hwbc in *; b2p; unfold WRITER; rewrite ?Hlor.
    all: try solve [lia | assumption | exact I | reflexivity | intros; lia | congruence | auto].
  - unfold step. rewrite get_thr_mk_S.
    destruct (lt_dec i (length rs)) as [Hi|Hi].
    2:{ rewrite nth_overflow by lia. fin; auto. }
    pose proof (fun p' => reader_upd rs i p' Hi) as Hupd.
    destruct (nth i rs RDone) as [[|e]|e s| | | |u|] eqn:Hp.
    all: cbv beta zeta; rewrite ?ls_mk, ?token_mk, ?reader_waiter_val; change (waiter (mk l w tk wp rs)) with w.
    all: repeat match goal with
         | |- context[if ?b then _ else _] => let E := fresh "E" in destruct b eqn:E
         | |- context[match ?x with Some _ => _ | None => _ end] => destruct x
         end.
    all: fin.
    all: match goal with |- context[setnth _ ?p' _] =>
           destruct (Hupd p') as (Hn & Hk & Hf & Ho); cbn [inside waking rok] in Hn, Hk, Hf, Ho; specialize (Ho Hrs)
         | _ => idtac end.
    all: b2p; try subst s.
    all: rewrite ?Hhww, ?Howb, ?Hwbc in *; b2p; unfold WRITER, READER; rewrite ?Hlor.
    all: try solve [lia | assumption | exact I | reflexivity | intros; lia | congruence | auto].
    all: try (subst u; rewrite nth0_setnth0).
    all: try (apply Hf; [assumption|]; cbn [rok]; destruct wp as [| | ? [|] | ? [|] ? | | | | | | |]; cbn [wtr] in Hw; congruence).
    all: unfold wpark in *; destruct wp as [| | ? [|] | ? [|] ? | | | | | | |]; try exact I;
         cbn [wbit xbit wtr] in *; try discriminate; b2p;
         try (destruct Hpk as [Hpk|Hpk]; [left; assumption | right; lia]); try (right; lia); try (left; reflexivity).
Qed.

Lemma Inv_mk c wp rs : thr c = W wp :: map R rs -> c = mk (ls c) (waiter c) (tokens c) wp rs.
Proof. destruct c as [l w tk th]. simpl. intros ->. reflexivity. Qed.

Lemma Inv_step c t : Inv c -> Inv (step c t).
Proof.
  intros (wp & rs & Hthr & HI). rewrite (Inv_mk c wp rs Hthr).
  apply step_mk_inv. exact HI.
Qed.

Lemma Inv_run_from c sched : Inv c -> Inv (run c sched).
Proof.
  revert c. induction sched as [|t sched IH]; intros c Hc; simpl; [exact Hc|].
  apply IH. apply Inv_step. exact Hc.
Qed.

Theorem Inv_run rounds readers sched : Inv (run (init rounds readers) sched).
Proof. apply Inv_run_from. apply Inv_init. Qed.

(* ------------------------------------------------------------------------------------ *)
(* 4. Reading the invariant back on the model's own observables                          *)
(* ------------------------------------------------------------------------------------ *)

Definition wpc_of (c : cfg) : wpc := match get_thr c 0 with W p => p | R _ => WDone end.
Definition writer_bit (c : cfg) : Z := xbit (wpc_of c).
Definition waiter_bit (c : cfg) : Z := wbit (wpc_of c).

Lemma sumf_nth_le {A} (f : A -> nat) l i d : (i < length l)%nat -> (f (nth i l d) <= sumf f l)%nat.
Proof.
  revert i; induction l as [|a l IH]; intros i Hi; simpl in Hi; [lia|].
  destruct i as [|i]; simpl; [lia|]. specialize (IH i ltac:(lia)). lia.
Qed.

Lemma sumf_pos {A} (f : A -> nat) l d :
  (0 < sumf f l)%nat -> exists i, (i < length l)%nat /\ (0 < f (nth i l d))%nat.
Proof.
  induction l as [|a l IH]; simpl; intros H; [lia|].
  destruct (f a) as [|k] eqn:Hfa.
  - destruct (IH H) as (i & Hi & Hp). exists (S i). split; [lia|exact Hp].
  - exists 0%nat. split; [lia|]. rewrite Hfa. lia.
Qed.

Lemma sumf_le {A} (f g : A -> nat) l : (forall a, (f a <= g a)%nat) -> (sumf f l <= sumf g l)%nat.
Proof. intros H. induction l as [|a l IH]; simpl; [lia|]. specialize (H a). lia. Qed.

Lemma sumf_add {A} (f g : A -> nat) l : (sumf f l + sumf g l = sumf (fun a => f a + g a) l)%nat.
Proof. induction l as [|a l IH]; simpl; lia. Qed.

Lemma readers_inside_mk c wp rs : thr c = W wp :: map R rs -> readers_inside c = nin rs.
Proof.
  intros H. unfold readers_inside. rewrite H. cbn [filter]. unfold nin. clear H.
  induction rs as [|p rs IH]; [reflexivity|].
  cbn [map filter sumf]. destruct p; cbn [inside length]; rewrite <- IH; reflexivity.
Qed.

Lemma writer_holds_mk c wp rs : thr c = W wp :: map R rs -> writer_holds c = (xbit wp =? 1).
Proof.
  intros H. unfold writer_holds. rewrite H. cbn [existsb].
  assert (HF : existsb (fun p => match p with W (WHeld _) | W (WUnlock _) | W (WClearWaiter _) => true | _ => false end)
                 (map R rs) = false).
  { clear H. induction rs as [|p rs IH]; [reflexivity|]. cbn [map existsb]. exact IH. }
  rewrite HF, orb_false_r. destruct wp; reflexivity.
Qed.

Lemma get_thr_0 c wp rs : thr c = W wp :: map R rs -> get_thr c 0 = W wp.
Proof. intros H. unfold get_thr. rewrite H. reflexivity. Qed.

Lemma get_thr_S c wp rs i : thr c = W wp :: map R rs -> get_thr c (S i) = R (nth i rs RDone).
Proof. intros H. unfold get_thr. rewrite H. simpl. apply (map_nth R). Qed.

Lemma wpc_of_mk c wp rs : thr c = W wp :: map R rs -> wpc_of c = wp.
Proof. intros H. unfold wpc_of. rewrite (get_thr_0 c wp rs H). reflexivity. Qed.

Section Reachable.
  Variables (rounds : nat) (readers : list nat) (sched : list nat).
  Let c := run (init rounds readers) sched.

  (* Goal 1: the exact shape of lock_state.
       readers_inside c : readers at RInside or RExit (after their +READER CAS, before their -READER);
       waiter_bit c = 1 iff the writer is at WSetWaiter, WLoad _ true, WCasWriter _ true _ or WPark
                    (after its successful WCasWaiter, until its successful WCasWriter);
       writer_bit c = 1 iff the writer is at WClearWaiter, WHeld or WUnlock
                    (after its successful CAS to WRITER, until its store of 0). *)
  Theorem ls_shape :
    ls c = 4 * Z.of_nat (readers_inside c) + 2 * waiter_bit c + writer_bit c.
  Proof.
    destruct (Inv_run rounds readers sched) as (wp & rs & Hthr & Hl & _). fold c in Hthr, Hl.
    unfold waiter_bit, writer_bit.
    rewrite (readers_inside_mk c wp rs Hthr), (wpc_of_mk c wp rs Hthr). exact Hl.
  Qed.

  (* the waiter handle is the writer's, exactly between the two swaps *)
  Theorem waiter_shape : waiter c = wtr (wpc_of c).
  Proof.
    destruct (Inv_run rounds readers sched) as (wp & rs & Hthr & _ & Hw & _). fold c in Hthr, Hw.
    rewrite (wpc_of_mk c wp rs Hthr). exact Hw.
  Qed.

  (* only thread 0 is a writer; the threads above it are readers *)
  Theorem thread_roles t :
    match get_thr c t with W _ => t = 0%nat | R _ => t <> 0%nat end.
  Proof.
    destruct (Inv_run rounds readers sched) as (wp & rs & Hthr & _). fold c in Hthr.
    destruct t as [|i].
    - rewrite (get_thr_0 c wp rs Hthr). reflexivity.
    - rewrite (get_thr_S c wp rs i Hthr). discriminate.
  Qed.

  (* Goal 2 *)
  Theorem mutual_exclusion : writer_holds c = true -> readers_inside c = 0%nat.
  Proof.
    destruct (Inv_run rounds readers sched) as (wp & rs & Hthr & _ & _ & _ & _ & Hx & _). fold c in Hthr.
    rewrite (readers_inside_mk c wp rs Hthr), (writer_holds_mk c wp rs Hthr).
    intros H. apply Z.eqb_eq in H. exact (Hx H).
  Qed.

  Theorem mutual_exclusion_conv : readers_inside c <> 0%nat -> writer_holds c = false.
  Proof.
    intros H. destruct (writer_holds c) eqn:E; [|reflexivity].
    exfalso. apply H. apply mutual_exclusion. exact E.
  Qed.

  (* the same, thread by thread: while some reader is inside the tree the writer is not in its
     critical section *)
  Theorem reader_inside_excludes_writer t r :
    get_thr c t = R RInside \/ get_thr c t = R RExit ->
    get_thr c 0 <> W (WHeld r) /\ get_thr c 0 <> W (WUnlock r) /\ get_thr c 0 <> W (WClearWaiter r).
  Proof.
    intros Ht.
    destruct (Inv_run rounds readers sched) as (wp & rs & Hthr & _ & _ & _ & _ & Hx & _). fold c in Hthr.
    assert (Hn : (0 < nin rs)%nat).
    { destruct t as [|i].
      - rewrite (get_thr_0 c wp rs Hthr) in Ht. destruct Ht; discriminate.
      - rewrite (get_thr_S c wp rs i Hthr) in Ht.
        destruct (lt_dec i (length rs)) as [Hi|Hi].
        + pose proof (sumf_nth_le inside rs i RDone Hi) as Hle. fold (nin rs) in Hle.
          destruct Ht as [Ht|Ht]; injection Ht as Ht; rewrite Ht in Hle; simpl in Hle; lia.
        + rewrite nth_overflow in Ht by lia. destruct Ht; discriminate. }
    rewrite (get_thr_0 c wp rs Hthr).
    repeat split; intros Heq; injection Heq as ->; simpl in Hx; specialize (Hx eq_refl); lia.
  Qed.

  (* Goal 4: the spin branch of contended_lock is dead code: with waiting = false the WAITER bit
     is clear, so one of the two CAS branches is taken. *)
  Theorem unreachable_spin t r :
    get_thr c t = W (WLoad r false) -> waiter_bit_clear (ls c) = true.
  Proof.
    intros Ht.
    destruct (Inv_run rounds readers sched) as (wp & rs & Hthr & Hl & _). fold c in Hthr, Hl.
    destruct t as [|i].
    - rewrite (get_thr_0 c wp rs Hthr) in Ht. injection Ht as ->. rewrite Hl.
      rewrite wbc_spec; simpl; auto; lia.
    - rewrite (get_thr_S c wp rs i Hthr) in Ht. discriminate.
  Qed.

  (* and with waiting = true the WAITER bit is still set, so the writer never re-enters the
     WCasWaiter branch: it either takes the lock or parks *)
  Theorem waiting_keeps_waiter_bit t r :
    get_thr c t = W (WLoad r true) -> waiter_bit_clear (ls c) = false.
  Proof.
    intros Ht.
    destruct (Inv_run rounds readers sched) as (wp & rs & Hthr & Hl & _). fold c in Hthr, Hl.
    destruct t as [|i].
    - rewrite (get_thr_0 c wp rs Hthr) in Ht. injection Ht as ->. rewrite Hl.
      rewrite wbc_spec; simpl; auto; lia.
    - rewrite (get_thr_S c wp rs i Hthr) in Ht. discriminate.
  Qed.

  (* Goal 3, the invariant L3 itself: a writer about to block has a wake-up on its way *)
  Theorem no_lost_wakeup r :
    get_thr c 0 = W (WPark r) -> token c 0 = false ->
    exists t, get_thr c t = R RInside \/ get_thr c t = R RExit \/
              get_thr c t = R RLoadWaiter \/ get_thr c t = R (RUnpark 0).
  Proof.
    intros Hp Htok.
    destruct (Inv_run rounds readers sched) as (wp & rs & Hthr & _ & _ & _ & Hrs & _ & Hpk). fold c in Hthr, Hpk.
    rewrite (get_thr_0 c wp rs Hthr) in Hp. injection Hp as ->. simpl in Hpk.
    destruct Hpk as [Hpk|Hpk]; [congruence|].
    unfold nin, nwake in Hpk. rewrite sumf_add in Hpk.
    destruct (sumf_pos _ rs RDone Hpk) as (i & Hi & Hpos).
    exists (S i). rewrite (get_thr_S c _ rs i Hthr).
    assert (Hok : rok (nth i rs RDone)).
    { rewrite Forall_forall in Hrs. apply Hrs. apply nth_In. exact Hi. }
    destruct (nth i rs RDone); simpl in Hpos, Hok; try lia; subst; auto.
  Qed.

  (* Goal 3: deadlock freedom *)
  Theorem deadlock_free : all_done c = false -> some_enabled c = true.
  Proof.
    intros Hnd.
    destruct (Inv_run rounds readers sched) as (wp & rs & Hthr & _ & _ & _ & _ & _ & Hpk). fold c in Hthr, Hpk.
    unfold some_enabled. apply existsb_exists.
    assert (Hlen : length (thr c) = S (length rs)) by (rewrite Hthr; simpl; rewrite map_length; reflexivity).
    (* a reader that is not done is enabled *)
    assert (Hreader : (0 < sumf (fun p => match p with RDone => 0 | _ => 1 end) rs)%nat ->
                      exists x, In x (seq 0 (length (thr c))) /\ enabled c x = true).
    { intros Hpos. destruct (sumf_pos _ rs RDone Hpos) as (i & Hi & Hp).
      exists (S i). split; [apply in_seq; lia|].
      unfold enabled. rewrite (get_thr_S c wp rs i Hthr).
      destruct (nth i rs RDone); try reflexivity. lia. }
    destruct (enabled c 0) eqn:Hen.
    - exists 0%nat. split; [apply in_seq; lia|exact Hen].
    - unfold enabled in Hen. rewrite (get_thr_0 c wp rs Hthr) in Hen.
      destruct wp; try discriminate.
      + (* parked without a token *)
        simpl in Hpk. destruct Hpk as [Hpk|Hpk]; [congruence|].
        apply Hreader. unfold nin, nwake in Hpk. rewrite sumf_add in Hpk.
        eapply Nat.lt_le_trans; [exact Hpk|]. apply sumf_le. intros []; simpl; lia.
      + (* writer done: some reader is not *)
        apply Hreader. unfold all_done in Hnd. rewrite Hthr in Hnd. cbn [forallb done] in Hnd.
        rewrite andb_true_l in Hnd. clear - Hnd.
        induction rs as [|p rs IH]; [discriminate|].
        cbn [map forallb sumf] in *. destruct p; try lia.
        simpl in Hnd. specialize (IH Hnd). lia.
  Qed.

End Reachable.

(* The two halves of the L3 argument, as corollaries of ls_shape / waiter_shape. *)
Section Reachable_L3.
  Variables (rounds : nat) (readers : list nat) (sched : list nat).
  Let c := run (init rounds readers) sched.

  (* (i) a waiting writer that re-loads lock_state when no reader is inside sees exactly WAITER,
     takes the only_waiter_bit branch and does not park - this covers the window in which the
     last reader left before the waiter swap and sent nothing *)
  Theorem waiting_writer_alone_does_not_park r :
    get_thr c 0 = W (WLoad r true) -> readers_inside c = 0%nat ->
    ls c = WAITER /\ only_waiter_bit (ls c) = true.
  Proof.
    intros Hg Hn. pose proof (ls_shape rounds readers sched) as H. fold c in H.
    unfold waiter_bit, writer_bit, wpc_of in H. rewrite Hg, Hn in H. simpl in H.
    rewrite H. split; reflexivity.
  Qed.

  (* (ii) while the writer is parked its handle is published, new readers cannot enter, and the
     last reader to leave fetches exactly READER|WAITER, so it goes on to load the handle *)
  Theorem parked_writer_is_published r :
    get_thr c 0 = W (WPark r) -> waiter c = Some 0%nat /\ has_writer_or_waiter (ls c) = true.
  Proof.
    intros Hg. pose proof (ls_shape rounds readers sched) as H. fold c in H.
    pose proof (waiter_shape rounds readers sched) as Hw. fold c in Hw.
    unfold waiter_bit, writer_bit, wpc_of in *. rewrite Hg in *. cbn [wbit xbit wtr] in *.
    split; [exact Hw|]. rewrite H. rewrite hww_spec; auto; lia.
  Qed.

  Theorem last_reader_fetches_reader_waiter r t :
    get_thr c 0 = W (WPark r) -> get_thr c t = R RExit -> readers_inside c = 1%nat ->
    ls c = Z.lor READER WAITER /\ get_thr (step c t) t = R RLoadWaiter.
  Proof.
    intros Hg Ht Hn. pose proof (ls_shape rounds readers sched) as H. fold c in H.
    unfold waiter_bit, writer_bit, wpc_of in H. rewrite Hg, Hn in H. simpl in H.
    split; [rewrite H; reflexivity|].
    unfold step. rewrite Ht. cbv zeta. rewrite H.
    change (4 * 1 + 2 * 1 + 0 =? Z.lor READER WAITER) with true. cbv iota.
    apply get_thr_upd_same.
    change (thr (set_ls c (4 * 1 + 2 * 1 + 0 - READER))) with (thr c).
    unfold get_thr in Ht. destruct (lt_dec t (length (thr c))) as [Hlt|Hge]; [exact Hlt|].
    rewrite nth_overflow in Ht by lia. discriminate.
  Qed.

  Theorem delivering_reader_unparks_writer r t :
    get_thr c 0 = W (WPark r) -> get_thr c t = R RLoadWaiter ->
    get_thr (step c t) t = R (RUnpark 0) /\
    token (step (step c t) t) 0 = true.
  Proof.
    intros Hg Ht. destruct (parked_writer_is_published r Hg) as [Hw _].
    assert (Hlt : (t < length (thr c))%nat).
    { unfold get_thr in Ht. destruct (lt_dec t (length (thr c))) as [Hlt|Hge]; [exact Hlt|].
      rewrite nth_overflow in Ht by lia. discriminate. }
    assert (H1 : step c t = upd c t (R (RUnpark 0))).
    { unfold step. rewrite Ht, Hw. reflexivity. }
    assert (H2 : get_thr (step c t) t = R (RUnpark 0)).
    { rewrite H1. apply get_thr_upd_same. exact Hlt. }
    split; [exact H2|].
    unfold step at 1. rewrite H2. reflexivity.
  Qed.

End Reachable_L3.

(* ------------------------------------------------------------------------------------ *)
(* 5. Termination: a measure that every enabled step strictly decreases                  *)
(* ------------------------------------------------------------------------------------ *)

Definition b2n (b : bool) : nat := if b then 1 else 0.

(* F: an upper bound on the modifications of lock_state still to come *)
Definition Fw (wp : wpc) : nat :=
  match wp with
  | WIdle r => 3 * r
  | WFirstCas r => 3 * r + 3
  | WLoad r wt | WCasWriter r wt _ => if wt then 3 * r + 2 else 3 * r + 3
  | WCasWaiter r _ _ => 3 * r + 3
  | WSetWaiter r | WPark r => 3 * r + 2
  | WClearWaiter r | WHeld r | WUnlock r => 3 * r + 1
  | WDone => 0
  end%nat.
Definition Fr (p : rpc) : nat :=
  match p with RLoad _ | RCas _ _ => 2 | RInside | RExit => 1 | _ => 0 end%nat.
(* T: park tokens that exist or may still be produced *)
Definition Tr (p : rpc) : nat := match p with RDone => 0 | _ => 1 end%nat.
(* L: position inside the current attempt; a pending CAS counts less when it would succeed
   ("live", lock_state still equals the loaded value) than when it would fail ("doomed") *)
Definition Lw (l : Z) (wp : wpc) : nat :=
  match wp with
  | WDone => 0
  | WUnlock _ => 1
  | WHeld _ => 2
  | WClearWaiter _ => 3
  | WPark _ => 4
  | WCasWriter _ true s => if Z.eqb l s then 4 else 6
  | WLoad _ true => 5
  | WSetWaiter _ => 7
  | WCasWriter _ false s | WCasWaiter _ _ s => if Z.eqb l s then 8 else 10
  | WLoad _ false => 9
  | WFirstCas _ => 11
  | WIdle _ => 12
  end%nat.
Definition Lr (l : Z) (p : rpc) : nat :=
  match p with
  | RDone => 0
  | RUnpark _ => 1
  | RLoadWaiter => 2
  | RExit => 3
  | RInside => 4
  | RCas e s => if Z.eqb l s then 3 * e + 5 else 3 * e + 7
  | RLoad e => 3 * e + 6
  end%nat.

Definition Kc (rs : list rpc) : nat := (2 * length rs + 15)%nat.

Definition mu_mk (l : Z) (tok0 : bool) (wp : wpc) (rs : list rpc) : nat :=
  (Kc rs * (Fw wp + sumf Fr rs) + 3 * (b2n tok0 + sumf Tr rs) + (Lw l wp + sumf (Lr l) rs))%nat.

Definition rpcs_of (c : cfg) : list rpc :=
  map (fun p => match p with R q => q | W _ => RDone end) (tl (thr c)).

Definition mu (c : cfg) : nat := mu_mk (ls c) (token c 0) (wpc_of c) (rpcs_of c).

Lemma mu_mk_eq l w tk wp rs : mu (mk l w tk wp rs) = mu_mk l (nth 0 tk false) wp rs.
Proof.
  unfold mu, rpcs_of, wpc_of. rewrite get_thr_mk_0, token_mk. cbn [ls thr mk tl].
  rewrite map_map, map_id. reflexivity.
Qed.

Lemma mu_mk_lt K F F' T T' L L' :
  ((F' <= F /\ 3 * T' + L' < 3 * T + L) \/ (F' < F /\ 3 * T' + L' < 3 * T + L + K))%nat ->
  (K * F' + 3 * T' + L' < K * F + 3 * T + L)%nat.
Proof. intros [[H1 H2]|[H1 H2]]; nia. Qed.

Lemma Lw_swing l l' wp : (Lw l' wp <= Lw l wp + 2)%nat.
Proof. destruct wp as [| | ? [|] | ? [|] ? | | | | | | |]; simpl; repeat destruct (_ =? _); lia. Qed.

Lemma Lr_swing l l' p : (Lr l' p <= Lr l p + 2)%nat.
Proof. destruct p; simpl; repeat destruct (_ =? _); lia. Qed.

Lemma sumf_swing l l' rs : (sumf (Lr l') rs <= sumf (Lr l) rs + 2 * length rs)%nat.
Proof.
  induction rs as [|p rs IH]; simpl; [lia|]. pose proof (Lr_swing l l' p). lia.
Qed.

Lemma reader_upd_mu rs i p' l :
  (i < length rs)%nat ->
  (sumf Fr (setnth i p' rs) + Fr (nth i rs RDone) = sumf Fr rs + Fr p')%nat /\
  (sumf Tr (setnth i p' rs) + Tr (nth i rs RDone) = sumf Tr rs + Tr p')%nat /\
  (sumf (Lr l) (setnth i p' rs) + Lr l (nth i rs RDone) = sumf (Lr l) rs + Lr l p')%nat /\
  Kc (setnth i p' rs) = Kc rs /\
  (forall l', sumf (Lr l') (setnth i p' rs) <= sumf (Lr l) (setnth i p' rs) + 2 * length rs)%nat.
Proof.
  intros Hi. repeat split; try (apply sumf_setnth; exact Hi).
  - unfold Kc. rewrite length_setnth by exact Hi. reflexivity.
  - intros l'. rewrite <- (length_setnth i p' rs Hi). apply sumf_swing.
Qed.

Ltac fin2 :=
  rewrite ?set_ls_mk, ?set_waiter_mk, ?set_token_mk, ?upd_mk_0, ?upd_mk_S;
  rewrite !mu_mk_eq, ?nth0_setnth0; unfold mu_mk.

Lemma step_mk_mu l w tk wp rs t :
  InvC l w (nth 0 tk false) wp rs ->
  enabled (mk l w tk wp rs) t = true ->
  (mu (step (mk l w tk wp rs) t) < mu (mk l w tk wp rs))%nat.
Proof.
  intros (Hl & Hw & Hok & Hrs & Hx & Hpk) Hen.
  pose proof (wbit_01 wp) as Hw01. pose proof (xbit_01 wp) as Hx01.
  assert (Hn0 : 0 <= Z.of_nat (nin rs)) by lia.
  pose proof (hww_spec _ _ _ Hn0 Hw01 Hx01) as Hhww.
  pose proof (owb_spec _ _ _ Hn0 Hw01 Hx01) as Howb.
  pose proof (wbc_spec _ _ _ Hn0 Hw01 Hx01) as Hwbc.
  rewrite <- Hl in Hhww, Howb, Hwbc. clear Hw01 Hx01.
  unfold enabled in Hen.
  destruct t as [|i].
  - unfold step. rewrite get_thr_mk_0 in *.
    destruct wp as [[|r]|r|r [|]|r [|] s|r|r wt s|r|r|r|r|]; try discriminate Hen.
    all: cbv beta zeta; rewrite ?ls_mk, ?token_mk in *.
    all: cbn [wok] in Hok; try match goal with H : _ = false /\ _ |- _ => destruct H as [-> Hok] end.
    all: try rewrite Hen.
    all: repeat match goal with
         | |- context[if ?b then _ else _] => let E := fresh "E" in destruct b eqn:E
         end.
    all: fin2.
    all: apply mu_mk_lt.
    all: cbn [wbit xbit Fw Lw b2n] in *.
    all: rewrite ?E, ?E0, ?Z.eqb_refl.
    all: try (left; split; lia).
    all: try rewrite Hen; cbn [b2n].
    all: repeat match goal with
         | |- context[sumf (Lr ?l') ?rs'] =>
           tryif (first [constr_eq l' l
                        | match goal with H : (sumf (Lr l') rs' <= _)%nat |- _ => idtac end])
           then fail else pose proof (sumf_swing l l' rs')
         end.
    all: unfold Kc; try lia.
  - unfold step. rewrite get_thr_mk_S in *.
    destruct (lt_dec i (length rs)) as [Hi|Hi].
    2:{ rewrite nth_overflow in Hen by lia. discriminate. }
    pose proof (fun p' => reader_upd_mu rs i p' l Hi) as Hupd.
    pose proof (proj2 (proj2 (proj2 (reader_upd rs i RDone Hi))) Hrs) as Ho.
    destruct (nth i rs RDone) as [[|e]|e s| | | |u|] eqn:Hp; try discriminate Hen.
    all: cbv beta zeta; rewrite ?ls_mk, ?token_mk, ?reader_waiter_val; change (waiter (mk l w tk wp rs)) with w.
    all: repeat match goal with
         | |- context[if ?b then _ else _] => let E := fresh "E" in destruct b eqn:E
         | |- context[match ?x with Some _ => _ | None => _ end] => destruct x
         end.
    all: fin2.
    all: match goal with |- context[setnth _ ?p' _] =>
           destruct (Hupd p') as (HF & HT & HL & HK & HS); rewrite HK
         end.
    all: apply mu_mk_lt.
    all: cbn [Fr Tr Lr rok] in *; rewrite ?E, ?Z.eqb_refl in *.
    all: try (subst u; rewrite nth0_setnth0).
    all: repeat match goal with
         | |- context[sumf (Lr ?l') ?rs'] =>
           tryif (first [constr_eq l' l
                        | match goal with H : (sumf (Lr l') rs' <= _)%nat |- _ => idtac end])
           then fail else pose proof (HS l')
         end.
    all: repeat match goal with
         | |- context[Lw ?l' ?wp'] =>
           tryif (first [constr_eq l' l
                        | match goal with H : (Lw l' wp' <= _)%nat |- _ => idtac end])
           then fail else pose proof (Lw_swing l l' wp')
         end.
    all: unfold Kc; destruct (nth 0 tk false); cbn [b2n]; try lia.
Qed.

Lemma mu_step c t : Inv c -> enabled c t = true -> (mu (step c t) < mu c)%nat.
Proof.
  intros (wp & rs & Hthr & HI). rewrite (Inv_mk c wp rs Hthr).
  apply step_mk_mu. exact HI.
Qed.

(* a thread that is not enabled (done, or parked without a token) does not move *)
Lemma step_disabled c t : enabled c t = false -> step c t = c.
Proof.
  unfold enabled, step. destruct (get_thr c t) as [[]|[]]; try discriminate; try reflexivity.
  intros ->. reflexivity.
Qed.

(* Goal 5: every step of an enabled (hence not done) thread strictly decreases mu *)
Theorem step_decreases rounds readers sched t :
  let c := run (init rounds readers) sched in
  enabled c t = true -> (mu (step c t) < mu c)%nat.
Proof. intros c. apply mu_step. apply Inv_run. Qed.

(* number of positions of a schedule at which the scheduled thread is enabled *)
Fixpoint busy (c : cfg) (sched : list nat) : nat :=
  match sched with
  | [] => 0
  | t :: sched' => (b2n (enabled c t) + busy (step c t) sched')%nat
  end.

Lemma busy_bound c sched : Inv c -> (busy c sched + mu (run c sched) <= mu c)%nat.
Proof.
  revert c. induction sched as [|t sched IH]; intros c Hc; simpl; [lia|].
  specialize (IH (step c t) (Inv_step c t Hc)).
  destruct (enabled c t) eqn:Hen; simpl.
  - pose proof (mu_step c t Hc Hen). lia.
  - rewrite (step_disabled c t Hen) in *. lia.
Qed.

Definition run_bound (rounds : nat) (readers : list nat) : nat :=
  ((2 * length readers + 15) * (3 * rounds + 2 * length readers)
   + 3 * length readers + 12 + sumf (fun e => 3 * e + 6) readers)%nat.

Lemma sumf_init_F readers : sumf Fr (map RLoad readers) = (2 * length readers)%nat.
Proof. induction readers as [|e es IH]; simpl in *; lia. Qed.
Lemma sumf_init_T readers : sumf Tr (map RLoad readers) = length readers.
Proof. induction readers as [|e es IH]; simpl in *; lia. Qed.
Lemma sumf_init_L readers :
  sumf (Lr 0) (map RLoad readers) = sumf (fun e => 3 * e + 6)%nat readers.
Proof. induction readers as [|e es IH]; simpl in *; lia. Qed.

Lemma mu_init rounds readers : mu (init rounds readers) = run_bound rounds readers.
Proof.
  assert (Hthr : thr (init rounds readers) = W (WIdle rounds) :: map R (map RLoad readers)).
  { unfold init. cbn [thr]. rewrite map_map. reflexivity. }
  rewrite (Inv_mk _ _ _ Hthr), mu_mk_eq. unfold mu_mk, run_bound, Kc.
  cbn [ls tokens init Fw Lw]. rewrite map_length.
  pose proof (sumf_init_F readers) as HF. pose proof (sumf_init_T readers) as HT.
  pose proof (sumf_init_L readers) as HL.
  rewrite HF, HT, HL. simpl (nth 0 _ _). cbn [b2n]. lia.
Qed.

(* bounded_runs: in any schedule at most run_bound positions schedule an enabled thread; all
   other positions are no-ops (step_disabled) *)
Theorem bounded_runs rounds readers sched :
  (busy (init rounds readers) sched <= run_bound rounds readers)%nat.
Proof.
  pose proof (busy_bound (init rounds readers) sched (Inv_init rounds readers)) as H.
  rewrite mu_init in H. lia.
Qed.

(* ------------------------------------------------------------------------------------ *)
(* 6. Non-vacuity: concrete schedules                                                    *)
(* ------------------------------------------------------------------------------------ *)

(* all configurations a schedule passes through, the initial one first *)
Fixpoint trace (c : cfg) (sched : list nat) : list cfg :=
  match sched with
  | [] => [c]
  | t :: sched' => c :: trace (step c t) sched'
  end.

Definition writer_parked_no_token (c : cfg) : bool :=
  match get_thr c 0 with W (WPark _) => negb (token c 0) | _ => false end.
Definition writer_at_park (c : cfg) : bool :=
  match get_thr c 0 with W (WPark _) => true | _ => false end.

(* (a) one writer round, two readers of one element each.  Reader 1 enters the tree; the writer
   fails its first CAS, sets WAITER, publishes itself, re-loads, and parks with no token: at that
   point it is blocked (not enabled) and the extra "0" in the schedule is a no-op.  Reader 1 then
   leaves, fetches READER|WAITER, loads waiter = Some 0 and unparks; the writer wakes, takes the
   lock, unlocks; reader 2 runs afterwards.  Everything completes. *)
Definition sched_park_prefix : list nat := [1; 1; 0; 0; 0; 0; 0; 0; 0]%nat.
Definition sched_park_rest : list nat := [1; 1; 1; 1; 0; 0; 0; 0; 0; 0; 0; 2; 2; 2; 2]%nat.

Example writer_parks_and_is_woken :
  let c1 := run (init 1 [1; 1]%nat) sched_park_prefix in
  let c2 := run c1 [1; 1; 1]%nat in
  let c3 := run c1 sched_park_rest in
  get_thr c1 0 = W (WPark 0) /\ token c1 0 = false /\ enabled c1 0 = false /\
  ls c1 = Z.lor READER WAITER /\ waiter c1 = Some 0%nat /\
  get_thr c2 1 = R (RUnpark 0) /\
  existsb writer_parked_no_token (trace (init 1 [1; 1]%nat) (sched_park_prefix ++ sched_park_rest)) = true /\
  all_done c3 = true /\ ls c3 = 0 /\ waiter c3 = None.
Proof. vm_compute. repeat split; reflexivity. Qed.

(* (b) the window of L3: reader 1 leaves between the writer's WAITER CAS and its waiter swap.  It
   fetches READER|WAITER, goes to RLoadWaiter, finds waiter = None and sends nothing.  The writer's
   next load sees lock_state = WAITER exactly, takes the only_waiter_bit branch and never parks. *)
Definition sched_window_prefix : list nat := [1; 1; 0; 0; 0; 0; 1; 1]%nat.
Definition sched_window_rest : list nat := [1; 0; 0; 0; 0; 0; 0; 0; 2; 2; 2; 2]%nat.

Example reader_leaves_in_the_window :
  let c1 := run (init 1 [1; 1]%nat) sched_window_prefix in
  let c2 := step c1 1 in
  let c3 := run c1 sched_window_rest in
  get_thr c1 0 = W (WSetWaiter 0) /\ get_thr c1 1 = R RLoadWaiter /\
  waiter c1 = None /\ ls c1 = WAITER /\
  get_thr c2 1 = R RDone /\ token c2 0 = false /\
  existsb writer_at_park (trace (init 1 [1; 1]%nat) (sched_window_prefix ++ sched_window_rest)) = false /\
  all_done c3 = true /\ ls c3 = 0 /\ waiter c3 = None.
Proof. vm_compute. repeat split; reflexivity. Qed.

(* (c) a stale wake-up (L4): the reader that fetched READER|WAITER in round 1 is delayed until the
   writer waits again in round 2 (for reader 2), and only then loads waiter and unparks.  The
   writer wakes spuriously, re-reads lock_state, parks again and is woken by reader 2. *)
Example stale_unpark_is_harmless :
  let sched := [1; 1; 0; 0; 0; 0; 1; 1;          (* r1 in; W sets WAITER; r1 out -> RLoadWaiter *)
                0; 0; 0; 0; 0; 0; 0;              (* W: swap, load, CAS, clear, held, unlock, idle *)
                2; 2; 0; 0; 0; 0; 0; 0; 0;        (* r2 in; W round 2: ... parks, no token *)
                1; 1;                             (* r1: loads waiter = Some 0, stale unpark *)
                0; 0; 0;                          (* W: wakes, re-loads, parks again *)
                2; 2; 2; 2;                       (* r2 out, unparks *)
                0; 0; 0; 0; 0; 0; 0; 0]%nat in
  let c := run (init 2 [1; 1]%nat) sched in
  let c26 := run (init 2 [1; 1]%nat) (firstn 26 sched) in
  (* the stale token has arrived although reader 2 is still inside the tree *)
  get_thr c26 0 = W (WPark 0) /\ token c26 0 = true /\ get_thr c26 2 = R RInside /\
  get_thr (run c26 [0; 0]%nat) 0 = W (WPark 0) /\ token (run c26 [0; 0]%nat) 0 = false /\
  (busy (init 2 [1; 1]%nat) sched < length sched)%nat /\ all_done c = true /\ ls c = 0.
Proof. vm_compute. repeat split; try reflexivity. lia. Qed.

(* ------------------------------------------------------------------------------------ *)
Print Assumptions Inv_run.
Print Assumptions ls_shape.
Print Assumptions waiter_shape.
Print Assumptions mutual_exclusion.
Print Assumptions mutual_exclusion_conv.
Print Assumptions reader_inside_excludes_writer.
Print Assumptions no_lost_wakeup.
Print Assumptions deadlock_free.
Print Assumptions unreachable_spin.
Print Assumptions waiting_keeps_waiter_bit.
Print Assumptions waiting_writer_alone_does_not_park.
Print Assumptions parked_writer_is_published.
Print Assumptions last_reader_fetches_reader_waiter.
Print Assumptions delivering_reader_unparks_writer.
Print Assumptions step_decreases.
Print Assumptions bounded_runs.
Print Assumptions writer_parks_and_is_woken.
Print Assumptions reader_leaves_in_the_window.
Print Assumptions stale_unpark_is_harmless.
