(* Reads never wait (list-bin protocol, Model/BinProto.v).

   A lookup (`OGet k`) that is in progress in ANY reachable configuration -- the other threads
   suspended anywhere: inside a critical section holding a bin lock, between the loads and the
   store of an unlink, blocked on a mutex -- completes within |heap|+2 of its own steps when it is
   run alone, is enabled at every one of them, and changes neither the locks nor the heap nor the
   bins (`get_completes_alone`).

   Two facts about reachable configurations are used:
   - `ptr_inc` (part of `binv`, Proofs/BinProtoProofs.v): every `next` pointer of an allocated
     cell goes to a strictly larger allocated address (`next_increases`).  This also holds for the
     cells that have been unlinked, so a reader standing on a removed node still makes progress.
   - `get_shape` (new, `shape_reach`): a thread whose current operation is `OGet k` is at
     `PStart (OGet k)` or at `GWalk k p`.  (`thr_cur` of `binv` alone does not exclude
     `PutUnlock _ _ None`, whose `pc_cur` is `True`.)

   No validity of the address `p` in `GWalk k p` is needed: a load from an unallocated address
   yields the default cell, whose `next` is null, and the walk ends there. *)
From Flurry Require Import Model.BinProto Proofs.BinProtoLemmas Proofs.BinProtoProofs.
From Coq Require Import List Bool Lia NArith ZArith Arith.
Import ListNotations.
Local Open Scope nat_scope.

Definition solo khash nbins (c : cfg) (t n : nat) : cfg := Nat.iter n (fun c' => step khash nbins c' t) c.
Definition calls_done (c : cfg) (t : nat) : nat := length (filter (fun h => Nat.eqb (h_tid h) t) (hist c)).

(* ====================================================================== *)
(* next pointers increase                                                  *)
(* ====================================================================== *)

Theorem next_increases : forall khash nbins progs sched a b,
  (0 < nbins)%nat ->
  let c := run khash nbins (init nbins progs) sched in
  (a < length (heap (sh c)))%nat -> cnext (cell_at (sh c) a) = Some b ->
  (a < b /\ b < length (heap (sh c)))%nat.
Proof.
  intros khash nbins progs sched a b Hn c Ha Hb.
  destruct (binproto_inv khash nbins Hn progs sched) as ((_ & _ & Hinc & _) & _).
  exact (Hinc a b Ha Hb).
Qed.

(* ====================================================================== *)
(* what one step does to the thread table                                  *)
(* ====================================================================== *)

Lemma finish_thr (C : cfg) t r :
  thr (finish C t r) = thr C \/
  exists th', thr (finish C t r) = upd_list (thr C) t th' /\ cur th' = None.
Proof.
  unfold finish. destruct (cur (get_thr C t)); [right|left; reflexivity].
  eexists. split; reflexivity.
Qed.

(* the step of thread t leaves the thread table alone, or replaces entry t by a thread that has no
   current operation, or has just been invoked, or goes on with the same operation *)
Lemma step_thr khash nbins c t :
  thr (step khash nbins c t) = thr c \/
  (t < length (thr c) /\ exists th', thr (step khash nbins c t) = upd_list (thr c) t th' /\
     (cur th' = None \/ (exists o, cur th' = Some o /\ at_ th' = PStart o) \/ cur th' = cur (get_thr c t))).
Proof.
  unfold step. change (mkCfg (sh c) (thr c) (now c + 1)%N (hist c)) with (bump c). cbv zeta.
  change (get_thr (bump c) t) with (get_thr c t). change (sh (bump c)) with (sh c).
  destruct (at_ (get_thr c t)) eqn:Hpc.
  all: try (assert (Ht : t < length (thr c)) by (apply thr_lt; left; rewrite Hpc; discriminate)).
  19: { destruct (todo (get_thr c t)) as [|o rest] eqn:Htodo; [left; reflexivity|].
        assert (Ht : t < length (thr c)) by (apply thr_lt; right; rewrite Htodo; discriminate).
        right. split; [exact Ht|]. eexists. split; [reflexivity|]. right. left. exists o. split; reflexivity. }
  all: unfold alloc; cbv beta iota.
  all: repeat match goal with |- context [match ?x with _ => _ end] => destruct x end.
  all: try (left; reflexivity).
  all: try (right; split; [exact Ht|]; eexists; split; [reflexivity|]; right; right; reflexivity).
  all: match goal with |- context [finish ?C ?t0 ?r] =>
         destruct (finish_thr C t0 r) as [E|(th' & E & Hc)];
           [left; exact E | right; split; [exact Ht|]; exists th'; split; [exact E|left; exact Hc]]
       end.
Qed.

Lemma step_other khash nbins c t t' : t' <> t -> get_thr (step khash nbins c t) t' = get_thr c t'.
Proof.
  intros Hne. unfold get_thr. destruct (step_thr khash nbins c t) as [E|(Ht & th' & E & _)]; rewrite E; [reflexivity|].
  apply nth_upd_other; assumption.
Qed.

(* ---------- the two pcs of a lookup ---------- *)
Lemma step_pstart_get khash nbins c t k : at_ (get_thr c t) = PStart (OGet k) ->
  step khash nbins c t =
  match bin_at (sh c) (bini khash nbins k) with
  | None => finish (with_sh (bump c) (sh c)) t RNone
  | Some h => goto (with_sh (bump c) (sh c)) t (GWalk k h)
  end.
Proof.
  intros H. unfold step. change (mkCfg (sh c) (thr c) (now c + 1)%N (hist c)) with (bump c). cbv zeta.
  change (get_thr (bump c) t) with (get_thr c t). change (sh (bump c)) with (sh c).
  rewrite H. cbn [op_key]. destruct (bin_at (sh c) (bini khash nbins k)); reflexivity.
Qed.

Lemma step_gwalk khash nbins c t k p : at_ (get_thr c t) = GWalk k p ->
  step khash nbins c t =
  if (ckey (cell_at (sh c) p) =? k)%N then finish (with_sh (bump c) (sh c)) t (RVal (cval (cell_at (sh c) p)))
  else match cnext (cell_at (sh c) p) with
       | Some q => goto (with_sh (bump c) (sh c)) t (GWalk k q)
       | None => finish (with_sh (bump c) (sh c)) t RNone
       end.
Proof.
  intros H. unfold step. change (mkCfg (sh c) (thr c) (now c + 1)%N (hist c)) with (bump c). cbv zeta.
  change (get_thr (bump c) t) with (get_thr c t). change (sh (bump c)) with (sh c).
  rewrite H. reflexivity.
Qed.

Lemma get_thr_moved c s' t p n h : t < length (thr c) ->
  get_thr (mkCfg s' (upd_list (thr c) t (moved c t p)) n h) t = moved c t p.
Proof. intros Ht. rewrite get_thr_upd by exact Ht. rewrite Nat.eqb_refl. reflexivity. Qed.
Lemma get_thr_ended c s' t n h : t < length (thr c) ->
  get_thr (mkCfg s' (upd_list (thr c) t (ended c t)) n h) t = ended c t.
Proof. intros Ht. rewrite get_thr_upd by exact Ht. rewrite Nat.eqb_refl. reflexivity. Qed.

(* ====================================================================== *)
(* a thread running a lookup is at one of the lookup's two pcs             *)
(* ====================================================================== *)
Definition get_shape (th : thread) : Prop :=
  forall k, cur th = Some (OGet k) -> at_ th = PStart (OGet k) \/ exists p, at_ th = GWalk k p.

Definition all_shape (c : cfg) : Prop := forall t, get_shape (get_thr c t).

Lemma shape_step khash nbins c t : all_shape c -> all_shape (step khash nbins c t).
Proof.
  intros H t'. destruct (Nat.eq_dec t' t) as [->|Hne]; [|rewrite step_other by exact Hne; apply H].
  assert (Hgen : (forall k, cur (get_thr c t) <> Some (OGet k)) -> get_shape (get_thr (step khash nbins c t) t)).
  { intros Hno. unfold get_thr at 1. destruct (step_thr khash nbins c t) as [E|(Ht & th' & E & Hc)]; rewrite E.
    - apply H.
    - rewrite nth_upd_same by exact Ht. intros k Hk. destruct Hc as [Hc|[(o & Ho & Hat)|Hc]].
      + congruence.
      + left. rewrite Hat. congruence.
      + exfalso. apply (Hno k). congruence. }
  destruct (cur (get_thr c t)) as [o|] eqn:Hcur; [|apply Hgen; discriminate].
  destruct o as [k0| | | | |]; try (apply Hgen; discriminate).
  destruct (H t k0 Hcur) as [Hpc|(p & Hpc)].
  - assert (Ht : t < length (thr c)) by (apply thr_lt; left; rewrite Hpc; discriminate).
    rewrite (step_pstart_get _ _ _ _ _ Hpc). destruct (bin_at (sh c) (bini khash nbins k0)) as [h|].
    + rewrite goto_shape, get_thr_moved by exact Ht. intros k Hk. cbn in Hk. right. exists h. cbn. congruence.
    + erewrite finish_shape by exact Hcur. rewrite get_thr_ended by exact Ht. intros k Hk. discriminate Hk.
  - assert (Ht : t < length (thr c)) by (apply thr_lt; left; rewrite Hpc; discriminate).
    rewrite (step_gwalk _ _ _ _ _ _ Hpc).
    destruct (ckey (cell_at (sh c) p) =? k0)%N; [|destruct (cnext (cell_at (sh c) p)) as [q|]].
    + erewrite finish_shape by exact Hcur. rewrite get_thr_ended by exact Ht. intros k Hk. discriminate Hk.
    + rewrite goto_shape, get_thr_moved by exact Ht. intros k Hk. cbn in Hk. right. exists q. cbn. congruence.
    + erewrite finish_shape by exact Hcur. rewrite get_thr_ended by exact Ht. intros k Hk. discriminate Hk.
Qed.

Lemma shape_run khash nbins sched : forall c, all_shape c -> all_shape (run khash nbins c sched).
Proof.
  induction sched as [|t sched IH]; intros c H; [exact H|]. cbn. apply IH. apply shape_step. exact H.
Qed.

Theorem shape_reach khash nbins progs sched : all_shape (run khash nbins (init nbins progs) sched).
Proof.
  apply shape_run. intros t k Hk. destruct (get_thr_init nbins progs t) as [_ Hc]. congruence.
Qed.

(* ====================================================================== *)
(* running alone                                                           *)
(* ====================================================================== *)
Section Solo.
Variable khash : N -> N.
Variable nbins : nat.
Notation step := (step khash nbins).
Notation solo := (solo khash nbins).

Lemma solo_S c t n : solo c t (S n) = solo (step c t) t n.
Proof.
  unfold BinProtoReads.solo. induction n as [|n IH]; [reflexivity|].
  change (Nat.iter (S (S n)) (fun c' => step c' t) c) with (step (Nat.iter (S n) (fun c' => step c' t) c) t).
  rewrite IH. reflexivity.
Qed.

(* thread t, run alone from c, returns from its current call within B steps, enabled at each of
   them, and the shared memory stays what it is *)
Definition completes (c : cfg) (t B : nat) : Prop :=
  exists n, n <= B /\
    calls_done (solo c t n) t = S (calls_done c t) /\
    (forall m, m < n -> enabled (solo c t m) t = true) /\
    (forall m, m <= n -> sh (solo c t m) = sh c).

Lemma completes_one c t B h :
  enabled c t = true -> sh (step c t) = sh c -> hist (step c t) = h :: hist c -> h_tid h = t ->
  1 <= B -> completes c t B.
Proof.
  intros He Hs Hh Ht HB. exists 1. split; [exact HB|]. split; [|split].
  - rewrite solo_S. cbn. unfold calls_done. rewrite Hh. cbn [filter]. rewrite Ht, Nat.eqb_refl. reflexivity.
  - intros m Hm. assert (m = 0) as -> by lia. exact He.
  - intros m Hm. destruct m as [|m]; [reflexivity|]. assert (m = 0) as -> by lia. rewrite solo_S. exact Hs.
Qed.

Lemma completes_step c t B :
  enabled c t = true -> sh (step c t) = sh c -> hist (step c t) = hist c ->
  completes (step c t) t B -> completes c t (S B).
Proof.
  intros He Hs Hh (n & Hn & Hd & Hen & Hsh). exists (S n). split; [lia|]. split; [|split].
  - rewrite solo_S, Hd. unfold calls_done. rewrite Hh. reflexivity.
  - intros m Hm. destruct m as [|m]; [exact He|]. rewrite solo_S. apply Hen. lia.
  - intros m Hm. destruct m as [|m]; [reflexivity|]. rewrite solo_S, Hsh by lia. exact Hs.
Qed.

Lemma cell_at_overflow s a : length (heap s) <= a -> cell_at s a = mkCell 0 0 None.
Proof. intros H. unfold cell_at. apply nth_overflow. exact H. Qed.

Lemma gwalk_enabled c t k p : at_ (get_thr c t) = GWalk k p -> enabled c t = true.
Proof. intros H. unfold enabled. rewrite H. reflexivity. Qed.

(* the walk: at most |heap| - p further nodes *)
Lemma gwalk_completes : forall d c t k p,
  ptr_inc (sh c) -> at_ (get_thr c t) = GWalk k p -> cur (get_thr c t) = Some (OGet k) ->
  length (heap (sh c)) - p <= d -> completes c t (S d).
Proof.
  induction d as [|d IH]; intros c t k p Hinc Hpc Hcur Hd.
  all: assert (Ht : t < length (thr c)) by (apply thr_lt; left; rewrite Hpc; discriminate).
  all: pose proof (gwalk_enabled _ _ _ _ Hpc) as He.
  all: pose proof (step_gwalk khash nbins _ _ _ _ Hpc) as E.
  all: destruct (ckey (cell_at (sh c) p) =? k)%N; [|destruct (cnext (cell_at (sh c) p)) as [q|] eqn:Hq].
  all: try (erewrite finish_shape in E by exact Hcur;
            eapply completes_one; [exact He|rewrite E; reflexivity|rewrite E; reflexivity|reflexivity|lia]).
  - (* d = 0: p is not allocated, its next is null *)
    rewrite cell_at_overflow in Hq by lia. discriminate Hq.
  - assert (Hp : p < length (heap (sh c))).
    { destruct (Nat.lt_ge_cases p (length (heap (sh c)))) as [Hl|Hl]; [exact Hl|].
      rewrite cell_at_overflow in Hq by exact Hl. discriminate Hq. }
    destruct (Hinc p q Hp Hq) as [Hpq Hql].
    rewrite goto_shape in E.
    apply completes_step; [exact He|rewrite E; reflexivity|rewrite E; reflexivity|].
    apply (IH _ t k q).
    + rewrite E. exact Hinc.
    + rewrite E, get_thr_moved by exact Ht. reflexivity.
    + rewrite E, get_thr_moved by exact Ht. exact Hcur.
    + rewrite E. cbn [sh]. lia.
Qed.

Lemma pstart_completes c t k :
  ptr_inc (sh c) -> at_ (get_thr c t) = PStart (OGet k) -> cur (get_thr c t) = Some (OGet k) ->
  completes c t (length (heap (sh c)) + 2).
Proof.
  intros Hinc Hpc Hcur.
  assert (Ht : t < length (thr c)) by (apply thr_lt; left; rewrite Hpc; discriminate).
  assert (He : enabled c t = true) by (unfold enabled; rewrite Hpc; reflexivity).
  pose proof (step_pstart_get khash nbins _ _ _ Hpc) as E.
  destruct (bin_at (sh c) (bini khash nbins k)) as [h|].
  - rewrite goto_shape in E. replace (length (heap (sh c)) + 2) with (S (S (length (heap (sh c))))) by lia.
    apply completes_step; [exact He|rewrite E; reflexivity|rewrite E; reflexivity|].
    replace (length (heap (sh c))) with (length (heap (sh (step c t)))) by (rewrite E; reflexivity).
    apply (gwalk_completes _ _ t k h).
    + rewrite E. exact Hinc.
    + rewrite E, get_thr_moved by exact Ht. reflexivity.
    + rewrite E, get_thr_moved by exact Ht. exact Hcur.
    + lia.
  - erewrite finish_shape in E by exact Hcur.
    eapply completes_one; [exact He|rewrite E; reflexivity|rewrite E; reflexivity|reflexivity|lia].
Qed.

End Solo.

(* ====================================================================== *)
(* the theorem                                                             *)
(* ====================================================================== *)
Theorem get_completes_alone : forall khash nbins progs sched t k,
  (0 < nbins)%nat ->
  let c := run khash nbins (init nbins progs) sched in
  cur (get_thr c t) = Some (OGet k) ->
  exists n, (n <= length (heap (sh c)) + 2)%nat /\
    calls_done (solo khash nbins c t n) t = S (calls_done c t) /\
    (forall m, (m < n)%nat -> enabled (solo khash nbins c t m) t = true) /\
    (forall m, (m <= n)%nat -> locks (sh (solo khash nbins c t m)) = locks (sh c) /\
                               heap (sh (solo khash nbins c t m)) = heap (sh c) /\
                               bins (sh (solo khash nbins c t m)) = bins (sh c)).
Proof.
  intros khash nbins progs sched t k Hn c Hcur.
  destruct (binproto_inv khash nbins Hn progs sched) as ((_ & _ & Hinc & _) & _). fold c in Hinc.
  assert (Hc : completes khash nbins c t (length (heap (sh c)) + 2)).
  { destruct (shape_reach khash nbins progs sched t k Hcur) as [Hpc|(p & Hpc)]; fold c in Hpc.
    - apply (pstart_completes _ _ _ _ k); assumption.
    - destruct (gwalk_completes khash nbins (length (heap (sh c))) c t k p Hinc Hpc Hcur) as (n & Hle & H);
        [lia|]. exists n. split; [lia|exact H]. }
  destruct Hc as (n & Hle & Hd & Hen & Hsh). exists n. split; [exact Hle|]. split; [exact Hd|].
  split; [exact Hen|]. intros m Hm. rewrite (Hsh m Hm). auto.
Qed.

(* ====================================================================== *)
(* non-vacuity                                                             *)
(* ====================================================================== *)
(* Two bins, identity hash: the keys 1, 3, 5, 7 all live in bin 1.  Thread 0 inserts 1, 3, 5 (nodes
   0, 1, 2) and then removes 3; thread 1 looks 5 up; thread 2 inserts 7.
   Schedule: thread 0 runs its three inserts (16 steps) and the removal up to the unlink store
   (7 steps: invoke, load bin, lock node 0, re-validate, walk 0, walk 1, load value); thread 1
   invokes `OGet 5`, loads the bin and walks from node 0 to node 1 -- the node about to be removed;
   thread 2 invokes its insert and loads the bin (it will block on node 0's mutex). *)
Definition rd_progs : list (list opn) :=
  [ [OInsert 1 10; OInsert 3 30; OInsert 5 50; ORemove 3]; [OGet 5]; [OInsert 7 70] ].
Definition rd_sched_before : list nat := repeat 0 23 ++ [1; 1; 1] ++ [2; 2].
Definition rd_before : cfg := run (fun x => x) 2 (init 2 rd_progs) rd_sched_before.
(* ... and one more step of thread 0: the unlink store (node 0's next := node 2) *)
Definition rd_after : cfg := run (fun x => x) 2 (init 2 rd_progs) (rd_sched_before ++ [0]).

(* just before the unlink store: the remover holds the lock of the head, the reader stands on the
   victim; alone, the reader finishes in 2 steps with the value of key 5, locks untouched; the
   writer of thread 2 is blocked meanwhile *)
Example rd_before_ok :
  at_ (get_thr rd_before 0) = RmUnlink 3 0 (Some 0) 1 (Some 2) 30%Z /\
  lock_at (sh rd_before) 0 = Some 0 /\
  bin_at (sh rd_before) 1 = Some 0 /\
  length (heap (sh rd_before)) = 3 /\
  cur (get_thr rd_before 1) = Some (OGet 5) /\
  at_ (get_thr rd_before 1) = GWalk 5 1 /\
  calls_done rd_before 1 = 0 /\
  calls_done (solo (fun x => x) 2 rd_before 1 1) 1 = 0 /\
  calls_done (solo (fun x => x) 2 rd_before 1 2) 1 = 1 /\
  map h_res (firstn 1 (hist (solo (fun x => x) 2 rd_before 1 2))) = [RVal 50%Z] /\
  locks (sh (solo (fun x => x) 2 rd_before 1 2)) = [Some 0; None; None] /\
  enabled rd_before 1 = true /\ enabled (solo (fun x => x) 2 rd_before 1 1) 1 = true /\
  at_ (get_thr rd_before 2) = PutLock 7 70%Z false 0 /\ enabled rd_before 2 = false.
Proof. vm_compute. repeat split; reflexivity. Qed.

(* just after the unlink store (node 1 is no longer reachable from the bin, the remover still holds
   the lock): the reader, standing on the removed node, finishes in 2 steps all the same *)
Example rd_after_ok :
  at_ (get_thr rd_after 0) = PutUnlock 0 (RVal 30%Z) None /\
  lock_at (sh rd_after) 0 = Some 0 /\
  cnext (cell_at (sh rd_after) 0) = Some 2 /\ cnext (cell_at (sh rd_after) 1) = Some 2 /\
  lookup (fun x => x) 2 rd_after 3 = None /\
  cur (get_thr rd_after 1) = Some (OGet 5) /\
  at_ (get_thr rd_after 1) = GWalk 5 1 /\
  calls_done rd_after 1 = 0 /\
  calls_done (solo (fun x => x) 2 rd_after 1 1) 1 = 0 /\
  calls_done (solo (fun x => x) 2 rd_after 1 2) 1 = 1 /\
  map h_res (firstn 1 (hist (solo (fun x => x) 2 rd_after 1 2))) = [RVal 50%Z] /\
  locks (sh (solo (fun x => x) 2 rd_after 1 2)) = [Some 0; None; None] /\
  enabled rd_after 1 = true /\ enabled (solo (fun x => x) 2 rd_after 1 1) 1 = true /\
  enabled rd_after 2 = false.
Proof. vm_compute. repeat split; reflexivity. Qed.

(* the theorem applies (bound: |heap| + 2 = 5; the actual number of steps is 2, see above) *)
Example rd_bound : length (heap (sh rd_after)) + 2 = 5 /\ length (heap (sh rd_before)) + 2 = 5.
Proof. vm_compute. split; reflexivity. Qed.
Example rd_by_theorem :
  exists n, n <= length (heap (sh rd_after)) + 2 /\
    calls_done (solo (fun x => x) 2 rd_after 1 n) 1 = S (calls_done rd_after 1) /\
    (forall m, m < n -> enabled (solo (fun x => x) 2 rd_after 1 m) 1 = true) /\
    (forall m, m <= n -> locks (sh (solo (fun x => x) 2 rd_after 1 m)) = locks (sh rd_after) /\
                         heap (sh (solo (fun x => x) 2 rd_after 1 m)) = heap (sh rd_after) /\
                         bins (sh (solo (fun x => x) 2 rd_after 1 m)) = bins (sh rd_after)).
Proof.
  unfold rd_after.
  apply (get_completes_alone (fun x => x) 2 rd_progs (rd_sched_before ++ [0]) 1 5%N); [lia|].
  vm_compute. reflexivity.
Qed.

Print Assumptions rd_before_ok.
Print Assumptions rd_after_ok.
Print Assumptions rd_by_theorem.
Print Assumptions shape_reach.
Print Assumptions next_increases.
Print Assumptions get_completes_alone.
