(* The traverser over a chain of forwarded tables (C07). *)
From Flurry Require Import Model.Trav.
From Coq Require Import List Arith Lia Permutation.
Import ListNotations.
Open Scope nat_scope.

(* ====================================================================== *)
(* 4. Non-vacuity: concrete forests                                        *)
(* ====================================================================== *)
Definition nd (k : nat) : node := N_ (N.of_nat k) (N.of_nat k) 0%N 0%Z.
Definition bl (ks : list nat) : bin := BList (map nd ks).
Definition keys (l : list node) : list nat := map (fun x => N.to_nat (nk x)) l.

Definition ex_f1 : forest :=
  [ [bl [0;2]; BMoved];
    [BMoved; bl [1]; BNull; bl [3;7]];
    repeat BNull 8 ].

Definition ex_f2 : forest :=
  [ [BMoved; BMoved];
    [BMoved; bl [1;5]; bl [2]; BMoved];
    [bl [8]; BNull; BNull; bl [3]; bl [4]; BNull; BNull; bl [7]] ].

(* three levels; the marker at index 2 of table 1 sits in the HIGH half (2 = 0 + len 2) of the
   marker at index 0 of table 0, and forwards again to indices 2 and 6 of table 2 *)
Definition ex_f3 : forest :=
  [ [BMoved; bl [10]];
    [bl [4]; BNull; BMoved; BNull];
    [BNull; BNull; bl [2;18]; BNull; BNull; BNull; bl [6]; BNull] ].

(* four levels, base length 1, markers in the high half at two successive levels and a tree of
   depth 3 below a single base bin *)
Definition ex_f4 : forest :=
  [ [BMoved];
    [BMoved; BMoved];
    [bl [100]; BMoved; BMoved; BMoved];
    [BNull; bl [1;9]; bl [2]; bl [3]; BNull; bl [5]; BNull; bl [7;15;23]] ].

Example ex_f1_wf : wf_forest ex_f1 = true. Proof. vm_compute. reflexivity. Qed.
Example ex_f2_wf : wf_forest ex_f2 = true. Proof. vm_compute. reflexivity. Qed.
Example ex_f3_wf : wf_forest ex_f3 = true. Proof. vm_compute. reflexivity. Qed.
Example ex_f4_wf : wf_forest ex_f4 = true. Proof. vm_compute. reflexivity. Qed.

Example ex_f1_iterate : keys (iterate ex_f1) = [0;2;1;3;7] /\ iterate ex_f1 = contents ex_f1.
Proof. split; vm_compute; reflexivity. Qed.
Example ex_f2_iterate : keys (iterate ex_f2) = [8;4;2;1;5;3;7] /\ iterate ex_f2 = contents ex_f2.
Proof. split; vm_compute; reflexivity. Qed.
Example ex_f3_iterate : keys (iterate ex_f3) = [4;2;18;6;10] /\ iterate ex_f3 = contents ex_f3.
Proof. split; vm_compute; reflexivity. Qed.
Example ex_f4_iterate :
  keys (iterate ex_f4) = [100;2;1;9;5;3;7;15;23] /\ iterate ex_f4 = contents ex_f4.
Proof. split; vm_compute; reflexivity. Qed.

(* the fuel and the call bound are not vacuous: starving either truncates the result *)
Example ex_small_fuel :
  keys (drain 10 3 ex_f4 (new_iter ex_f4)) = [100;2] /\ trav_fuel ex_f4 = 35.
Proof. split; vm_compute; reflexivity. Qed.
Example ex_few_calls : keys (drain 3 (trav_fuel ex_f2) ex_f2 (new_iter ex_f2)) = [8;4;2].
Proof. vm_compute. reflexivity. Qed.

(* ====================================================================== *)
(* Generic list / sum facts                                                *)
(* ====================================================================== *)
Lemma list_sum_map_le (A : Type) (g g' : A -> nat) (l : list A) :
  (forall x, In x l -> g x <= g' x) -> list_sum (map g l) <= list_sum (map g' l).
Proof.
  induction l as [|a l IH]; intros Hle; simpl; [lia|].
  pose proof (Hle a (or_introl eq_refl)) as Ha.
  assert (Hl : list_sum (map g l) <= list_sum (map g' l)) by (apply IH; intros x Hx; apply Hle; right; exact Hx).
  lia.
Qed.

Lemma list_sum_map_add (A : Type) (g g' : A -> nat) (l : list A) :
  list_sum (map (fun x => g x + g' x) l) = list_sum (map g l) + list_sum (map g' l).
Proof. induction l as [|a l IH]; simpl; [reflexivity|]. rewrite IH. lia. Qed.

Lemma list_sum_map_const (A : Type) (c : nat) (l : list A) :
  list_sum (map (fun _ => c) l) = c * length l.
Proof. induction l as [|a l IH]; simpl; [lia|]. rewrite IH. lia. Qed.

Lemma map_add_seq n k b : map (fun i => i + n) (seq b k) = seq (b + n) k.
Proof. revert b. induction k as [|k IH]; intros b; simpl; [reflexivity|]. rewrite IH. reflexivity. Qed.

Lemma list_sum_double (g : nat -> nat) (n : nat) :
  list_sum (map g (seq 0 (2 * n))) =
  list_sum (map g (seq 0 n)) + list_sum (map (fun i => g (i + n)) (seq 0 n)).
Proof.
  replace (2 * n) with (n + n) by lia.
  rewrite seq_app, map_app, list_sum_app. f_equal.
  rewrite <- (map_add_seq n n 0). rewrite map_map. reflexivity.
Qed.

Lemma length_flat_map (A B : Type) (g : A -> list B) (l : list A) :
  length (flat_map g l) = list_sum (map (fun x => length (g x)) l).
Proof. induction l as [|a l IH]; simpl; [reflexivity|]. rewrite app_length, IH. reflexivity. Qed.

Lemma list_sum_nth_seq (A : Type) (w : A -> nat) (d : A) (t : list A) :
  list_sum (map (fun i => w (nth i t d)) (seq 0 (length t))) = list_sum (map w t).
Proof.
  induction t as [|a t IH]; simpl; [reflexivity|].
  rewrite <- seq_shift, map_map. simpl. rewrite IH. reflexivity.
Qed.

(* ====================================================================== *)
(* Well-formed forests                                                     *)
(* ====================================================================== *)
Lemma table_of_nil j : table_of [] j = [].
Proof. unfold table_of. destruct j; reflexivity. Qed.

Lemma table_of_cons_S t f j : table_of (t :: f) (S j) = table_of f j.
Proof. reflexivity. Qed.

Lemma tlen_of_cons_S t f j : tlen_of (t :: f) (S j) = tlen_of f j.
Proof. reflexivity. Qed.

Lemma tlen_of_ge f j : length f <= j -> tlen_of f j = 0.
Proof. intros H. unfold tlen_of, table_of. rewrite nth_overflow by exact H. reflexivity. Qed.

Lemma wf_double : forall f j, wf_forest f = true -> S j < length f ->
  tlen_of f (S j) = 2 * tlen_of f j /\ 0 < tlen_of f j.
Proof.
  induction f as [|t f IH]; intros j Hwf Hj; simpl in Hj; [lia|].
  destruct f as [|t' rest]; simpl in Hj; [lia|].
  simpl in Hwf. apply andb_prop in Hwf as [Hwf Hrest]. apply andb_prop in Hwf as [Hlen Hpos].
  destruct j as [|j].
  - unfold tlen_of, table_of. simpl. apply Nat.eqb_eq in Hlen. apply Nat.ltb_lt in Hpos. lia.
  - rewrite !tlen_of_cons_S. apply IH; [exact Hrest | simpl; lia].
Qed.

Lemma wf_moved : forall f j i, wf_forest f = true -> i < tlen_of f j ->
  nth i (table_of f j) BNull = BMoved -> S j < length f.
Proof.
  induction f as [|t f IH]; intros j i Hwf Hi Hm.
  - rewrite tlen_of_ge in Hi by (simpl; lia). lia.
  - destruct f as [|t' rest].
    + destruct j as [|j].
      * exfalso. unfold tlen_of, table_of in Hi, Hm. simpl in Hi, Hm. simpl in Hwf.
        rewrite forallb_forall in Hwf. specialize (Hwf (nth i t BNull) (nth_In _ _ Hi)).
        rewrite Hm in Hwf. discriminate.
      * rewrite tlen_of_cons_S, tlen_of_ge in Hi by (simpl; lia). lia.
    + destruct j as [|j]; [simpl; lia|].
      simpl in Hwf. apply andb_prop in Hwf as [_ Hrest].
      rewrite tlen_of_cons_S in Hi. rewrite table_of_cons_S in Hm.
      specialize (IH j i Hrest Hi Hm). simpl in IH |- *. lia.
Qed.

(* ====================================================================== *)
(* Counting over the cone of bins below table j (each bin reachable at most once)           *)
(* ====================================================================== *)
Section Cone.
  Variable f : forest.
  Hypothesis Hwf : wf_forest f = true.
  Variable h : nat -> nat -> nat -> nat.      (* depth, table, index *)
  Variable w : bin -> nat.
  Hypothesis h0 : forall j i, h 0 j i = 0.
  Hypothesis h_moved : forall d j i,
    h (S d) j i <= w (nth i (table_of f j) BNull) + h d (S j) i + h d (S j) (i + tlen_of f j).
  Hypothesis h_plain : forall d j i, nth i (table_of f j) BNull <> BMoved ->
    h (S d) j i <= w (nth i (table_of f j) BNull).

  Definition tot (l : list (list bin)) : nat :=
    fold_right (fun t acc => list_sum (map w t) + acc) 0 l.

  Lemma tot_skipn : forall (g : forest) j, tot (skipn j g) = list_sum (map w (table_of g j)) + tot (skipn (S j) g).
  Proof.
    induction g as [|t g IH]; intros j.
    - rewrite !skipn_nil, table_of_nil. reflexivity.
    - destruct j as [|j]; [reflexivity|].
      rewrite table_of_cons_S. change (skipn (S (S j)) (t :: g)) with (skipn (S j) g).
      change (skipn (S j) (t :: g)) with (skipn j g). apply IH.
  Qed.

  Lemma cone_sum : forall d j,
    list_sum (map (h d j) (seq 0 (tlen_of f j))) <= tot (skipn j f).
  Proof.
    induction d as [|d IH]; intros j.
    - rewrite (map_ext _ (fun _ => 0)) by (intros; apply h0). rewrite list_sum_map_const. lia.
    - rewrite tot_skipn.
      pose proof (list_sum_nth_seq _ w BNull (table_of f j)) as Hw. fold (tlen_of f j) in Hw.
      destruct (Nat.lt_ge_cases (S j) (length f)) as [Hlt|Hge].
      + destruct (wf_double f j Hwf Hlt) as [Hdbl _].
        specialize (IH (S j)). rewrite Hdbl, list_sum_double in IH.
        etransitivity; [apply list_sum_map_le; intros i _; apply h_moved|].
        rewrite !list_sum_map_add. rewrite Hw. lia.
      + etransitivity; [apply list_sum_map_le with (g' := fun i => w (nth i (table_of f j) BNull))|].
        * intros i Hi. apply in_seq in Hi. apply h_plain. intros Hm.
          pose proof (wf_moved f j i Hwf ltac:(lia) Hm). lia.
        * rewrite Hw. lia.
  Qed.

  Lemma cone_total : forall d, list_sum (map (h d 0) (seq 0 (tlen_of f 0))) <= tot f.
  Proof. intros d. apply (cone_sum d 0). Qed.
End Cone.

(* ====================================================================== *)
(* The iterator                                                            *)
(* ====================================================================== *)
Definition set_rest (it : titer) (r : list node) : titer :=
  mkI (i_tab it) (i_stack it) r (i_index it) (i_base_index it) (i_base_limit it) (i_base_size it).

(* number of inner-loop iterations spent on the sub-traversal below bin i of table j *)
Fixpoint steps (d : nat) (f : forest) (j i : nat) : nat :=
  match d with
  | O => 0
  | S d' =>
      match nth i (table_of f j) BNull with
      | BMoved => S (steps d' f (S j) i + steps d' f (S j) (i + tlen_of f j))
      | _ => 1
      end
  end.

(* one unfolding of [advance] *)
Lemma advance_eq fuel f it :
  advance fuel f it =
  match i_rest it with
  | x :: rest => (Some x, set_rest it rest)
  | [] =>
      match fuel with
      | O => (None, it)
      | S fuel' =>
          match i_tab it with
          | None => (None, it)
          | Some t =>
              let n := tlen_of f t in
              if Nat.leb (i_base_limit it) (i_base_index it) || Nat.leb n (i_index it) then (None, it)
              else
                let i := i_index it in
                match nth i (table_of f t) BNull with
                | BMoved =>
                    advance fuel' f (mkI (Some (S t)) (mkF t n i :: i_stack it) [] i
                                         (i_base_index it) (i_base_limit it) (i_base_size it))
                | b =>
                    let it' := after_bin it i n in
                    match bin_list b with
                    | x :: rest => (Some x, set_rest it' rest)
                    | [] => advance fuel' f it'
                    end
                end
          end
      end
  end.
Proof. destruct fuel; reflexivity. Qed.

Lemma advance_rest fuel f it x r :
  i_rest it = x :: r -> advance fuel f it = (Some x, set_rest it r).
Proof. intros H. rewrite advance_eq, H. reflexivity. Qed.

Lemma advance_done fuel f it :
  i_rest it = [] -> i_base_limit it <= i_base_index it -> advance fuel f it = (None, it).
Proof.
  intros Hr Hb. rewrite advance_eq, Hr. destruct fuel as [|fuel]; [reflexivity|].
  destruct (i_tab it) as [t|]; [|reflexivity].
  cbv zeta. destruct (Nat.leb_spec (i_base_limit it) (i_base_index it)) as [_|Hlt]; [reflexivity|lia].
Qed.

Section Forest.
  Variable f : forest.
  Hypothesis Hwf : wf_forest f = true.

  Lemma adv_moved fuel j st i b lim bs :
    i < tlen_of f j -> b < lim -> nth i (table_of f j) BNull = BMoved ->
    advance (S fuel) f (mkI (Some j) st [] i b lim bs) =
    advance fuel f (mkI (Some (S j)) (mkF j (tlen_of f j) i :: st) [] i b lim bs).
  Proof.
    intros Hi Hb Hm. rewrite advance_eq. cbn [i_rest i_tab i_index i_base_index i_base_limit i_base_size i_stack].
    cbv zeta.
    destruct (Nat.leb_spec lim b) as [Hle|_]; [lia|].
    destruct (Nat.leb_spec (tlen_of f j) i) as [Hle|_]; [lia|].
    cbn [orb]. rewrite Hm. reflexivity.
  Qed.

  Lemma adv_plain fuel j st i b lim bs :
    i < tlen_of f j -> b < lim -> nth i (table_of f j) BNull <> BMoved ->
    advance (S fuel) f (mkI (Some j) st [] i b lim bs) =
    match bin_list (nth i (table_of f j) BNull) with
    | x :: r => (Some x, set_rest (after_bin (mkI (Some j) st [] i b lim bs) i (tlen_of f j)) r)
    | [] => advance fuel f (after_bin (mkI (Some j) st [] i b lim bs) i (tlen_of f j))
    end.
  Proof.
    intros Hi Hb Hm. rewrite advance_eq. cbn [i_rest i_tab i_index i_base_index i_base_limit i_base_size i_stack].
    cbv zeta.
    destruct (Nat.leb_spec lim b) as [Hle|_]; [lia|].
    destruct (Nat.leb_spec (tlen_of f j) i) as [Hle|_]; [lia|].
    cbn [orb]. destruct (nth i (table_of f j) BNull); try congruence; reflexivity.
  Qed.

  Lemma after_low j n m i st b lim bs :
    i < n -> m = 2 * n ->
    after_bin (mkI (Some (S j)) (mkF j n i :: st) [] i b lim bs) i m =
    mkI (Some (S j)) (mkF j n i :: st) [] (i + n) b lim bs.
  Proof.
    intros Hi Hm. unfold after_bin. cbn [i_stack length recover i_index f_len i_tab i_rest i_base_index i_base_limit i_base_size].
    destruct (Nat.ltb_spec (i + n) m) as [_|Hge]; [reflexivity|lia].
  Qed.

  Lemma after_high j n m i st b lim bs :
    m = 2 * n ->
    after_bin (mkI (Some (S j)) (mkF j n i :: st) [] (i + n) b lim bs) (i + n) m =
    after_bin (mkI (Some j) st [] i b lim bs) i n.
  Proof.
    intros Hm. unfold after_bin.
    cbn [i_stack length recover i_index f_len f_tab f_idx i_tab i_rest i_base_index i_base_limit i_base_size].
    destruct (Nat.ltb_spec (i + n + n) m) as [Hlt|_]; [lia|].
    destruct st as [|s st']; reflexivity.
  Qed.

  (* ---------- fuel adequacy as a stable-result predicate ---------- *)
  Definition ok (fuel : nat) (it : titer) : Prop :=
    forall fuel', fuel <= fuel' -> advance fuel' f it = advance fuel f it.

  Lemma ok_mono fuel fuel' it : ok fuel it -> fuel <= fuel' -> ok fuel' it.
  Proof.
    intros Hok Hle fuel'' Hle'. rewrite (Hok fuel'') by lia. symmetry. apply Hok. exact Hle.
  Qed.

  Lemma ok_done fuel it : i_rest it = [] -> i_base_limit it <= i_base_index it -> ok fuel it.
  Proof. intros Hr Hb fuel' _. rewrite !advance_done by assumption. reflexivity. Qed.

  Lemma ok_rest fuel it x r : i_rest it = x :: r -> ok fuel it.
  Proof. intros Hr fuel' _. rewrite !(advance_rest _ _ _ _ _ Hr). reflexivity. Qed.

  Lemma steps_plain d j i : nth i (table_of f j) BNull <> BMoved -> steps (S d) f j i = 1.
  Proof. intros Hm. simpl. destruct (nth i (table_of f j) BNull); try congruence; reflexivity. Qed.

  Lemma steps_moved d j i : nth i (table_of f j) BNull = BMoved ->
    steps (S d) f j i = S (steps d f (S j) i + steps d f (S j) (i + tlen_of f j)).
  Proof. intros Hm. simpl. rewrite Hm. reflexivity. Qed.

  Lemma reach_plain d j i : nth i (table_of f j) BNull <> BMoved ->
    reach_bin (S d) f j i = bin_list (nth i (table_of f j) BNull).
  Proof. intros Hm. simpl. destruct (nth i (table_of f j) BNull); try congruence; reflexivity. Qed.

  Lemma reach_moved d j i : nth i (table_of f j) BNull = BMoved ->
    reach_bin (S d) f j i = reach_bin d f (S j) i ++ reach_bin d f (S j) (i + tlen_of f j).
  Proof. intros Hm. simpl. rewrite Hm. reflexivity. Qed.

  Lemma bin_eq_dec_moved (b : bin) : {b = BMoved} + {b <> BMoved}.
  Proof. destruct b; [right|right|right|left]; congruence. Qed.

  (* the sub-traversal below bin i of table j needs [steps] iterations, after which the iterator
     is in the state [after_bin] computes: fuel adequate for that state (minus the steps spent)
     is adequate here *)
  Lemma ok_sub : forall d j i st b lim bs fuel,
    length f <= j + d -> i < tlen_of f j -> b < lim ->
    steps d f j i <= fuel ->
    ok (fuel - steps d f j i) (after_bin (mkI (Some j) st [] i b lim bs) i (tlen_of f j)) ->
    ok fuel (mkI (Some j) st [] i b lim bs).
  Proof.
    induction d as [|d IH]; intros j i st b lim bs fuel Hd Hi Hb Hs Hok.
    - rewrite tlen_of_ge in Hi by lia. lia.
    - destruct (bin_eq_dec_moved (nth i (table_of f j) BNull)) as [Hm|Hm].
      + rewrite (steps_moved _ _ _ Hm) in Hs, Hok.
        pose proof (wf_moved f j i Hwf Hi Hm) as Hlt.
        destruct (wf_double f j Hwf Hlt) as [Hdbl _].
        set (sl := steps d f (S j) i) in *. set (sh := steps d f (S j) (i + tlen_of f j)) in *.
        assert (Hokh : ok (fuel - 1 - sl) (mkI (Some (S j)) (mkF j (tlen_of f j) i :: st) [] (i + tlen_of f j) b lim bs)).
        { apply IH; [lia | lia | exact Hb | fold sh; lia |].
          fold sh. rewrite (after_high j (tlen_of f j) _ i st b lim bs Hdbl).
          replace (fuel - 1 - sl - sh) with (fuel - S (sl + sh)) by lia. exact Hok. }
        assert (Hokp : ok (fuel - 1) (mkI (Some (S j)) (mkF j (tlen_of f j) i :: st) [] i b lim bs)).
        { apply IH; [lia | lia | exact Hb | fold sl; lia |].
          fold sl. rewrite (after_low j (tlen_of f j) _ i st b lim bs Hi Hdbl). exact Hokh. }
        intros fuel' Hle.
        destruct fuel as [|fuel]; [lia|]. destruct fuel' as [|fuel']; [lia|].
        rewrite !(adv_moved _ _ _ _ _ _ _ Hi Hb Hm).
        replace (S fuel - 1) with fuel in Hokp by lia. apply Hokp. lia.
      + rewrite (steps_plain _ _ _ Hm) in Hs, Hok.
        intros fuel' Hle.
        destruct fuel as [|fuel]; [lia|]. destruct fuel' as [|fuel']; [lia|].
        rewrite !(adv_plain _ _ _ _ _ _ _ Hi Hb Hm).
        destruct (bin_list (nth i (table_of f j) BNull)) as [|x r]; [|reflexivity].
        replace (S fuel - 1) with fuel in Hok by lia. apply Hok. lia.
  Qed.

  (* ---------- draining ---------- *)
  Lemma drain_adv_eq n F it it' :
    advance F f it = advance F f it' -> drain n F f it = drain n F f it'.
  Proof. intros H. destruct n as [|n]; simpl; [reflexivity|]. rewrite H. reflexivity. Qed.

  Lemma set_rest_id it : set_rest it (i_rest it) = it.
  Proof. destruct it; reflexivity. Qed.

  Lemma drain_rest : forall r it c F,
    drain (length r + c) F f (set_rest it r) = r ++ drain c F f (set_rest it []).
  Proof.
    induction r as [|x r IH]; intros it c F; [reflexivity|].
    cbn [length Nat.add drain]. rewrite (advance_rest F f (set_rest it (x :: r)) x r eq_refl).
    cbn [app]. f_equal. apply (IH it).
  Qed.

  Lemma after_bin_rest it i n : i_rest (after_bin it i n) = i_rest it.
  Proof.
    unfold after_bin. destruct (i_stack it) as [|s st] eqn:Hst.
    - destruct (Nat.leb n (i + i_base_size it)); reflexivity.
    - rewrite <- Hst. clear Hst s st. generalize (S (length (i_stack it))) as k. intros k. revert it n.
      induction k as [|k IH]; intros it n; [reflexivity|].
      simpl. destruct (i_stack it) as [|s st].
      + destruct (Nat.leb n (i_index it + i_base_size it)); reflexivity.
      + destruct (Nat.ltb (i_index it + f_len s) n); [reflexivity|]. rewrite IH. reflexivity.
  Qed.

  (* the sub-traversal below bin i of table j yields exactly reach_bin, then continues from the
     state after_bin computes *)
  Lemma drain_sub : forall d j i st b lim bs F c,
    length f <= j + d -> i < tlen_of f j -> b < lim ->
    steps d f j i <= F ->
    ok (F - steps d f j i) (after_bin (mkI (Some j) st [] i b lim bs) i (tlen_of f j)) ->
    drain (length (reach_bin d f j i) + c) F f (mkI (Some j) st [] i b lim bs) =
    reach_bin d f j i ++ drain c F f (after_bin (mkI (Some j) st [] i b lim bs) i (tlen_of f j)).
  Proof.
    induction d as [|d IH]; intros j i st b lim bs F c Hd Hi Hb Hs Hok.
    - rewrite tlen_of_ge in Hi by lia. lia.
    - destruct (bin_eq_dec_moved (nth i (table_of f j) BNull)) as [Hm|Hm].
      + rewrite (steps_moved _ _ _ Hm) in Hs, Hok. rewrite (reach_moved _ _ _ Hm).
        pose proof (wf_moved f j i Hwf Hi Hm) as Hlt.
        destruct (wf_double f j Hwf Hlt) as [Hdbl _].
        set (sl := steps d f (S j) i) in *. set (sh := steps d f (S j) (i + tlen_of f j)) in *.
        set (itp := mkI (Some (S j)) (mkF j (tlen_of f j) i :: st) [] i b lim bs).
        set (ith := mkI (Some (S j)) (mkF j (tlen_of f j) i :: st) [] (i + tlen_of f j) b lim bs).
        assert (Hokh : ok (F - 1 - sl) ith).
        { apply ok_sub with (d := d); [lia | lia | exact Hb | fold sh; lia |].
          fold sh. rewrite (after_high j (tlen_of f j) _ i st b lim bs Hdbl).
          replace (F - 1 - sl - sh) with (F - S (sl + sh)) by lia. exact Hok. }
        assert (Hokp : ok (F - 1) itp).
        { apply ok_sub with (d := d); [lia | lia | exact Hb | fold sl; lia |].
          fold sl. rewrite (after_low j (tlen_of f j) _ i st b lim bs Hi Hdbl). exact Hokh. }
        rewrite app_length, <- Nat.add_assoc.
        rewrite (drain_adv_eq _ F _ itp).
        2:{ destruct F as [|F]; [lia|]. rewrite (adv_moved _ _ _ _ _ _ _ Hi Hb Hm).
            replace (S F - 1) with F in Hokp by lia. symmetry. apply Hokp. lia. }
        unfold itp. rewrite IH; [| lia | lia | exact Hb | fold sl; lia |].
        2:{ fold sl. rewrite (after_low j (tlen_of f j) _ i st b lim bs Hi Hdbl).
            apply ok_mono with (fuel := F - 1 - sl); [exact Hokh | lia]. }
        rewrite (after_low j (tlen_of f j) _ i st b lim bs Hi Hdbl).
        rewrite IH; [| lia | lia | exact Hb | fold sh; lia |].
        2:{ fold sh. rewrite (after_high j (tlen_of f j) _ i st b lim bs Hdbl).
            apply ok_mono with (fuel := F - S (sl + sh)); [exact Hok | lia]. }
        rewrite (after_high j (tlen_of f j) _ i st b lim bs Hdbl).
        rewrite app_assoc. reflexivity.
      + rewrite (steps_plain _ _ _ Hm) in Hs, Hok. rewrite (reach_plain _ _ _ Hm).
        set (a := after_bin (mkI (Some j) st [] i b lim bs) i (tlen_of f j)) in *.
        assert (Ha : set_rest a [] = a).
        { rewrite <- (set_rest_id a) at 2. unfold a. rewrite after_bin_rest. reflexivity. }
        destruct F as [|F]; [lia|].
        destruct (bin_list (nth i (table_of f j) BNull)) as [|x r] eqn:Hbl.
        * cbn [length Nat.add app]. apply drain_adv_eq.
          rewrite (adv_plain _ _ _ _ _ _ _ Hi Hb Hm), Hbl. fold a.
          replace (S F - 1) with F in Hok by lia. symmetry. apply Hok. lia.
        * cbn [length Nat.add drain].
          rewrite (adv_plain _ _ _ _ _ _ _ Hi Hb Hm), Hbl. fold a.
          cbn [app]. f_equal. rewrite drain_rest, Ha. reflexivity.
  Qed.
End Forest.

(* ====================================================================== *)
(* Assembling table 0's indices                                            *)
(* ====================================================================== *)
Definition base_it (n b : nat) : titer := mkI (Some 0) [] [] b b n n.

Lemma after_bin_base n b : after_bin (base_it n b) b n = base_it n (S b).
Proof.
  unfold after_bin, base_it. cbn [i_stack i_base_size i_tab i_rest i_base_index i_base_limit].
  destruct (Nat.leb_spec n (b + n)) as [_|Hlt]; [reflexivity|lia].
Qed.

Lemma drain_exhausted f c F n : drain c F f (base_it n n) = [].
Proof.
  destruct c as [|c]; [reflexivity|]. simpl.
  rewrite advance_done; [reflexivity | reflexivity | simpl; lia].
Qed.

Section Top.
  Variable f : forest.
  Hypothesis Hwf : wf_forest f = true.
  Variable D : nat.
  Hypothesis HD : length f <= D.
  Let n0 := tlen_of f 0.

  Definition steps_from (b k : nat) : nat := list_sum (map (steps D f 0) (seq b k)).

  Lemma steps_from_S b k : steps_from b (S k) = steps D f 0 b + steps_from (S b) k.
  Proof. reflexivity. Qed.

  Lemma ok_base : forall k b fuel, b + k = n0 -> steps_from b k <= fuel -> ok f fuel (base_it n0 b).
  Proof.
    induction k as [|k IH]; intros b fuel Hbk Hs.
    - apply ok_done; [reflexivity|]. simpl. lia.
    - rewrite steps_from_S in Hs.
      unfold base_it. apply (ok_sub f Hwf D); [lia | fold n0; lia | lia | lia |].
      fold (base_it n0 b). fold n0. rewrite after_bin_base. apply IH; lia.
  Qed.

  Lemma drain_base : forall k b F c, b + k = n0 -> steps_from b k <= F ->
    drain (length (flat_map (reach_bin D f 0) (seq b k)) + c) F f (base_it n0 b) =
    flat_map (reach_bin D f 0) (seq b k) ++ drain c F f (base_it n0 (b + k)).
  Proof.
    induction k as [|k IH]; intros b F c Hbk Hs.
    - rewrite Nat.add_0_r. reflexivity.
    - rewrite steps_from_S in Hs.
      cbn [seq flat_map]. rewrite app_length, <- Nat.add_assoc.
      unfold base_it at 1. rewrite (drain_sub f Hwf D); [| lia | fold n0; lia | lia | lia |].
      2:{ fold (base_it n0 b). fold n0. rewrite after_bin_base. apply (ok_base k); lia. }
      fold (base_it n0 b). fold n0. rewrite after_bin_base.
      rewrite IH by lia. rewrite <- app_assoc. replace (S b + k) with (b + S k) by lia. reflexivity.
  Qed.

End Top.

(* bounds: the total number of loop iterations and of yielded nodes *)
Lemma steps_total f D : wf_forest f = true ->
  list_sum (map (steps D f 0) (seq 0 (tlen_of f 0))) <= total_bins f.
Proof.
  intros Hwf.
  pose proof (cone_total f Hwf (fun d j i => steps d f j i) (fun _ => 1)) as H.
  assert (Htot : forall l, tot (fun _ => 1) l = total_bins l).
  { induction l as [|t l IHl]; [reflexivity|]. unfold tot, total_bins in *. cbn [fold_right].
    rewrite IHl, list_sum_map_const. lia. }
  rewrite <- Htot. apply H.
  - reflexivity.
  - intros d j i. simpl. destruct (nth i (table_of f j) BNull); lia.
  - intros d j i Hm. simpl. destruct (nth i (table_of f j) BNull); try congruence; lia.
Qed.

Lemma list_sum_map_length (A B : Type) (g : A -> list B) (l : list A) :
  list_sum (map (fun x => length (g x)) l) = length (flat_map g l).
Proof. symmetry. apply length_flat_map. Qed.

Lemma contents_length f : wf_forest f = true -> length (contents f) <= total_nodes f.
Proof.
  intros Hwf. unfold contents. rewrite length_flat_map.
  pose proof (cone_total f Hwf (fun d j i => length (reach_bin d f j i)) (fun b => length (bin_list b))) as H.
  assert (Htot : forall l, tot (fun b => length (bin_list b)) l = total_nodes l).
  { induction l as [|t l IHl]; [reflexivity|]. unfold tot, total_nodes in *. cbn [fold_right].
    rewrite IHl, list_sum_map_length. reflexivity. }
  rewrite <- Htot. apply H.
  - reflexivity.
  - intros d j i. simpl. destruct (nth i (table_of f j) BNull); simpl; try lia.
    rewrite app_length. lia.
  - intros d j i Hm. simpl. destruct (nth i (table_of f j) BNull); try congruence; simpl; lia.
Qed.

(* ====================================================================== *)
(* 1. The iterator yields exactly the contents, in order                   *)
(* ====================================================================== *)
Lemma new_iter_base t rest : new_iter (t :: rest) = base_it (tlen_of (t :: rest) 0) 0.
Proof. reflexivity. Qed.

(* general form: any per-call fuel >= trav_fuel f and any number of calls > length (contents f) *)
Theorem drain_exact : forall f F c, wf_forest f = true ->
  trav_fuel f <= F ->
  drain (length (contents f) + c) F f (new_iter f) = contents f.
Proof.
  intros f F c Hwf HF. destruct f as [|t rest].
  - destruct c as [|c]; [reflexivity|].
    change (drain (S c) F [] (new_iter []) = []). cbn [drain].
    rewrite advance_done; [reflexivity | reflexivity | simpl; lia].
  - rewrite new_iter_base. unfold contents.
    set (n0 := tlen_of (t :: rest) 0).
    pose proof (steps_total (t :: rest) (S (length (t :: rest))) Hwf) as Hst. fold n0 in Hst.
    rewrite (drain_base (t :: rest) Hwf (S (length (t :: rest)))); [| lia | fold n0; lia |].
    + fold n0. cbn [Nat.add]. rewrite drain_exhausted, app_nil_r. reflexivity.
    + unfold steps_from. fold n0. unfold trav_fuel in HF. lia.
Qed.

Theorem iterate_exact : forall f, wf_forest f = true -> iterate f = contents f.
Proof.
  intros f Hwf. unfold iterate.
  pose proof (contents_length f Hwf) as Hlen.
  replace (S (total_nodes f)) with (length (contents f) + (S (total_nodes f) - length (contents f))) by lia.
  apply drain_exact; [exact Hwf | lia].
Qed.

(* ====================================================================== *)
(* 3. Corollaries                                                          *)
(* ====================================================================== *)
Theorem iterate_perm : forall f, wf_forest f = true -> Permutation (iterate f) (contents f).
Proof. intros f Hwf. rewrite (iterate_exact f Hwf). apply Permutation_refl. Qed.

Theorem iterate_no_duplicates : forall f, wf_forest f = true ->
  NoDup (map nk (contents f)) -> NoDup (map nk (iterate f)).
Proof. intros f Hwf H. rewrite (iterate_exact f Hwf). exact H. Qed.

Theorem iterate_all : forall f x, wf_forest f = true -> (In x (contents f) <-> In x (iterate f)).
Proof. intros f x Hwf. rewrite (iterate_exact f Hwf). reflexivity. Qed.

(* ====================================================================== *)
(* 2. Fuel adequacy and termination                                        *)
(* ====================================================================== *)
(* a yielded element never depends on the fuel *)
Theorem advance_fuel_mono : forall fuel f it x it',
  advance fuel f it = (Some x, it') ->
  forall fuel', fuel <= fuel' -> advance fuel' f it = (Some x, it').
Proof.
  induction fuel as [|fuel IH]; intros f it x it' H fuel' Hle.
  - revert H. rewrite (advance_eq 0), (advance_eq fuel').
    destruct (i_rest it); [discriminate | auto].
  - destruct fuel' as [|fuel']; [lia|].
    revert H. rewrite (advance_eq (S fuel)), (advance_eq (S fuel')).
    destruct (i_rest it); [|auto]. destruct (i_tab it) as [t|]; [|auto]. cbv zeta.
    destruct (_ || _); [auto|].
    destruct (nth _ _ _) as [|l|tb|]; cbn [bin_list];
      try (destruct l); try (destruct (tord tb)); intros H;
      first [exact H | apply (IH _ _ _ _ H); lia].
Qed.

(* the whole result is independent of the fuel and of the number of calls beyond the bounds
   [iterate] uses *)
Theorem drain_fuel_calls_irrelevant : forall f F calls, wf_forest f = true ->
  trav_fuel f <= F -> S (total_nodes f) <= calls ->
  drain calls F f (new_iter f) = iterate f.
Proof.
  intros f F calls Hwf HF Hc. rewrite (iterate_exact f Hwf).
  pose proof (contents_length f Hwf) as Hlen.
  replace calls with (length (contents f) + (calls - length (contents f))) by lia.
  apply drain_exact; assumption.
Qed.

(* states the iteration passes through when every call is given fuel F *)
Inductive reachable (f : forest) (F : nat) : titer -> Prop :=
| R_new : reachable f F (new_iter f)
| R_next it x it' : reachable f F it -> advance F f it = (Some x, it') -> reachable f F it'.

Definition exhausted (it : titer) : Prop := i_rest it = [] /\ i_base_limit it <= i_base_index it.

Lemma new_iter_cases f :
  new_iter f = mkI None [] [] 0 0 0 0 \/ new_iter f = base_it (tlen_of f 0) 0.
Proof. destruct f as [|t rest]; [left | right]; reflexivity. Qed.

Section Adequacy.
  Variable f : forest.
  Hypothesis Hwf : wf_forest f = true.

  (* F is adequate at [it]: more fuel changes nothing, and a None is a genuine end *)
  Definition good (F : nat) (it : titer) : Prop :=
    ok f F it /\ (forall it', advance F f it = (None, it') -> exhausted it').

  (* ... and stays adequate for the next n calls *)
  Fixpoint okN (n : nat) (F : nat) (it : titer) : Prop :=
    good F it /\
    match n with
    | O => True
    | S n' => forall x it', advance F f it = (Some x, it') -> okN n' F it'
    end.

  Lemma okN_good n F it : okN n F it -> good F it.
  Proof. destruct n; intros [H _]; exact H. Qed.

  Lemma okN_le : forall n m F it, okN n F it -> m <= n -> okN m F it.
  Proof.
    induction n as [|n IH]; intros m F it H Hle.
    - replace m with 0 by lia. exact H.
    - destruct m as [|m]; [split; [exact (okN_good _ _ _ H) | exact I]|].
      destruct H as [Hg Hn]. split; [exact Hg|]. intros x it' Ha. apply (IH m F it' (Hn x it' Ha)). lia.
  Qed.

  Lemma okN_adv_eq n F it it' :
    ok f F it -> advance F f it = advance F f it' -> okN n F it' -> okN n F it.
  Proof.
    intros Hok He H. destruct n as [|n]; destruct H as [[_ Hn] Hs].
    - split; [split; [exact Hok | rewrite He; exact Hn] | exact I].
    - split; [split; [exact Hok | rewrite He; exact Hn] |]. rewrite He. exact Hs.
  Qed.

  Lemma okN_rest : forall r it c F,
    okN c F (set_rest it []) -> okN (length r + c) F (set_rest it r).
  Proof.
    induction r as [|x r IH]; intros it c F H; [exact H|].
    cbn [length Nat.add okN]. unfold good.
    rewrite (advance_rest F f (set_rest it (x :: r)) x r eq_refl).
    split; [split|].
    - apply (ok_rest f F _ x r). reflexivity.
    - intros it' He. discriminate.
    - intros y it' He. injection He as _ <-. apply (IH it). exact H.
  Qed.

  Lemma okN_sub : forall d j i st b lim bs F c,
    length f <= j + d -> i < tlen_of f j -> b < lim ->
    steps d f j i <= F ->
    ok f (F - steps d f j i) (after_bin (mkI (Some j) st [] i b lim bs) i (tlen_of f j)) ->
    okN c F (after_bin (mkI (Some j) st [] i b lim bs) i (tlen_of f j)) ->
    okN (length (reach_bin d f j i) + c) F (mkI (Some j) st [] i b lim bs).
  Proof.
    induction d as [|d IH]; intros j i st b lim bs F c Hd Hi Hb Hs Hok HN.
    - rewrite tlen_of_ge in Hi by lia. lia.
    - assert (HokF : ok f F (mkI (Some j) st [] i b lim bs)).
      { apply (ok_sub f Hwf (S d)); try assumption. }
      destruct (bin_eq_dec_moved (nth i (table_of f j) BNull)) as [Hm|Hm].
      + rewrite (steps_moved _ _ _ _ Hm) in Hs, Hok. rewrite (reach_moved _ _ _ _ Hm).
        pose proof (wf_moved f j i Hwf Hi Hm) as Hlt.
        destruct (wf_double f j Hwf Hlt) as [Hdbl _].
        set (sl := steps d f (S j) i) in *. set (sh := steps d f (S j) (i + tlen_of f j)) in *.
        set (itp := mkI (Some (S j)) (mkF j (tlen_of f j) i :: st) [] i b lim bs).
        set (ith := mkI (Some (S j)) (mkF j (tlen_of f j) i :: st) [] (i + tlen_of f j) b lim bs).
        assert (Hokh : ok f (F - 1 - sl) ith).
        { apply (ok_sub f Hwf d); [lia | lia | exact Hb | fold sh; lia |].
          fold sh. rewrite (after_high j (tlen_of f j) _ i st b lim bs Hdbl).
          replace (F - 1 - sl - sh) with (F - S (sl + sh)) by lia. exact Hok. }
        assert (Hokp : ok f (F - 1) itp).
        { apply (ok_sub f Hwf d); [lia | lia | exact Hb | fold sl; lia |].
          fold sl. rewrite (after_low j (tlen_of f j) _ i st b lim bs Hi Hdbl). exact Hokh. }
        rewrite app_length, <- Nat.add_assoc.
        apply (okN_adv_eq _ F _ itp); [exact HokF | |].
        { destruct F as [|F]; [lia|]. rewrite (adv_moved f _ _ _ _ _ _ _ Hi Hb Hm).
          replace (S F - 1) with F in Hokp by lia. symmetry. apply Hokp. lia. }
        unfold itp. apply IH; [lia | lia | exact Hb | fold sl; lia | |].
        { fold sl. rewrite (after_low j (tlen_of f j) _ i st b lim bs Hi Hdbl).
          apply ok_mono with (fuel := F - 1 - sl); [exact Hokh | lia]. }
        rewrite (after_low j (tlen_of f j) _ i st b lim bs Hi Hdbl).
        apply IH; [lia | lia | exact Hb | fold sh; lia | |].
        { fold sh. rewrite (after_high j (tlen_of f j) _ i st b lim bs Hdbl).
          apply ok_mono with (fuel := F - S (sl + sh)); [exact Hok | lia]. }
        rewrite (after_high j (tlen_of f j) _ i st b lim bs Hdbl). exact HN.
      + rewrite (steps_plain _ _ _ _ Hm) in Hs, Hok. rewrite (reach_plain _ _ _ _ Hm).
        set (a := after_bin (mkI (Some j) st [] i b lim bs) i (tlen_of f j)) in *.
        assert (Ha : set_rest a [] = a).
        { rewrite <- (set_rest_id a) at 2. unfold a. rewrite after_bin_rest. reflexivity. }
        destruct F as [|F]; [lia|].
        destruct (bin_list (nth i (table_of f j) BNull)) as [|x r] eqn:Hbl.
        * cbn [length Nat.add]. apply (okN_adv_eq _ _ _ a); [exact HokF | | exact HN].
          rewrite (adv_plain f _ _ _ _ _ _ _ Hi Hb Hm), Hbl. fold a.
          replace (S F - 1) with F in Hok by lia. symmetry. apply Hok. lia.
        * cbn [length Nat.add okN]. unfold good.
          rewrite (adv_plain f _ _ _ _ _ _ _ Hi Hb Hm), Hbl. fold a.
          split; [split; [exact HokF | intros it' He; discriminate]|].
          intros y it' He. injection He as _ <-. apply okN_rest. rewrite Ha. exact HN.
  Qed.

  Lemma okN_exhausted c F it :
    i_rest it = [] -> i_base_limit it <= i_base_index it -> okN c F it.
  Proof.
    intros Hr Hb.
    assert (Hadv : advance F f it = (None, it)) by (apply advance_done; assumption).
    assert (Hg : good F it).
    { split; [apply ok_done; assumption|].
      intros it' He. rewrite Hadv in He. injection He as <-. split; assumption. }
    destruct c as [|c]; split; try exact Hg; [exact I|].
    intros x it' He. rewrite Hadv in He. discriminate.
  Qed.

  Lemma okN_base : forall D k b F c, length f <= D -> b + k = tlen_of f 0 ->
    steps_from f D b k <= F ->
    okN (length (flat_map (reach_bin D f 0) (seq b k)) + c) F (base_it (tlen_of f 0) b).
  Proof.
    intros D. induction k as [|k IH]; intros b F c HD Hbk Hs.
    - cbn [seq flat_map length Nat.add]. replace b with (tlen_of f 0) by lia. apply okN_exhausted; [reflexivity | simpl; lia].
    - rewrite steps_from_S in Hs.
      cbn [seq flat_map]. rewrite app_length, <- Nat.add_assoc.
      unfold base_it at 1. apply okN_sub; [lia | lia | lia | lia | |].
      + fold (base_it (tlen_of f 0) b). rewrite after_bin_base.
        apply (ok_base f Hwf D HD k); lia.
      + fold (base_it (tlen_of f 0) b). rewrite after_bin_base. apply IH; [exact HD | lia | lia].
  Qed.

  Lemma okN_new : forall F n, trav_fuel f <= F -> okN n F (new_iter f).
  Proof.
    intros F n HF. destruct (new_iter_cases f) as [Hn|Hn]; rewrite Hn.
    - apply okN_exhausted; [reflexivity | simpl; lia].
    - pose proof (steps_total f (S (length f)) Hwf) as Hst.
      apply okN_le with (n := length (flat_map (reach_bin (S (length f)) f 0) (seq 0 (tlen_of f 0))) + n); [|lia].
      apply okN_base; [lia | lia |]. unfold steps_from. unfold trav_fuel in HF. lia.
  Qed.

  (* with at least trav_fuel f per call the inner loop never runs out on a reachable state:
     more fuel gives the same answer, and None is only ever returned by an exhausted iterator *)
  Theorem trav_fuel_adequate : forall F it, trav_fuel f <= F -> reachable f F it ->
    (forall F', F <= F' -> advance F' f it = advance F f it) /\
    (forall it', advance F f it = (None, it') -> exhausted it').
  Proof.
    intros F it HF Hr.
    assert (HN : forall n, okN n F it).
    { induction Hr as [|it x it' Hr IH Ha]; intros n.
      - apply okN_new. exact HF.
      - destruct (IH (S n)) as [_ Hs]. exact (Hs x it' Ha). }
    destruct (okN_good _ _ _ (HN 0)) as [Hok Hnone]. split; [exact Hok | exact Hnone].
  Qed.
End Adequacy.

(* where and why a drain stops: the calls left over and the final state *)
Fixpoint drain_end (calls fuel : nat) (f : forest) (it : titer) : nat * titer :=
  match calls with
  | O => (0, it)
  | S calls' =>
      match advance fuel f it with
      | (Some _, it') => drain_end calls' fuel f it'
      | (None, it') => (S calls', it')
      end
  end.

Lemma drain_end_spec : forall f F, wf_forest f = true -> trav_fuel f <= F ->
  forall calls it, reachable f F it ->
  length (drain calls F f it) + fst (drain_end calls F f it) = calls /\
  (1 <= fst (drain_end calls F f it) -> exhausted (snd (drain_end calls F f it))).
Proof.
  intros f F Hwf HF. induction calls as [|calls IH]; intros it Hr.
  - simpl. split; [reflexivity | lia].
  - cbn [drain drain_end]. destruct (advance F f it) as [[x|] it'] eqn:Ha.
    + destruct (IH it' (R_next f F it x it' Hr Ha)) as [Hl He]. cbn [length]. split; [lia | exact He].
    + cbn [length fst snd]. split; [reflexivity|]. intros _.
      destruct (trav_fuel_adequate f Hwf F it HF Hr) as [_ Hn]. apply Hn. exact Ha.
Qed.

(* [iterate] ends because the iterator reports exhaustion (base_index >= base_limit) while at
   least one call is still available, not because calls (or fuel) ran out *)
Theorem iterate_stops_exhausted : forall f, wf_forest f = true ->
  1 <= fst (drain_end (S (total_nodes f)) (trav_fuel f) f (new_iter f)) /\
  exhausted (snd (drain_end (S (total_nodes f)) (trav_fuel f) f (new_iter f))).
Proof.
  intros f Hwf.
  destruct (drain_end_spec f (trav_fuel f) Hwf (le_n _) (S (total_nodes f)) (new_iter f) (R_new _ _)) as [Hl He].
  fold (iterate f) in Hl. rewrite (iterate_exact f Hwf) in Hl.
  pose proof (contents_length f Hwf) as Hlen.
  assert (H1 : 1 <= fst (drain_end (S (total_nodes f)) (trav_fuel f) f (new_iter f))) by lia.
  split; [exact H1 | exact (He H1)].
Qed.

Print Assumptions iterate_exact.
Print Assumptions iterate_no_duplicates.
Print Assumptions iterate_all.
Print Assumptions iterate_perm.
Print Assumptions advance_fuel_mono.
Print Assumptions drain_fuel_calls_irrelevant.
Print Assumptions trav_fuel_adequate.
Print Assumptions iterate_stops_exhausted.
