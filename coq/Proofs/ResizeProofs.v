(* Invariants of the cooperative resize protocol (Model/ResizeProto.v). *)
From Flurry Require Import Model.ResizeProto Proofs.ArithProofs.
