(* Invariants of the cooperative resize protocol (Model/ResizeProto.v): an invariant proof by
   induction over arbitrary schedules.  Layers: bins/log (bstep), thread-local invariants with the
   finisher's sweep (L2), the phase / size_ctl counting invariant (L3); then the goal theorems and
   non-vacuity examples. *)
From Flurry Require Import Model.ResizeProto Proofs.ArithProofs.
From Coq Require Import ZArith Lia List Bool Arith.
Import ListNotations.
Open Scope Z_scope.
Ltac Zify.zify_post_hook ::= Z.div_mod_to_equations.

(* ================= lists: updating one position ================= *)

Lemma upd_mid {A} (l1 l2 : list A) (p x : A) :
  firstn (length l1) (l1 ++ p :: l2) ++ x :: skipn (S (length l1)) (l1 ++ p :: l2) = l1 ++ x :: l2.
Proof.
  rewrite firstn_app, Nat.sub_diag, firstn_all. cbn [firstn]. rewrite app_nil_r.
  rewrite skipn_app, skipn_all2 by lia.
  replace (S (length l1) - length l1)%nat with 1%nat by lia. reflexivity.
Qed.

Lemma upd_id {A} (l : list A) t p :
  nth_error l t = Some p -> firstn t l ++ p :: skipn (S t) l = l.
Proof.
  intros E. apply nth_error_split in E as (l1 & l2 & -> & <-). apply upd_mid.
Qed.

Lemma upd_length {A} (l : list A) i x :
  (i < length l)%nat -> length (firstn i l ++ x :: skipn (S i) l) = length l.
Proof.
  intros H. destruct (nth_split l x H) as (l1 & l2 & E & Hl).
  set (y := nth i l x) in *. clearbody y. subst l i. rewrite upd_mid.
  rewrite !app_length. reflexivity.
Qed.

Lemma upd_nth {A} (l : list A) i x j d :
  (i < length l)%nat ->
  nth j (firstn i l ++ x :: skipn (S i) l) d = if Nat.eqb j i then x else nth j l d.
Proof.
  intros H. destruct (nth_split l d H) as (l1 & l2 & E & Hl).
  set (y := nth i l d) in *. clearbody y. subst l i. rewrite upd_mid.
  destruct (Nat.eqb_spec j (length l1)) as [->|Hne].
  - apply nth_middle.
  - destruct (Nat.lt_ge_cases j (length l1)) as [Hlt|Hge].
    + rewrite !app_nth1 by assumption. reflexivity.
    + rewrite !app_nth2 by assumption.
      destruct (j - length l1)%nat eqn:Ej; [lia|]. reflexivity.
Qed.

(* ================= generic facts about one step ================= *)

Section Proto.
Variable n : Z.
Variable ncpu : Z.
Notation step := (step n ncpu).
Notation act := (act n ncpu).
Notation run := (run n ncpu).
Notation head := (ResizeProto.head n).

Lemma step_out_of_range c t : nth_error (c_thr c) t = None -> step c t = c.
Proof.
  intros E. unfold ResizeProto.step, thr. rewrite nth_overflow by (apply nth_error_None; exact E).
  reflexivity.
Qed.

Lemma upd_thr_id c t p : nth_error (c_thr c) t = Some p -> upd_thr c t p = c.
Proof. intros E. unfold upd_thr. rewrite (upd_id _ _ _ E). destruct c; reflexivity. Qed.

Lemma run_app c s1 s2 : run c (s1 ++ s2) = run (run c s1) s2.
Proof. unfold ResizeProto.run. apply fold_left_app. Qed.

Lemma run_snoc c s a : run c (s ++ [a]) = act (run c s) a.
Proof. rewrite run_app. reflexivity. Qed.

(* induction principle: an invariant of init preserved by every action holds after every run *)
Lemma run_ind (P : cfg -> Prop) c0 :
  P c0 -> (forall c a, P c -> P (act c a)) -> forall s, P (run c0 s).
Proof.
  intros H0 Hs s. revert c0 H0. induction s as [|a s IH]; intros c0 H0; [exact H0|].
  cbn. apply IH, Hs, H0.
Qed.

(* ================= bins and the migration log ================= *)

Definition fwd_at (bs : list binstate) (i : nat) : bool :=
  match nth_error bs i with Some BFwd => true | _ => false end.

Lemma c_bin_not_fwd_lt c i : c_bin c i <> BFwd -> (i < length (c_bins c))%nat.
Proof.
  intros H. destruct (Nat.lt_ge_cases i (length (c_bins c))) as [|Hge]; [assumption|].
  exfalso. apply H. unfold c_bin. apply nth_overflow. exact Hge.
Qed.

Lemma fwd_at_nth bs i : fwd_at bs i = true <-> (i < length bs)%nat /\ nth i bs BFwd = BFwd.
Proof.
  unfold fwd_at. destruct (nth_error bs i) as [b|] eqn:E.
  - assert (Hlt : (i < length bs)%nat) by (apply nth_error_Some; congruence).
    rewrite (nth_error_nth _ _ BFwd E). destruct b; intuition congruence.
  - apply nth_error_None in E. split; [discriminate|]. intros [H _]. lia.
Qed.

(* what a step or an environment action can do to the bins and to the EMigrated events *)
Inductive bstep (c c' : cfg) : Prop :=
| bs_same :
    c_bins c' = c_bins c ->
    (forall j, count_ev (is_migrated j) c' = count_ev (is_migrated j) c) -> bstep c c'
| bs_mig i :
    c_bin c i <> BFwd ->
    c_bins c' = firstn i (c_bins c) ++ BFwd :: skipn (S i) (c_bins c) ->
    (forall j, count_ev (is_migrated j) c' =
               ((if Nat.eqb j i then 1 else 0) + count_ev (is_migrated j) c)%nat) -> bstep c c'
| bs_env i b :
    c_bin c i <> BFwd -> b <> BFwd ->
    c_bins c' = firstn i (c_bins c) ++ b :: skipn (S i) (c_bins c) ->
    (forall j, count_ev (is_migrated j) c' = count_ev (is_migrated j) c) -> bstep c c'.

Ltac case_if :=
  match goal with
  | |- context [if ?b then _ else _] => destruct b eqn:?
  | |- context [match ?b with BEmpty => _ | BFull => _ | BFwd => _ end] => destruct b eqn:?
  end.

Lemma step_bstep c t : bstep c (step c t).
Proof.
  destruct (nth_error (c_thr c) t) as [p|] eqn:Ep.
  2:{ rewrite step_out_of_range by assumption. apply bs_same; reflexivity. }
  unfold ResizeProto.step, thr. rewrite (nth_error_nth _ _ _ Ep).
  destruct p as [ph p]; destruct p; try destruct ph; cbn -[Nat.eqb]; repeat case_if;
    try (apply bs_same; [reflexivity|intros j; reflexivity]).
  all: eapply (bs_mig _ _ (Z.to_nat (li l))); [congruence|reflexivity|].
  all: intros j; unfold count_ev; cbn -[Nat.eqb]; destruct (Nat.eqb j (Z.to_nat (li l))); reflexivity.
Qed.

Lemma env_bstep c i : bstep c (env_flip c i).
Proof.
  unfold env_flip. destruct (c_bin c i) eqn:E.
  - apply (bs_env _ _ i BFull); [congruence|discriminate|reflexivity|reflexivity].
  - apply (bs_env _ _ i BEmpty); [congruence|discriminate|reflexivity|reflexivity].
  - apply bs_same; reflexivity.
Qed.

Lemma act_bstep c a : bstep c (act c a).
Proof. destruct a; [apply step_bstep|apply env_bstep]. Qed.

(* monotonicity of the bins: same length, forwarded bins stay forwarded *)
Definition ble (bs bs' : list binstate) : Prop :=
  length bs' = length bs /\ forall j, nth j bs BFwd = BFwd -> nth j bs' BFwd = BFwd.

Lemma ble_refl bs : ble bs bs.
Proof. split; auto. Qed.

Lemma ble_upd bs i b : nth i bs BFwd <> BFwd -> ble bs (firstn i bs ++ b :: skipn (S i) bs).
Proof.
  intros H. assert (Hlt : (i < length bs)%nat).
  { destruct (Nat.lt_ge_cases i (length bs)); [assumption|]. exfalso. apply H. apply nth_overflow. assumption. }
  split; [apply upd_length; assumption|].
  intros j Hj. rewrite upd_nth by assumption. destruct (Nat.eqb_spec j i); [subst; contradiction|assumption].
Qed.

Lemma bstep_ble c c' : bstep c c' -> ble (c_bins c) (c_bins c').
Proof.
  intros [E _|i Hi E _|i b Hi _ E _]; rewrite E; [apply ble_refl|apply ble_upd; exact Hi..].
Qed.

Definition log_ok (c : cfg) : Prop :=
  forall i, count_ev (is_migrated i) c = if fwd_at (c_bins c) i then 1%nat else 0%nat.

Lemma fwd_at_upd bs i b j :
  (i < length bs)%nat ->
  fwd_at (firstn i bs ++ b :: skipn (S i) bs) j =
  if Nat.eqb j i then match b with BFwd => true | _ => false end else fwd_at bs j.
Proof.
  intros Hlt. apply eq_true_iff_eq. rewrite fwd_at_nth, upd_length, upd_nth by assumption.
  destruct (Nat.eqb_spec j i) as [->|Hne].
  - destruct b; intuition congruence.
  - rewrite fwd_at_nth. reflexivity.
Qed.

Lemma bstep_log_ok c c' : bstep c c' -> log_ok c -> log_ok c'.
Proof.
  intros Hb Hl j. specialize (Hl j).
  destruct Hb as [E Hc|i Hi E Hc|i b Hi Hb E Hc]; rewrite Hc, E.
  - exact Hl.
  - pose proof (c_bin_not_fwd_lt _ _ Hi) as Hlt. rewrite fwd_at_upd by assumption.
    destruct (Nat.eqb_spec j i) as [->|Hne]; [|exact Hl].
    rewrite Hl. destruct (fwd_at (c_bins c) i) eqn:Ef; [|reflexivity].
    apply fwd_at_nth in Ef as [_ Ef]. contradiction.
  - pose proof (c_bin_not_fwd_lt _ _ Hi) as Hlt. rewrite fwd_at_upd by assumption.
    destruct (Nat.eqb_spec j i) as [->|Hne]; [|exact Hl].
    rewrite Hl. destruct (fwd_at (c_bins c) i) eqn:Ef.
    + apply fwd_at_nth in Ef as [_ Ef]. contradiction.
    + destruct b; try reflexivity. contradiction.
Qed.

End Proto.

(* ================= arithmetic of the protocol ================= *)

Definition n_facts_b : bool :=
  forallb (fun n => (1 <=? n) && (transfer_new_len n =? 2 * n) && (0 <=? transfer_next_sc n) &&
                    (transfer_sweep_start n =? n) && (rs n + MAX_RESIZERS <? 0)) table_lengths.

Lemma n_facts n : In n table_lengths ->
  1 <= n /\ transfer_new_len n = 2 * n /\ 0 <= transfer_next_sc n /\ transfer_sweep_start n = n /\
  rs n + MAX_RESIZERS < 0.
Proof.
  assert (H : n_facts_b = true) by (vm_compute; reflexivity).
  intros Hn. unfold n_facts_b in H. rewrite forallb_forall in H. specialize (H n Hn). lia.
Qed.

Lemma MAX_RESIZERS_ge : 2 <= MAX_RESIZERS.
Proof. apply Z.leb_le. vm_compute. reflexivity. Qed.

Lemma init_sc_eq r : init_sc_add_count r = r + 2.
Proof. reflexivity. Qed.
Lemma join_sc_eq s : add_count_join_sc s = s + 1.
Proof. reflexivity. Qed.
Lemma leave_sc_eq s : transfer_leave_sc s = s - 1.
Proof. reflexivity. Qed.
Lemma not_last_false s n : transfer_not_last s n = false -> s = rs n + 2.
Proof. intros H. apply transfer_last_iff in H. rewrite init_sc_eq in H. exact H. Qed.
Lemma not_last_true s n : transfer_not_last s n = true -> s <> rs n + 2.
Proof.
  intros H E. assert (F : transfer_not_last s n = false) by (apply transfer_last_iff; rewrite init_sc_eq; exact E).
  congruence.
Qed.
Lemma break_false s r : add_count_break s r = false -> s <> r + MAX_RESIZERS /\ s <> r + 1.
Proof.
  intros H. split; intros E.
  - assert (F : add_count_break s r = true) by (apply add_count_break_iff; left; exact E). congruence.
  - assert (F : add_count_break s r = true) by (apply add_count_break_iff; right; exact E). congruence.
Qed.
Lemma done_false i n m : transfer_done i n m = false -> 0 <= i < n.
Proof. unfold transfer_done. lia. Qed.
Lemma done_iff i n : transfer_done i n (2 * n) = false <-> 0 <= i < n.
Proof. unfold transfer_done. lia. Qed.
Lemma claim_i_eq a b : transfer_claim_i a b = a.
Proof. reflexivity. Qed.

(* ================= classification of thread states, counting ================= *)

Inductive cls := CIdle | COut | CIsn | CPre | CSweep | CPub2 | CPub3.

Definition cls_of (p : tpc) : cls :=
  match p with
  | T _ Idle => CIdle
  | T _ Gone | T _ (HelpLoadTI _) | T _ (HelpCas _) => COut
  | T _ InitSwapNT => CIsn
  | T _ InitStoreTI | T _ InitLoadNT | T _ (Loop _) | T _ (ClaimCas _ _) | T _ (LeaveCas _ _) => CPre
  | T _ (AtBin l _) => if lfinishing l then CSweep else CPre
  | T _ (Pub1 _) => CSweep
  | T _ (Pub2 _) => CPub2
  | T _ (Pub3 _) => CPub3
  end.

Definition cls_eqb (a b : cls) : bool :=
  match a, b with
  | CIdle, CIdle | COut, COut | CIsn, CIsn | CPre, CPre | CSweep, CSweep | CPub2, CPub2 | CPub3, CPub3 => true
  | _, _ => false
  end.

Definition ind (k : cls) (p : tpc) : Z := if cls_eqb (cls_of p) k then 1 else 0.

Fixpoint cnt (k : cls) (l : list tpc) : Z :=
  match l with [] => 0 | p :: l => ind k p + cnt k l end.

Lemma cnt_app k l1 l2 : cnt k (l1 ++ l2) = cnt k l1 + cnt k l2.
Proof. induction l1 as [|p l1 IH]; cbn [cnt app]; lia. Qed.

Lemma cnt_mid k l1 p l2 : cnt k (l1 ++ p :: l2) = cnt k l1 + cnt k l2 + ind k p.
Proof. rewrite cnt_app. cbn [cnt]. lia. Qed.

Lemma cnt_nonneg k l : 0 <= cnt k l.
Proof. induction l as [|p l IH]; cbn [cnt]; [lia|]. unfold ind. destruct (cls_eqb _ _); lia. Qed.

Lemma cnt_repeat_idle k m : k <> CIdle -> cnt k (repeat (T PAct Idle) m) = 0.
Proof. intros H. induction m as [|m IH]; cbn; [reflexivity|]. rewrite IH. destruct k; try reflexivity. contradiction. Qed.

Lemma cnt_pos_in k l : 1 <= cnt k l -> exists p, In p l /\ cls_of p = k.
Proof.
  induction l as [|p l IH]; cbn [cnt]; [lia|]. intros H.
  unfold ind in H. destruct (cls_eqb (cls_of p) k) eqn:E.
  - exists p. split; [left; reflexivity|]. destruct (cls_of p), k; try discriminate; reflexivity.
  - destruct IH as (q & Hq & Ek); [lia|]. exists q. split; [right; assumption|assumption].
Qed.

Lemma cnt_in_pos k l p : In p l -> cls_of p = k -> 1 <= cnt k l.
Proof.
  intros Hin E. induction l as [|q l IH]; [contradiction|]. cbn [cnt].
  pose proof (cnt_nonneg k l). destruct Hin as [->|Hin].
  - unfold ind. rewrite E. replace (cls_eqb k k) with true by (destruct k; reflexivity). lia.
  - specialize (IH Hin). unfold ind. destruct (cls_eqb _ _); lia.
Qed.

(* ================= thread-local invariant ================= *)

Definition allfwd_from (bs : list binstate) (k : nat) : Prop :=
  forall j, (k <= j)%nat -> nth j bs BFwd = BFwd.

Section Local.
Variable n : Z.
Notation head := (ResizeProto.head n).

Definition tinv (bs : list binstate) (p : tpc) : Prop :=
  match p with
  | T _ (HelpLoadTI s) | T _ (HelpCas s) => s < 0 /\ s <> rs n + MAX_RESIZERS /\ s <> rs n + 1
  | T _ (Loop _) => False
  | T _ (ClaimCas l _) | T _ (LeaveCas l _) => lfinishing l = false
  | T ph (AtBin l seen) =>
      0 <= li l < n /\
      (lfinishing l = true ->
         ladvance l = false /\ allfwd_from bs (S (Z.to_nat (li l))) /\
         (ph = PAct -> seen = BFwd -> nth (Z.to_nat (li l)) bs BFwd = BFwd))
  | T _ (Pub1 _) | T _ (Pub2 _) | T _ (Pub3 _) => allfwd_from bs 0
  | _ => True
  end.

Lemma allfwd_from_mono bs bs' k : ble bs bs' -> allfwd_from bs k -> allfwd_from bs' k.
Proof. intros [_ Hb] H j Hj. apply Hb, H, Hj. Qed.

Lemma tinv_mono bs bs' p : ble bs bs' -> tinv bs p -> tinv bs' p.
Proof.
  intros Hb. pose proof (allfwd_from_mono _ _ 0 Hb) as H0.
  destruct p as [ph p]; destruct p; cbn [tinv]; auto.
  intros [Hr Hf]. split; [exact Hr|]. intros Hfin. destruct (Hf Hfin) as (Ha & Hs & Hseen).
  split; [exact Ha|]. split; [eapply allfwd_from_mono; eassumption|].
  intros Hph Hse. apply Hb. apply Hseen; assumption.
Qed.

Hypothesis Hnn : transfer_new_len n = 2 * n.

Lemma head_nofin l bs : lfinishing l = false -> cls_of (head l) = CPre /\ tinv bs (head l).
Proof.
  intros Hf. unfold ResizeProto.head, loop_head, after_claim.
  destruct (ladvance l); cbn [lfinishing li lbound ladvance]; rewrite ?Hf, ?orb_false_r.
  - destruct (li l - 1 >=? lbound l); cbn [lfinishing li].
    + destruct (transfer_done (li l - 1) n (next_n n)) eqn:Ed; rewrite ?Hf; cbn [cls_of tinv lfinishing li]; rewrite ?Hf.
      * split; reflexivity.
      * split; [reflexivity|]. split; [eapply done_false; eassumption|congruence].
    + cbn. split; reflexivity.
  - destruct (transfer_done (li l) n (next_n n)) eqn:Ed; rewrite ?Hf; cbn [cls_of tinv]; rewrite ?Hf.
    + split; reflexivity.
    + split; [reflexivity|]. split; [eapply done_false; eassumption|congruence].
Qed.

(* the finisher moves on to the next bin below i (or to publication when i = 0) *)
Lemma head_fin_adv i b bs :
  0 <= i <= n -> allfwd_from bs (Z.to_nat i) ->
  cls_of (head (mkL i b true true)) = CSweep /\ tinv bs (head (mkL i b true true)).
Proof.
  intros Hi Hall. unfold ResizeProto.head, loop_head, after_claim, next_n.
  cbn [lfinishing li lbound ladvance]. rewrite orb_true_r. cbn [lfinishing li]. rewrite Hnn.
  destruct (transfer_done (i - 1) n (2 * n)) eqn:Ed.
  - cbn. split; [reflexivity|]. intros j _. apply Hall.
    assert (~ (0 <= i - 1 < n)) by (rewrite <- done_iff; congruence). lia.
  - apply done_iff in Ed. cbn. split; [reflexivity|]. split; [lia|]. intros _.
    split; [reflexivity|]. split; [|discriminate].
    intros j Hj. apply Hall. lia.
Qed.

Lemma head_fin_stay l :
  lfinishing l = true -> ladvance l = false -> 0 <= li l < n -> head l = T PLoad (AtBin l BEmpty).
Proof.
  intros Hf Ha Hi. unfold ResizeProto.head, loop_head, after_claim, next_n. rewrite Ha, Hnn.
  apply done_iff in Hi. rewrite Hi. reflexivity.
Qed.

End Local.

Lemma head_fin_cls n l : lfinishing l = true -> cls_of (ResizeProto.head n l) = CSweep.
Proof.
  intros Hf. unfold ResizeProto.head, loop_head, after_claim.
  destruct (ladvance l); cbn [lfinishing li lbound ladvance]; rewrite ?Hf, ?orb_true_r; cbn [lfinishing li].
  - destruct (transfer_done (li l - 1) n (next_n n)); reflexivity.
  - destruct (transfer_done (li l) n (next_n n)); cbn [cls_of]; rewrite ?Hf; reflexivity.
Qed.

Lemma head_nofin_cls n l : lfinishing l = false -> cls_of (ResizeProto.head n l) = CPre.
Proof. intros Hf. apply (head_nofin n l [] Hf). Qed.

Lemma ph_irrel {A} (ph : phase) (x : A) : match ph with PLoad => x | PAct => x end = x.
Proof. destruct ph; reflexivity. Qed.

Section Inv.
Variable n : Z.
Variable ncpu : Z.
Hypothesis Hn : In n table_lengths.
Notation step := (step n ncpu).
Notation act := (act n ncpu).
Notation run := (run n ncpu).
Notation head := (ResizeProto.head n).
Notation tinv := (tinv n).

Let Hn1 : 1 <= n. Proof. apply n_facts, Hn. Qed.
Let Hnn : transfer_new_len n = 2 * n. Proof. apply n_facts, Hn. Qed.
Let Hsc : 0 <= transfer_next_sc n. Proof. apply n_facts, Hn. Qed.
Let Hss : transfer_sweep_start n = n. Proof. apply n_facts, Hn. Qed.
Let Hrs : rs n + MAX_RESIZERS < 0. Proof. apply n_facts, Hn. Qed.

(* ---------- layer 2: local invariants of all threads, swapped -> all forwarded ---------- *)

Definition L2 (c : cfg) : Prop :=
  length (c_bins c) = Z.to_nat n /\ Forall (tinv (c_bins c)) (c_thr c) /\
  (c_swapped c = true -> allfwd_from (c_bins c) 0).

Lemma L2_intro c c' l1 p l2 p' :
  L2 c -> c_thr c = l1 ++ p :: l2 -> c_thr c' = c_thr c ->
  ble (c_bins c) (c_bins c') -> tinv (c_bins c') p' ->
  (c_swapped c' = true -> c_swapped c = true \/ allfwd_from (c_bins c') 0) ->
  L2 (upd_thr c' (length l1) p').
Proof.
  intros (Hlen & Hall & Hsw) El Et Hb Hp Hs. unfold L2, upd_thr. cbn [c_bins c_thr c_swapped].
  rewrite Et, El, upd_mid. split; [destruct Hb; lia|]. split.
  - rewrite El in Hall. apply Forall_app in Hall as [H1 H2]. inversion H2 as [|? ? _ H3]; subst.
    apply Forall_app. split.
    + eapply Forall_impl; [|exact H1]. intros q Hq. eapply tinv_mono; eassumption.
    + constructor; [exact Hp|]. eapply Forall_impl; [|exact H3]. intros q Hq. eapply tinv_mono; eassumption.
  - intros Hs'. destruct (Hs Hs') as [H|H]; [eapply allfwd_from_mono; eauto|assumption].
Qed.

Lemma L2_env c i : L2 c -> L2 (env_flip c i).
Proof.
  intros (Hlen & Hall & Hsw). pose proof (bstep_ble _ _ (env_bstep c i)) as Hb.
  assert (Et : c_thr (env_flip c i) = c_thr c /\ c_swapped (env_flip c i) = c_swapped c).
  { unfold env_flip. destruct (c_bin c i); split; reflexivity. }
  destruct Et as [Et Es]. unfold L2. rewrite Et, Es. split; [destruct Hb; lia|]. split.
  - eapply Forall_impl; [|exact Hall]. intros q Hq. eapply tinv_mono; eassumption.
  - intros H. eapply allfwd_from_mono; eauto.
Qed.

Ltac l2_leaf HL El :=
  eapply (L2_intro _ _ _ _ _ _ HL El); cbn [c_thr c_bins c_swapped c_set_sc c_set_ti c_set_nt c_set_swapped c_emit c_set_bin];
  [reflexivity| try apply ble_refl | | try (intros Hsw'; left; exact Hsw')].

Lemma L2_step c t : L2 c -> L2 (step c t).
Proof.
  intros HL. destruct (nth_error (c_thr c) t) as [p|] eqn:Ep.
  2:{ rewrite step_out_of_range by assumption. exact HL. }
  apply nth_error_split in Ep as (l1 & l2 & El & Ht). subst t.
  assert (Hp : tinv (c_bins c) p).
  { destruct HL as (_ & Hall & _). rewrite El in Hall. apply Forall_app in Hall as [_ H2].
    inversion H2; assumption. }
  assert (Hlen : length (c_bins c) = Z.to_nat n) by apply HL.
  unfold ResizeProto.step, thr. rewrite El, nth_middle.
  destruct p as [ph p]; destruct p; rewrite ?ph_irrel.
  - (* Idle *)
    destruct (c_sc c <? 0) eqn:Es.
    + destruct (add_count_break (c_sc c) (rs n)) eqn:Eb; [exact HL|].
      destruct (negb (c_nt c)); [exact HL|]. l2_leaf HL El.
      cbn. apply break_false in Eb. split; [lia|exact Eb].
    + destruct (c_swapped c); [exact HL|]. l2_leaf HL El. exact I.
  - (* InitSwapNT *) l2_leaf HL El. exact I.
  - (* InitStoreTI *) l2_leaf HL El. exact I.
  - (* InitLoadNT *) l2_leaf HL El. apply head_nofin; reflexivity.
  - (* HelpLoadTI *) destruct (c_ti c <=? 0); [l2_leaf HL El; exact I|l2_leaf HL El; exact Hp].
  - (* HelpCas *)
    destruct (c_sc c =? sc_seen); [|l2_leaf HL El; exact I].
    l2_leaf HL El. apply head_nofin; reflexivity.
  - (* Loop *) destruct Hp.
  - (* ClaimCas *) cbn [tinv] in Hp. destruct ph.
    + destruct (c_ti c <=? 0); [|l2_leaf HL El; exact Hp].
      l2_leaf HL El. apply head_nofin; exact Hp.
    + destruct (c_ti c =? next_index); l2_leaf HL El; apply head_nofin; assumption.
  - (* LeaveCas *) cbn [tinv] in Hp. destruct ph.
    + l2_leaf HL El. exact Hp.
    + destruct (c_sc c =? sc_seen).
      * destruct (transfer_not_last sc_seen n); [l2_leaf HL El; exact I|].
        l2_leaf HL El. rewrite Hss. apply head_fin_adv; [assumption|lia|].
        intros j Hj. apply nth_overflow. lia.
      * l2_leaf HL El. apply head_nofin; assumption.
  - (* AtBin *) cbn [tinv] in Hp. destruct Hp as [Hr Hf]. destruct ph.
    + l2_leaf HL El. cbn [tinv]. split; [exact Hr|]. intros Hfin. destruct (Hf Hfin) as (Ha & Hs & _).
      split; [exact Ha|]. split; [exact Hs|]. intros _ E. exact E.
    + destruct (lfinishing l) eqn:Efin.
      * (* the finisher *)
        destruct (Hf eq_refl) as (Ha & Hs & Hseen).
        assert (Hadv : forall bs, ble (c_bins c) bs -> nth (Z.to_nat (li l)) bs BFwd = BFwd ->
                   tinv bs (head (mkL (li l) (lbound l) true true))).
        { intros bs Hb Hi. apply head_fin_adv; [assumption|lia|].
          intros j Hj. destruct (Nat.eq_dec j (Z.to_nat (li l))) as [->|Hne]; [exact Hi|].
          apply Hb. apply Hs. lia. }
        assert (Hstay : forall a, tinv (c_bins c) (head (mkL (li l) (lbound l) a true)) \/ a = true).
        { intros [|]; [right; reflexivity|left]. rewrite head_fin_stay by (cbn; auto).
          cbn [tinv li lfinishing ladvance]. split; [exact Hr|]. intros _. split; [reflexivity|].
          split; [exact Hs|discriminate]. }
        assert (Hl : l = mkL (li l) (lbound l) false true).
        { destruct l; cbn in *; subst; reflexivity. }
        destruct seen.
        -- destruct (c_bin c (Z.to_nat (li l))) eqn:Eb.
           ++ l2_leaf HL El; [apply ble_upd; unfold c_bin in Eb; congruence|].
              apply Hadv; [apply ble_upd; unfold c_bin in Eb; congruence|].
              rewrite upd_nth, Nat.eqb_refl by (apply (c_bin_not_fwd_lt c); congruence). reflexivity.
           ++ l2_leaf HL El. destruct (Hstay false); [assumption|discriminate].
           ++ l2_leaf HL El. destruct (Hstay false); [assumption|discriminate].
        -- destruct (c_bin c (Z.to_nat (li l))) eqn:Eb.
           ++ l2_leaf HL El. rewrite Hl. destruct (Hstay false); [assumption|discriminate].
           ++ l2_leaf HL El; [apply ble_upd; unfold c_bin in Eb; congruence|].
              apply Hadv; [apply ble_upd; unfold c_bin in Eb; congruence|].
              rewrite upd_nth, Nat.eqb_refl by (apply (c_bin_not_fwd_lt c); congruence). reflexivity.
           ++ l2_leaf HL El. rewrite Hl. destruct (Hstay false); [assumption|discriminate].
        -- l2_leaf HL El. apply Hadv; [apply ble_refl|]. apply Hseen; reflexivity.
      * (* an ordinary helper *)
        destruct seen; [destruct (c_bin c (Z.to_nat (li l))) eqn:Eb..|]; l2_leaf HL El;
          try (apply ble_upd; unfold c_bin in Eb; congruence);
          apply head_nofin; solve [assumption|reflexivity].
  - (* Pub1 *) l2_leaf HL El. exact Hp.
  - (* Pub2 *) l2_leaf HL El; [exact Hp|]. intros _. right. exact Hp.
  - (* Pub3 *) l2_leaf HL El. exact I.
  - (* Gone *) exact HL.
Qed.

End Inv.

Definition b2z (b : bool) : Z := if b then 1 else 0.

(* the event of the initiating CAS *)
Definition is_init (e : event) : bool := match e with EEntered _ true => true | _ => false end.

Section Phase.
Variable n : Z.
Variable ncpu : Z.
Variable sc0 : Z.
Hypothesis Hn : In n table_lengths.
Hypothesis Hsc0 : 0 <= sc0.
Notation step := (step n ncpu).
Notation head := (ResizeProto.head n).
Notation tinv := (tinv n).
Notation L2 := (L2 n).

Definition npre (l : list tpc) : Z := cnt CIsn l + cnt CPre l.
Definition nfin (l : list tpc) : Z := cnt CSweep l + cnt CPub2 l + cnt CPub3 l.

Definition NotStarted (c : cfg) : Prop :=
  c_log c = [] /\
  c_sc c = sc0 /\ b2z (c_nt c) = 0 /\ b2z (c_swapped c) = 0 /\ count_ev is_published c = 0%nat /\
  count_ev is_init c = 0%nat /\
  cnt COut (c_thr c) = 0 /\ npre (c_thr c) = 0 /\ nfin (c_thr c) = 0.

Definition Running (c : cfg) : Prop :=
  let l := c_thr c in
  c_sc c = rs n + 1 + npre l /\ npre l <= MAX_RESIZERS - 1 /\ count_ev is_published c = 0%nat /\
  count_ev is_init c = 1%nat /\
  ((nfin l = 0 /\ 1 <= npre l) \/ (nfin l = 1 /\ npre l = 0)) /\
  (1 <= cnt CPub2 l + cnt CPub3 l -> b2z (c_nt c) = 0) /\
  (b2z (c_swapped c) = 1 <-> 1 <= cnt CPub3 l) /\
  (cnt CIsn l = 0 -> cnt CPub2 l + cnt CPub3 l = 0 -> b2z (c_nt c) = 1) /\
  cnt CIsn l <= 1 /\ (1 <= cnt CIsn l -> b2z (c_nt c) = 0).

Definition Published (c : cfg) : Prop :=
  c_sc c = transfer_next_sc n /\ b2z (c_nt c) = 0 /\ b2z (c_swapped c) = 1 /\
  count_ev is_published c = 1%nat /\ count_ev is_init c = 1%nat /\
  npre (c_thr c) = 0 /\ nfin (c_thr c) = 0.

Definition L3 (c : cfg) : Prop := NotStarted c \/ Running c \/ Published c.

Lemma L3_env c i : L3 c -> L3 (env_flip c i).
Proof.
  intros H. unfold env_flip. destruct (c_bin c i); exact H.
Qed.

Ltac l3_pre :=
  repeat match goal with
  | H : transfer_not_last _ _ = true |- _ => apply not_last_true in H
  | H : transfer_not_last _ _ = false |- _ => apply not_last_false in H
  | H : add_count_break _ _ = false |- _ => apply break_false in H
  end.

Ltac l3_norm_goal :=
  unfold NotStarted, Running, Published, npre, nfin, upd_thr, count_ev;
  cbn [c_sc c_ti c_nt c_swapped c_bins c_thr c_log c_set_sc c_set_ti c_set_nt c_set_swapped c_emit
       c_set_bin count_ev filter is_published is_init length];
  rewrite ?upd_mid; rewrite ?cnt_mid; unfold ind;
  rewrite ?init_sc_eq, ?join_sc_eq, ?leave_sc_eq.

Ltac l3_solve :=
  l3_norm_goal; cbn [cls_of cls_eqb lfinishing]; cbn [b2z negb] in *; lia.

Lemma L3_step c t : L2 c -> L3 c -> L3 (step c t).
Proof.
  intros HL2 HL3. destruct (nth_error (c_thr c) t) as [p|] eqn:Ep.
  2:{ rewrite step_out_of_range by assumption. exact HL3. }
  apply nth_error_split in Ep as (l1 & l2 & El & Ht). subst t.
  assert (Hp : tinv (c_bins c) p).
  { destruct HL2 as (_ & Hall & _). rewrite El in Hall. apply Forall_app in Hall as [_ H2].
    inversion H2; assumption. }
  pose proof (n_facts n Hn) as (Hn1 & Hnn & Hsc & Hss & Hrs). pose proof MAX_RESIZERS_ge as Hmax.
  pose proof (cnt_nonneg CIdle l1). pose proof (cnt_nonneg CIdle l2).
  pose proof (cnt_nonneg COut l1). pose proof (cnt_nonneg COut l2).
  pose proof (cnt_nonneg CIsn l1). pose proof (cnt_nonneg CIsn l2).
  pose proof (cnt_nonneg CPre l1). pose proof (cnt_nonneg CPre l2).
  pose proof (cnt_nonneg CSweep l1). pose proof (cnt_nonneg CSweep l2).
  pose proof (cnt_nonneg CPub2 l1). pose proof (cnt_nonneg CPub2 l2).
  pose proof (cnt_nonneg CPub3 l1). pose proof (cnt_nonneg CPub3 l2).
  unfold ResizeProto.step, thr. rewrite El, nth_middle.
  destruct c as [sc ti nt sw bins thrs log]. cbn [c_thr c_bins] in El, Hp. subst thrs.
  assert (HL3' := HL3). unfold L3, NotStarted, Running, Published, npre, nfin, count_ev in HL3'.
  cbn [c_sc c_ti c_nt c_swapped c_bins c_thr c_log count_ev] in HL3'.
  rewrite !cnt_mid in HL3'. unfold ind in HL3'.
  cbn [c_sc c_ti c_nt c_swapped c_bins c_thr c_log].
  destruct p as [ph p]; destruct p; rewrite ?ph_irrel; cbn [tinv] in Hp;
    cbn [cls_of cls_eqb] in HL3'.
  - (* Idle *)
    destruct (sc <? 0) eqn:Es.
    + destruct (add_count_break sc (rs n)) eqn:Eb; [exact HL3|].
      destruct (negb nt) eqn:Ent; [exact HL3|]. l3_pre.
      destruct HL3' as [HN|[HR|HP]]; [exfalso; lia|right; left; l3_solve|exfalso; lia].
    + destruct sw eqn:Esw; [exact HL3|].
      destruct HL3' as [HN|[HR|HP]]; [right; left; l3_solve|exfalso; l3_solve|exfalso; l3_solve].
  - (* InitSwapNT *)
    destruct HL3' as [HN|[HR|HP]]; [exfalso; l3_solve|right; left; l3_solve|exfalso; l3_solve].
  - (* InitStoreTI *)
    destruct HL3' as [HN|[HR|HP]]; [exfalso; l3_solve|right; left; l3_solve|exfalso; l3_solve].
  - (* InitLoadNT *)
    rewrite ?(head_nofin_cls n (mkL 0 0 true false) eq_refl).
    destruct HL3' as [HN|[HR|HP]]; [exfalso; l3_solve|right; left|exfalso; l3_solve].
    l3_norm_goal. rewrite (head_nofin_cls n (mkL 0 0 true false) eq_refl). l3_solve.
  - (* HelpLoadTI *)
    destruct (ti <=? 0);
    (destruct HL3' as [HN|[HR|HP]]; [exfalso; l3_solve|right; left; l3_solve|right; right; l3_solve]).
  - (* HelpCas *)
    destruct (sc =? sc_seen) eqn:Ecas.
    + destruct HL3' as [HN|[HR|HP]]; [exfalso; l3_solve|right; left|exfalso; l3_solve].
      l3_norm_goal. rewrite (head_nofin_cls n (mkL 0 0 true false) eq_refl). l3_solve.
    + destruct HL3' as [HN|[HR|HP]]; [exfalso; l3_solve|right; left; l3_solve|right; right; l3_solve].
  - (* Loop *) destruct Hp.
  - (* ClaimCas *)
    destruct HL3' as [HN|[HR|HP]]; [exfalso; l3_solve| |exfalso; l3_solve].
    right; left. destruct ph.
    + destruct (ti <=? 0); [|l3_solve].
      l3_norm_goal. rewrite (head_nofin_cls n (mkL (-1) (lbound l) false (lfinishing l)) Hp). l3_solve.
    + destruct (ti =? next_index); l3_norm_goal.
      * rewrite (head_nofin_cls n (mkL _ _ false (lfinishing l)) Hp). l3_solve.
      * rewrite (head_nofin_cls n l Hp). l3_solve.
  - (* LeaveCas *)
    destruct HL3' as [HN|[HR|HP]]; [exfalso; l3_solve| |exfalso; l3_solve].
    right; left. destruct ph; [l3_solve|].
    destruct (sc =? sc_seen) eqn:Ecas.
    + destruct (transfer_not_last sc_seen n) eqn:Elast; l3_pre; [l3_solve|].
      l3_norm_goal. rewrite (head_fin_cls n (mkL _ _ true true) eq_refl). l3_solve.
    + l3_norm_goal. rewrite (head_nofin_cls n l Hp). l3_solve.
  - (* AtBin *)
    destruct (lfinishing l) eqn:Ef; cbn [cls_eqb] in HL3'.
    + assert (Hc : forall l', lfinishing l' = true -> cls_of (head l') = CSweep)
        by (intros; apply head_fin_cls; assumption).
      destruct HL3' as [HN|[HR|HP]]; [exfalso; l3_solve|right; left|exfalso; l3_solve].
      destruct ph; [l3_norm_goal; cbn [cls_of]; rewrite Ef; l3_solve|].
      destruct seen; [destruct (c_bin _ _)..|]; l3_norm_goal;
        rewrite Hc by (cbn [lfinishing]; solve [assumption|reflexivity]); l3_solve.
    + assert (Hc : forall l', lfinishing l' = false -> cls_of (head l') = CPre)
        by (intros; apply head_nofin_cls; assumption).
      destruct HL3' as [HN|[HR|HP]]; [exfalso; l3_solve|right; left|exfalso; l3_solve].
      destruct ph; [l3_norm_goal; cbn [cls_of]; rewrite Ef; l3_solve|].
      destruct seen; [destruct (c_bin _ _)..|]; l3_norm_goal;
        rewrite Hc by (cbn [lfinishing]; solve [assumption|reflexivity]); l3_solve.
  - (* Pub1 *)
    destruct HL3' as [HN|[HR|HP]]; [exfalso; l3_solve|right; left; l3_solve|exfalso; l3_solve].
  - (* Pub2 *)
    destruct HL3' as [HN|[HR|HP]]; [exfalso; l3_solve|right; left; l3_solve|exfalso; l3_solve].
  - (* Pub3 *)
    destruct HL3' as [HN|[HR|HP]]; [exfalso; l3_solve|right; right; l3_solve|exfalso; l3_solve].
  - (* Gone *) exact HL3.
Qed.

End Phase.

(* ================= readable counters ================= *)

(* threads that have entered (initiating or joining CAS done) and have not yet performed their
   successful leave CAS *)
Definition pre_leave (p : tpc) : bool :=
  match p with
  | T _ InitSwapNT | T _ InitStoreTI | T _ InitLoadNT => true
  | T _ (Loop l) | T _ (ClaimCas l _) | T _ (LeaveCas l _) | T _ (AtBin l _) => negb (lfinishing l)
  | _ => false
  end.

(* the elected last thread: sweeping (finishing = true) or publishing *)
Definition finisher (p : tpc) : bool :=
  match p with
  | T _ (Loop l) | T _ (ClaimCas l _) | T _ (LeaveCas l _) | T _ (AtBin l _) => lfinishing l
  | T _ (Pub1 _) | T _ (Pub2 _) | T _ (Pub3 _) => true
  | _ => false
  end.

Definition at_pc (f : pc -> bool) (p : tpc) : bool := match p with T _ q => f q end.
Definition is_InitSwapNT (q : pc) : bool := match q with InitSwapNT => true | _ => false end.
Definition is_Pub23 (q : pc) : bool := match q with Pub2 _ | Pub3 _ => true | _ => false end.
Definition is_Pub3 (q : pc) : bool := match q with Pub3 _ => true | _ => false end.

Definition count_thr (f : tpc -> bool) (c : cfg) : Z := Z.of_nat (length (filter f (c_thr c))).

Fixpoint sumb (f : tpc -> bool) (l : list tpc) : Z :=
  match l with [] => 0 | p :: l => b2z (f p) + sumb f l end.

Lemma count_sumb f l : Z.of_nat (length (filter f l)) = sumb f l.
Proof.
  induction l as [|p l IH]; [reflexivity|]. cbn [filter sumb]. destruct (f p); cbn [length b2z]; lia.
Qed.

Lemma sumb_cnt (P : tpc -> Prop) f (ks : list cls) l :
  (forall p, P p -> b2z (f p) = fold_right (fun k a => ind k p + a) 0 ks) ->
  Forall P l -> sumb f l = fold_right (fun k a => cnt k l + a) 0 ks.
Proof.
  intros Hf Hall. induction Hall as [|p l Hp Hall IH].
  - cbn [sumb]. clear. induction ks as [|k0 ks IHk]; cbn [fold_right cnt] in *; lia.
  - cbn [sumb]. rewrite IH, (Hf p Hp). clear. induction ks as [|k ks IH]; cbn [fold_right cnt] in *; lia.
Qed.

Section InvDef.
Variable n : Z.
Variable ncpu : Z.
Variable sc0 : Z.
Hypothesis Hn : In n table_lengths.
Hypothesis Hsc0 : 0 <= sc0.
Notation act := (act n ncpu).
Notation tinv := (tinv n).

Definition Inv (c : cfg) : Prop := L2 n c /\ L3 n sc0 c /\ log_ok c.

Lemma Inv_act c a : Inv c -> Inv (act c a).
Proof.
  intros (H2 & H3 & Hl). split; [|split].
  - destruct a; [apply L2_step; assumption|apply L2_env; assumption].
  - destruct a; [apply L3_step; assumption|apply L3_env; assumption].
  - eapply bstep_log_ok; [apply act_bstep|exact Hl].
Qed.

(* ---------- reading the invariant ---------- *)

Lemma cls_counts bs p : tinv bs p ->
  b2z (pre_leave p) = ind CIsn p + ind CPre p /\
  b2z (finisher p) = ind CSweep p + ind CPub2 p + ind CPub3 p /\
  b2z (inside p) = ind CIsn p + ind CPre p + ind CSweep p + ind CPub2 p + ind CPub3 p /\
  b2z (at_pc is_InitSwapNT p) = ind CIsn p /\
  b2z (at_pc is_Pub23 p) = ind CPub2 p + ind CPub3 p /\
  b2z (at_pc is_Pub3 p) = ind CPub3 p.
Proof.
  destruct p as [ph p]; destruct p; cbn [tinv]; intros Hp; try contradiction;
    unfold ind; cbn [cls_of pre_leave finisher inside at_pc is_InitSwapNT is_Pub23 is_Pub3];
    try match type of Hp with lfinishing ?l = _ => rewrite Hp end;
    try (destruct (lfinishing l)); cbn; repeat split; reflexivity.
Qed.

Section Reading.
Variable c : cfg.
Hypothesis HI : Inv c.

Let Hall : Forall (tinv (c_bins c)) (c_thr c). Proof. apply HI. Qed.

Ltac count_tac ks :=
  unfold count_thr, npre, nfin; rewrite count_sumb;
  rewrite (sumb_cnt (tinv (c_bins c)) _ ks (c_thr c));
  [cbn [fold_right]; lia
  |intros p Hp; cbn [fold_right]; destruct (cls_counts _ p Hp) as (?&?&?&?&?&?); lia
  |exact Hall].

Lemma count_pre_leave : count_thr pre_leave c = npre (c_thr c).
Proof. count_tac [CIsn; CPre]. Qed.
Lemma count_finisher : count_thr finisher c = nfin (c_thr c).
Proof. count_tac [CSweep; CPub2; CPub3]. Qed.
Lemma count_inside : count_thr inside c = npre (c_thr c) + nfin (c_thr c).
Proof. count_tac [CIsn; CPre; CSweep; CPub2; CPub3]. Qed.
Lemma count_isn : count_thr (at_pc is_InitSwapNT) c = cnt CIsn (c_thr c).
Proof. count_tac [CIsn]. Qed.
Lemma count_pub23 : count_thr (at_pc is_Pub23) c = cnt CPub2 (c_thr c) + cnt CPub3 (c_thr c).
Proof. count_tac [CPub2; CPub3]. Qed.
Lemma count_pub3 : count_thr (at_pc is_Pub3) c = cnt CPub3 (c_thr c).
Proof. count_tac [CPub3]. Qed.

Lemma count_thr_nonneg f : 0 <= count_thr f c.
Proof. unfold count_thr. lia. Qed.

Lemma all_fwd_iff : all_fwd c = true <-> allfwd_from (c_bins c) 0.
Proof.
  unfold all_fwd, allfwd_from. rewrite forallb_forall. split.
  - intros H j _. destruct (Nat.lt_ge_cases j (length (c_bins c))) as [Hlt|Hge].
    + specialize (H _ (nth_In _ BFwd Hlt)). destruct (nth j (c_bins c) BFwd); try discriminate. reflexivity.
    + apply nth_overflow. exact Hge.
  - intros H b Hb. apply (In_nth _ _ BFwd) in Hb as (j & Hj & <-). rewrite H by lia. reflexivity.
Qed.

End Reading.
End InvDef.


Section Main.
Variable n : Z.
Variable ncpu : Z.
Variable sc0 : Z.
Variable bins0 : list binstate.
Variable k : nat.
Hypothesis Hn : In n table_lengths.
Hypothesis Hsc0 : 0 <= sc0.
Hypothesis Hlen0 : length bins0 = Z.to_nat n.
Hypothesis Hnofwd : ~ In BFwd bins0.

Notation run := (run n ncpu).
Notation act := (act n ncpu).
Notation step := (step n ncpu).
Notation tinv := (tinv n).

Lemma Inv_init : Inv n sc0 (init sc0 bins0 k).
Proof.
  split; [|split].
  - split; [exact Hlen0|]. split; [|discriminate].
    cbn [init c_thr c_bins]. induction k as [|m IH]; cbn [repeat]; constructor; [exact I|exact IH].
  - left. unfold NotStarted, npre, nfin. cbn [init c_thr c_log c_sc c_nt c_swapped b2z].
    rewrite !cnt_repeat_idle by discriminate. repeat split; reflexivity.
  - intros i. unfold count_ev. cbn [init c_log c_bins filter length].
    destruct (fwd_at bins0 i) eqn:E; [|reflexivity]. exfalso. apply Hnofwd.
    unfold fwd_at in E. destruct (nth_error bins0 i) as [b|] eqn:Eb; [|discriminate].
    destruct b; try discriminate. eapply nth_error_In; eassumption.
Qed.

Theorem Inv_run sched : Inv n sc0 (run (init sc0 bins0 k) sched).
Proof. apply run_ind; [exact Inv_init|intros; apply Inv_act; assumption]. Qed.

End Main.

(* ================= goal theorems ================= *)

(* BFwd is terminal, from any configuration whatsoever *)
Theorem bfwd_terminal n ncpu c sched i :
  c_bin c i = BFwd -> c_bin (run n ncpu c sched) i = BFwd.
Proof.
  intros H. apply (run_ind n ncpu (fun c' => c_bin c' i = BFwd)); [exact H|].
  intros c' a Hc'. destruct (bstep_ble _ _ (act_bstep n ncpu c' a)) as [_ Hb]. apply Hb. exact Hc'.
Qed.

Lemma npre_nfin_nonneg l : 0 <= npre l /\ 0 <= nfin l.
Proof.
  unfold npre, nfin.
  pose proof (cnt_nonneg CIsn l). pose proof (cnt_nonneg CPre l).
  pose proof (cnt_nonneg CSweep l). pose proof (cnt_nonneg CPub2 l).
  pose proof (cnt_nonneg CPub3 l). lia.
Qed.

Lemma b2z_0 b : b2z b = 0 -> b = false.
Proof. destruct b; cbn; [lia|reflexivity]. Qed.
Lemma b2z_1 b : b2z b = 1 -> b = true.
Proof. destruct b; cbn; [reflexivity|lia]. Qed.
Lemma b2z_not_1 b : b2z b <> 1 -> b = false.
Proof. destruct b; cbn; [lia|reflexivity]. Qed.

Section Goals.
Variable n : Z.
Variable ncpu : Z.
Variable sc0 : Z.
Variable bins0 : list binstate.
Variable k : nat.
Hypothesis Hn : In n table_lengths.
Hypothesis Hsc0 : 0 <= sc0.
Hypothesis Hlen0 : length bins0 = Z.to_nat n.
Hypothesis Hnofwd : ~ In BFwd bins0.
Variable sched : list action.

Notation c := (run n ncpu (init sc0 bins0 k) sched).

Let HI : Inv n sc0 c. Proof. apply Inv_run; assumption. Qed.

(* ---- 1. every bin is migrated at most once; forwarded iff migrated ---- *)

Theorem each_bin_once i : (count_ev (is_migrated i) c <= 1)%nat.
Proof.
  destruct HI as (_ & _ & Hl). rewrite (Hl i). destruct (fwd_at _ _); lia.
Qed.

Theorem migrated_iff_fwd i :
  (i < Z.to_nat n)%nat -> (c_bin c i = BFwd <-> count_ev (is_migrated i) c = 1%nat).
Proof.
  intros Hi. destruct HI as ((Hlen & _) & _ & Hl). rewrite (Hl i).
  destruct (fwd_at (c_bins c) i) eqn:E.
  - apply fwd_at_nth in E as [_ E]. unfold c_bin. tauto.
  - split; [|discriminate]. intros Hb. exfalso.
    assert (F : fwd_at (c_bins c) i = true) by (apply fwd_at_nth; split; [lia|exact Hb]). congruence.
Qed.

Theorem migrated_in_range i : (Z.to_nat n <= i)%nat -> count_ev (is_migrated i) c = 0%nat.
Proof.
  intros Hi. destruct HI as ((Hlen & _) & _ & Hl). rewrite (Hl i).
  destruct (fwd_at (c_bins c) i) eqn:E; [|reflexivity]. apply fwd_at_nth in E as [E _]. lia.
Qed.

(* ---- 5. bin indices are in range ---- *)

Theorem indices_in_range t ph l seen :
  thr c t = T ph (AtBin l seen) -> 0 <= li l < n /\ (Z.to_nat (li l) < length (c_bins c))%nat.
Proof.
  intros Ht. destruct HI as ((Hlen & Hall & _) & _ & _).
  assert (Hin : In (T ph (AtBin l seen)) (c_thr c)).
  { unfold thr in Ht. destruct (Nat.lt_ge_cases t (length (c_thr c))) as [Hlt|Hge].
    - rewrite <- Ht. apply nth_In. exact Hlt.
    - rewrite nth_overflow in Ht by exact Hge. discriminate. }
  rewrite Forall_forall in Hall. specialize (Hall _ Hin). cbn [tinv] in Hall. lia.
Qed.

(* the thread-local invariant, for every thread id (ids beyond the table are Gone): no thread is
   ever at Loop, ClaimCas / LeaveCas are only reached with finishing = false, join candidates
   carry a negative sc that passed the two refusal tests, and the finisher's sweep: *)
Theorem thread_local_invariant t : tinv n (c_bins c) (thr c t).
Proof.
  destruct HI as ((_ & Hall & _) & _ & _). unfold thr.
  destruct (Nat.lt_ge_cases t (length (c_thr c))) as [Hlt|Hge].
  - rewrite Forall_forall in Hall. apply Hall. apply nth_In. exact Hlt.
  - rewrite nth_overflow by exact Hge. exact I.
Qed.

(* when the finisher stands at bin i, every bin above i is already forwarded *)
Theorem finisher_sweep t ph l seen j :
  thr c t = T ph (AtBin l seen) -> lfinishing l = true ->
  (Z.to_nat (li l) < j)%nat -> c_bin c j = BFwd.
Proof.
  intros Ht Hf Hj. pose proof (thread_local_invariant t) as H. rewrite Ht in H. cbn [tinv] in H.
  destruct H as [_ H]. destruct (H Hf) as (_ & Hs & _). apply Hs. lia.
Qed.

(* the publication steps are only reached with every bin forwarded *)
Theorem publisher_all_fwd t ph q :
  thr c t = T ph q -> is_Pub23 q = true \/ (exists l, q = Pub1 l) -> all_fwd c = true.
Proof.
  intros Ht Hq. pose proof (thread_local_invariant t) as H. rewrite Ht in H.
  apply (all_fwd_iff c). destruct Hq as [Hq|[l ->]]; [|exact H].
  destruct q; try discriminate; exact H.
Qed.

(* ---- the phase invariant (4.) ---- *)

Theorem phase_invariant : NotStarted sc0 c \/ Running n c \/ Published n c.
Proof. apply HI. Qed.

Lemma pre_fin_nonneg : 0 <= npre (c_thr c) /\ 0 <= nfin (c_thr c).
Proof. apply npre_nfin_nonneg. Qed.

Lemma in_progress_running : c_sc c < 0 -> Running n c.
Proof.
  intros Hs. pose proof (n_facts n Hn) as (_ & _ & Hsc & _).
  destruct phase_invariant as [HN|[HR|HP]]; [|exact HR|].
  - destruct HN as (_ & E & _). lia.
  - destruct HP as (E & _). lia.
Qed.

Lemma count_pos_nonempty f : (1 <= count_ev f c)%nat -> c_log c <> [].
Proof. unfold count_ev. intros H E. rewrite E in H. cbn in H. lia. Qed.

Theorem in_progress_iff :
  c_sc c < 0 <-> (c_log c <> [] /\ count_ev is_published c = 0%nat).
Proof.
  pose proof (n_facts n Hn) as (_ & _ & Hsc & _ & Hrs).
  destruct phase_invariant as [HN|[HR|HP]].
  - destruct HN as (El & E & _). split; [lia|]. intros [H _]. contradiction.
  - destruct HR as (E & Hb & Ep & Ei & _). pose proof pre_fin_nonneg. split; [|lia].
    intros _. split; [|exact Ep]. apply (count_pos_nonempty is_init). lia.
  - destruct HP as (E & _ & _ & Ep & _). split; [lia|]. intros [_ H]. lia.
Qed.

(* size_ctl = stamp + 1 + number of threads that entered and have not yet left, while the
   resize is in progress; the bound; the election: either nobody is finishing and somebody is
   still to leave, or exactly one finisher exists, everybody else has left and size_ctl = rs + 1
   (at which value every join test refuses) *)
Theorem size_ctl_counts_resizers :
  c_sc c < 0 ->
  c_sc c = rs n + 1 + count_thr pre_leave c /\
  count_thr pre_leave c + count_thr finisher c < MAX_RESIZERS /\
  ((count_thr finisher c = 0 /\ 1 <= count_thr pre_leave c /\ c_swapped c = false) \/
   (count_thr finisher c = 1 /\ count_thr pre_leave c = 0 /\ c_sc c = rs n + 1)).
Proof.
  intros Hs. pose proof (in_progress_running Hs) as (E & Hb & _ & _ & Hd & _ & Hsw & _).
  rewrite (count_pre_leave n sc0 c HI), (count_finisher n sc0 c HI).
  pose proof pre_fin_nonneg as [Hp Hf]. pose proof MAX_RESIZERS_ge.
  split; [exact E|]. split; [lia|].
  destruct Hd as [[Hd1 Hd2]|[Hd1 Hd2]]; [left|right; lia].
  split; [exact Hd1|]. split; [exact Hd2|]. apply b2z_not_1. intros H1. apply Hsw in H1.
  unfold nfin in Hd1. pose proof (cnt_nonneg CSweep (c_thr c)). pose proof (cnt_nonneg CPub2 (c_thr c)). lia.
Qed.

Theorem size_ctl_when_not_resizing :
  0 <= c_sc c -> count_thr inside c = 0 /\ (c_sc c = sc0 \/ c_sc c = next_threshold n).
Proof.
  intros Hs. pose proof (n_facts n Hn) as (_ & _ & Hsc & _ & Hrs).
  rewrite (count_inside n sc0 c HI). pose proof pre_fin_nonneg.
  destruct phase_invariant as [HN|[HR|HP]].
  - destruct HN as (_ & E & _ & _ & _ & _ & _ & Hp & Hf). split; [lia|left; exact E].
  - destruct HR as (E & Hb & _). lia.
  - destruct HP as (E & _ & _ & _ & _ & Hp & Hf). split; [lia|right; exact E].
Qed.

Theorem helpers_bounded : count_thr inside c < MAX_RESIZERS.
Proof.
  rewrite (count_inside n sc0 c HI). pose proof MAX_RESIZERS_ge.
  destruct phase_invariant as [HN|[HR|HP]].
  - destruct HN as (_ & _ & _ & _ & _ & _ & _ & Hp & Hf). lia.
  - destruct HR as (_ & Hb & _ & _ & Hd & _). lia.
  - destruct HP as (_ & _ & _ & _ & _ & Hp & Hf). lia.
Qed.

(* next_table is non-null exactly from the initiator's swap until the finisher's Pub1 store *)
Theorem next_table_window :
  c_nt c = true <->
  (c_sc c < 0 /\ count_thr (at_pc is_InitSwapNT) c = 0 /\ count_thr (at_pc is_Pub23) c = 0).
Proof.
  pose proof (n_facts n Hn) as (_ & _ & Hsc & _ & Hrs).
  rewrite (count_isn n sc0 c HI), (count_pub23 n sc0 c HI).
  pose proof (cnt_nonneg CIsn (c_thr c)). pose proof (cnt_nonneg CPub2 (c_thr c)).
  pose proof (cnt_nonneg CPub3 (c_thr c)). pose proof pre_fin_nonneg.
  destruct phase_invariant as [HN|[HR|HP]].
  - destruct HN as (_ & E & Hnt & _). apply b2z_0 in Hnt. rewrite Hnt. split; [discriminate|lia].
  - destruct HR as (E & Hb & _ & _ & _ & Hp & _ & Ht & Hi1 & Hi0). split.
    + intros Hnt. rewrite Hnt in *. cbn [b2z] in *. lia.
    + intros (_ & Hi & Hq). apply b2z_1. apply Ht; assumption.
  - destruct HP as (E & Hnt & _). apply b2z_0 in Hnt. rewrite Hnt. split; [discriminate|lia].
Qed.

(* ---- 2. single publication, after every bin was migrated ---- *)

Theorem single_publisher : (count_ev is_published c <= 1)%nat.
Proof.
  destruct phase_invariant as [HN|[HR|HP]].
  - destruct HN as (_ & _ & _ & _ & E & _). lia.
  - destruct HR as (_ & _ & E & _). lia.
  - destruct HP as (_ & _ & _ & E & _). lia.
Qed.

Theorem single_initiator : (count_ev is_init c <= 1)%nat.
Proof.
  destruct phase_invariant as [HN|[HR|HP]].
  - destruct HN as (_ & _ & _ & _ & _ & E & _). lia.
  - destruct HR as (_ & _ & _ & E & _). lia.
  - destruct HP as (_ & _ & _ & _ & E & _). lia.
Qed.

Theorem swapped_all_fwd : c_swapped c = true -> all_fwd c = true.
Proof.
  intros Hs. apply all_fwd_iff. destruct HI as ((_ & _ & H) & _). apply H. exact Hs.
Qed.

Theorem published_is_swapped : count_ev is_published c = 1%nat <-> c_swapped c = true /\ 0 <= c_sc c.
Proof.
  pose proof (n_facts n Hn) as (_ & _ & Hsc & _ & Hrs). pose proof pre_fin_nonneg.
  destruct phase_invariant as [HN|[HR|HP]].
  - destruct HN as (_ & _ & _ & Hsw & E & _). apply b2z_0 in Hsw. rewrite Hsw, E.
    split; [discriminate|]. intros [? _]. discriminate.
  - destruct HR as (E & Hb & Ep & _). rewrite Ep. split; [discriminate|lia].
  - destruct HP as (E & _ & Hsw & Ep & _). apply b2z_1 in Hsw. rewrite Hsw, Ep.
    split; [|reflexivity]. intros _. split; [reflexivity|lia].
Qed.

Theorem published_after_all_migrated : count_ev is_published c = 1%nat -> all_fwd c = true.
Proof. intros H. apply swapped_all_fwd. apply published_is_swapped. exact H. Qed.

(* ---- 3. completion ---- *)

Lemma nobody_inside_count : nobody_inside c = true -> count_thr inside c = 0.
Proof.
  unfold nobody_inside, count_thr. intros H.
  replace (filter inside (c_thr c)) with (@nil tpc); [reflexivity|].
  induction (c_thr c) as [|p l IH]; [reflexivity|]. cbn [forallb filter] in *.
  apply andb_prop in H as [H1 H2]. destruct (inside p); [discriminate|]. apply IH. exact H2.
Qed.

Theorem completion :
  nobody_inside c = true ->
  (c_swapped c = false /\ c_sc c = sc0 /\ c_nt c = false /\ c_log c = []) \/
  (c_swapped c = true /\ c_sc c = next_threshold n /\ c_nt c = false /\ all_fwd c = true /\
   count_ev is_published c = 1%nat).
Proof.
  intros Hno. apply nobody_inside_count in Hno. rewrite (count_inside n sc0 c HI) in Hno.
  pose proof pre_fin_nonneg.
  destruct phase_invariant as [HN|[HR|HP]].
  - left. destruct HN as (El & E & Hnt & Hsw & _). apply b2z_0 in Hnt, Hsw. auto.
  - exfalso. destruct HR as (_ & _ & _ & _ & Hd & _). lia.
  - right. destruct HP as (E & Hnt & Hsw & Ep & _). apply b2z_0 in Hnt. apply b2z_1 in Hsw.
    split; [exact Hsw|]. split; [exact E|]. split; [exact Hnt|]. split; [|exact Ep].
    apply swapped_all_fwd. exact Hsw.
Qed.

End Goals.

(* ---- the initiating CAS may be folded with the load of size_ctl (ResizeProto.step, Idle) ----
   In the implementation the initiator loads sc = s >= 0 (and the table), and later executes
   CAS(sc, s, rs + 2).  If the CAS succeeds, size_ctl holds s again at that instant; then the
   configuration at the CAS is still "not started" - the tests made at the load (s >= 0, table
   not yet replaced) hold again at the CAS, so the pair load ; CAS behaves as the single step of
   the model taken at the instant of the CAS.  This needs sc0 <> next_threshold n (no ABA on the
   value of size_ctl); for the threshold of a table of length n, load_factor n, this holds. *)
Definition thresholds_differ_b : bool :=
  forallb (fun n => negb (load_factor n =? next_threshold n)) table_lengths.
Lemma thresholds_differ n : In n table_lengths -> load_factor n <> next_threshold n.
Proof.
  assert (H : thresholds_differ_b = true) by (vm_compute; reflexivity).
  intros Hn. unfold thresholds_differ_b in H. rewrite forallb_forall in H. specialize (H n Hn). lia.
Qed.

Theorem cas_sc_atomic n ncpu sc0 bins0 k sched sched' :
  In n table_lengths -> 0 <= sc0 -> length bins0 = Z.to_nat n -> ~ In BFwd bins0 ->
  sc0 <> next_threshold n ->
  let c := run n ncpu (init sc0 bins0 k) sched in          (* at the load *)
  let c' := run n ncpu c sched' in                          (* at the CAS *)
  0 <= c_sc c -> c_swapped c = false ->                     (* the tests made after the load *)
  c_sc c' = c_sc c ->                                       (* the CAS succeeds *)
  c_sc c' = sc0 /\ c_swapped c' = false /\ c_nt c' = false /\ c_log c' = [].
Proof.
  intros Hn Hsc0 Hlen Hnf Hne c c' Hs Hsw Hcas.
  pose proof (n_facts n Hn) as (_ & _ & Hsc & _ & Hrs).
  assert (E : c_sc c = sc0).
  { pose proof (npre_nfin_nonneg (c_thr c)).
    destruct (phase_invariant n ncpu sc0 bins0 k Hn Hsc0 Hlen Hnf sched) as [HN|[HR|HP]].
    - apply HN.
    - destruct HR as (E & Hb & _). subst c. lia.
    - destruct HP as (_ & _ & H1 & _). subst c. rewrite Hsw in H1. discriminate. }
  assert (Ec' : c' = run n ncpu (init sc0 bins0 k) (sched ++ sched')) by (symmetry; apply run_app).
  pose proof (npre_nfin_nonneg (c_thr c')).
  destruct (phase_invariant n ncpu sc0 bins0 k Hn Hsc0 Hlen Hnf (sched ++ sched')) as [HN|[HR|HP]];
    rewrite <- Ec' in *.
  - destruct HN as (El & Es & Hnt & Hsw' & _). apply b2z_0 in Hnt, Hsw'. auto.
  - destruct HR as (E' & Hb & _). unfold next_threshold in Hne. lia.
  - destruct HP as (E' & _). unfold next_threshold in Hne. lia.
Qed.

(* for the threshold an n-bin table actually carries *)
Corollary cas_sc_atomic_load_factor n ncpu bins0 k sched sched' :
  In n table_lengths -> length bins0 = Z.to_nat n -> ~ In BFwd bins0 ->
  let sc0 := load_factor n in
  let c := run n ncpu (init sc0 bins0 k) sched in
  let c' := run n ncpu c sched' in
  0 <= c_sc c -> c_swapped c = false -> c_sc c' = c_sc c ->
  c_sc c' = sc0 /\ c_swapped c' = false /\ c_nt c' = false /\ c_log c' = [].
Proof.
  intros Hn Hlen Hnf sc0. apply cas_sc_atomic; try assumption.
  - subst sc0. rewrite load_factor_eq. destruct (n_facts n Hn) as (H1 & _). lia.
  - apply thresholds_differ, Hn.
Qed.

(* ================= 6. non-vacuity: concrete runs ================= *)

Definition each_migrated_once (m : nat) (c : cfg) : bool :=
  forallb (fun i => Nat.eqb (count_ev (is_migrated i) c) 1) (seq 0 m).

(* (a) one thread alone resizes a 16-bin table: it initiates, claims (and gets i = n), is the
   last one out, sweeps 15 .. 0 and publishes *)
Definition ex1 : cfg := run 16 4 (init 12 (repeat BFull 16) 1) (repeat (AThread 0%nat) 60).

Example ex1_complete :
  c_swapped ex1 = true /\ all_fwd ex1 = true /\ nobody_inside ex1 = true /\
  c_sc ex1 = next_threshold 16 /\ c_nt ex1 = false /\ each_migrated_once 16 ex1 = true /\
  count_ev is_published ex1 = 1%nat.
Proof. vm_compute. repeat split; reflexivity. Qed.

(* 43 steps are exactly enough, 42 are not *)
Example ex1_steps :
  c_swapped (run 16 4 (init 12 (repeat BFull 16) 1) (repeat (AThread 0%nat) 43)) = true /\
  nobody_inside (run 16 4 (init 12 (repeat BFull 16) 1) (repeat (AThread 0%nat) 42)) = false.
Proof. vm_compute. split; reflexivity. Qed.

(* (b) three threads, 64 bins, stride 16, round-robin with some environment actions *)
Definition rr (m : nat) : list action :=
  concat (repeat [AThread 0%nat; AThread 1%nat; AThread 2%nat] m).
Definition sched2 : list action := rr 6 ++ [AEnv 3%nat; AEnv 40%nat; AEnv 63%nat] ++ rr 400.
Definition ex2_at (m : nat) : cfg := run 64 4 (init 48 (repeat BFull 64) 3) (firstn m sched2).
Definition ex2 : cfg := run 64 4 (init 48 (repeat BFull 64) 3) sched2.

Example ex2_stride : stride 64 4 = 16.
Proof. vm_compute. reflexivity. Qed.

Example ex2_complete :
  c_swapped ex2 = true /\ all_fwd ex2 = true /\ nobody_inside ex2 = true /\
  c_sc ex2 = next_threshold 64 /\ c_nt ex2 = false /\ each_migrated_once 64 ex2 = true /\
  count_ev is_published ex2 = 1%nat.
Proof. vm_compute. repeat split; reflexivity. Qed.

(* three threads are inside at the same time after 30 actions; size_ctl = rs + 1 + 3 there *)
Example ex2_concurrent :
  count_thr inside (ex2_at 30) = 3 /\ c_sc (ex2_at 30) = rs 64 + 1 + 3 /\
  count_thr inside (ex2_at 100) = 2 /\ count_thr finisher (ex2_at 300) = 1 /\
  c_sc (ex2_at 300) = rs 64 + 1.
Proof. vm_compute. repeat split; reflexivity. Qed.

(* the peculiarity i = next_index: the stride 48..63 is claimed by the initiator, who gets
   i = 64 = n and leaves at once; bins 49..63 are migrated by the finisher's sweep only, after
   everybody else has left (event order of the run) *)
Example ex2_log_shape :
  exists pre post, rev (c_log ex2) = pre ++ [ELeft 2%nat false] ++ post /\
    forallb (fun e => negb (is_migrated 63 e)) pre = true /\
    existsb (is_migrated 63) post = true /\ existsb (is_migrated 49) post = true.
Proof.
  exists (firstn 37 (rev (c_log ex2))), (skipn 38 (rev (c_log ex2))). vm_compute.
  repeat split; reflexivity.
Qed.

(* ================= assumptions ================= *)
Print Assumptions bfwd_terminal.
Print Assumptions each_bin_once.
Print Assumptions migrated_iff_fwd.
Print Assumptions migrated_in_range.
Print Assumptions indices_in_range.
Print Assumptions thread_local_invariant.
Print Assumptions finisher_sweep.
Print Assumptions publisher_all_fwd.
Print Assumptions phase_invariant.
Print Assumptions in_progress_iff.
Print Assumptions size_ctl_counts_resizers.
Print Assumptions size_ctl_when_not_resizing.
Print Assumptions helpers_bounded.
Print Assumptions next_table_window.
Print Assumptions single_publisher.
Print Assumptions single_initiator.
Print Assumptions swapped_all_fwd.
Print Assumptions published_is_swapped.
Print Assumptions published_after_all_migrated.
Print Assumptions completion.
Print Assumptions ex1_complete.
Print Assumptions ex2_complete.
Print Assumptions ex2_concurrent.
Print Assumptions cas_sc_atomic.
Print Assumptions cas_sc_atomic_load_factor.
