(* Lemmas about the regenerated arithmetic (Gen/GenArith.v). *)
From Flurry Require Import Model.Arith.
From Coq Require Import ZArith Lia List Bool String.
Import ListNotations.
Open Scope Z_scope.
Ltac Zify.zify_post_hook ::= Z.div_mod_to_equations.

(* ---------- finite domain: the 31 legal table lengths ---------- *)

Lemma table_lengths_spec n : In n table_lengths <-> exists j, 0 <= j <= 30 /\ n = 2 ^ j.
Proof.
  unfold table_lengths. rewrite in_map_iff. split.
  - intros (j & <- & Hj). apply in_seq in Hj. exists (Z.of_nat j). split; [lia|reflexivity].
  - intros (j & Hj & ->). exists (Z.to_nat j). split.
    + f_equal. lia.
    + apply in_seq. lia.
Qed.

Definition stamp_negative_b : bool := forallb (fun n => rs n <? 0) table_lengths.
Lemma stamp_negative : forall n, In n table_lengths -> rs n < 0.
Proof.
  assert (H : stamp_negative_b = true) by (vm_compute; reflexivity).
  intros n Hn. unfold stamp_negative_b in H. rewrite forallb_forall in H.
  specialize (H n Hn). lia.
Qed.

(* all values rs n + 1 .. rs n + MAX_RESIZERS (and rs n + 2, the initiator's value) are negative,
   and the ranges of two different lengths are disjoint *)
Definition stamp_ranges_b : bool :=
  forallb (fun n => (rs n + MAX_RESIZERS <? 0) && (- 2 ^ 63 <=? rs n) &&
     forallb (fun m => (n =? m) || (MAX_RESIZERS <? Z.abs (rs n - rs m))) table_lengths)
    table_lengths.
Lemma stamp_ranges :
  forall n m, In n table_lengths -> In m table_lengths ->
    rs n + MAX_RESIZERS < 0 /\ - 2 ^ 63 <= rs n /\ (n <> m -> MAX_RESIZERS < Z.abs (rs n - rs m)).
Proof.
  assert (H : stamp_ranges_b = true) by (vm_compute; reflexivity).
  intros n m Hn Hm. unfold stamp_ranges_b in H. rewrite forallb_forall in H.
  specialize (H n Hn). apply andb_prop in H as [H1 H2]. apply andb_prop in H1 as [H0 H1].
  rewrite forallb_forall in H2. specialize (H2 m Hm).
  split; [lia|]. split; [lia|].
  intros Hne. apply orb_prop in H2 as [H2|H2]; lia.
Qed.

Lemma stamp_injective n m :
  In n table_lengths -> In m table_lengths -> rs n = rs m -> n = m.
Proof.
  intros Hn Hm E. destruct (Z.eq_dec n m) as [|Hne]; [assumption|].
  destruct (stamp_ranges n m Hn Hm) as (_ & _ & H). specialize (H Hne).
  rewrite E, Z.sub_diag in H. cbn in H. unfold MAX_RESIZERS in H. vm_compute in H. discriminate.
Qed.

(* the three places that compute the shifted stamp agree, syntactically *)
Lemma rs_sites_agree n : rs_help_transfer n = rs_add_count n /\ rs_try_presize n = rs_add_count n.
Proof. split; reflexivity. Qed.

(* the election test of transfer recognises exactly the value "initiator's value" *)
Lemma transfer_last_iff sc n :
  transfer_not_last sc n = false <-> sc = init_sc_add_count (rs n).
Proof.
  unfold transfer_not_last, init_sc_add_count, rs, rs_add_count.
  rewrite negb_false_iff, Z.eqb_eq. lia.
Qed.

Lemma init_sc_agree r : init_sc_add_count r = init_sc_try_presize r.
Proof. reflexivity. Qed.

Lemma join_leave_inverse sc :
  transfer_leave_sc (add_count_join_sc sc) = sc /\ transfer_leave_sc (help_transfer_join_sc sc) = sc.
Proof. unfold transfer_leave_sc, add_count_join_sc, help_transfer_join_sc. lia. Qed.

(* the join tests refuse exactly at the two boundary values *)
Lemma add_count_break_iff sc r :
  add_count_break sc r = true <-> sc = r + MAX_RESIZERS \/ sc = r + 1.
Proof. unfold add_count_break. rewrite orb_true_iff, !Z.eqb_eq. tauto. Qed.

Lemma help_transfer_break_iff sc r ti :
  help_transfer_break sc r ti = true <->
  0 <= sc \/ Z.shiftr sc RESIZE_STAMP_SHIFT <> Z.shiftr r RESIZE_STAMP_SHIFT \/
  sc = r + MAX_RESIZERS \/ sc = r + 1 \/ ti <= 0.
Proof.
  unfold help_transfer_break.
  rewrite !orb_true_iff, negb_true_iff, Z.eqb_neq, !Z.eqb_eq, Z.geb_le, Z.leb_le. tauto.
Qed.

(* ---------- generations: a helper only ever joins the resize of the table it holds ----------
   help_transfer validates `table` and `next_table` and only then reads size_ctl; a whole resize can
   complete in between, so the value read may belong to the resize of a later (longer) table.
   Every size_ctl value of the resize of a table of length m is rs m + k with 0 <= k <=
   MAX_RESIZERS; the test refuses all of them unless m is the length of the helper's own table. *)
Definition stamp_aligned_b : bool :=
  forallb (fun n => rs n mod 2 ^ RESIZE_STAMP_SHIFT =? 0) table_lengths.
Lemma stamp_aligned n : In n table_lengths -> rs n mod 2 ^ RESIZE_STAMP_SHIFT = 0.
Proof.
  assert (H : stamp_aligned_b = true) by (vm_compute; reflexivity).
  intros Hn. unfold stamp_aligned_b in H. rewrite forallb_forall in H. specialize (H n Hn). lia.
Qed.

Lemma shift_pos : 0 <= RESIZE_STAMP_SHIFT. Proof. vm_compute. discriminate. Qed.
Lemma max_resizers_lt : MAX_RESIZERS < 2 ^ RESIZE_STAMP_SHIFT. Proof. vm_compute. reflexivity. Qed.

Lemma generation_of_sc n k :
  In n table_lengths -> 0 <= k < 2 ^ RESIZE_STAMP_SHIFT ->
  Z.shiftr (rs n + k) RESIZE_STAMP_SHIFT = Z.shiftr (rs n) RESIZE_STAMP_SHIFT.
Proof.
  intros Hn Hk. rewrite !Z.shiftr_div_pow2 by exact shift_pos.
  pose proof (stamp_aligned n Hn) as Ha.
  set (P := 2 ^ RESIZE_STAMP_SHIFT) in *.
  assert (HP : 0 < P) by (subst P; apply Z.pow_pos_nonneg; [lia | exact shift_pos]).
  pose proof (Z.div_mod (rs n) P ltac:(lia)) as E. rewrite Ha, Z.add_0_r in E.
  rewrite E at 1. rewrite Z.mul_comm, Z.div_add_l by lia.
  rewrite (Z.div_small k P) by lia. lia.
Qed.

Definition generations_distinct_b : bool :=
  forallb (fun n => forallb (fun m => (n =? m) ||
     negb (Z.shiftr (rs n) RESIZE_STAMP_SHIFT =? Z.shiftr (rs m) RESIZE_STAMP_SHIFT)) table_lengths) table_lengths.
Lemma generations_distinct n m :
  In n table_lengths -> In m table_lengths -> n <> m ->
  Z.shiftr (rs n) RESIZE_STAMP_SHIFT <> Z.shiftr (rs m) RESIZE_STAMP_SHIFT.
Proof.
  assert (H : generations_distinct_b = true) by (vm_compute; reflexivity).
  intros Hn Hm Hne. unfold generations_distinct_b in H. rewrite forallb_forall in H.
  specialize (H n Hn). rewrite forallb_forall in H. specialize (H m Hm).
  apply orb_prop in H as [H|H]; [lia|]. apply negb_true_iff, Z.eqb_neq in H. exact H.
Qed.

Theorem helper_joins_own_generation n m k ti :
  In n table_lengths -> In m table_lengths -> n <> m -> 0 <= k <= MAX_RESIZERS ->
  help_transfer_break (rs m + k) (rs_help_transfer n) ti = true.
Proof.
  intros Hn Hm Hne Hk. apply help_transfer_break_iff. right. left.
  rewrite generation_of_sc by (try assumption; pose proof max_resizers_lt; lia).
  change (rs_help_transfer n) with (rs n).
  intro E. exact (generations_distinct m n Hm Hn (fun e => Hne (eq_sym e)) E).
Qed.

(* the test as it was before the fix (finding F6) lets a helper holding a 16-bin table join the
   resize of the 32-bin table that replaced it *)
Definition help_transfer_break_before_fix (sc r ti : Z) : bool :=
  (sc >=? 0) || (sc =? r + MAX_RESIZERS) || (sc =? r + 1) || (ti <=? 0).
Example stale_helper_was_admitted :
  help_transfer_break_before_fix (rs 32 + 2) (rs_help_transfer 16) 32 = false /\
  help_transfer_break (rs 32 + 2) (rs_help_transfer 16) 32 = true.
Proof. split; vm_compute; reflexivity. Qed.

(* ---------- capacity rounding ---------- *)

Lemma shiftr_div z k : 0 <= k -> Z.shiftr z k = z / 2 ^ k.
Proof. intros. apply Z.shiftr_div_pow2; assumption. Qed.

Lemma load_factor_eq n : load_factor n = n - n / 4.
Proof. unfold load_factor. rewrite shiftr_div by lia. reflexivity. Qed.

Lemma next_pow2_ge z : z <= next_pow2 z.
Proof.
  unfold next_pow2. destruct (Z.leb_spec z 1); [lia|].
  apply Z.log2_up_spec. lia.
Qed.

Lemma next_pow2_is_pow2 z : exists j, 0 <= j /\ next_pow2 z = 2 ^ j.
Proof.
  unfold next_pow2. destruct (Z.leb_spec z 1).
  - exists 0. split; [lia|reflexivity].
  - exists (Z.log2_up z). split; [apply Z.log2_up_nonneg|reflexivity].
Qed.

Lemma next_pow2_lt_double z : 1 <= z -> next_pow2 z < 2 * z.
Proof.
  intros Hz. unfold next_pow2. destruct (Z.leb_spec z 1); [lia|].
  pose proof (Z.log2_up_spec z ltac:(lia)) as [H1 _].
  replace (Z.log2_up z) with (Z.succ (Z.pred (Z.log2_up z))) by lia.
  rewrite Z.pow_succ_r; [lia|].
  assert (0 < Z.log2_up z) by (apply Z.log2_up_pos; lia). lia.
Qed.

Lemma MAXIMUM_CAPACITY_eq : MAXIMUM_CAPACITY = 2 ^ 30.
Proof. reflexivity. Qed.

Lemma table_size_for_pow2 c : 0 <= c -> exists j, 0 <= j <= 30 /\ table_size_for c = 2 ^ j.
Proof.
  intros Hc. unfold table_size_for, capacity_round_presize. rewrite MAXIMUM_CAPACITY_eq.
  destruct (Z.geb_spec c (2 ^ 30 / 2)).
  - exists 30. split; [lia|reflexivity].
  - cbv zeta. destruct (next_pow2_is_pow2 (c + Z.shiftr c 1 + 1)) as (j & Hj & E).
    rewrite E. destruct (Z.le_gt_cases (2 ^ j) (2 ^ 30)) as [Hle|Hgt].
    + rewrite Z.min_r by assumption. exists j. split; [|reflexivity].
      split; [assumption|]. apply (Z.pow_le_mono_r_iff 2); lia.
    + rewrite Z.min_l by lia. exists 30. split; [lia|reflexivity].
Qed.

(* a table sized for c holds c entries below its resize threshold *)
Lemma table_size_for_holds c :
  0 < c <= 2 ^ 29 -> c < load_factor (table_size_for c).
Proof.
  intros Hc. rewrite load_factor_eq. unfold table_size_for, capacity_round_presize.
  rewrite MAXIMUM_CAPACITY_eq.
  destruct (Z.geb_spec c (2 ^ 30 / 2)).
  - change (2 ^ 30 / 2) with (2 ^ 29) in *. assert (c = 2 ^ 29) by lia. subst c.
    vm_compute. reflexivity.
  - cbv zeta. rewrite shiftr_div by lia. change (2 ^ 1) with 2.
    pose proof (next_pow2_ge (c + c / 2 + 1)).
    set (p := next_pow2 (c + c / 2 + 1)) in *.
    change (2 ^ 30 / 2) with (2 ^ 29) in *.
    destruct (Z.le_gt_cases p (2 ^ 30)).
    + rewrite Z.min_r by assumption. lia.
    + rewrite Z.min_l by lia. change (2^30) with 1073741824. change (2^29) with 536870912 in *. lia.
Qed.

Lemma both_roundings_agree c : capacity_round_presize c = capacity_round_try_presize c.
Proof. reflexivity. Qed.

(* threshold after a resize = three quarters of the doubled length *)
Lemma next_threshold_eq n :
  0 <= n < 2 ^ 61 -> Z.even n = true \/ n = 1 ->
  next_threshold n = load_factor (transfer_new_len n) /\ transfer_new_len n = 2 * n.
Proof.
  intros Hn He. unfold next_threshold, transfer_next_sc, transfer_new_len.
  rewrite load_factor_eq, !shiftr_div by lia. rewrite !Z.shiftl_mul_pow2 by lia.
  change (2 ^ 1) with 2. rewrite wrap64_id by lia.
  split; [|lia].
  destruct He as [He| ->]; [|reflexivity].
  apply Zeven_bool_iff in He. destruct (Zeven_ex n He) as [k ->].
  replace (2 * k * 2) with (k * 4) by lia. rewrite Z.div_mul by lia.
  replace (2 * k) with (k * 2) by lia. rewrite Z.div_mul by lia. lia.
Qed.

(* ---------- counter update ---------- *)

(* what the caller of add_count compares with size_ctl is what the counter now holds *)
Lemma add_count_local_is_stored old n : add_count_local old n = add_count_stored old n.
Proof.
  unfold add_count_local, add_count_stored. destruct (n ?= 0) eqn:E; try reflexivity.
  change (n < 0) in E. rewrite Z.abs_neq by lia. lia.
Qed.

Lemma add_count_stored_eq old n : add_count_stored old n = old + n.
Proof.
  unfold add_count_stored. destruct (n ?= 0) eqn:E.
  - apply Z.compare_eq_iff in E. lia.
  - change (n < 0) in E. rewrite Z.abs_neq by lia. lia.
  - reflexivity.
Qed.

(* ---------- removal paths never request a resize except compute_if_present ---------- *)
Definition removal_sites_without_hint : bool :=
  forallb (fun '(f, d, h) => (0 <=? d) || negb h ||
             (String.eqb f "compute_if_present"%string))%bool add_count_sites.
Lemma removal_sites_ok : removal_sites_without_hint = true.
Proof. vm_compute. reflexivity. Qed.
