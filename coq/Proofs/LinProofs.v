(* Soundness of the linearizability checker: a history accepted by lin_b is linearizable. *)
From Flurry Require Import Model.Lin.
From Coq Require Import List Bool Lia Permutation.
Import ListNotations.

Lemma oeqb_eq a b : oeqb a b = true -> a = b.
Proof.
  destruct a, b; cbn; intros H; try discriminate; try reflexivity.
  apply Z.eqb_eq in H. subst. reflexivity.
Qed.

Lemma picks_perm {A} (l : list A) x r : In (x, r) (picks l) -> Permutation (x :: r) l.
Proof.
  revert x r. induction l as [|y l IH]; intros x r H; cbn in H; [contradiction|].
  destruct H as [H|H].
  - injection H as -> ->. apply Permutation_refl.
  - apply in_map_iff in H as ([x' r'] & E & Hin). cbn in E. injection E as -> <-.
    specialize (IH _ _ Hin).
    eapply Permutation_trans; [apply perm_swap|]. apply perm_skip. exact IH.
Qed.

Lemma minimal_spec c rest : minimal c rest = true -> forall d, In d rest -> ~ before d c.
Proof.
  unfold minimal, before. rewrite forallb_forall. intros H d Hd Hlt.
  specialize (H d Hd). apply negb_true_iff, N.ltb_ge in H. lia.
Qed.

Lemma fin_okb_ok fin st : fin_okb fin st = true -> fin_ok fin st.
Proof. destruct fin as [f|]; cbn; [apply oeqb_eq | trivial]. Qed.

Lemma search_sound fuel : forall st pending fin,
  search fuel st pending fin = true ->
  exists order st', Permutation order pending /\ respects_rt order /\
                    legal st order = Some st' /\ fin_ok fin st'.
Proof.
  induction fuel as [|fuel IH]; intros st pending fin H.
  - destruct pending as [|c p]; cbn in H; [|discriminate].
    exists [], st. split; [apply Permutation_refl|]. split; [exact I|]. split; [reflexivity|]. now apply fin_okb_ok.
  - destruct pending as [|c p].
    + cbn in H. exists [], st. split; [apply Permutation_refl|]. split; [exact I|]. split; [reflexivity|]. now apply fin_okb_ok.
    + cbn [search] in H. apply existsb_exists in H as ([x r] & Hin & Hx). cbn [fst snd] in Hx.
      apply andb_prop in Hx as [Hmin Hk].
      destruct (kapply st (c_op x)) as [st1|] eqn:Ek; [|discriminate].
      destruct (IH _ _ _ Hk) as (order & st' & Hp & Hrt & Hl & Hf).
      exists (x :: order), st'. split; [|split; [|split]].
      * eapply Permutation_trans; [apply perm_skip; exact Hp|]. apply picks_perm. exact Hin.
      * cbn. split; [|exact Hrt]. intros d Hd. apply (minimal_spec x r Hmin).
        eapply Permutation_in; [exact Hp | exact Hd].
      * cbn. rewrite Ek. exact Hl.
      * exact Hf.
Qed.

Theorem lin_b_sound init calls fin : lin_b init calls fin = true -> linearizable init calls fin.
Proof.
  unfold lin_b, linearizable. intros H.
  destruct (search_sound _ _ _ _ H) as (order & st & Hp & Hrt & Hl & Hf).
  exists order, st. auto.
Qed.

(* the checker is not trivially true: a lost update is rejected *)
Example lost_update_rejected :
  lin_b (Some 0%Z)
        [C_ 1 2 (KCompute (fun v => Some (v + 1)%Z) (Some 0%Z) (Some 1%Z));
         C_ 1 3 (KCompute (fun v => Some (v + 1)%Z) (Some 0%Z) (Some 1%Z))]
        (Some (Some 1%Z)) = false.
Proof. vm_compute. reflexivity. Qed.
Example overlapping_increments_accepted :
  lin_b (Some 0%Z)
        [C_ 1 4 (KCompute (fun v => Some (v + 1)%Z) (Some 0%Z) (Some 1%Z));
         C_ 2 5 (KCompute (fun v => Some (v + 1)%Z) (Some 1%Z) (Some 2%Z))]
        (Some (Some 2%Z)) = true.
Proof. vm_compute. reflexivity. Qed.
