From Flurry Require Import Model.Types.
From Coq Require Import List String Bool NArith.
Import ListNotations.
Open Scope string_scope.

Lemma all_results_tied_true : all_results_tied = true.
Proof. vm_compute. reflexivity. Qed.
Lemma lookup_keys_may_be_unsized_true : lookup_keys_may_be_unsized = true.
Proof. vm_compute. reflexivity. Qed.
Lemma lookup_keys_unconstrained_true : lookup_keys_unconstrained = true.
Proof. vm_compute. reflexivity. Qed.
Lemma no_static_bounds_true : no_static_bounds = true.
Proof. vm_compute. reflexivity. Qed.
Lemma borrow_rows_many : 30 <= borrow_rows.
Proof. vm_compute. repeat constructor. Qed.
Lemma inserting_require_send_sync_true : inserting_require_send_sync = true.
Proof. vm_compute. reflexivity. Qed.
Lemma inserting_rows_many : 20 <= List.length inserting_rows.
Proof. vm_compute. repeat constructor. Qed.
Lemma lookups_unbounded_true : lookups_unbounded = true.
Proof. vm_compute. reflexivity. Qed.
Lemma binentry_conditional_true : binentry_conditional = true.
Proof. vm_compute. reflexivity. Qed.

Lemma every_borrow_tied : forall r, In r sigs -> borrow_row r = true -> row_tied r = true.
Proof.
  intros r Hr Hb. pose proof all_results_tied_true as H. unfold all_results_tied in H.
  rewrite forallb_forall in H. specialize (H r Hr). rewrite Hb in H. exact H.
Qed.
Lemma every_inserter_bounded : forall b, In b bounds -> b_pub b = true -> inserts b = true -> bounds_ok b = true.
Proof.
  intros b Hb Hp Hi. pose proof inserting_require_send_sync_true as H.
  unfold inserting_require_send_sync in H. rewrite forallb_forall in H. apply H.
  unfold inserting_rows. apply filter_In. split; [exact Hb|]. rewrite Hp, Hi. reflexivity.
Qed.

Lemma split_pair_rejected :
  row_tied {| g_file := ""; g_ty := "HashMap"; g_trait := ""; g_name := "get_key_value"; g_line := 0%N;
              g_self := "m"; g_guards := ["g"]; g_ret_lts := ["m"; "g"]; g_outlives := [("g", "m")]; g_q_sized := false; g_key_lts := [];
              g_ret := ""; g_borrow := true; g_static := false |} = false /\
  row_tied {| g_file := ""; g_ty := "HashMap"; g_trait := ""; g_name := "get_key"; g_line := 0%N;
              g_self := "m"; g_guards := ["g"]; g_ret_lts := ["m"]; g_outlives := [("g", "m")]; g_q_sized := false; g_key_lts := [];
              g_ret := ""; g_borrow := true; g_static := false |} = true.
Proof. vm_compute. split; reflexivity. Qed.
