(* What the per-key specification demands of compute_if_present and retain (C08, C13). *)
From Flurry Require Import Model.Lin Proofs.LinProofs.
From Coq Require Import List ZArith Bool Lia.
Import ListNotations.
Open Scope Z_scope.

(* compute_if_present: the callback is shown the value current at the linearization point and
   its result replaces exactly that value *)
Lemma kapply_compute st f seen ret st' :
  kapply st (KCompute f seen ret) = Some st' ->
  match st with
  | None => seen = None /\ ret = None /\ st' = None
  | Some s => seen = Some s /\ ret = f s /\ st' = f s
  end.
Proof.
  cbn. destruct st as [s|].
  - destruct (oeqb seen (Some s)) eqn:E1; [|discriminate].
    destruct (oeqb ret (f s)) eqn:E2; [|discriminate]. cbn. intros H. injection H as <-.
    apply oeqb_eq in E1, E2. auto.
  - destruct (oeqb seen None) eqn:E1; [|discriminate].
    destruct (oeqb ret None) eqn:E2; [|discriminate]. cbn. intros H. injection H as <-.
    apply oeqb_eq in E1, E2. auto.
Qed.

(* n increments linearized in any order from c end at c + n: no update is lost *)
Definition is_inc (c : kcall) : Prop :=
  exists seen ret, c_op c = KCompute (fun v => Some (v + 1)) seen ret.

Lemma legal_increments : forall order c st,
  Forall is_inc order -> legal (Some c) order = Some st -> st = Some (c + Z.of_nat (length order)).
Proof.
  induction order as [|x order IH]; intros c st HF Hl.
  - cbn in Hl. injection Hl as <-. f_equal. cbn. lia.
  - inversion HF as [|? ? Hx HF']; subst. destruct Hx as (seen & ret & Ex).
    cbn [legal] in Hl. rewrite Ex in Hl.
    destruct (kapply (Some c) (KCompute (fun v => Some (v + 1)) seen ret)) as [st1|] eqn:Ek; [|discriminate].
    apply kapply_compute in Ek. destruct Ek as (_ & _ & ->).
    rewrite (IH _ _ HF' Hl). f_equal. cbn [length]. lia.
Qed.

Lemma counter_never_loses_updates init calls fin c :
  init = Some c -> Forall is_inc calls -> linearizable init calls (Some fin) ->
  fin = Some (c + Z.of_nat (length calls)).
Proof.
  intros -> HF (order & st & Hp & _ & Hl & Hf). cbn in Hf. subst fin.
  assert (HF' : Forall is_inc order).
  { rewrite Forall_forall in *. intros x Hx. apply HF. eapply Permutation.Permutation_in; eauto. }
  rewrite (legal_increments _ _ _ HF' Hl). f_equal. f_equal. f_equal.
  apply Permutation.Permutation_length. exact Hp.
Qed.

(* retain: a conditional removal takes effect only if the value is still the inspected one *)
Lemma kapply_cond_remove st obs st' :
  kapply st (KCondRemove obs) = Some st' ->
  (st = Some obs /\ st' = None) \/ (st <> Some obs /\ st' = st).
Proof.
  cbn. destruct (oeqb st (Some obs)) eqn:E; intros H; injection H as <-.
  - left. split; [apply oeqb_eq; exact E | reflexivity].
  - right. split; [|reflexivity]. intros ->. cbn in E. rewrite Z.eqb_refl in E. discriminate.
Qed.

Lemma kapply_force_remove st st' : kapply st KForceRemove = Some st' -> st' = None.
Proof. cbn. intros H. injection H as <-. reflexivity. Qed.
