(* Fuel adequacy of the traverser under interleaved migration steps: closes the gap in (c). *)
From Flurry Require Import Model.Trav Model.TravDyn.
From Flurry Require Import Proofs.TravProofs Proofs.TravDynProofs.
From Coq Require Import List Arith Lia Permutation Bool.
Import ListNotations.
Open Scope nat_scope.

(* ====================================================================== *)
(* 1. Migration steps keep table lengths, hence the fuel bound             *)
(* ====================================================================== *)
Lemma migrate_total_bins hi f j i : total_bins (migrate hi f j i) = total_bins f.
Proof.
  apply total_bins_ext; [apply migrate_length | intros k; apply migrate_tlen].
Qed.

Lemma migrate_trav_fuel hi f j i : trav_fuel (migrate hi f j i) = trav_fuel f.
Proof. unfold trav_fuel. rewrite migrate_length, migrate_total_bins. reflexivity. Qed.

Lemma migrates_trav_fuel hi : forall steps f, trav_fuel (migrates hi steps f) = trav_fuel f.
Proof.
  induction steps as [|ji rest IH]; intros f; simpl; [reflexivity|].
  rewrite IH. apply migrate_guarded_trav_fuel.
Qed.

Lemma migrates_length hi : forall steps f, length (migrates hi steps f) = length f.
Proof.
  induction steps as [|ji rest IH]; intros f; simpl; [reflexivity|].
  rewrite IH. apply migrate_guarded_length.
Qed.

(* ====================================================================== *)
(* 2. The number of loop iterations left, for any valid iterator state     *)
(* ====================================================================== *)
Lemma steps_depth f : wf_forest f = true -> forall d j i,
  length f <= j + d -> 1 <= d -> steps (S d) f j i = steps d f j i.
Proof.
  intros Hwf. induction d as [|d IH]; intros j i Hl Hd; [lia|].
  change (steps (S (S d)) f j i) with
    (match nth i (table_of f j) BNull with
     | BMoved => S (steps (S d) f (S j) i + steps (S d) f (S j) (i + tlen_of f j))
     | _ => 1 end).
  change (steps (S d) f j i) with
    (match nth i (table_of f j) BNull with
     | BMoved => S (steps d f (S j) i + steps d f (S j) (i + tlen_of f j))
     | _ => 1 end).
  destruct (nth i (table_of f j) BNull) eqn:Eb; try reflexivity.
  destruct d as [|d'].
  - exfalso. assert (Hi : i < tlen_of f j).
    { destruct (Nat.lt_ge_cases i (tlen_of f j)) as [H|H]; [exact H|].
      unfold tlen_of in H. rewrite nth_overflow in Eb by exact H. discriminate. }
    pose proof (wf_moved f j i Hwf Hi Eb). lia.
  - rewrite !IH by lia. reflexivity.
Qed.

Lemma steps_moved_D D f t idx : wf_forest f = true -> length f <= D -> idx < tlen_of f t ->
  nth idx (table_of f t) BNull = BMoved ->
  steps D f t idx = S (steps D f (S t) idx + steps D f (S t) (idx + tlen_of f t)).
Proof.
  intros Hwf HD Hi Hm. pose proof (wf_moved f t idx Hwf Hi Hm) as Hlt.
  destruct D as [|D]; [lia|]. rewrite (steps_moved f D t idx Hm).
  rewrite !(steps_depth f Hwf D (S t)) by lia. reflexivity.
Qed.

Lemma steps_plain_D D f t idx : idx < tlen_of f t -> length f <= D ->
  nth idx (table_of f t) BNull <> BMoved -> steps D f t idx = 1.
Proof.
  intros Hi HD Hm. destruct D as [|D].
  - exfalso. rewrite tlen_of_ge in Hi by lia. lia.
  - apply steps_plain. exact Hm.
Qed.

Section Measure.
  Variable D : nat.
  Variable f : forest.
  Hypothesis Hwf : wf_forest f = true.
  Hypothesis HD : length f <= D.
  Let n0 := tlen_of f 0.

  (* iterations for the bin at the current position (none if it is out of range) *)
  Definition psteps (t idx : nat) : nat :=
    if Nat.ltb idx (tlen_of f t) then steps D f t idx else 0.

  (* iterations for what remains above the current position (mirrors [up]) *)
  Fixpoint ups (st : list frame) (idx b : nat) : nat :=
    match st with
    | [] => list_sum (map (steps D f 0) (seq (S b) (tlen_of f 0 - S b)))
    | s :: st' => (if Nat.eqb idx (f_idx s) then steps D f (S (f_tab s)) (f_idx s + f_len s) else 0)
                  + ups st' (f_idx s) b
    end.

  Definition muI (it : titer) : nat :=
    match i_tab it with
    | Some t => psteps t (i_index it) + ups (i_stack it) (i_index it) (i_base_index it)
    | None => 0
    end.

  Lemma psteps_le t idx : psteps t idx <= steps D f t idx.
  Proof. unfold psteps. destruct (Nat.ltb idx (tlen_of f t)); lia. Qed.

  Lemma psteps_in t idx : idx < tlen_of f t -> psteps t idx = steps D f t idx.
  Proof. intros H. unfold psteps. destruct (Nat.ltb_spec idx (tlen_of f t)); [reflexivity|lia]. Qed.

  Lemma valid_in_range s st' t idx b : valid_stack f t idx (s :: st') b -> idx < tlen_of f t.
  Proof.
    cbn [valid_stack]. intros (-> & Hn & Hi & Hidx & Hm & _).
    assert (Hlt : S (f_tab s) < length f) by (apply (wf_moved f (f_tab s) (f_idx s) Hwf); [lia|exact Hm]).
    destruct (wf_double f _ Hwf Hlt) as [Hdbl _]. destruct Hidx; lia.
  Qed.

  Lemma after_mu : forall st t idx b, valid_stack f t idx st b -> (st <> [] -> b < n0) ->
    muI (after_bin (mkI (Some t) st [] idx b n0 n0) idx (tlen_of f t)) <= ups st idx b.
  Proof.
    induction st as [|s st' IH]; intros t idx b Hv Hsb.
    - destruct Hv as [-> ->]. fold n0. fold (base_it n0 b). rewrite after_bin_base.
      unfold muI, base_it. cbn [i_tab i_index i_stack i_base_index ups]. fold n0.
      destruct (Nat.lt_ge_cases (S b) n0) as [Hlt|Hge].
      + rewrite psteps_in by (fold n0; exact Hlt).
        replace (n0 - S b) with (S (n0 - S (S b))) by lia. cbn [seq map list_sum fold_right]. apply Nat.le_refl.
      + unfold psteps. fold n0. destruct (Nat.ltb_spec (S b) n0) as [Hlt|_]; [lia|].
        replace (n0 - S (S b)) with 0 by lia. simpl. lia.
    - destruct s as [j n i]. simpl in Hv. destruct Hv as (-> & Hn & Hi & Hidx & Hm & Hv).
      assert (Hlt : S j < length f) by (apply (wf_moved f j i Hwf); [lia | exact Hm]).
      destruct (wf_double f j Hwf Hlt) as [Hdbl _].
      destruct Hidx as [-> | ->].
      + rewrite (after_low j n _ i st' b n0 n0 Hi) by lia.
        unfold muI. cbn [i_tab i_index i_stack i_base_index ups f_idx f_tab f_len].
        rewrite Nat.eqb_refl.
        destruct (Nat.eqb_spec (i + n) i) as [E|_]; [lia|].
        pose proof (psteps_le (S j) (i + n)). lia.
      + rewrite (after_high j n _ i st' b n0 n0) by lia. rewrite Hn.
        cbn [ups f_idx f_tab f_len].
        destruct (Nat.eqb_spec (i + tlen_of f j) i) as [E|_]; [lia|].
        assert (H := IH j i b Hv ltac:(intros _; apply Hsb; discriminate)). lia.
  Qed.

  (* everything that is left lies in the cone of base bin b and in the base bins after it *)
  Lemma mu_bound : forall st t idx b, valid_stack f t idx st b ->
    psteps t idx + ups st idx b <= steps D f 0 b + ups [] b b.
  Proof.
    induction st as [|s st' IH]; intros t idx b Hv.
    - destruct Hv as [-> ->]. pose proof (psteps_le 0 b). lia.
    - destruct s as [j n i]. simpl in Hv. destruct Hv as (-> & Hn & Hi & Hidx & Hm & Hv).
      specialize (IH j i b Hv). rewrite psteps_in in IH by lia.
      rewrite (steps_moved_D D f j i Hwf HD ltac:(lia) Hm) in IH. rewrite <- Hn in IH.
      set (R := ups [] b b) in *. cbn [ups f_idx f_tab f_len].
      pose proof (psteps_le (S j) idx) as Hp.
      destruct Hidx as [-> | ->].
      + rewrite Nat.eqb_refl. lia.
      + destruct (Nat.eqb_spec (i + n) i) as [E|_]; [lia|]. lia.
  Qed.

  (* with more fuel than iterations left, a None answer means exhaustion *)
  Lemma none_exhausted_mu : forall fuel it it', vstate f it -> muI it < fuel ->
    advance fuel f it = (None, it') -> exhausted it'.
  Proof.
    induction fuel as [|fuel IH]; intros it it' Hv Hmu H; [lia|].
    destruct (i_rest it) as [|x0 r] eqn:Er.
    2:{ rewrite (advance_rest _ _ _ _ _ Er) in H. discriminate. }
    destruct Hv as (t & Ht & Hvs & Hlim & Hbs & Hsb).
    destruct it as [tab st rest idx b lim bs].
    cbn [i_tab i_rest i_index i_stack i_base_index i_base_limit i_base_size] in Er, Ht, Hvs, Hlim, Hbs, Hsb.
    subst tab rest lim bs. fold n0 in H, Hsb.
    unfold muI in Hmu. cbn [i_tab i_index i_stack i_base_index] in Hmu.
    destruct (Nat.lt_ge_cases b n0) as [Hb|Hb].
    2:{ rewrite (adv_guard _ f _ t) in H; [|reflexivity|reflexivity|left; exact Hb].
        injection H as <-. split; [reflexivity|exact Hb]. }
    destruct (Nat.lt_ge_cases idx (tlen_of f t)) as [Hi|Hi].
    2:{ exfalso. destruct st as [|s st'].
        - destruct Hvs as [-> ->]. fold n0 in Hi. lia.
        - pose proof (valid_in_range _ _ _ _ _ Hvs). lia. }
    rewrite psteps_in in Hmu by exact Hi.
    destruct (bin_eq_dec_moved (nth idx (table_of f t) BNull)) as [Hm|Hm].
    + rewrite (adv_moved f fuel t st idx b n0 n0 Hi Hb Hm) in H.
      rewrite (steps_moved_D D f t idx Hwf HD Hi Hm) in Hmu.
      apply IH in H; [exact H | |].
      * exists (S t). cbn [i_rest i_tab i_index i_stack i_base_index i_base_limit i_base_size valid_stack f_idx f_tab f_len].
        repeat split; try reflexivity; try assumption; [left; reflexivity | intros _; exact Hb].
      * unfold muI. cbn [i_tab i_index i_stack i_base_index ups f_idx f_tab f_len].
        rewrite Nat.eqb_refl. pose proof (psteps_le (S t) idx). lia.
    + rewrite (adv_plain f fuel t st idx b n0 n0 Hi Hb Hm) in H.
      rewrite (steps_plain_D D f t idx Hi HD Hm) in Hmu.
      destruct (after_valid D f Hwf HD st t idx b Hvs (fun _ => Hb)) as [Hva _].
      pose proof (after_mu st t idx b Hvs (fun _ => Hb)) as Hma.
      destruct (bin_list (nth idx (table_of f t) BNull)) as [|x1 r1]; [|discriminate].
      apply IH in H; [exact H | exact Hva | fold n0 in Hma |- *; lia].
  Qed.
End Measure.

(* ====================================================================== *)
(* 3. One call from ANY valid state (also mid-descent): None means exhausted *)
(* ====================================================================== *)
Theorem advance_none_exhausted : forall f F it it', wf_forest f = true -> vstate f it ->
  trav_fuel f <= F -> advance F f it = (None, it') -> exhausted it'.
Proof.
  intros f F it it' Hwf Hv HF H.
  destruct (i_rest it) as [|x0 r] eqn:Er.
  2:{ rewrite (advance_rest _ _ _ _ _ Er) in H. discriminate. }
  pose proof Hv as (t & Ht & Hvs & Hlim & Hbs & Hsb).
  destruct (Nat.lt_ge_cases (i_base_index it) (tlen_of f 0)) as [Hb|Hb].
  2:{ rewrite advance_done in H; [|exact Er|lia]. injection H as <-. split; [exact Er|lia]. }
  apply (none_exhausted_mu (S (length f)) f Hwf ltac:(lia) F it it' Hv); [|exact H].
  unfold muI. rewrite Ht.
  pose proof (mu_bound (S (length f)) f Hwf ltac:(lia) _ _ _ _ Hvs) as Hmb.
  cbn [ups] in Hmb.
  pose proof (steps_total f (S (length f)) Hwf) as Htot.
  pose proof (steps_from_le f (S (length f)) (i_base_index it) (tlen_of f 0 - i_base_index it) ltac:(lia)) as Hle.
  unfold steps_from in Hle.
  replace (tlen_of f 0 - i_base_index it) with (S (tlen_of f 0 - S (i_base_index it))) in Hle by lia.
  cbn [seq map] in Hle. change (list_sum (?a :: ?l)) with (a + list_sum l) in Hle.
  unfold trav_fuel in HF. cbn [seq map list_sum fold_right] in Hle. 
  unfold list_sum in *. lia.
Qed.

(* ====================================================================== *)
(* 4. (c) with a fuel hypothesis instead of an exhaustion hypothesis       *)
(* ====================================================================== *)
(* true iff the run ended because a call of next() answered None before the schedule was used up *)
Fixpoint drain_dyn_stopped (hi : node -> bool) (sched : list (option (nat * nat))) (fuel : nat)
                           (f : forest) (it : titer) : bool :=
  match sched with
  | [] => false
  | None :: s =>
      match advance fuel f it with
      | (Some _, it') => drain_dyn_stopped hi s fuel f it'
      | (None, _) => true
      end
  | Some ji :: s => drain_dyn_stopped hi s fuel (migrate_guarded hi f ji) it
  end.

Lemma vstate_migrate_guarded hi f ji it : vstate f it -> vstate (migrate_guarded hi f ji) it.
Proof.
  intros Hv. destruct (migrate_guarded_cases hi f ji) as [E|[Hc E]]; rewrite E; [exact Hv|].
  apply vstate_mig; assumption.
Qed.

Lemma stopped_exhausted hi F : forall sched f it, wf_forest f = true -> vstate f it ->
  trav_fuel f <= F -> drain_dyn_stopped hi sched F f it = true ->
  exhausted (snd (snd (drain_dyn_end hi sched F f it))).
Proof.
  induction sched as [|[ji|] s IH]; intros f it Hwf Hv HF Hs; cbn [drain_dyn_stopped drain_dyn_end] in *.
  - discriminate.
  - apply IH; [apply migrate_guarded_wf; exact Hwf | apply vstate_migrate_guarded; exact Hv
              | rewrite migrate_guarded_trav_fuel; exact HF | exact Hs].
  - destruct (advance F f it) as [[x|] it'] eqn:Ea.
    + cbn [snd]. destruct (step_valid (S (length f)) f Hwf ltac:(lia) F it x it' Hv Ea) as [Hv' _].
      apply IH; assumption.
    + cbn [snd]. apply (advance_none_exhausted f F it it' Hwf Hv HF Ea).
Qed.

Theorem drain_dyn_complete_fuel : forall hi sched F f, wf_forest f = true -> trav_fuel f <= F ->
  drain_dyn_stopped hi sched F f (new_iter f) = true ->
  Permutation (drain_dyn hi sched F f (new_iter f)) (contents f).
Proof.
  intros hi sched F f Hwf HF Hs. destruct f as [|t rest] eqn:Ef.
  - rewrite drain_dyn_nil by reflexivity. apply Permutation_refl.
  - rewrite <- Ef in *. assert (Hne : f <> []) by (rewrite Ef; discriminate).
    apply drain_dyn_complete; [exact Hwf|].
    apply stopped_exhausted; [exact Hwf | apply vstate_new_iter; exact Hne | exact HF | exact Hs].
Qed.

Corollary drain_dyn_all_fuel : forall hi sched F f x, wf_forest f = true -> trav_fuel f <= F ->
  drain_dyn_stopped hi sched F f (new_iter f) = true ->
  In x (contents f) -> In x (drain_dyn hi sched F f (new_iter f)).
Proof.
  intros hi sched F f x Hwf HF Hs Hx.
  apply (Permutation_in _ (Permutation_sym (drain_dyn_complete_fuel hi sched F f Hwf HF Hs))). exact Hx.
Qed.

Print Assumptions migrates_trav_fuel.
Print Assumptions advance_none_exhausted.
Print Assumptions drain_dyn_complete_fuel.

(* non-vacuity: the run of TravDynProofs.dyn_fA_run (2 bins migrated to 4 and on to 8 under a live
   iterator) ends because next() answers None, with fuel trav_fuel of the initial forest *)
Example dyn_fA_stopped :
  drain_dyn_stopped hi_bit1 dyn_sA (trav_fuel dyn_fA) dyn_fA (new_iter dyn_fA) = true /\
  drain_dyn_stopped hi_bit1 (removelast dyn_sA) (trav_fuel dyn_fA) dyn_fA (new_iter dyn_fA) = false.
Proof. split; vm_compute; reflexivity. Qed.
