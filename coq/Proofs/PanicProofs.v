From Flurry Require Import Model.Panic.
From Coq Require Import List Bool String.
Import ListNotations.
Open Scope string_scope.

Lemma callbacks_ok_true : callbacks_ok = true.
Proof. vm_compute. reflexivity. Qed.
Lemma retain_lock_free_true : retain_lock_free = true.
Proof. vm_compute. reflexivity. Qed.

(* sect_ok really rejects a write placed before the callback inside a critical section *)
Example write_before_callback_rejected :
  sect_ok false false [SLock "l"; SWrite "swap"; SCallback "f"; SUnlock "l"] = false.
Proof. reflexivity. Qed.
Example forgotten_guard_rejected :
  sect_ok false false [SLock "l"; SCallback "f"; SForget] = false.
Proof. reflexivity. Qed.

Section Faults.
Variable khash : N -> N.
Variable keep : N -> N -> Z -> bool.
Variable remap : N -> N -> Z -> option Z.

(* a retain that panics at call i, resumed on the remaining entries, is the complete retain *)
Lemma retain_until_all s p : retain_until khash keep s p (List.length (nodes s)) = retain khash keep s p.
Proof. unfold retain_until, retain. rewrite firstn_all. reflexivity. Qed.

Lemma retain_until_zero s p : retain_until khash keep s p 0 = s.
Proof. reflexivity. Qed.

(* when the key is found (the only case in which the callback runs) compute leaves the
   table allocation alone: init_table is the identity *)
Lemma compute_callback_sees_current s k v :
  compute_reaches_callback khash s k = Some v ->
  init_table s = s /\ exists n, get_node khash s k = Some n /\ nv n = v.
Proof.
  unfold compute_reaches_callback. destruct (get_node khash s k) as [n|] eqn:E; [|discriminate].
  intros H. injection H as <-. split; [|eauto].
  unfold get_node in E. unfold init_table. destruct (tbl s) as [[|b t]|]; try discriminate. reflexivity.
Qed.
End Faults.
