(* Generations of resizes and helpers holding stale tables (Model/GenProto.v).
   With the join test regenerated from map.rs (help_transfer_break) no helper is ever inside
   transfer, or elected finisher, for a table that is not the current one, and size_ctl never sits
   at rs + 1 with nobody to finish; with the test as it was before fix 1ef080f both fail (F6). *)
From Flurry Require Import Model.GenProto Proofs.ArithProofs.
From Coq Require Import ZArith Lia List Bool Arith.
Import ListNotations.
Open Scope Z_scope.

(* ---------- lists of helpers: update at an index, counting ---------- *)

Definition dflt : helper := mkHp 0 HIdle.
Definition upd (t : nat) (h : helper) (l : list helper) : list helper :=
  firstn t l ++ h :: skipn (S t) l.

Definition isIn (h : helper) : bool := match hp h with HInside => true | _ => false end.
Definition isFin (h : helper) : bool := match hp h with HFinisher => true | _ => false end.
Definition cnt (f : helper -> bool) (l : list helper) : Z := Z.of_nat (length (filter f l)).

Lemma cnt_nonneg f l : 0 <= cnt f l.
Proof. unfold cnt. lia. Qed.

Lemma cnt_nil f : cnt f [] = 0.
Proof. reflexivity. Qed.

Lemma cnt_cons f a l : cnt f (a :: l) = Z.b2z (f a) + cnt f l.
Proof. unfold cnt. cbn [filter]. destruct (f a); cbn [length Z.b2z]; lia. Qed.

Lemma upd_nil t h : upd t h [] = [h].
Proof. unfold upd. destruct t; reflexivity. Qed.
Lemma upd_0 h a l : upd 0 h (a :: l) = h :: l.
Proof. reflexivity. Qed.
Lemma upd_S t h a l : upd (S t) h (a :: l) = a :: upd t h l.
Proof. reflexivity. Qed.

Lemma nth_nil_d t : nth t (@nil helper) dflt = dflt.
Proof. destruct t; reflexivity. Qed.

Lemma cnt_upd f t h l : f dflt = false ->
  cnt f (upd t h l) + Z.b2z (f (nth t l dflt)) = cnt f l + Z.b2z (f h).
Proof.
  intros Hd. revert t. induction l as [|a l IH]; intros t.
  - rewrite upd_nil, nth_nil_d, Hd, cnt_cons, cnt_nil. cbn [Z.b2z]. lia.
  - destruct t as [|t].
    + rewrite upd_0. cbn [nth]. rewrite !cnt_cons. lia.
    + rewrite upd_S. cbn [nth]. rewrite !cnt_cons. specialize (IH t). lia.
Qed.

Lemma Forall_upd (P : helper -> Prop) t h l : Forall P l -> P h -> Forall P (upd t h l).
Proof.
  intros Hl Hh. revert t. induction Hl as [|a l Ha Hl IH]; intros t.
  - rewrite upd_nil. constructor; [assumption|constructor].
  - destruct t as [|t].
    + rewrite upd_0. constructor; assumption.
    + rewrite upd_S. constructor; [assumption|apply IH].
Qed.

Lemma Forall_nth_d (P : helper -> Prop) t l : Forall P l -> P dflt -> P (nth t l dflt).
Proof.
  intros Hl Hd. revert t. induction Hl as [|a l Ha Hl IH]; intros t.
  - rewrite nth_nil_d. assumption.
  - destruct t as [|t]; cbn [nth]; [assumption|apply IH].
Qed.

(* ---------- arithmetic facts about the lengths of the generations ---------- *)

Lemma glen_legal g : (g <= 26)%nat -> In (glen g) table_lengths.
Proof.
  intros Hg. apply table_lengths_spec. exists (4 + Z.of_nat g). split; [lia|].
  unfold glen. rewrite Z.pow_add_r by lia. reflexivity.
Qed.

Lemma glen_inj a b : glen a = glen b -> a = b.
Proof.
  unfold glen. intros E.
  assert (E' : 2 ^ Z.of_nat a = 2 ^ Z.of_nat b) by lia.
  apply Z.pow_inj_r in E'; lia.
Qed.

Lemma max_resizers_ge2 : 2 <= MAX_RESIZERS.
Proof. vm_compute. discriminate. Qed.

Lemma rsg_range g : (g <= 20)%nat -> rsg g + MAX_RESIZERS < 0.
Proof.
  intros Hg. assert (Hl : In (glen g) table_lengths) by (apply glen_legal; lia).
  destruct (stamp_ranges (glen g) (glen g) Hl Hl) as (H & _ & _). exact H.
Qed.

Definition next_sc_nonneg_b : bool :=
  forallb (fun g => 0 <=? transfer_next_sc (glen g)) (seq 0 21).
Lemma next_sc_nonneg g : (g <= 20)%nat -> 0 <= transfer_next_sc (glen g).
Proof.
  assert (H : next_sc_nonneg_b = true) by (vm_compute; reflexivity).
  intros Hg. unfold next_sc_nonneg_b in H. rewrite forallb_forall in H.
  specialize (H g). apply Z.leb_le. apply H. apply in_seq. lia.
Qed.

Lemma init_threshold_nonneg : 0 <= load_factor (glen 0).
Proof. vm_compute. discriminate. Qed.

Lemma not_last_spec sc g : transfer_not_last sc (glen g) = negb (sc =? rsg g + 2).
Proof.
  unfold transfer_not_last, rsg, rs, rs_add_count. f_equal.
  generalize (wrap64 (Z.shiftl (resize_stamp (glen g)) RESIZE_STAMP_SHIFT)). intros X.
  destruct (Z.eqb_spec (sc - 2) X), (Z.eqb_spec sc (X + 2)); try reflexivity; lia.
Qed.

Lemma break_false_neg s r ti : help_transfer_break s r ti = false -> s < 0.
Proof.
  intros H. destruct (Z.ltb_spec s 0) as [|Hs]; [assumption|].
  assert (help_transfer_break s r ti = true) by (apply help_transfer_break_iff; lia). congruence.
Qed.

(* the value a helper read passed the join test computed from the table it holds; if that value is a
   size_ctl value of the resize of the table of generation g, the helper holds that table, and the
   value is neither "finishing" nor "full" *)
Lemma loaded_cas g hd s :
  (g <= 20)%nat -> (hd <= g)%nat ->
  (exists ti, help_transfer_break s (rs_help_transfer (glen hd)) ti = false) ->
  rsg g + 1 <= s <= rsg g + MAX_RESIZERS ->
  hd = g /\ s <> rsg g + 1 /\ s <> rsg g + MAX_RESIZERS.
Proof.
  intros Hg Hle [ti Hb] Hr.
  assert (hd = g) as ->.
  { destruct (Nat.eq_dec hd g) as [|Hne]; [assumption|]. exfalso.
    assert (Hk : 0 <= s - rsg g <= MAX_RESIZERS) by lia.
    pose proof (helper_joins_own_generation (glen hd) (glen g) (s - rsg g) ti
                  (glen_legal hd ltac:(lia)) (glen_legal g ltac:(lia))
                  (fun e => Hne (glen_inj _ _ e)) Hk) as Hj.
    unfold rsg in Hj. replace (rs (glen g) + (s - rs (glen g))) with s in Hj by lia.
    congruence. }
  split; [reflexivity|].
  split; intros E;
    assert (help_transfer_break s (rs_help_transfer (glen g)) ti = true)
      by (apply help_transfer_break_iff; change (rs_help_transfer (glen g)) with (rsg g); lia);
    congruence.
Qed.

(* ---------- the invariant ---------- *)

Definition hinv (g : nat) (h : helper) : Prop :=
  match hp h with
  | HIdle => True
  | HValidated => (held h <= g)%nat
  | HLoaded s => (held h <= g)%nat /\
                 exists ti, help_transfer_break s (rs_help_transfer (glen (held h))) ti = false
  | HInside | HFinisher => held h = g
  end.

Definition InvP (g : nat) (sc : Z) (nt fin : bool) (l : list helper) : Prop :=
  (g <= 20)%nat /\ Forall (hinv g) l /\
  ((0 <= sc /\ nt = false /\ fin = false /\ cnt isIn l = 0 /\ cnt isFin l = 0)
   \/ ((g < 20)%nat /\
       rsg g + 1 + cnt isIn l <= sc <= rsg g + MAX_RESIZERS /\
       cnt isFin l + Z.b2z fin <= 1 /\
       (sc = rsg g + 1 <-> cnt isFin l + Z.b2z fin = 1))).

Definition Inv (c : gcfg) : Prop := InvP (gen c) (gsc c) (gnt c) (gfin c) (helpers c).

Lemma hinv_dflt g : hinv g dflt.
Proof. exact I. Qed.

Lemma hinv_mono g l :
  Forall (hinv g) l -> cnt isIn l = 0 -> cnt isFin l = 0 -> Forall (hinv (S g)) l.
Proof.
  induction 1 as [|x l Hx Hl IH]; intros HI HF; [constructor|].
  rewrite cnt_cons in HI, HF.
  pose proof (cnt_nonneg isIn l). pose proof (cnt_nonneg isFin l).
  assert (Z.b2z (isIn x) = 0 /\ cnt isIn l = 0) as [Hx1 HI']
    by (destruct (isIn x); cbn [Z.b2z] in *; lia).
  assert (Z.b2z (isFin x) = 0 /\ cnt isFin l = 0) as [Hx2 HF']
    by (destruct (isFin x); cbn [Z.b2z] in *; lia).
  constructor; [|apply IH; assumption].
  destruct x as [hd p]. destruct p; unfold hinv, isIn, isFin in *; cbn [hp held Z.b2z] in *;
    try discriminate; try lia; try exact I.
  destruct Hx as [Hx Hb]. split; [lia|exact Hb].
Qed.

Lemma stale_false g l :
  Forall (hinv g) l ->
  existsb (fun h => match hp h with
                    | HInside | HFinisher => negb (Nat.eqb (held h) g)
                    | _ => false
                    end) l = false.
Proof.
  induction 1 as [|x l Hx Hl IH]; [reflexivity|].
  cbn [existsb]. rewrite IH, orb_false_r.
  destruct x as [hd p]. destruct p; unfold hinv in Hx; cbn [hp held] in *; try reflexivity;
    subst; rewrite Nat.eqb_refl; reflexivity.
Qed.

Lemma none_active_no_fin l :
  forallb (fun h => match hp h with HInside | HFinisher => false | _ => true end) l = true ->
  cnt isFin l = 0.
Proof.
  induction l as [|x l IH]; [reflexivity|].
  cbn [forallb]. intros H. apply andb_prop in H as [Hx Hl].
  rewrite cnt_cons, (IH Hl).
  destruct x as [hd p]. destruct p; unfold isFin; cbn [hp Z.b2z] in *; try reflexivity; discriminate.
Qed.

(* ---------- preservation ---------- *)

Lemma inv_init k : Inv (ginit k).
Proof.
  unfold Inv, ginit. cbn [gen gsc gnt gfin helpers].
  assert (HF : forall f, f dflt = false -> cnt f (repeat (mkHp 0 HIdle) k) = 0).
  { intros f Hf. induction k as [|k IH]; [reflexivity|].
    cbn [repeat]. rewrite cnt_cons, IH. change (mkHp 0 HIdle) with dflt. rewrite Hf. reflexivity. }
  split; [lia|]. split.
  - clear HF. induction k as [|k IH]; cbn [repeat]; constructor; [exact I|exact IH].
  - left. pose proof init_threshold_nonneg.
    repeat split; try assumption; try reflexivity; apply HF; reflexivity.
Qed.

Lemma env_inv c e : Inv c -> Inv (env_step c e).
Proof.
  destruct c as [g sc nt ti fin l]. unfold Inv at 1. cbn [gen gsc gnt gfin helpers].
  intros (Hg & Hall & Hst).
  pose proof (rsg_range g Hg) as Hneg. pose proof max_resizers_ge2 as Hm2.
  pose proof (cnt_nonneg isIn l) as HnI. pose proof (cnt_nonneg isFin l) as HnF.
  assert (HI : Inv (mkG g sc nt ti fin l)) by (split; [|split]; assumption).
  destruct e; unfold env_step; cbn [gen gsc gnt gti gfin helpers].
  - (* EStartCas *)
    destruct ((0 <=? sc) && Nat.ltb g max_gen) eqn:E; [|exact HI].
    apply andb_prop in E as [E1 E2]. apply Z.leb_le in E1. apply Nat.ltb_lt in E2.
    unfold max_gen in E2. unfold Inv. cbn [gen gsc gnt gfin helpers].
    unfold init_sc_add_count.
    destruct Hst as [(H0 & Hnt & Hfin & HcI & HcF)|(Hlt & Hr & _)]; [|lia].
    split; [assumption|]. split; [assumption|]. right. rewrite HcI, HcF. cbn [Z.b2z].
    split; [assumption|]. split; [lia|]. split; [lia|]. split; lia.
  - (* EStartNT *)
    destruct ((sc =? rsg g + 2) && negb nt && negb fin) eqn:E; [|exact HI].
    apply andb_prop in E as [E E3]. apply andb_prop in E as [E1 E2]. apply Z.eqb_eq in E1.
    unfold Inv. cbn [gen gsc gnt gfin helpers].
    destruct Hst as [(H0 & _)|Hres]; [lia|].
    split; [assumption|]. split; [assumption|]. right. exact Hres.
  - (* EStartTI *)
    destruct ((sc <? 0) && nt && (ti =? 0) && negb fin) eqn:E; exact HI.
  - (* EJoin *)
    destruct ((sc <? 0) && nt && (0 <? ti) && negb (add_count_break sc (rsg g))) eqn:E; [|exact HI].
    apply andb_prop in E as [E E4]. apply andb_prop in E as [E E3]. apply andb_prop in E as [E1 E2].
    apply Z.ltb_lt in E1. apply negb_true_iff in E4.
    assert (Hnb : sc <> rsg g + MAX_RESIZERS /\ sc <> rsg g + 1).
    { split; intros Ec;
        assert (add_count_break sc (rsg g) = true) by (apply add_count_break_iff; lia); congruence. }
    destruct Hnb as [Hnb1 Hnb2].
    unfold with_sc, Inv. cbn [gen gsc gnt gfin helpers]. unfold add_count_join_sc.
    destruct Hst as [(H0 & _)|(Hlt & Hr & Hf1 & Hf2)]; [lia|].
    split; [assumption|]. split; [assumption|]. right.
    split; [assumption|]. split; [lia|]. split; [assumption|].
    split; intros Hx; [lia|]. apply Hf2 in Hx. lia.
  - (* EClaim *)
    destruct ((sc <? 0) && (0 <? ti)) eqn:E; exact HI.
  - (* ELeave *)
    change (filter (fun h => match hp h with HInside => true | _ => false end) l) with (filter isIn l).
    change (Z.of_nat (length (filter isIn l))) with (cnt isIn l).
    destruct ((sc <? 0) && negb fin && (rsg g + 1 + cnt isIn l <? sc)) eqn:E; [|exact HI].
    apply andb_prop in E as [E E3]. apply andb_prop in E as [E1 E2].
    apply Z.ltb_lt in E1. apply Z.ltb_lt in E3. apply negb_true_iff in E2. subst fin.
    destruct Hst as [(H0 & _)|(Hlt & Hr & Hf1 & Hf2)]; [lia|].
    cbn [Z.b2z] in *.
    assert (HF0 : cnt isFin l = 0).
    { destruct (Z.eq_dec (cnt isFin l) 0) as [|Hne]; [assumption|].
      assert (Hx : cnt isFin l + 0 = 1) by lia. apply Hf2 in Hx. lia. }
    rewrite not_last_spec. unfold with_sc. cbn [gen gsc gnt gti gfin helpers].
    unfold transfer_leave_sc.
    destruct (Z.eqb_spec sc (rsg g + 2)) as [Es|Es]; cbn [negb];
      unfold Inv; cbn [gen gsc gnt gfin helpers];
      (split; [assumption|]); (split; [assumption|]); right; rewrite HF0; cbn [Z.b2z];
      (split; [assumption|]); (split; [lia|]); (split; [lia|]); split; lia.
  - (* EPublish *)
    destruct (fin && nt) eqn:E; [|exact HI].
    apply andb_prop in E as [E1 E2]. subst fin nt.
    unfold Inv. cbn [gen gsc gnt gfin helpers].
    destruct Hst as [(_ & _ & Hfin & _)|(Hlt & Hr & Hf1 & Hf2)]; [discriminate|].
    cbn [Z.b2z] in *.
    assert (HF0 : cnt isFin l = 0) by lia.
    assert (Hsc : sc = rsg g + 1) by (apply Hf2; lia).
    assert (HI0 : cnt isIn l = 0) by lia.
    split; [lia|]. split; [apply hinv_mono; assumption|]. left.
    pose proof (next_sc_nonneg g Hg). repeat split; assumption.
Qed.

Lemma helper_inv c t : Inv c -> Inv (helper_step help_transfer_break c t).
Proof.
  destruct c as [g sc nt ti fin l]. unfold Inv at 1. cbn [gen gsc gnt gfin helpers].
  intros (Hg & Hall & Hst).
  pose proof (rsg_range g Hg) as Hneg. pose proof max_resizers_ge2 as Hm2.
  pose proof (cnt_nonneg isIn l) as HnI. pose proof (cnt_nonneg isFin l) as HnF.
  unfold helper_step. cbv zeta.
  assert (Hget : get_h (mkG g sc nt ti fin l) t = nth t l dflt) by reflexivity.
  pose proof (Forall_nth_d (hinv g) t l Hall (hinv_dflt g)) as Hh.
  pose proof (cnt_upd isIn t) as HuI. pose proof (cnt_upd isFin t) as HuF.
  rewrite Hget. destruct (nth t l dflt) as [hd p] eqn:Enth.
  destruct p as [| |s| |]; cbn [hp held]; unfold hinv in Hh; cbn [hp held] in Hh.
  - (* HIdle *)
    cbn [gen gsc gnt gti gfin helpers].
    destruct (Nat.eqb hd g && nt) eqn:E;
      unfold set_h, Inv; cbn [gen gsc gnt gfin helpers];
      match goal with |- InvP _ _ _ _ (firstn t l ++ ?h :: skipn (S t) l) =>
        change (firstn t l ++ h :: skipn (S t) l) with (upd t h l);
        specialize (HuI h l eq_refl); specialize (HuF h l eq_refl)
      end;
      rewrite Enth in HuI, HuF; cbn [isIn isFin hp Z.b2z] in HuI, HuF.
    + apply andb_prop in E as [E1 E2]. apply Nat.eqb_eq in E1. subst hd.
      split; [assumption|]. split.
      { apply Forall_upd; [assumption|]. unfold hinv. cbn [hp held]. lia. }
      replace (cnt isIn (upd t (mkHp g HValidated) l)) with (cnt isIn l) by lia.
      replace (cnt isFin (upd t (mkHp g HValidated) l)) with (cnt isFin l) by lia.
      exact Hst.
    + split; [assumption|]. split.
      { apply Forall_upd; [assumption|]. exact I. }
      replace (cnt isIn (upd t (mkHp g HIdle) l)) with (cnt isIn l) by lia.
      replace (cnt isFin (upd t (mkHp g HIdle) l)) with (cnt isFin l) by lia.
      exact Hst.
  - (* HValidated *)
    cbn [gen gsc gnt gti gfin helpers].
    destruct (help_transfer_break sc (rs_help_transfer (glen hd)) ti) eqn:E;
      unfold set_h, Inv; cbn [gen gsc gnt gfin helpers];
      match goal with |- InvP _ _ _ _ (firstn t l ++ ?h :: skipn (S t) l) =>
        change (firstn t l ++ h :: skipn (S t) l) with (upd t h l);
        specialize (HuI h l eq_refl); specialize (HuF h l eq_refl)
      end;
      rewrite Enth in HuI, HuF; cbn [isIn isFin hp Z.b2z] in HuI, HuF.
    + split; [assumption|]. split.
      { apply Forall_upd; [assumption|]. exact I. }
      replace (cnt isIn (upd t (mkHp g HIdle) l)) with (cnt isIn l) by lia.
      replace (cnt isFin (upd t (mkHp g HIdle) l)) with (cnt isFin l) by lia.
      exact Hst.
    + split; [assumption|]. split.
      { apply Forall_upd; [assumption|]. unfold hinv. cbn [hp held].
        split; [assumption|]. exists ti. exact E. }
      replace (cnt isIn (upd t (mkHp hd (HLoaded sc)) l)) with (cnt isIn l) by lia.
      replace (cnt isFin (upd t (mkHp hd (HLoaded sc)) l)) with (cnt isFin l) by lia.
      exact Hst.
  - (* HLoaded s *)
    cbn [gen gsc gnt gti gfin helpers].
    destruct Hh as [Hle Hb].
    destruct (Z.eqb_spec sc s) as [Es|Es];
      unfold set_h, with_sc, Inv; cbn [gen gsc gnt gfin helpers];
      match goal with |- InvP _ _ _ _ (firstn t l ++ ?h :: skipn (S t) l) =>
        change (firstn t l ++ h :: skipn (S t) l) with (upd t h l);
        specialize (HuI h l eq_refl); specialize (HuF h l eq_refl)
      end;
      rewrite Enth in HuI, HuF; cbn [isIn isFin hp Z.b2z] in HuI, HuF.
    + subst s. unfold help_transfer_join_sc.
      assert (Hs0 : sc < 0) by (destruct Hb as [ti' Hb]; exact (break_false_neg _ _ _ Hb)).
      destruct Hst as [(H0 & _)|(Hlt & Hr & Hf1 & Hf2)]; [lia|].
      destruct (loaded_cas g hd sc Hg Hle Hb ltac:(lia)) as (-> & Hn1 & Hn2).
      split; [assumption|]. split.
      { apply Forall_upd; [assumption|]. reflexivity. }
      right.
      replace (cnt isIn (upd t (mkHp g HInside) l)) with (cnt isIn l + 1) by lia.
      replace (cnt isFin (upd t (mkHp g HInside) l)) with (cnt isFin l) by lia.
      split; [assumption|]. split; [lia|]. split; [assumption|].
      split; intros Hx; [lia|]. apply Hf2 in Hx. lia.
    + split; [assumption|]. split.
      { apply Forall_upd; [assumption|]. exact I. }
      replace (cnt isIn (upd t (mkHp hd HIdle) l)) with (cnt isIn l) by lia.
      replace (cnt isFin (upd t (mkHp hd HIdle) l)) with (cnt isFin l) by lia.
      exact Hst.
  - (* HInside *)
    subst hd. cbn [gen gsc gnt gti gfin helpers].
    rewrite not_last_spec. unfold with_sc. cbn [gen gsc gnt gti gfin helpers].
    unfold transfer_leave_sc.
    destruct (Z.eqb_spec sc (rsg g + 2)) as [Es|Es]; cbn [negb];
      unfold set_h, Inv; cbn [gen gsc gnt gfin helpers];
      match goal with |- InvP _ _ _ _ (firstn t l ++ ?h :: skipn (S t) l) =>
        change (firstn t l ++ h :: skipn (S t) l) with (upd t h l);
        specialize (HuI h l eq_refl); specialize (HuF h l eq_refl)
      end;
      rewrite Enth in HuI, HuF; cbn [isIn isFin hp Z.b2z] in HuI, HuF;
      (destruct Hst as [(H0 & _ & _ & HcI & _)|(Hlt & Hr & Hf1 & Hf2)];
         [pose proof (cnt_nonneg isIn (upd t (mkHp g HFinisher) l));
          pose proof (cnt_nonneg isIn (upd t (mkHp g HIdle) l)); lia|]).
    + (* elected *)
      assert (HnF' : cnt isFin l + Z.b2z fin = 0).
      { destruct (Z.eq_dec (cnt isFin l + Z.b2z fin) 0) as [|Hne]; [assumption|].
        assert (Hx : cnt isFin l + Z.b2z fin = 1) by (destruct fin; cbn [Z.b2z] in *; lia).
        apply Hf2 in Hx. lia. }
      split; [assumption|]. split.
      { apply Forall_upd; [assumption|]. reflexivity. }
      right.
      replace (cnt isIn (upd t (mkHp g HFinisher) l)) with (cnt isIn l - 1) by lia.
      replace (cnt isFin (upd t (mkHp g HFinisher) l)) with (cnt isFin l + 1) by lia.
      split; [assumption|]. split; [lia|]. split; [lia|]. split; lia.
    + split; [assumption|]. split.
      { apply Forall_upd; [assumption|]. exact I. }
      right.
      replace (cnt isIn (upd t (mkHp g HIdle) l)) with (cnt isIn l - 1) by lia.
      replace (cnt isFin (upd t (mkHp g HIdle) l)) with (cnt isFin l) by lia.
      split; [assumption|]. split; [lia|]. split; [assumption|].
      pose proof (cnt_nonneg isIn (upd t (mkHp g HIdle) l)).
      split; intros Hx; [lia|]. apply Hf2 in Hx. lia.
  - (* HFinisher *)
    subst hd. unfold set_h, Inv. cbn [gen gsc gnt gfin helpers].
    match goal with |- InvP _ _ _ _ (firstn t l ++ ?h :: skipn (S t) l) =>
      change (firstn t l ++ h :: skipn (S t) l) with (upd t h l);
      specialize (HuI h l eq_refl); specialize (HuF h l eq_refl)
    end.
    rewrite Enth in HuI, HuF; cbn [isIn isFin hp Z.b2z] in HuI, HuF.
    pose proof (cnt_nonneg isFin (upd t (mkHp (S g) HIdle) l)) as HnF2.
    destruct Hst as [(H0 & _ & _ & _ & HcF)|(Hlt & Hr & Hf1 & Hf2)]; [lia|].
    assert (HF1 : cnt isFin l = 1 /\ Z.b2z fin = 0) by (destruct fin; cbn [Z.b2z] in *; lia).
    destruct HF1 as [HF1 Hfin0].
    assert (Hsc : sc = rsg g + 1) by (apply Hf2; lia).
    assert (HI0 : cnt isIn l = 0) by lia.
    split; [lia|]. split.
    { apply hinv_mono; [|lia|lia].
      apply Forall_upd; [assumption|]. exact I. }
    left. pose proof (next_sc_nonneg g Hg).
    repeat split; try assumption; try reflexivity; lia.
Qed.

Lemma gact_inv c a : Inv c -> Inv (gact help_transfer_break c a).
Proof. destruct a; [apply env_inv|apply helper_inv]. Qed.

Lemma grun_inv sched : forall c, Inv c -> Inv (grun help_transfer_break c sched).
Proof.
  unfold grun. induction sched as [|a sched IH]; intros c Hc; [exact Hc|].
  cbn [fold_left]. apply IH, gact_inv, Hc.
Qed.

(* ---------- the theorems ---------- *)

Theorem no_stale_helper_inside : forall k sched,
  stale_inside (grun help_transfer_break (ginit k) sched) = false.
Proof.
  intros k sched. pose proof (grun_inv sched _ (inv_init k)) as (_ & Hall & _).
  unfold stale_inside. apply stale_false. exact Hall.
Qed.

Theorem never_stuck : forall k sched,
  stuck (grun help_transfer_break (ginit k) sched) = false.
Proof.
  intros k sched. pose proof (grun_inv sched _ (inv_init k)) as (Hg & _ & Hst).
  set (c := grun help_transfer_break (ginit k) sched) in *.
  unfold stuck. destruct (_ && _) eqn:E; [|reflexivity]. exfalso.
  apply andb_prop in E as [E E4]. apply andb_prop in E as [E E3]. apply andb_prop in E as [E1 E2].
  apply Z.eqb_eq in E1. apply negb_true_iff in E2. apply none_active_no_fin in E4.
  pose proof (rsg_range _ Hg). pose proof max_resizers_ge2.
  destruct Hst as [(Hsc0 & _)|(_ & _ & _ & Hf2)]; [lia|].
  apply Hf2 in E1. rewrite E4, E2 in E1. discriminate.
Qed.

(* ---------- finding F6: the same model with the join test as it was before the fix ---------- *)

Definition F6_w : list action :=
  [AEnv EStartCas; AEnv EStartNT; AEnv EStartTI; AHelper 0; AEnv ELeave; AEnv EPublish;
   AEnv EStartCas; AEnv EStartNT; AEnv EStartTI; AHelper 0; AHelper 0].
Definition F6_w2 : list action := F6_w ++ [AEnv ELeave; AHelper 0].

Theorem F6_stale_helper_before_fix : exists sched,
  stale_inside (grun help_transfer_break_before_fix (ginit 1) sched) = true.
Proof. exists F6_w. vm_compute. reflexivity. Qed.

Theorem F6_stuck_before_fix : exists sched,
  stuck (grun help_transfer_break_before_fix (ginit 1) sched) = true.
Proof. exists F6_w2. vm_compute. reflexivity. Qed.

(* the fixed test refuses on the very same schedules *)
Example F6_schedules_after_fix :
  stale_inside (grun help_transfer_break (ginit 1) F6_w) = false /\
  stuck (grun help_transfer_break (ginit 1) F6_w2) = false.
Proof. split; vm_compute; reflexivity. Qed.

(* ---------- non-vacuity ---------- *)

(* a helper holding the current table does get inside *)
Example current_helper_gets_inside :
  let c := grun help_transfer_break (ginit 1)
             [AEnv EStartCas; AEnv EStartNT; AEnv EStartTI; AHelper 0; AHelper 0; AHelper 0] in
  map hp (helpers c) = [HInside] /\ map held (helpers c) = [gen c] /\ gsc c = rsg (gen c) + 3.
Proof. vm_compute. repeat split; reflexivity. Qed.

(* two generations complete, the second one finished by a helper that joined it *)
Definition two_generations : list action :=
  [AEnv EStartCas; AEnv EStartNT; AEnv EStartTI; AEnv ELeave; AEnv EPublish;
   AEnv EStartCas; AEnv EStartNT; AEnv EStartTI; AHelper 0; AHelper 0; AHelper 0; AHelper 0;
   AEnv ELeave; AHelper 0; AHelper 0].
Example two_generations_complete :
  let c := grun help_transfer_break (ginit 1) two_generations in
  gen c = 2%nat /\ (0 <=? gsc c) = true /\ gnt c = false /\ map held (helpers c) = [2%nat].
Proof. vm_compute. repeat split; reflexivity. Qed.

Print Assumptions no_stale_helper_inside.
Print Assumptions never_stuck.
Print Assumptions F6_stale_helper_before_fix.
Print Assumptions F6_stuck_before_fix.
